#!/bin/sh
# The repository's own test suite with the verif guard OFF (no -tags verif).
export GOFLAGS=-mod=mod GOPROXY=off GOSUMDB=off GOTOOLCHAIN=local
rc=0
for m in $(cat /w/out/gomods.txt 2>/dev/null || (cd /repo && ls -d */ | sed 's#/##' | while read d; do [ -f /repo/$d/go.mod ] && echo ./$d; done)); do
  (cd /repo/$m && go test -mod=mod -vet=off -count=1 -timeout 25m ./...) || rc=1
done
exit $rc
