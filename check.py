#!/usr/bin/env python3
"""check.py <ID> [--tier quick|thorough] [--replay path]

One process per property.  Builds the Go harness from /repo's current working tree (tag verif),
runs the property's units (props/<ID>.py), prints VIOLATION / KNOWN-FINDING lines, writes
evidence/<ID>.json.  Exit 0 = held on everything explored, 1 = violation, 2 = inconclusive
(model/harness/tool problem - never an alarm).
"""
import argparse
import importlib
import json
import os
import subprocess
import sys
import time
import traceback

ROOT = os.path.dirname(os.path.abspath(__file__))
sys.path.insert(0, ROOT)
from lib import units  # noqa: E402


def main():
    ap = argparse.ArgumentParser()
    ap.add_argument("id")
    ap.add_argument("--tier", default=os.environ.get("VERIF_TIER", "quick"))
    ap.add_argument("--replay", default=None)
    ap.add_argument("--only", default=None, help="run only units whose name contains this")
    ap.add_argument("--no-build", action="store_true")
    a = ap.parse_args()
    if a.tier not in ("quick", "thorough"):
        a.tier = "quick"
    seed = int(os.environ.get("VERIF_SEED", "1") or 1)
    t0 = time.time()
    ctx = units.Ctx(ROOT, a.id, a.tier, seed, clean=not a.replay)
    ctx.partial = bool(a.only)
    try:
        if not a.no_build:
            units.build_harness(ctx)
        mod = importlib.import_module("props." + a.id)
        if a.replay:
            rc = units.replay(ctx, mod, a.replay)
            sys.exit(rc)
        for u in mod.units(ctx):
            if a.only and a.only not in u.name:
                continue
            t1 = time.time()
            try:
                u.run(ctx)
            except units.Inconclusive as e:
                ctx.inconclusive.append("%s: %s" % (u.name, e))
            print("unit %-28s %6.1fs  %s" % (u.name, time.time() - t1, u.summary()), flush=True)
    except units.Inconclusive as e:
        ctx.inconclusive.append(str(e))
    except Exception:
        traceback.print_exc()
        ctx.inconclusive.append("harness exception")
    rc = units.finish(ctx, time.time() - t0)
    sys.exit(rc)


if __name__ == "__main__":
    main()
