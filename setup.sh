#!/bin/sh
# Run once after a fresh restore, offline: verify the tools and pre-build the harness binaries
# (every check rebuilds its own binary from /repo's current working tree anyway).
cd "$(dirname "$0")"
export GOFLAGS=-mod=mod GOPROXY=off GOSUMDB=off GOTOOLCHAIN=local
command -v java >/dev/null || { echo "java missing"; exit 1; }
command -v go >/dev/null || { echo "go missing"; exit 1; }
command -v python3 >/dev/null || { echo "python3 missing"; exit 1; }
test -f /opt/veriftools/tla/tla2tools.jar || { echo "tla2tools.jar missing"; exit 1; }
cat /repo/*/go.sum | sort -u > harness/go.sum
mkdir -p harness/bin out evidence
fail=0
for n in 01 02 03 04 05 06 07 08 09 10 11 12 13 14 15 16 17 18 19 20; do
  (cd harness && go build -tags verif -o bin/h-C$n ./cmd/c$n) || fail=1
done
# extension specs beyond the listed properties (optional)
for x in x1 x2; do
  [ -d harness/cmd/$x ] && (cd harness && go build -tags verif -o bin/h-$(echo $x | tr a-z A-Z) ./cmd/$x 2>/dev/null) || true
done
[ $fail = 0 ] && echo setup ok
exit $fail
