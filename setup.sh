#!/bin/sh
# Run once after a fresh restore, offline: verify the tools and pre-build the harness.
set -e
cd "$(dirname "$0")"
export GOFLAGS=-mod=mod GOPROXY=off GOSUMDB=off GOTOOLCHAIN=local
command -v java >/dev/null
command -v go >/dev/null
test -f /opt/veriftools/tla/tla2tools.jar
cat /repo/*/go.sum | sort -u > harness/go.sum
mkdir -p harness/bin out evidence
(cd harness && for d in cmd/*/; do go build -tags verif -o bin/h-$(basename $d | tr a-z A-Z) ./$d; done)
echo setup ok
