"""C08 - BatchedWriter never loses or half-writes an enqueued object."""
from lib.units import McUnit, TraceUnit


def units(ctx):
    return [
        # all interleavings of the implementation-level model (2 producers x 2 objects, queue 1, batch 2)
        McUnit("batchwriter", "BatchedWriterImpl", "quick", name="BatchedWriterImpl", thorough_cfgkind="", timeout=1800),
        # negative controls: models of the two defects the code had, and of two seeded mutations, must be refuted
        McUnit("batchwriter", "BatchedWriterImpl", "wg_in_goroutine", name="ctl-wg-in-goroutine", expect="StopWaits"),
        McUnit("batchwriter", "BatchedWriterImpl", "unguarded_enqueue", name="ctl-unguarded-enqueue", expect="NoStuck"),
        McUnit("batchwriter", "BatchedWriterImpl", "loop_running_only", name="ctl-loop-running-only", expect="StopWaits"),
        McUnit("batchwriter", "BatchedWriterImpl", "done_before_commit", name="ctl-done-before-commit", expect="DoneAfterCommit"),
        # sanity of the API-level trace spec itself
        McUnit("batchwriter", "BatchedWriter", "", name="BatchedWriter:spec", thorough_only=True),
        # forced schedules (TLC's counterexamples replayed through the verif yield points) + free-running producers;
        # every recorded execution of the real writer is validated by TLC against the API-level spec
        TraceUnit("batchwriter", "BatchedWriter", "bwdrive", args=["-traces", 60, "-controlled", 40], thorough_args=["-traces", 600, "-controlled", 600], sut="BatchedWriter"),
    ]
