"""C07 - Sequence numbers are never reused across crashes and restarts.

Units
  Sequence        API-level module under the sequential convention (spec/sequence/Sequence.tla):
                  exhaustive TLC, LTS tour on the real kvstore.Sequence over a crash-planning store
                  wrapper (model -> code), recorded random histories validated by TLC (code -> model).
  SequenceImpl*   implementation-level module (spec/sequence/SequenceImpl.tla): update() in single
                  steps, the object mutex, 2 concurrent callers, a crash between any two steps.  TLC only.
                  The variants are negative controls: TLC must find the reuse in each broken design.
  SequenceConc    2..4 goroutines on one real Sequence (no crash): every goroutine's numbers validated
                  as one sequential history by TLC (numbers are a gap-free 0..n-1 in lock order).

cfg files of Sequence: .cfg = exhaustive quick (VIEW FullView: all history variables), .lts.cfg = exported
transition system quick, .thorough.cfg = exported transition system thorough, .thorough-mc.cfg = exhaustive
thorough, .trace.cfg = trace validation.
"""
import json
import os

from lib import flows
from lib.units import Inconclusive, McUnit, SeqUnit, Unit, run_h, validate_file


def _num(opt):
    return opt[0] if isinstance(opt, list) and opt and isinstance(opt[0], int) else None


def classify(observed, expected, earlier):
    """Which clause of the property a deviation of the real code touches.  observed/expected: dicts with
    res/st (expected may be missing); earlier: events of the history before the deviating call."""
    issued = set()
    for e in earlier:
        n = _num(((e.get("res") or {}).get("val")) if isinstance(e.get("res"), dict) else None)
        if n is not None:
            issued.add(n)
    on = _num((observed.get("res") or {}).get("val"))
    if on is not None and on in issued:
        return "REUSE: number %d had already been returned earlier in this history" % on
    if on is not None and issued and on < max(issued):
        return "ORDER: number %d is below the earlier returned %d" % (on, max(issued))
    if not expected:
        return "deviation from the reference behaviour"
    om, em = (observed.get("st") or {}).get("mark"), (expected.get("st") or {}).get("mark")
    if isinstance(om, list) and isinstance(em, list) and om != em:
        o, e = (_num(om) if om else 0), (_num(em) if em else 0)
        if o is not None and e is not None and o >= 0:
            if o < e:
                return ("MARK-BEHIND: the stored mark %s is below what has been leased/handed out (%s): a later "
                        "incarnation hands those numbers out again (no-reuse clause)" % (om, em))
            return ("WASTE: the stored mark %s is ahead of %s: %d number(s) are skipped, nothing is reused "
                    "(clause 'a crash wastes at most one interval, a clean Release none')" % (om, em, o - e))
        return "MARK-CORRUPT: stored mark unreadable or absurd (%s, expected %s)" % (om, em)
    en = _num((expected.get("res") or {}).get("val"))
    if on is not None and en is not None and on > en:
        return "WASTE: returned %d where %d was due: numbers skipped, nothing reused" % (on, en)
    return "deviation from the reference behaviour (result/crash outcome)"


def annotate(ctx, unit_name):
    """append the classification to this unit's violations (in memory and in the replay files)"""
    for v in ctx.violations:
        if v["unit"] != unit_name or "[class:" in v["what"]:
            continue
        try:
            with open(v["replay"]) as fh:
                data = json.load(fh)
            if data.get("kind") == "path":
                m = data["mismatch"]
                cls = classify(m["observed"], (m.get("expected") or [None])[0], m["path"][1:-1])
            else:
                tr = data["trace"]
                cls = classify(tr[-1], (data.get("expected") or [None])[0], tr[:-1])
            v["what"] += " [class: %s]" % cls
            data["what"], data["class"] = v["what"], cls
            with open(v["replay"], "w") as fh:
                json.dump(data, fh, indent=1)
        except Exception as e:  # classification is a convenience, never a verdict
            v["what"] += " [class: unavailable (%s)]" % e


class SequenceUnit(SeqUnit):
    """SeqUnit whose thorough tier uses separate cfgs for the exhaustive run (bigger bounds, full view) and
    for the exported transition system (reduced view)."""

    def run(self, ctx):
        sd = ctx.spec(self.sub)
        kind = "thorough-mc" if ctx.thorough else ""
        r = flows.mc(sd, self.module, kind, timeout=self.mc_timeout, coverage=ctx.thorough)
        ctx.add_tlc(r)
        self.info["mc"] = [r.status, r.distinct, r.generated, round(r.wall, 1)]
        if not r.ok():
            save = os.path.join(ctx.out, self.module + ".mc.out")
            with open(save, "w") as fh:
                fh.write(r.out)
            raise Inconclusive("TLC on %s: %s %s (model problem, output in %s)" % (self.module, r.status, r.violated or "", save))
        if ctx.thorough and r.coverage:
            dead = [k for k, (d, t) in r.coverage.items() if t == 0 and not k.endswith(".Init")]
            if dead:
                raise Inconclusive("vacuity: actions never taken in %s: %s" % (self.module, dead))
        try:
            self.run_lts(ctx, sd)
            self.run_trace(ctx, sd)
        finally:
            annotate(ctx, self.name)


class ConcUnit(Unit):
    """Concurrent Next callers on one real Sequence; each run is written as the equivalent sequential
    history (order of the returned numbers = lock order) and validated by TLC against module Sequence."""
    name = "SequenceConc"
    sut = "SequenceConc"

    def __init__(self, runs=60, thorough_runs=600):
        self.runs, self.thorough_runs = runs, thorough_runs
        self.info = {}

    def summary(self):
        return json.dumps(self.info)

    def run(self, ctx):
        tr = os.path.join(ctx.out, "SequenceConc.ndjson")
        runs = self.thorough_runs if ctx.thorough else self.runs
        p = run_h(ctx, ["c07conc", "-seed", str(ctx.seed), "-runs", str(runs), "-out", tr])
        if p.returncode != 0:
            raise Inconclusive("concurrent driver died: %s" % (p.stderr or p.stdout)[-2000:])
        try:
            validate_file(ctx, self, ctx.spec("sequence"), "Sequence", tr)
        finally:
            annotate(ctx, self.name)
        ctx.bump("concurrent_runs_on_real_code", runs)

    def replay(self, ctx, data):
        tr = os.path.join(ctx.out, "replay.ndjson")
        with open(tr, "w") as fh:
            for l in data["trace"]:
                fh.write(json.dumps(l) + "\n")
        v = flows.validate(ctx.spec("sequence"), "Sequence", tr)
        if v["accepted"]:
            print("trace accepted by Sequence")
            return 0
        print("trace rejected at line %s: recorded %s, model %s" % (v["offending_index"], json.dumps(v["offending"]), json.dumps(v["expected"])))
        return 1


def units(ctx):
    us = [
        SequenceUnit("sequence", "Sequence"),
        # implementation level, 2 concurrent callers, crash between any two steps: TLC only
        McUnit("sequence", "SequenceImpl", name="SequenceImpl", thorough_cfgkind="thorough"),
    ]
    # negative controls: TLC must find the reuse in each broken design
    for v in ("nomutex", "reservedFirst", "handFirst", "releaseUnguarded"):
        us.append(McUnit("sequence", "SequenceImpl", cfgkind=v, name="SequenceImpl:" + v, expect="NoReuse"))
    us.append(ConcUnit())
    return us
