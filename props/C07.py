"""C07 - Sequence numbers are never reused across crashes and restarts.

Units
  Sequence        API-level module under the sequential convention (spec/sequence/Sequence.tla):
                  exhaustive TLC, LTS tour on the real kvstore.Sequence over a crash-planning store
                  wrapper (model -> code), recorded random histories validated by TLC (code -> model).
  SequenceImpl*   implementation-level module (spec/sequence/SequenceImpl.tla): update() in single
                  steps, the object mutex, 2 concurrent callers, a crash between any two steps.  TLC only.
                  The variants are negative controls: TLC must find the reuse in each broken design.
  SequenceConc    2..4 goroutines on one real Sequence (no crash): every goroutine's numbers validated
                  as one sequential history by TLC (numbers are a gap-free 0..n-1 in lock order).

cfg files of Sequence: .cfg = exhaustive quick (VIEW FullView: all history variables), .lts.cfg = exported
transition system quick, .thorough.cfg = exported transition system thorough, .thorough-mc.cfg = exhaustive
thorough, .trace.cfg = trace validation.
"""
import json
import os

from lib import flows
from lib.units import Inconclusive, McUnit, SeqUnit, Unit, run_h, validate_file


class SequenceUnit(SeqUnit):
    """SeqUnit whose thorough tier uses separate cfgs for the exhaustive run (bigger bounds, full view) and
    for the exported transition system (reduced view)."""

    def run(self, ctx):
        sd = ctx.spec(self.sub)
        kind = "thorough-mc" if ctx.thorough else ""
        r = flows.mc(sd, self.module, kind, timeout=self.mc_timeout, coverage=ctx.thorough)
        ctx.add_tlc(r)
        self.info["mc"] = [r.status, r.distinct, r.generated, round(r.wall, 1)]
        if not r.ok():
            save = os.path.join(ctx.out, self.module + ".mc.out")
            with open(save, "w") as fh:
                fh.write(r.out)
            raise Inconclusive("TLC on %s: %s %s (model problem, output in %s)" % (self.module, r.status, r.violated or "", save))
        if ctx.thorough and r.coverage:
            dead = [k for k, (d, t) in r.coverage.items() if t == 0 and not k.endswith(".Init")]
            if dead:
                raise Inconclusive("vacuity: actions never taken in %s: %s" % (self.module, dead))
        self.run_lts(ctx, sd)
        self.run_trace(ctx, sd)


class ConcUnit(Unit):
    """Concurrent Next callers on one real Sequence; each run is written as the equivalent sequential
    history (order of the returned numbers = lock order) and validated by TLC against module Sequence."""
    name = "SequenceConc"
    sut = "SequenceConc"

    def __init__(self, runs=60, thorough_runs=600):
        self.runs, self.thorough_runs = runs, thorough_runs
        self.info = {}

    def summary(self):
        return json.dumps(self.info)

    def run(self, ctx):
        tr = os.path.join(ctx.out, "SequenceConc.ndjson")
        runs = self.thorough_runs if ctx.thorough else self.runs
        p = run_h(ctx, ["c07conc", "-seed", str(ctx.seed), "-runs", str(runs), "-out", tr])
        if p.returncode != 0:
            raise Inconclusive("concurrent driver died: %s" % (p.stderr or p.stdout)[-2000:])
        validate_file(ctx, self, ctx.spec("sequence"), "Sequence", tr)
        ctx.bump("concurrent_runs_on_real_code", runs)

    def replay(self, ctx, data):
        tr = os.path.join(ctx.out, "replay.ndjson")
        with open(tr, "w") as fh:
            for l in data["trace"]:
                fh.write(json.dumps(l) + "\n")
        v = flows.validate(ctx.spec("sequence"), "Sequence", tr)
        if v["accepted"]:
            print("trace accepted by Sequence")
            return 0
        print("trace rejected at line %s: recorded %s, model %s" % (v["offending_index"], json.dumps(v["offending"]), json.dumps(v["expected"])))
        return 1


def units(ctx):
    us = [
        SequenceUnit("sequence", "Sequence"),
        # implementation level, 2 concurrent callers, crash between any two steps: TLC only
        McUnit("sequence", "SequenceImpl", name="SequenceImpl", thorough_cfgkind="thorough"),
    ]
    # negative controls: TLC must find the reuse in each broken design
    for v in ("nomutex", "reservedFirst", "handFirst", "releaseUnguarded"):
        us.append(McUnit("sequence", "SequenceImpl", cfgkind=v, name="SequenceImpl:" + v, expect="NoReuse"))
    us.append(ConcUnit())
    return us
