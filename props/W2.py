"""W2 - the low-level half of C01 (round trip) and C02 (decoders total and resource-bounded):
serializer/stream helpers, serializer.Serializer/Deserializer primitives, serix JSON/map form.

The codecs are pure functions, so (like C19) the units are built around three uses of TLC per module:

  <M>:mc       TLC checks the model itself exhaustively (round trip for ALL read splittings, decoder
               state machine invariants offset <= |src| / buffered <= supplied for ALL byte strings of the
               bound, JSON round trip of the catalogue) + negative controls (models of the defects)
  <M>:table    model -> code: TLC exports the expectation table of the bound (every helper x value x
               chunking; every helper/program x every byte string of length <= 6 over {0,1,2,255}; every
               catalogue type x field x JSON document) and the harness replays it on the real code
  <M>:records  code -> model: the harness performs seeded random and mutated calls of the real code and
               TLC judges every record with the module's Good operator

units_for(ctx, "C01") / units_for(ctx, "C02") return the units that decide the respective property.
"""
import json
import os
import threading
import time
from concurrent.futures import ThreadPoolExecutor

from lib import tlc
from lib.units import Inconclusive, McUnit, SeqUnit, Unit, run_h

SUB = "wire"
PAR = 6          # TLC processes at a time per unit (the units of a wave run concurrently)
ALPHABET = "{0, 1, 2, 255}"


def _save(ctx, name, text):
    p = os.path.join(ctx.out, name)
    with open(p, "w") as fh:
        fh.write(text)
    return p


def tlc_rows(ctx, jobs, tags, timeout=900, heap="2g"):
    """jobs: [(label, module, cfg_text)] run in parallel; returns {tag: [payload,...]} (order of jobs kept)"""
    sd = ctx.spec(SUB)

    def one(job):
        label, module, cfg = job
        return job, tlc.run(sd, module, cfg, timeout=timeout, workers=1, heap=heap)

    with ThreadPoolExecutor(max_workers=PAR) as ex:
        results = list(ex.map(one, jobs))
    rows = {t: [] for t in tags}
    for (label, module, cfg), r in results:
        if not r.ok():
            raise Inconclusive("table generation %s failed: %s (%s)" % (label, r.status, _save(ctx, "gen.%s.out" % label, r.out)))
        for tag, pl in r.prints:
            if tag in rows:
                rows[tag].append(pl)
    return rows


def judge_records(ctx, module, path, consts="", parts=3, timeout=900):
    """TLC (module <module>, INIT TInit / NEXT TNext / POSTCONDITION Accepted) judges every line of the NDJSON
    file; returns (n_records, [(record, want)], states)"""
    sd = ctx.spec(SUB)
    with open(path) as fh:
        lines = [x for x in fh.read().splitlines() if x.strip()]
    if not lines:
        raise Inconclusive("no records in %s" % path)
    parts = max(1, min(parts, len(lines) // 50 or 1))
    files = []
    for i in range(parts):
        chunk = lines[i::parts]
        p = "%s.part%02d" % (path, i)
        with open(p, "w") as fh:
            fh.write("\n".join(chunk) + "\n")
        files.append((p, chunk))

    def one(item):
        p, chunk = item
        return item, tlc.run(sd, module, "INIT TInit\nNEXT TNext\nPOSTCONDITION Accepted\n" + consts, timeout=timeout, workers=1,
                             heap="2g", extra_files={"records.ndjson": p})

    with ThreadPoolExecutor(max_workers=PAR) as ex:
        results = list(ex.map(one, files))
    bad, states = [], 0
    for (p, chunk), r in results:
        depth = [pl for t, pl in r.prints if t == "DEPTH"]
        if not r.ok() or not depth or int(depth[0]) != len(chunk) + 1:
            raise Inconclusive("record validation of %s did not complete: %s (%s)" % (
                os.path.basename(p), r.status, _save(ctx, os.path.basename(p) + ".tlc.out", r.out)))
        states += r.distinct
        ctx.add_tlc(r)
        for t, pl in r.prints:
            if t == "BAD":
                b = json.loads(pl)
                bad.append((json.loads(chunk[b["l"] - 1]), b["want"]))
        os.remove(p)
    return len(lines), bad, states



class Group(Unit):
    """Runs its member units concurrently (they mostly wait for TLC / harness sub-processes).  The shared
    bookkeeping of ctx is serialised with a lock; each member's Inconclusive is reported with its name."""

    def __init__(self, name, members):
        self.name, self.members = name, members
        self.times = {}

    def summary(self):
        return " | ".join("%s %.1fs %s" % (u.name, self.times.get(u.name, 0), u.summary()) for u in self.members)

    def run(self, ctx):
        lock = threading.RLock()

        def locked(f):
            def g(*a, **k):
                with lock:
                    return f(*a, **k)
            return g
        for attr in ("bump", "add_tlc", "sample"):
            if not getattr(getattr(ctx, attr), "_w2_locked", False):
                w = locked(getattr(ctx, attr))
                w._w2_locked = True
                setattr(ctx, attr, w)
        # violations are filed under the group's name (check.py --replay looks the unit up by name);
        # the member that found it is kept for the replay dispatch
        plain = getattr(ctx.violation, "_w2_plain", ctx.violation)

        def violation(unit, sig, what, replay_obj):
            with lock:
                plain(self.name, sig, what, dict(replay_obj, member=unit))
        violation._w2_plain = plain
        ctx.violation = violation
        only = os.environ.get("W2_ONLY")
        failures = []

        def one(u):
            if only and only not in u.name:
                return
            t0 = time.time()
            try:
                u.run(ctx)
            except Inconclusive as e:
                failures.append("%s: %s" % (u.name, e))
            finally:
                self.times[u.name] = time.time() - t0

        with ThreadPoolExecutor(max_workers=len(self.members)) as ex:
            list(ex.map(one, self.members))
        if failures:
            raise Inconclusive("; ".join(failures))

    def replay(self, ctx, data):
        for u in self.members:
            if u.name == data.get("member"):
                return u.replay(ctx, data)
        return replay_case(ctx, data)


class TableUnit(Unit):
    """model -> code.  gen(ctx) -> {name: [rows]} written to out/<name>.ndjson; the harness command gets
    `-<name> path` for each and `-out report`; every mismatch signature of the report is one violation."""

    def __init__(self, name, command, gen, expect_rows=None, timeout=1200):
        self.name, self.command, self.gen, self.expect_rows, self.timeout = name, command, gen, expect_rows, timeout
        self.info = {}

    def summary(self):
        return json.dumps(self.info)

    def run(self, ctx):
        files = self.gen(ctx)
        args, nrows = [self.command], 0
        for name, rows in files.items():
            p = os.path.join(ctx.out, "%s.%s.ndjson" % (self.command, name))
            with open(p, "w") as fh:
                for pl in rows:
                    fh.write(pl + "\n")
            nrows += len(rows)
            args += ["-" + name, p]
        rep_path = os.path.join(ctx.out, self.command + ".report.json")
        p = run_h(ctx, args + ["-out", rep_path, "-seed", str(ctx.seed)], timeout=self.timeout)
        if p.returncode != 0:
            raise Inconclusive("harness %s died: %s" % (self.command, (p.stderr or p.stdout)[-1500:]))
        rep = json.load(open(rep_path))
        self.info = {"rows": rep["rows"], "calls": rep["calls"], "skipped": rep["skipped"], "max_alloc": rep.get("max_alloc", 0),
                     "mismatches": rep["mismatch_counts"], "notes": rep.get("notes") or {}}
        if self.expect_rows is not None:
            want = self.expect_rows(ctx)
            if rep["rows"] < want:
                raise Inconclusive("%s: expectation table incomplete: %d rows replayed, %d expected" % (self.name, rep["rows"], want))
        ctx.replayed += rep["rows"]
        ctx.bump("table_rows_generated_by_tlc_and_replayed", rep["rows"])
        ctx.bump("real_calls_in_table_replay", rep["calls"])
        first = {}
        for m in rep.get("mismatches") or []:
            first.setdefault(m["sig"], m)
        for sig in sorted(first):
            if any(v["sig"] == sig for v in ctx.violations):
                continue
            m = first[sig]
            ctx.violation(self.name, sig, "%s  [%d cases in this class, flow %s]" % (m["what"], rep["mismatch_counts"][sig], self.name),
                          {"kind": "case", "command": self.command, "case": m["case"]})
        for name, rows in files.items():
            if rows:
                ctx.sample({"unit": self.name, "flow": "model->code (row generated by TLC from the spec)", "row": json.loads(rows[len(rows) // 2])})
                break

    def replay(self, ctx, data):
        return replay_case(ctx, data)


def replay_case(ctx, data):
    one = {"stream-table": "stream-one", "stream-records": "stream-one", "deser-table": "deser-one", "deser-records": "deser-one",
           "json-table": "json-one", "json-records": "json-one"}.get(data.get("command"))
    if not one or "case" not in data:
        print("no replay for this violation")
        return 2
    p = os.path.join(ctx.out, "replay.case.json")
    with open(p, "w") as fh:
        json.dump(data["case"], fh)
    extra = [json_types_file(ctx)] if one == "json-one" else []
    r = run_h(ctx, [one, p] + extra)
    print(r.stdout, r.stderr)
    return r.returncode if r.returncode in (0, 1) else 2


class RecordsUnit(Unit):
    """code -> model.  The harness command writes NDJSON records of real calls; TLC judges each with
    <module>!Good; classify(rec, want) -> (sig, text, case) names the failing class."""

    def __init__(self, name, command, module, classify, n=(1500, 20000), timeout=1200, consts="", pre=None):
        self.name, self.command, self.module, self.classify, self.n, self.timeout = name, command, module, classify, n, timeout
        self.consts, self.pre = consts, pre
        self.info = {}

    def summary(self):
        return json.dumps(self.info)

    def run(self, ctx):
        path = os.path.join(ctx.out, self.command + ".ndjson")
        n = self.n[1] if ctx.thorough else self.n[0]
        extra = self.pre(ctx) if self.pre else []
        p = run_h(ctx, [self.command, "-seed", str(ctx.seed), "-n", str(n), "-out", path] + extra, timeout=self.timeout)
        if p.returncode != 0:
            raise Inconclusive("harness %s died: %s" % (self.command, (p.stderr or p.stdout)[-1500:]))
        total, bad, states = judge_records(ctx, self.module, path, consts=self.consts, timeout=self.timeout)
        groups = {}
        for rec, want in bad:
            sig, text, case = self.classify(rec, want)
            g = groups.setdefault(sig, {"n": 0, "text": text, "case": case, "rec": rec, "want": want})
            g["n"] += 1
        self.info = {"records": total, "rejected": {s: g["n"] for s, g in groups.items()}}
        ctx.validated += total
        ctx.bump("records_validated_by_tlc", total)
        ctx.bump("records_rejected", len(bad))
        for sig in sorted(groups):
            if any(v["sig"] == sig for v in ctx.violations):
                continue
            g = groups[sig]
            ctx.violation(self.name, sig, "%s  [%d records in this class, flow %s]" % (g["text"], g["n"], self.name),
                          {"kind": "case", "command": self.command, "case": g["case"], "rec": g["rec"], "want": g["want"]})
        with open(path) as fh:
            ctx.sample({"unit": self.name, "flow": "code->model (record of a real call judged by %s!Good)" % self.module,
                        "record": json.loads(fh.readline())})

    def replay(self, ctx, data):
        return replay_case(ctx, data)


# ------------------------------------------------------------------------------------------ Stream

STREAM_KINDS = ["Num", "Bool", "Bytes", "BytesSz", "Obj", "ObjSz", "Coll", "Peek"]
STREAM_READER = {"Num": "Read", "Bool": "Read", "Bytes": "ReadBytes", "BytesSz": "ReadBytesWithSize", "Obj": "ReadObject",
                 "ObjSz": "ReadObjectWithSize", "Coll": "ReadCollection", "Peek": "PeekSize"}


STREAM_CONSTS = "CONSTANTS\n Mode = \"total\"\n MaxChunk = 6\n L = %d\n Alphabet = %s\n Discipline = \"full\"\n"


def stream_gen_cfg(L, what, kinds, widths=(0, 1, 2, 3, 4, 5, 8, 32)):
    return ("INIT GInit\nNEXT GNext\n" + STREAM_CONSTS % (L, ALPHABET) +
            " GenMaxLen = 8\n GenWhat = \"%s\"\n GenKinds = {%s}\n GenA = {%s}\n" % (
                what, ", ".join('"%s"' % k for k in kinds), ", ".join(str(w) for w in widths)))


def stream_gen(ctx):
    jobs = [("stream.rt", "StreamGen", stream_gen_cfg(6, "rt", STREAM_KINDS))]
    jobs.append(("stream.tot.fixed", "StreamGen", stream_gen_cfg(6, "tot", ["Num", "Bool", "Bytes", "Obj"])))
    for k in ("BytesSz", "ObjSz", "Coll", "Peek"):
        jobs += [("stream.tot.%s%s" % (k, "".join(map(str, ws))), "StreamGen", stream_gen_cfg(6, "tot", [k], ws)) for ws in ((1, 2), (4, 8))]
    rows = tlc_rows(ctx, jobs, ["RT", "CHUNKS", "TOT"])
    return {"rt": rows["RT"] + rows["CHUNKS"], "tot": rows["TOT"]}


def stream_classify(rec, want):
    h, got, w = rec["h"], rec["got"], want["got"]
    name = "stream." + STREAM_READER[h["h"]]
    chunks = rec.get("chunks") or []
    data = rec.get("s") if rec["k"] == "mut" else (rec.get("w") or []) + (rec.get("tail") or [])
    case = {"h": h, "signed": rec.get("signed", False), "input": data, "reader": "chunks", "chunks": chunks, "want": w}
    call = "%s(%s) on %d bytes %s%s in chunks %s" % (name, ",".join(str(h[k]) for k in ("a", "b")), len(data), data[:24],
                                                     "..." if len(data) > 24 else "", chunks[:12])
    if rec.get("werr"):
        return name + ":write-fails", "the writer refused value %s: %s" % (json.dumps(rec.get("v"))[:80], rec["werr"]), case
    if got.get("panic"):
        return name + ":panic", "%s panicked: %s" % (call, got["panic"]), case
    if rec["k"] == "rt" and rec.get("w") != want["w"]:
        return name + ":bytes-differ-from-model", "the writer produced %s, the model's layout is %s" % (rec.get("w"), want["w"]), case
    if rec["k"] == "mut" and rec.get("alloc", 0) > 65536 + 16 * len(data):
        return name + ":alloc-from-prefix", "%s allocated %d bytes (bound %d)" % (call, rec["alloc"], 65536 + 16 * len(data)), case
    if w["ok"] and not got["ok"]:
        cls = "short-read-fails" if len(chunks) > 1 else "read-fails"
        return name + ":" + cls, "%s failed although the reader held a complete encoding (model: value %s, %d bytes)" % (
            call, json.dumps(w["v"])[:60], w["used"]), case
    if not w["ok"] and got["ok"]:
        return name + ":accepts-short-input", "%s returned %s (consumed %d); the model demands an error: the input cannot hold what its length field says" % (
            call, json.dumps(got["v"])[:60], got["used"]), case
    if got.get("v") != w.get("v"):
        return name + ":wrong-value", "%s returned %s, the model demands %s" % (call, json.dumps(got["v"])[:80], json.dumps(w["v"])[:80]), case
    if got.get("used") != w.get("used"):
        return name + ":wrong-consumed", "%s consumed %d bytes, the model demands %d" % (call, got["used"], w["used"]), case
    return name + ":record-rejected", "%s: record rejected by Stream!Good (chunk schedule / bounds)" % call, case


def stream_units():
    return {
        "mc_rt": McUnit(SUB, "Stream", name="Stream:mc:roundtrip-all-splittings"),
        "mc_tot": McUnit(SUB, "Stream", cfgkind="total", name="Stream:mc:total-all-strings"),
        "mc_neg": McUnit(SUB, "Stream", cfgkind="single", name="Stream:mc:single-read-control", expect="RoundTrip"),
        "table": TableUnit("Stream:table", "stream-table", stream_gen, expect_rows=lambda ctx: 29 * 5461 + 100),
        "records": RecordsUnit("Stream:records", "stream-records", "StreamTrace", stream_classify, n=(1500, 20000),
                               consts=STREAM_CONSTS % (0, "{0}")),
    }


# ------------------------------------------------------------------------------------------ Deser

DESER_CONSTS = "CONSTANTS\n Mode = \"total\"\n L = %d\n Alphabet = %s\n Discipline = \"checked\"\n"
DESER_PARTS = 8
DESER_READER = {"Num": "ReadNum", "Bool": "ReadBool", "Byte": "ReadByte", "Bytes": "ReadBytes", "InPlace": "ReadBytesInPlace",
                "VarBytes": "ReadVariableByteSlice", "String": "ReadString", "U256": "ReadUint256", "Time": "ReadTime",
                "PayLen": "ReadPayloadLength", "Skip": "Skip", "Prefix": "CheckTypePrefix", "Seq": "ReadSequenceOfObjects", "All": "ConsumedAll",
                "Obj": "ReadObject", "Payload": "ReadPayload", "Objs": "ReadSliceOfObjects"}


def deser_gen(ctx):
    def cfg(what, part, parts):
        return "INIT GInit\nNEXT GNext\n" + DESER_CONSTS % (6, ALPHABET) + " GenWhat = \"%s\"\n GenPart = %d\n GenParts = %d\n" % (what, part, parts)
    jobs = [("deser.rt", "DeserGen", cfg("rt", 0, 1))]
    jobs += [("deser.tot.%d" % i, "DeserGen", cfg("tot", i, DESER_PARTS)) for i in range(DESER_PARTS)]
    rows = tlc_rows(ctx, jobs, ["RT", "WR", "TOT"])
    return {"rt": rows["RT"] + rows["WR"], "tot": rows["TOT"]}


def deser_culprit(prog):
    for o in prog:
        if o["op"] in ("VarBytes", "String", "Seq", "Payload", "Objs", "Obj"):
            return DESER_READER[o["op"]]
    return DESER_READER[prog[-1]["op"]]


def deser_classify(rec, want):
    prog, got, w = rec["p"], rec["got"], want["got"]
    name = "Deserializer." + deser_culprit(prog)
    data = rec["s"] if rec["k"] == "mut" else rec["w"] + rec["tail"]
    chain = ".".join("%s(%s)" % (DESER_READER[o["op"]], ",".join(str(o[k]) for k in ("a", "b", "c"))) for o in prog)
    call = "%s over %d bytes %s%s" % (chain, len(data), data[:24], "..." if len(data) > 24 else "")
    case = {"p": prog, "input": data, "variant": rec.get("variant", 0), "want": w}
    if rec["k"] == "wr":
        return name + ":write-fails", "the Serializer chain refused writable values %s: %s" % (json.dumps(rec["v"])[:100], rec.get("werr")), case
    if got.get("panic"):
        return name + ":panic", "%s panicked: %s" % (call, got["panic"]), case
    if rec["k"] == "rt" and not want["writable"]:
        return name + ":writer-accepts-out-of-range-length", "the Serializer chain accepted values %s that violate min/max/prefix range" % json.dumps(rec["v"])[:100], case
    if rec["k"] == "rt" and rec["w"] != want["w"]:
        return name + ":bytes-differ-from-model", "the Serializer chain wrote %s, the model's layout is %s" % (rec["w"][:40], want["w"][:40]), case
    bound = 65536 + 16 * len(data) + (256 * len(data) if any(o["op"] in ("Obj", "Payload", "Objs") for o in prog) else 0)
    if rec["k"] == "mut" and rec["alloc"] > bound:
        return name + ":alloc-from-prefix", "%s allocated %d bytes (bound %d)" % (call, rec["alloc"], bound), case
    if rec["iters"] > len(data) + 1:
        return name + ":iterates-beyond-input", "%s ran %d element iterations" % (call, rec["iters"]), case
    if got["off"] > len(data):
        return name + ":over-consumed", "%s: Done() reported %d consumed bytes" % (call, got["off"]), case
    pre = "round-trip:" if rec["k"] == "rt" else ""
    if w["ok"] and not got["ok"]:
        return name + ":" + pre + "rejects-valid-input", "%s failed with %s; the model reads %s" % (call, got["err"], json.dumps(w["vals"])[:80]), case
    if not w["ok"] and got["ok"]:
        return name + ":accepts-invalid-input", "%s returned %s (consumed %d); the model demands an error %s" % (
            call, json.dumps(got["vals"])[:80], got["off"], w["errs"]), case
    if not w["ok"]:
        return name + ":wrong-error-class", "%s failed with %r, the model allows %s" % (call, got["err"], w["errs"]), case
    if rec["k"] == "mut" and got["off"] != w["off"]:
        return name + ":wrong-consumed", "%s: Done() reported %d consumed bytes, the model demands %d" % (call, got["off"], w["off"]), case
    if rec["k"] == "rt" and got["off"] != len(rec["w"]):
        return name + ":round-trip:wrong-consumed", "%s: Done() reported %d consumed bytes, %d were written" % (call, got["off"], len(rec["w"])), case
    return name + ":" + pre + "wrong-value", "%s returned %s, the model demands %s" % (call, json.dumps(got["vals"])[:100], json.dumps(w["vals"])[:100]), case


def deser_units():
    return {
        "mc_rt": McUnit(SUB, "Deser", name="Deser:mc:roundtrip"),
        "mc_tot": McUnit(SUB, "Deser", cfgkind="total", name="Deser:mc:total-all-strings"),
        "mc_neg": McUnit(SUB, "Deser", cfgkind="allocfirst", name="Deser:mc:alloc-first-control", expect="AllocBounded"),
        "table": TableUnit("Deser:table", "deser-table", deser_gen, expect_rows=lambda ctx: 56 * 5461 + 3 * 995 + 3 * 27 + 300),
        "records": RecordsUnit("Deser:records", "deser-records", "DeserTrace", deser_classify, n=(1500, 20000),
                               consts=DESER_CONSTS % (0, "{0}")),
    }


# ------------------------------------------------------------------------------------------ WireJson

JSON_PARTS = 6


def json_gen_cfg(what, part=0, parts=1):
    return "INIT GInit\nNEXT GNext\nCONSTANTS\n GenWhat = \"%s\"\n GenPart = %d\n GenParts = %d\n" % (what, part, parts)


def json_types_file(ctx):
    p = os.path.join(ctx.out, "json.types.ndjson")
    if not os.path.exists(p):
        rows = tlc_rows(ctx, [("json.types", "WireJsonGen", json_gen_cfg("types"))], ["TYPE"])
        with open(p, "w") as fh:
            fh.write("\n".join(rows["TYPE"]) + "\n")
    return p


def json_gen(ctx):
    jobs = [("json.types", "WireJsonGen", json_gen_cfg("types")), ("json.rt", "WireJsonGen", json_gen_cfg("rt"))]
    jobs += [("json.tot.%d" % i, "WireJsonGen", json_gen_cfg("tot", i, JSON_PARTS)) for i in range(JSON_PARTS)]
    rows = tlc_rows(ctx, jobs, ["TYPE", "RT", "TOT"])
    with open(os.path.join(ctx.out, "json.types.ndjson"), "w") as fh:
        fh.write("\n".join(rows["TYPE"]) + "\n")
    if len(rows["TYPE"]) < 11 or len(rows["RT"]) < 150 or len(rows["TOT"]) < 5000:
        raise Inconclusive("JSON expectation table incomplete: %d types, %d RT rows, %d TOT rows" % (len(rows["TYPE"]), len(rows["RT"]), len(rows["TOT"])))
    return {"rt": rows["TYPE"] + rows["RT"], "tot": rows["TYPE"] + rows["TOT"]}


def json_classify(rec, want):
    tid = rec["id"]
    case = {"id": tid, "doc": rec["doc"], "validation": rec.get("validation", False)}
    if rec["k"] == "rt":
        case["v"] = rec["v"]
        case["doc"] = want["doc"]
        val = json.dumps(rec["v"])[:160]
        if rec["enc"] == "panic":
            return "JSONEncode:panics:" + tid, "JSONEncode of %s value %s panicked: %s" % (tid, val, rec.get("text")), case
        if rec["enc"] != "ok":
            return "JSONEncode:refuses-value:" + tid, "JSONEncode of %s value %s failed: %s" % (tid, val, rec.get("text")), case
        if rec["doc"] != want["doc"]:
            return "JSONEncode:document-differs-from-model:" + tid, "JSONEncode of %s value %s produced a document that differs from the model's" % (tid, val), case
        for fn, key in (("MapDecode", "dec"), ("JSONDecode", "jdec")):
            d = rec[key]
            if d.get("panic"):
                return "%s:round-trip-panics:%s" % (fn, tid), "%s of the encoding of %s value %s panicked: %s" % (fn, tid, val, d["panic"]), case
            if not d["ok"]:
                return "%s:round-trip-fails:%s" % (fn, tid), "%s of the encoding of %s value %s failed: %s" % (fn, tid, val, str(d.get("err"))[:200]), case
            if d["v"] != rec["v"]:
                return "%s:round-trip-wrong-value:%s" % (fn, tid), "%s of the encoding of %s value %s gave %s" % (fn, tid, val, json.dumps(d["v"])[:160]), case
        return "WireJson:record-rejected:" + tid, "record rejected by WireJsonTrace!Good", case
    w = want["w"]
    cls = "%s<-%s" % tuple(w["at"]) if len(w.get("at") or []) == 2 else "valid-document"
    for fn, key in (("MapDecode", "dec"), ("JSONDecode", "jdec")):
        d = rec[key]
        if d.get("panic"):
            return "%s:wrong-type-panics:%s" % (fn, cls), "%s into %s of the well-formed document %s panicked: %s" % (fn, tid, rec.get("text", "")[:300], d["panic"]), case
    for fn, key in (("MapDecode", "dec"), ("JSONDecode", "jdec")):
        d = rec[key]
        if d["ok"] and w["ok"] and d["v"] != w["v"]:
            return "%s:valid-document-wrong-value:%s" % (fn, tid), "%s into %s of %s gave %s, the model reads %s" % (
                fn, tid, rec.get("text", "")[:200], json.dumps(d["v"])[:160], json.dumps(w["v"])[:160]), case
    return "WireJson:record-rejected:" + tid, "record rejected by WireJsonTrace!Good", case


def json_units():
    return {
        "mc": McUnit(SUB, "WireJsonMC", name="WireJson:mc:roundtrip", thorough_cfgkind="thorough"),
        "table": TableUnit("WireJson:table", "json-table", json_gen),
        "records": RecordsUnit("WireJson:records", "json-records", "WireJsonTrace", json_classify, n=(1200, 20000),
                               pre=lambda ctx: ["-types", json_types_file(ctx)]),
    }


# ------------------------------------------------------------------------------------------ composition

def _all(ctx):
    s, d, j = stream_units(), deser_units(), json_units()
    buf = SeqUnit(SUB, "StreamBuf", traces=(40, 60), walks=(100, 25))
    c01 = [s["mc_rt"], s["mc_neg"], s["table"], s["records"], buf, d["mc_rt"], d["table"], d["records"],
           j["mc"], j["table"], j["records"]]
    c02 = [s["mc_tot"], s["table"], s["records"], d["mc_tot"], d["mc_neg"], d["table"], d["records"], j["table"], j["records"]]
    every = [s["mc_rt"], s["mc_tot"], s["mc_neg"], s["table"], s["records"], buf,
             d["mc_rt"], d["mc_tot"], d["mc_neg"], d["table"], d["records"], j["mc"], j["table"], j["records"]]
    return {"C01": c01, "C02": c02, "all": every}


def _grouped(prop, members):
    """two waves: the model checks and the tables (heavy TLC work), then the record flows"""
    first = [u for u in members if not isinstance(u, RecordsUnit)]
    second = [u for u in members if isinstance(u, RecordsUnit)]
    return [Group("W2:%s:models+tables(%s)" % (prop, ",".join(u.name for u in first)), first),
            Group("W2:%s:records(%s)" % (prop, ",".join(u.name for u in second)), second)]


ASSUMPTIONS = [
    "stream helpers: every helper x every value of the small catalogue x every splitting into read chunks <= 6 (model: all "
    "nondeterministic reads; code: all compositions for encodings <= 8 bytes, sampled chunkings + iotest readers beyond)",
    "decoders: every byte string of length <= 6 over {0,1,2,255} for every helper / primitive program of the catalogue; longer "
    "inputs only as seeded random / mutated records judged by TLC",
    "allocation is measured (runtime.MemStats.TotalAlloc delta per call, bound 64 KiB + 16*len(input)), not proved",
    "numbers are carried as base-256 digit sequences (TLC integers are 32 bit); the harness' conversion is trusted",
]


def units(ctx):
    ctx.assumptions += ASSUMPTIONS
    return _grouped("all", _all(ctx)["all"])


def units_for(ctx, prop, grouped=True):
    """the units that decide property prop ("C01" / "C02"); grouped=False returns them one by one"""
    ctx.assumptions += ASSUMPTIONS
    members = _all(ctx)[prop]
    return _grouped(prop, members) if grouped else members
