"""C11 - OrderedMap and Set: insertion-ordered model, exact diffs, no deadlock.

Sequential half (this file, spec/orderedset/*.tla, harness/sut/orderedset): every public method of
orderedmap.OrderedMap / serializableorderedmap, ds.Set (incl. ReadOnly views, SetMutations) and
ds.SetArithmetic against an insertion-ordered abstract map/set: exhaustive TLC, LTS tour on the real
objects, recorded histories validated by TLC.

The concurrent half (deadlock freedom of all method combinations, atomicity of Apply/Compute/Replace,
linearizability of single-element operations) adds its units in concurrent_units().
"""
import json
import os

from lib import lin
from lib.units import McUnit, SeqUnit, Unit, Inconclusive, run_h


def sequential_units(ctx):
    return [
        SeqUnit("orderedset", "OrderedMap"),
        SeqUnit("orderedset", "OrderedSet"),
        SeqUnit("orderedset", "SetArith"),
        # negative control: the model of Replace as it was before the fix commits must violate `Diffs`
        McUnit("orderedset", "OrderedSet", cfgkind="buggy", name="OrderedSet:replace-before-fix", expect="Diffs"),
    ]


class LinUnit(Unit):
    """code -> model with silent steps: the driver records concurrent histories of the real ds.Set (invoke/return events,
    forced DeleteAll || Apply/Compute/Replace schedules, all-method mixes under a watchdog); TLC searches for a
    linearization of every history against spec/orderedset/SetLin.tla (depth-first)."""
    name = "SetLin:setconc"

    def __init__(self):
        self.info = {}

    def summary(self):
        return json.dumps(self.info)

    def run(self, ctx):
        tr = os.path.join(ctx.out, "setconc.ndjson")
        n = (600, 200) if ctx.thorough else (60, 30)
        p = run_h(ctx, ["setconc", "-seed", str(ctx.seed), "-histories", str(n[0]), "-mixes", str(n[1]), "-out", tr], timeout=900)
        if p.returncode != 0:
            raise Inconclusive("setconc died: %s" % (p.stderr or p.stdout)[-1500:])
        self.info["driver"] = p.stdout.strip()
        with open(tr) as fh:
            lines = [x for x in fh.read().splitlines() if x.strip()]
        hists = split_traces_ev(lines)
        total = len(hists)
        rejected = 0
        for rnd in range(8):
            cur = os.path.join(ctx.out, "setconc.validate.ndjson")
            with open(cur, "w") as fh:
                for h in hists:
                    fh.write("\n".join(h) + "\n")
            v = lin.validate(ctx.spec("orderedset"), "SetLin", cur, timeout=900)
            ctx.bump("trace_validation_states", v["tlc"].distinct)
            if v.get("error"):
                save = os.path.join(ctx.out, "SetLin.out")
                open(save, "w").write(v["tlc"].out)
                raise Inconclusive("linearizability search did not run: %s (%s)" % (v["error"], save))
            if v["accepted"]:
                break
            hw = v["high_water"]          # 1-based index of the furthest line reached = first line that could not be consumed
            pos, bad = 0, None
            for i, h in enumerate(hists):
                if pos < hw <= pos + len(h):
                    bad = i
                    break
                pos += len(h)
            if bad is None:
                raise Inconclusive("cannot locate the rejected history (high water %s)" % hw)
            h = [json.loads(x) for x in hists[bad]]
            off = h[hw - pos - 1]
            if off.get("ev") == "final" and off.get("hung"):
                sig = "Set:deadlock:%s" % off.get("scenario", "history")
                what = "ds.Set: calls never returned (threads %s hung) in schedule %s" % (off["hung"], off.get("scenario", "free-running history"))
            else:
                sig = "Set:lin:%s" % off.get("ev")
                what = "ds.Set: history is not linearizable; no placement of the linearization points explains %s" % json.dumps(off)
            if not any(x["sig"] == sig for x in ctx.violations):
                ctx.violation(self.name, sig, what, {"kind": "history", "history": h})
            rejected += 1
            del hists[bad]
        else:
            ctx.inconclusive.append("SetLin: more than 8 rejected histories, rest not validated")
        ctx.validated += total - rejected
        self.info["histories"] = total
        self.info["rejected"] = rejected
        if hists:
            ctx.sample({"unit": self.name, "flow": "code->model (concurrent history, first events)", "history": [json.loads(x) for x in hists[min(4, len(hists) - 1)][:10]]})

    def replay(self, ctx, data):
        tr = os.path.join(ctx.out, "replay.ndjson")
        with open(tr, "w") as fh:
            for e in data["history"]:
                fh.write(json.dumps(e) + "\n")
        v = lin.validate(ctx.spec("orderedset"), "SetLin", tr)
        print("accepted" if v["accepted"] else "rejected at line %s" % v["high_water"])
        return 0 if v["accepted"] else 1


def split_traces_ev(lines):
    out, cur = [], []
    for l in lines:
        if '"ev":"reset"' in l.replace(" ", "") and cur:
            out.append(cur)
            cur = []
        cur.append(l)
    if cur:
        out.append(cur)
    return out


def concurrent_units(ctx):
    return [
        # lock discipline of ds.Set, all interleavings of one method per thread (3 threads x 7 methods): no deadlock, atomicity
        McUnit("orderedset", "SetLockImpl", "", name="SetLockImpl"),
        # negative controls: DeleteAll re-entering the read lock (as before the fix), Compute under the read lock only
        McUnit("orderedset", "SetLockImpl", "reentrant", name="ctl-deleteall-reentrant", expect="NoDeadlock"),
        McUnit("orderedset", "SetLockImpl", "computer", name="ctl-compute-rlock", expect="AtomicWeak"),
        LinUnit(),
    ]


def units(ctx):
    return sequential_units(ctx) + concurrent_units(ctx)
