"""C11 - OrderedMap and Set: insertion-ordered model, exact diffs, no deadlock.

Sequential half (this file, spec/orderedset/*.tla, harness/sut/orderedset): every public method of
orderedmap.OrderedMap / serializableorderedmap, ds.Set (incl. ReadOnly views, SetMutations) and
ds.SetArithmetic against an insertion-ordered abstract map/set: exhaustive TLC, LTS tour on the real
objects, recorded histories validated by TLC.

The concurrent half (deadlock freedom of all method combinations, atomicity of Apply/Compute/Replace,
linearizability of single-element operations) adds its units in concurrent_units().
"""
from lib.units import McUnit, SeqUnit


def sequential_units(ctx):
    return [
        SeqUnit("orderedset", "OrderedMap"),
        SeqUnit("orderedset", "OrderedSet"),
        SeqUnit("orderedset", "SetArith"),
        # negative control: the model of Replace as it was before the fix commits must violate `Diffs`
        McUnit("orderedset", "OrderedSet", cfgkind="buggy", name="OrderedSet:replace-before-fix", expect="Diffs"),
    ]


def concurrent_units(ctx):
    # SetImpl.tla (applyMutex / map mutex, schedules with park detection) - built separately
    return []


def units(ctx):
    return sequential_units(ctx) + concurrent_units(ctx)
