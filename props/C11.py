"""C11 - OrderedMap and Set: insertion-ordered model, exact diffs, no deadlock.

Sequential half (this file, spec/orderedset/*.tla, harness/sut/orderedset): every public method of
orderedmap.OrderedMap / serializableorderedmap, ds.Set (incl. ReadOnly views, SetMutations) and
ds.SetArithmetic against an insertion-ordered abstract map/set: exhaustive TLC, LTS tour on the real
objects, recorded histories validated by TLC.

The concurrent half (deadlock freedom of all method combinations, atomicity of Apply/Compute/Replace,
linearizability of single-element operations) adds its units in concurrent_units().
"""
import json
import os

from lib import lin
from lib.units import McUnit, SeqUnit, Unit, Inconclusive, run_h


def sequential_units(ctx):
    return [
        SeqUnit("orderedset", "OrderedMap"),
        SeqUnit("orderedset", "OrderedSet"),
        SeqUnit("orderedset", "SetArith"),
        # negative control: the model of Replace as it was before the fix commits must violate `Diffs`
        McUnit("orderedset", "OrderedSet", cfgkind="buggy", name="OrderedSet:replace-before-fix", expect="Diffs"),
    ]


def concurrent_units(ctx):
    return [
        # lock discipline of ds.Set, all interleavings of one method per thread (3 threads x 7 methods): no deadlock, atomicity
        McUnit("orderedset", "SetLockImpl", "", name="SetLockImpl"),
        # negative controls: DeleteAll re-entering the read lock (as before the fix), Compute under the read lock only
        McUnit("orderedset", "SetLockImpl", "reentrant", name="ctl-deleteall-reentrant", expect="NoDeadlock"),
        McUnit("orderedset", "SetLockImpl", "computer", name="ctl-compute-rlock", expect="AtomicWeak"),
        lin.LinUnit("orderedset", "SetLin", "setconc", ["-histories", 60, "-mixes", 30], ["-histories", 600, "-mixes", 200], "Set", name="SetLin:setconc"),
        lin.LinUnit("orderedset", "MapLin", "mapconc", ["-histories", 60], ["-histories", 600], "OrderedMap", name="MapLin:mapconc"),
    ]


def units(ctx):
    return sequential_units(ctx) + concurrent_units(ctx)
