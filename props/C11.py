"""C11 - OrderedMap and Set: insertion-ordered model, exact diffs (sequential half)."""
from lib.units import SeqUnit


def units(ctx):
    return [
        SeqUnit("orderedset", "OrderedMap"),
        SeqUnit("orderedset", "OrderedSet"),
        SeqUnit("orderedset", "SetArith"),
    ]
