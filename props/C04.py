"""C04 - KVStore views and wrappers obey one ordered-map contract.

One module (spec/kvstore/KVStore.tla), several constant sets:
  KVStore.cfg / .thorough.cfg            exhaustive check of the contract model (views, keys, iteration, Close)
  KVStore.batch.cfg / .batchthorough.cfg exhaustive check of the batch part (2 open batches, overlapping views)
  KVStore.lts.cfg                        LTS 1: every wrapper stack x every method, minimal key space
  KVStore.lts2.cfg                       LTS 2: nested realms, 0xff / empty keys, 2 live keys, early stop (bare mapdb)
  KVStore.lts3.cfg / .lts4.cfg           thorough tier: 4 views / batches over the richer key space
  KVStore.trace.cfg                      constants for validating recorded histories (all views, wrappers, batches,
                                         <= 16 distinct keys, depth 200)
The shared SeqUnit exports one LTS per module; KVUnit walks several (work-around inside this file).
"""
import json
import os

from lib import flows
from lib.units import SeqUnit, McUnit, Inconclusive, run_h


class KVUnit(SeqUnit):
    def __init__(self, *a, lts_kinds=("lts", "lts2"), thorough_lts_kinds=("lts", "lts2", "lts3", "lts4"), **kw):
        super().__init__(*a, **kw)
        self.lts_kinds, self.thorough_lts_kinds = lts_kinds, thorough_lts_kinds

    def run_lts(self, ctx, sd):
        self.info["lts"] = {}
        for kind in (self.thorough_lts_kinds if ctx.thorough else self.lts_kinds):
            self.run_one_lts(ctx, sd, kind)

    def run_one_lts(self, ctx, sd, kind):
        edges = os.path.join(ctx.out, "%s.%s.edges" % (self.module, kind))
        r, n = flows.lts(sd, self.module, edges, cfgkind=kind, timeout=self.mc_timeout)
        if not r.ok() or n == 0:
            save = os.path.join(ctx.out, "%s.%s.out" % (self.module, kind))
            with open(save, "w") as fh:
                fh.write(r.out)
            raise Inconclusive("LTS export of %s/%s failed: %s (%s)" % (self.module, kind, r.status, save))
        walks, depth = self.thorough_walks if ctx.thorough else self.walks
        rep_path = os.path.join(ctx.out, "%s.%s.walk.json" % (self.module, kind))
        p = run_h(ctx, ["lts", self.sut, edges, "-seed", str(ctx.seed), "-walks", str(walks), "-depth", str(depth),
                        "-out", rep_path], timeout=1500)
        if p.returncode != 0:
            raise Inconclusive("walker died on %s/%s: %s" % (self.module, kind, (p.stderr or p.stdout)[-2000:]))
        rep = json.load(open(rep_path))
        self.info["lts"][kind] = {"states": rep["states"], "edges": rep["edges"], "covered": rep["edges_covered"],
                                  "groups": rep["stimulus_groups"], "groups_covered": rep["stimulus_groups_covered"],
                                  "steps": rep["steps"]}
        ctx.bump("lts_edges_total", rep["edges"])
        ctx.bump("lts_edges_covered", rep["edges_covered"])
        ctx.bump("lts_stimulus_groups_total", rep["stimulus_groups"])
        ctx.bump("lts_stimulus_groups_covered", rep["stimulus_groups_covered"])
        ctx.bump("replay_steps_on_real_code", rep["steps"])
        ctx.replayed += rep["resets"]
        for s in (rep.get("samples") or [])[:1]:
            ctx.sample({"unit": self.name, "flow": "model->code (LTS tour path, %s)" % kind, "path": s})
        for m in rep.get("mismatches") or []:
            sig = "%s:lts:%s" % (self.sut, m["op"])
            if "|panic:" in (m.get("class") or ""):
                sig = "%s:lts:%s" % (self.sut, m["class"].split("|", 1)[1].rstrip())
            if any(v["sig"] == sig for v in ctx.violations):
                continue
            what = "%s.%s: real code gave %s, model allows %s (cfg %s, after %d steps)" % (
                self.sut, m["op"], json.dumps(m["observed"]), json.dumps(m["expected"]), json.dumps(m["cfg"]),
                len(m["path"]) - 1)
            ctx.violation(self.name, sig, what, {"kind": "path", "sut": self.sut, "mismatch": m})
        if not rep.get("mismatches") and rep["stimulus_groups_covered"] < rep["stimulus_groups"]:
            raise Inconclusive("LTS tour of %s/%s covered %d/%d stimulus groups" % (
                self.module, kind, rep["stimulus_groups_covered"], rep["stimulus_groups"]))


def units(ctx):
    ctx.assumptions.append(
        "C04: the aliasing clause is read as: buffers passed to KVStore.Set and to a batch are scribbled over after "
        "Set / Commit returned (a batch's own Set may keep the caller's slice until Commit)")
    ctx.assumptions.append(
        "C04: calls the statement does not list for the closed store (Close again, batch Set/Delete/Cancel, Realm) "
        "may succeed or fail with ErrStoreClosed; a batch handle is not used again after a successful Commit")
    return [
        KVUnit("kvstore", "KVStore", traces=(100, 200), thorough_traces=(400, 200)),
        McUnit("kvstore", "KVStore", cfgkind="batch", thorough_cfgkind="batchthorough", name="KVStore:batch"),
    ]
