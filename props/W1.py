"""W1 - the binary serix part of C01 (round trip), C02 (total, bounded decoders), C03 (fixed wire format,
canonical decoding).

serix.API.Encode/Decode are pure functions of (registered type, value | bytes, validation on/off), so the
sequential cfg/ev/Do convention does not fit; this file brings its own units around spec/wire/Wire.tla,
a declarative model of the wire format written from the documented layout, and spec/wire/catalogue.json,
the hand-written list of the Go types the harness registers (harness/sut/wire) with their wire schemas:

  Wire:model    TLC visits every (catalogue schema, byte string of length <= 6 over {0,1,2,255}) and a
                small-scope value set per schema; the invariants of WireMC state C01/C02/C03 on the model.
                The same run exports the model's expectation for every state (ROW / VROW lines).
  Wire:table    model -> code: the harness feeds every exported byte string to the real serix Decode
                (validation off and on) and every exported value to the real Encode, and compares: bytes,
                accept/reject, value, consumed count, no panic, allocation bound, re-encode = consumed prefix,
                twice-encode equality under shuffled map insertion order.
  Wire:records  code -> model: a seeded generator builds larger random values of the catalogue types, encodes
                them with the real code, mutates the encodings (bit flips, truncation, maximised length
                fields, garbage tails) and decodes those; every observation is one NDJSON record and TLC
                judges every record with Enc/Dec of Wire.tla (WireTrace).
  Wire:deep-schemas  (thorough tier) TLC -simulate builds random schemas of nesting depth 3 (WireSim) and checks
                the model's properties on them (model only: no Go types exist for these).

units(ctx) = all of it under the work id W1; units_for(ctx, "C01" | "C02" | "C03") = the same units, each reporting
only the classes of disagreement that belong to that property (see DEC_PROPS / ENC_PROPS).
"""
import copy
import json
import os
import re
import time
from concurrent.futures import ThreadPoolExecutor

from lib import tlc
from lib.units import Inconclusive, Unit, run_h

SUB = "wire"
PAR = 8
SCALARS = {
    "bool": {"k": "bool"}, "u256": {"k": "u256"}, "time": {"k": "time"},
    "u8": {"k": "num", "w": 1, "s": False}, "u16": {"k": "num", "w": 2, "s": False},
    "u32": {"k": "num", "w": 4, "s": False}, "u64": {"k": "num", "w": 8, "s": False},
    "i8": {"k": "num", "w": 1, "s": True}, "i16": {"k": "num", "w": 2, "s": True},
    "i32": {"k": "num", "w": 4, "s": True}, "i64": {"k": "num", "w": 8, "s": True},
    "f32": {"k": "num", "w": 4, "s": False, "fl": True}, "f64": {"k": "num", "w": 8, "s": False, "fl": True},
}
RULE_DEFAULTS = {"min": 0, "max": 0, "sort": False, "vlex": False, "nodup": False, "one": 0, "must": [], "mw": 1}


def expand_catalogue(path):
    """catalogue.json (hand-written, with shorthands) -> list of {name, go, s} with every schema field present"""
    with open(path) as fh:
        raw = json.load(fh)["types"]
    byname = {t["name"]: t for t in raw}
    done = {}

    def code(c):
        if isinstance(c, dict):
            return c
        if not c:
            return {"w": 0, "c": 0}
        return {"w": c[0], "c": c[1]}

    def ex(s):
        if isinstance(s, str):
            if s.startswith("@"):
                return copy.deepcopy(entry(s[1:]))
            r = dict(SCALARS[s])
            if r["k"] == "num":
                r.setdefault("fl", False)
            return r
        if "ref" in s:
            r = copy.deepcopy(entry(s["ref"]))
            for k, v in s.items():
                if k == "ref":
                    continue
                r[k] = code(v) if k == "code" else v
            return r
        k = s["k"]
        r = {"k": k}
        if k in ("str", "bytes"):
            r.update({"lp": s["lp"], "min": s.get("min", 0), "max": s.get("max", 0)})
        elif k in ("barr", "custom"):
            r.update({"n": s["n"], "code": code(s.get("code"))})
        elif k in ("slice", "arr"):
            r.update({"e": ex(s["e"]), "lp": s["lp"], "n": s.get("n", 0)})
            for f, d in RULE_DEFAULTS.items():
                r[f] = s.get(f, d)
        elif k == "map":
            r.update({"key": ex(s["key"]), "val": ex(s["val"]), "lp": s["lp"], "min": s.get("min", 0), "max": s.get("max", 0)})
        elif k == "struct":
            r.update({"code": code(s.get("code")), "f": [ex(f) for f in s["f"]]})
        elif k in ("opt", "eptr"):
            r["t"] = ex(s["t"])
        elif k == "iface":
            r.update({"w": s["w"], "alts": [{"c": a["c"], "t": ex(a["t"])} for a in s["alts"]]})
        else:
            raise ValueError("unknown schema kind %r" % k)
        return r

    def entry(name):
        if name not in done:
            done[name] = ex(byname[name]["s"])
        return done[name]

    return [{"name": t["name"], "go": t.get("go", ""), "s": copy.deepcopy(entry(t["name"]))} for t in raw]


# ------------------------------------------------------------------------------------------------ helpers

def mc_cfg(ctx, sids, emit):
    """spec/wire/WireMC(.thorough).cfg with the Sids / Emit constants of this TLC process"""
    name = "WireMC.thorough.cfg" if ctx.thorough else "WireMC.cfg"
    with open(os.path.join(ctx.spec(SUB), name)) as fh:
        cfg = fh.read()
    cfg = cfg.replace("Sids = {}", "Sids = {%s}" % ", ".join(str(i) for i in sids))
    return cfg.replace("Emit = FALSE", "Emit = %s" % ("TRUE" if emit else "FALSE"))


TRACE_CFG = "INIT TInit\nNEXT TNext\nPOSTCONDITION Accepted\n"      # = spec/wire/WireTrace.cfg

# which property a class of disagreement belongs to (valid = the model accepts the input / value)
DEC_PROPS = {
    "panic": lambda valid: {"C02"} | ({"C01"} if valid else set()),
    "hang": lambda valid: {"C02"},
    "over-consumed": lambda valid: {"C02"},
    "alloc": lambda valid: {"C02"},
    "accepts-invalid": lambda valid: {"C03"},
    "noncanonical-accepted": lambda valid: {"C03"},
    "rejects-valid": lambda valid: {"C01"},
    "wrong-length": lambda valid: {"C01", "C03"},
    "wrong-value": lambda valid: {"C01"},
}
ENC_PROPS = {
    "panic": lambda valid: {"C01"},
    "accepts-invalid": lambda valid: {"C01", "C03"},     # bytes for a value the format cannot express: no round trip
    "rejects-valid": lambda valid: {"C01", "C03"},
    "wrong-bytes": lambda valid: {"C03"},
    "order-dependent": lambda valid: {"C01"},
    "pointer-vs-value": lambda valid: {"C01"},
}
# record flow: clause names of WireTrace -> (direction, class)
RT_CLASS = {"roundtrip-panic": ("decode", "panic"), "roundtrip-rejected": ("decode", "rejects-valid"),
            "roundtrip-length": ("decode", "wrong-length"), "roundtrip-value": ("decode", "wrong-value")}


def props_of(sig, valid):
    _, direction, _kind, cls = sig.split(":", 3)
    table = DEC_PROPS if direction == "decode" else ENC_PROPS
    return table.get(cls, lambda v: {"C01", "C02", "C03"})(valid)


def prepare(ctx):
    """expanded catalogue for TLC and the harness; cross-check with the types the harness registers"""
    full = os.path.join(ctx.out, "catalogue.full.json")
    cat = expand_catalogue(os.path.join(ctx.spec(SUB), "catalogue.json"))
    if not os.path.exists(full):
        with open(full, "w") as fh:
            json.dump(cat, fh)
        p = run_h(ctx, ["w1-names"])
        names = p.stdout.split()
        if p.returncode != 0 or sorted(names) != sorted(c["name"] for c in cat):
            raise Inconclusive("catalogue.json and the harness disagree on the type names: %s" % (
                sorted(set(names) ^ set(c["name"] for c in cat)),))
    return full, cat


def groups(n, k):
    """sids 1..n dealt round-robin into k groups"""
    return [[i for i in range(1, n + 1) if i % k == j] for j in range(k)]


def gen_rows(ctx, info=None):
    """run WireMC (exhaustive check of the model + export of its expectations); returns the rows files"""
    marker = os.path.join(ctx.out, "rows.done.json")
    if os.path.exists(marker):
        return json.load(open(marker))
    full, cat = prepare(ctx)
    cfg0 = mc_cfg(ctx, [], False)
    maxlen = int(re.search(r"MaxLen = (\d+)", cfg0).group(1))
    depth = int(re.search(r"ValDepth = (\d+)", cfg0).group(1))
    procs, workers = 4, 4
    sd = ctx.spec(SUB)

    def one(arg):
        j, sids = arg
        return j, tlc.run(sd, "WireMC", mc_cfg(ctx, sids, True), extra_files={"catalogue.json": full}, workers=workers,
                          timeout=3000, heap="3g")

    with ThreadPoolExecutor(max_workers=procs) as ex:
        results = list(ex.map(one, enumerate(groups(len(cat), procs))))
    files, nrows, nvrows, states = [], 0, 0, 0
    for j, r in results:
        failed = sorted(set(p for t, p in r.prints if t == "FAILED"))
        if not r.ok():
            save = os.path.join(ctx.out, "WireMC.%d.out" % j)
            with open(save, "w") as fh:
                fh.write("\n".join(l for l in r.out.splitlines() if not l.startswith('<<"ROW"') and not l.startswith('<<"VROW"')))
            raise Inconclusive("TLC on WireMC (part %d): %s %s %s (the MODEL breaks its own property; output: %s)" % (
                j, r.status, r.violated or "", failed, save))
        ctx.add_tlc(r)
        states += r.distinct
        path = os.path.join(ctx.out, "rows.%02d.ndjson" % j)
        with open(path, "w") as fh:
            for t, p in r.prints:
                if t == "ROW":
                    nrows += 1
                    fh.write(p + "\n")
                elif t == "VROW":
                    nvrows += 1
                    fh.write(p + "\n")
        files.append(path)
    res = {"files": files, "rows": nrows, "vrows": nvrows, "states": states, "maxlen": maxlen, "valdepth": depth,
           "schemas": len(cat), "wall": round(max(r.wall for _, r in results), 1)}
    with open(marker, "w") as fh:
        json.dump(res, fh)
    return res


class Base(Unit):
    def __init__(self, prop=None):
        self.prop = prop          # None = report every class; "C01" | "C02" | "C03" = only that property's classes
        self.info = {}

    def summary(self):
        return json.dumps(self.info)

    def wanted(self, sig, valid):
        return self.prop is None or self.prop in props_of(sig, valid)

    def report(self, ctx, sig, what, replay_obj):
        if any(v["sig"] == sig for v in ctx.violations):
            return
        ctx.violation(self.name, sig, what, replay_obj)


class Model(Base):
    """TLC: exhaustive small-scope check of Wire.tla's own properties, and the export of its expectations"""
    name = "Wire:model"

    def run(self, ctx):
        res = gen_rows(ctx)
        self.info = {k: res[k] for k in ("schemas", "maxlen", "valdepth", "states", "rows", "vrows", "wall")}
        ctx.bump("tlc_exhaustive_runs")
        ctx.bump("model_states_schema_x_bytestring", res["rows"])
        ctx.bump("model_values_enumerated", res["vrows"])


class Deep(Base):
    """thorough tier: random schemas of nesting depth 3 (TLC -simulate), the model's properties only"""
    name = "Wire:deep-schemas"

    def run(self, ctx):
        if not ctx.thorough:
            self.info = {"skipped": "thorough tier only"}
            return
        sd = ctx.spec(SUB)
        with open(os.path.join(sd, "WireSim.cfg")) as fh:
            cfg = fh.read()
        r = tlc.run(sd, "WireSim", cfg, workers=8, timeout=3000, heap="3g", simulate="num=60", depth=4, seed=ctx.seed)
        failed = [p for t, p in r.prints if t == "FAILED"][:3]
        m = re.search(r"(\d+) states checked, (\d+) traces generated", r.out)
        if not r.ok() or failed or not m:
            save = os.path.join(ctx.out, "WireSim.out")
            with open(save, "w") as fh:
                fh.write(r.out)
            raise Inconclusive("TLC -simulate on WireSim: %s %s (the MODEL breaks its own property; output: %s)" % (r.status, failed, save))
        self.info = {"schemas_checked": int(m.group(1)), "traces": int(m.group(2)), "wall": round(r.wall, 1)}
        ctx.bump("random_deep_schemas_checked_on_model", int(m.group(1)))


def split_lines(path, parts, prefix):
    outs = [open("%s.%02d.ndjson" % (prefix, i), "w") for i in range(parts)]
    with open(path) as fh:
        for n, line in enumerate(fh):
            outs[n % parts].write(line)
    for o in outs:
        o.close()
    return [o.name for o in outs]


class Table(Base):
    """model -> code"""
    name = "Wire:table"

    def run(self, ctx):
        res = gen_rows(ctx)
        full, cat = prepare(ctx)
        pieces = []
        for j, f in enumerate(res["files"]):
            pieces += split_lines(f, PAR // len(res["files"]) or 1, os.path.join(ctx.out, "tab.%d" % j))

        def one(path):
            rep = path.replace(".ndjson", ".report.json")
            p = run_h(ctx, ["w1-table", path, "-cat", full, "-out", rep], timeout=3000)
            return path, rep, p

        with ThreadPoolExecutor(max_workers=PAR) as ex:
            results = list(ex.map(one, pieces))
        tot = {"rows": 0, "vrows": 0, "decodes": 0, "encodes": 0, "reencoded": 0, "skipped": 0, "untypable": 0,
               "mismatch_count": 0, "max_alloc": 0, "accepted_plain": 0, "accepted_validating": 0}
        merged = {}
        for path, rep, p in results:
            if p.returncode == 4 and "HANG" in (p.stderr or ""):
                row = p.stderr.split("HANG", 1)[1].strip()
                self.report(ctx, "serix:decode:any:hang", "a call of the real code did not return within 20 s; row: %s" % row[:300],
                            {"kind": "hang", "row": row})
                ctx.inconclusive.append("%s: rows after the hanging one in %s were not checked" % (self.name, os.path.basename(path)))
                continue
            if p.returncode != 0:
                raise Inconclusive("harness w1-table died on %s: %s" % (os.path.basename(path), (p.stderr or p.stdout)[-1500:]))
            r = json.load(open(rep))
            for k in ("rows", "vrows", "decodes", "encodes", "reencoded", "skipped", "untypable", "mismatch_count"):
                tot[k] += r[k]
            tot["accepted_plain"] += r["accepted"][0]
            tot["accepted_validating"] += r["accepted"][1]
            tot["max_alloc"] = max(tot["max_alloc"], r["max_alloc"])
            for m in r["mismatches"] or []:
                key = (m["sig"], m["wantok"])
                if key in merged:
                    merged[key]["count"] += m["count"]
                else:
                    merged[key] = m
        if tot["rows"] != res["rows"] or tot["vrows"] != res["vrows"]:
            raise Inconclusive("expectations exported %d+%d, compared %d+%d" % (res["rows"], res["vrows"], tot["rows"], tot["vrows"]))
        classes = {}
        for (sig, valid), m in sorted(merged.items(), key=lambda kv: (kv[0][0], not kv[0][1])):
            if not self.wanted(sig, valid):
                continue
            classes[sig] = classes.get(sig, 0) + m["count"]
            self.report(ctx, sig, "%s  [%d inputs in this class, flow %s]" % (m["what"], m["count"], self.name),
                        {"kind": "row", "row": m["row"], "s": m["s"], "mode": m["mode"], "want": m["want"], "got": m["got"],
                         "count": m["count"]})
        if tot["skipped"] and not ctx.violations:
            raise Inconclusive("%d rows skipped without a violation on record" % tot["skipped"])
        self.info = dict(tot)
        self.info["classes"] = classes
        ctx.replayed += tot["rows"] + tot["vrows"]
        ctx.bump("real_decode_calls_compared_with_model", tot["decodes"])
        ctx.bump("real_encode_calls_compared_with_model", tot["encodes"])
        ctx.bump("validated_accepts_reencoded", tot["reencoded"])
        ctx.bump("max_alloc_bytes_per_decode", tot["max_alloc"])
        with open(res["files"][0]) as fh:
            ctx.sample({"unit": self.name, "flow": "model->code (expectation exported by TLC for one byte string)",
                        "row": json.loads(fh.readline())})

    def replay(self, ctx, data):
        full, _ = prepare(ctx)
        if data.get("kind") != "row":
            print(data.get("row"))
            return 1
        path = os.path.join(ctx.out, "replay.rows.ndjson")
        with open(path, "w") as fh:
            fh.write(json.dumps(data["row"]) + "\n")
        rep = os.path.join(ctx.out, "replay.report.json")
        p = run_h(ctx, ["w1-table", path, "-cat", full, "-out", rep], timeout=120)
        if p.returncode != 0:
            print("harness failed:", p.stderr or p.stdout)
            return 1 if "HANG" in (p.stderr or "") else 2
        r = json.load(open(rep))
        hit = [m for m in r["mismatches"] or [] if m["sig"] == data["sig"]]
        for m in r["mismatches"] or []:
            print("still disagrees [%s]: %s" % (m["sig"], m["what"]))
        if hit:
            return 1
        if r["mismatches"]:
            return 1
        print("the real code now agrees with the model on this row")
        return 0


class Records(Base):
    """code -> model"""
    name = "Wire:records"

    def run(self, ctx):
        full, cat = prepare(ctx)
        kinds = {c["name"]: c["s"]["k"] for c in cat}
        n = 50000 if ctx.thorough else 4000
        prefix = os.path.join(ctx.out, "rec")
        parts = PAR * (4 if ctx.thorough else 1)
        p = run_h(ctx, ["w1-record", "-cat", full, "-seed", str(ctx.seed), "-n", str(n), "-out", prefix, "-parts", str(parts)], timeout=3000)
        if p.returncode == 4 and "HANG" in (p.stderr or ""):
            self.report(ctx, "serix:decode:any:hang", "a call of the real code did not return within 20 s: %s" % p.stderr[-300:], {"kind": "hang"})
            raise Inconclusive("recorder stopped at a hanging call")
        if p.returncode != 0:
            raise Inconclusive("harness w1-record died: %s" % (p.stderr or p.stdout)[-1500:])
        written = json.loads(p.stdout)["records"]
        files = [f for f in ("%s.%02d.ndjson" % (prefix, i) for i in range(parts)) if os.path.getsize(f) > 0]
        total, bad = validate_records(ctx, files, full)
        if total != written:
            raise Inconclusive("records written %d, validated %d" % (written, total))
        classes = {}
        for rec, why, want in bad:
            direction, cls = RT_CLASS.get(why, ("encode" if rec["k"] == "enc" else "decode", why))
            sig = "serix:%s:%s:%s" % (direction, kinds[rec["s"]], cls)
            valid = bool(want.get("ok"))
            if not self.wanted(sig, valid):
                # TLC names the FIRST clause a record breaks; an Encode whose bytes differ from the layout (a C03 class) may
                # in addition not decode back to the value - the record carries the real Decode of the produced bytes (rt):
                # that is a C01 violation in its own right and must not be masked by the earlier clause
                rt = rec.get("rt") or {}
                broken_rt = rec.get("k") == "enc" and rec.get("ok") and (not rt.get("ok") or rt.get("n") != len(rec.get("b") or []))
                if not (self.prop == "C01" and broken_rt):
                    continue
                sig = "serix:encode:%s:does-not-decode-back" % kinds[rec["s"]]
                why = "roundtrip-rejected"
            classes[sig] = classes.get(sig, 0) + 1
            self.report(ctx, sig, describe(rec, why, want) + "  [flow %s]" % self.name,
                        {"kind": "record", "rec": rec, "why": why, "want": want})
        self.info = {"values": n, "records": total, "rejected": len(bad), "classes": classes}
        ctx.validated += total
        ctx.bump("records_validated_by_tlc", total)
        ctx.bump("records_rejected", len(bad))
        with open(files[0]) as fh:
            ctx.sample({"unit": self.name, "flow": "code->model (records of real Encode/Decode calls judged by Wire.tla)",
                        "records": [json.loads(next(fh)) for _ in range(2)]})

    def replay(self, ctx, data):
        full, _ = prepare(ctx)
        if data.get("kind") != "record":
            return 1
        rec = data["rec"]
        stim = os.path.join(ctx.out, "replay.in.json")
        with open(stim, "w") as fh:
            json.dump({k: rec[k] for k in ("k", "s", "m", "v", "b") if k in rec and not (k == "b" and rec["k"] == "enc")}, fh)
        out = os.path.join(ctx.out, "replay.rec.ndjson")
        p = run_h(ctx, ["w1-one", stim, "-cat", full, "-out", out], timeout=120)
        if p.returncode != 0:
            print("harness failed:", p.stderr or p.stdout)
            return 2
        try:
            _, bad = validate_records(ctx, [out], full)
        except Inconclusive as e:
            print(e)
            return 2
        for r, why, want in bad:
            print("still rejected by Wire.tla [%s]: %s" % (why, describe(r, why, want)))
        if bad:
            return 1
        print("accepted by Wire.tla:", open(out).read()[:600])
        return 0


def describe(rec, why, want):
    mode = "validation" if rec["m"] == 1 else "no-validation"
    if rec["k"] == "enc":
        head = "Encode(%s %s) [%s]" % (rec["s"], json.dumps(rec["v"])[:200], mode)
        got = "gave %s" % (rec["b"] if rec["ok"] else "an error")
        if why.startswith("roundtrip"):
            got += ", Decode of these bytes gave %s" % json.dumps(rec.get("rt"))[:300]
    else:
        head = "Decode(%s) into %s [%s, mutation %s]" % (rec["b"], rec["s"], mode, rec.get("src"))
        got = ("panicked: %s" % rec.get("msg")) if rec.get("panic") else (
            "gave %s, n=%d, alloc=%d" % (json.dumps(rec.get("v"))[:200] if rec["ok"] else "an error", rec["n"], rec["alloc"]))
        if why == "noncanonical-accepted":
            got += "; re-encoded: %s" % json.dumps(rec.get("re"))[:200]
    return "%s %s; clause broken: %s; the model demands %s" % (head, got, why, json.dumps(want)[:300])


def validate_records(ctx, files, full, timeout=3000):
    """TLC judges every record of every file (one TLC process per file, PAR at a time).
    returns (records, bad[(rec, why, want)])"""
    sd = ctx.spec(SUB)

    def one(path):
        return path, tlc.run(sd, "WireTrace", TRACE_CFG, timeout=timeout, workers=1, heap="2g",
                             extra_files={"records.ndjson": path, "catalogue.json": full})

    with ThreadPoolExecutor(max_workers=PAR) as ex:
        results = list(ex.map(one, files))
    total, bad = 0, []
    for path, r in results:
        with open(path) as fh:
            lines = [x for x in fh.read().splitlines() if x.strip()]
        depth = [p for t, p in r.prints if t == "DEPTH"]
        if not r.ok() or not depth or int(depth[0]) != len(lines) + 1:
            save = os.path.join(ctx.out, os.path.basename(path) + ".tlc.out")
            with open(save, "w") as fh:
                fh.write(r.out)
            raise Inconclusive("record validation of %s did not complete: %s (%s)" % (os.path.basename(path), r.status, save))
        total += len(lines)
        ctx.add_tlc(r)
        for t, p in r.prints:
            if t == "BAD":
                b = json.loads(p)
                bad.append((json.loads(lines[b["l"] - 1]), b["why"], b["want"]))
    return total, bad


ASSUMPTIONS = [
    "binary serix only (W1); the JSON/map form, the stream helpers, the Deserializer primitives and "
    "SerializableOrderedMap are W2's",
    "types: the 75 catalogue types of spec/wire/catalogue.json (every schema constructor, prefix widths 1/2/4/8, "
    "all array rules); shapes outside the catalogue are not exercised on the real code",
    "byte strings: exhaustive up to length 6 over {0,1,2,255} (thorough: {0,1,2,128,255}) per type - in the quick tier "
    "strings that extend a complete encoding by more than one byte are pruned (PrefixOnly) -, beyond that seeded mutations of "
    "valid encodings; values: small-scope enumeration + seeded random values",
    "allocation is measured (runtime.MemStats.TotalAlloc per Decode call <= 64 KiB + 16 B per input byte), not proved",
    "time stamps outside [0, MaxInt64] ns are saturated by documented design and excluded; custom Serializable "
    "types are opaque bytes; syntactic validators (user callbacks) are not registered",
    "zero-width element types only under a one-byte length prefix (a wider prefix makes the decoder loop up to "
    "2^32 times over no input - see report)",
    "trusted: the harness' conversion between Go values and value trees (harness/sut/wire/tree.go)",
]


def units(ctx):
    ctx.assumptions += ASSUMPTIONS
    return [Model(), Table(), Records(), Deep()]


def units_for(ctx, prop):
    """the units that decide property prop in {"C01","C02","C03"} (binary serix part); each reports only the
    disagreement classes that belong to that property"""
    if prop not in ("C01", "C02", "C03"):
        raise ValueError(prop)
    ctx.assumptions += ASSUMPTIONS
    return [Model(prop), Table(prop), Records(prop), Deep(prop)]
