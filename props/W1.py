"""W1 - the binary serix part of C01 (round trip), C02 (total, bounded decoders), C03 (fixed wire format,
canonical decoding).

serix.API.Encode/Decode are pure functions of (registered type, value | bytes, validation on/off), so the
sequential cfg/ev/Do convention does not fit; this file brings its own units around spec/wire/Wire.tla,
a declarative model of the wire format written from the documented layout, and spec/wire/catalogue.json,
the hand-written list of the Go types the harness registers (harness/sut/wire) with their wire schemas:

  Wire:model    TLC visits every (catalogue schema, byte string of length <= 6 over {0,1,2,255}) and a
                small-scope value set per schema; the invariants of WireMC state C01/C02/C03 on the model.
                The same run exports the model's expectation for every state (ROW / VROW lines).
  Wire:table    model -> code: the harness feeds every exported byte string to the real serix Decode
                (validation off and on) and every exported value to the real Encode, and compares: bytes,
                accept/reject, value, consumed count, no panic, allocation bound, re-encode = consumed prefix,
                twice-encode equality under shuffled map insertion order.
  Wire:records  code -> model: a seeded generator builds larger random values of the catalogue types, encodes
                them with the real code, mutates the encodings (bit flips, truncation, maximised length
                fields, garbage tails) and decodes those; every observation is one NDJSON record and TLC
                judges every record with Enc/Dec of Wire.tla (WireTrace).
"""
import copy
import json
import os
import time
from concurrent.futures import ThreadPoolExecutor

from lib import tlc
from lib.units import Inconclusive, Unit, run_h

SUB = "wire"
PAR = 8
SCALARS = {
    "bool": {"k": "bool"}, "u256": {"k": "u256"}, "time": {"k": "time"},
    "u8": {"k": "num", "w": 1, "s": False}, "u16": {"k": "num", "w": 2, "s": False},
    "u32": {"k": "num", "w": 4, "s": False}, "u64": {"k": "num", "w": 8, "s": False},
    "i8": {"k": "num", "w": 1, "s": True}, "i16": {"k": "num", "w": 2, "s": True},
    "i32": {"k": "num", "w": 4, "s": True}, "i64": {"k": "num", "w": 8, "s": True},
    "f32": {"k": "num", "w": 4, "s": False, "fl": True}, "f64": {"k": "num", "w": 8, "s": False, "fl": True},
}
RULE_DEFAULTS = {"min": 0, "max": 0, "sort": False, "vlex": False, "nodup": False, "one": 0, "must": [], "mw": 1}


def expand_catalogue(path):
    """catalogue.json (hand-written, with shorthands) -> list of {name, go, s} with every schema field present"""
    with open(path) as fh:
        raw = json.load(fh)["types"]
    byname = {t["name"]: t for t in raw}
    done = {}

    def code(c):
        if isinstance(c, dict):
            return c
        if not c:
            return {"w": 0, "c": 0}
        return {"w": c[0], "c": c[1]}

    def ex(s):
        if isinstance(s, str):
            if s.startswith("@"):
                return copy.deepcopy(entry(s[1:]))
            r = dict(SCALARS[s])
            if r["k"] == "num":
                r.setdefault("fl", False)
            return r
        if "ref" in s:
            r = copy.deepcopy(entry(s["ref"]))
            for k, v in s.items():
                if k == "ref":
                    continue
                r[k] = code(v) if k == "code" else v
            return r
        k = s["k"]
        r = {"k": k}
        if k in ("str", "bytes"):
            r.update({"lp": s["lp"], "min": s.get("min", 0), "max": s.get("max", 0)})
        elif k in ("barr", "custom"):
            r.update({"n": s["n"], "code": code(s.get("code"))})
        elif k in ("slice", "arr"):
            r.update({"e": ex(s["e"]), "lp": s["lp"], "n": s.get("n", 0)})
            for f, d in RULE_DEFAULTS.items():
                r[f] = s.get(f, d)
        elif k == "map":
            r.update({"key": ex(s["key"]), "val": ex(s["val"]), "lp": s["lp"], "min": s.get("min", 0), "max": s.get("max", 0)})
        elif k == "struct":
            r.update({"code": code(s.get("code")), "f": [ex(f) for f in s["f"]]})
        elif k == "opt":
            r["t"] = ex(s["t"])
        elif k == "iface":
            r.update({"w": s["w"], "alts": [{"c": a["c"], "t": ex(a["t"])} for a in s["alts"]]})
        else:
            raise ValueError("unknown schema kind %r" % k)
        return r

    def entry(name):
        if name not in done:
            done[name] = ex(byname[name]["s"])
        return done[name]

    return [{"name": t["name"], "go": t.get("go", ""), "s": copy.deepcopy(entry(t["name"]))} for t in raw]
