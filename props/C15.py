"""C15 - events, promises and notifiers deliver exactly the right calls."""
import json
import os

from lib import flows
from lib.units import SeqUnit, McUnit, TraceUnit, Inconclusive, run_h


class QUnit(SeqUnit):
    """SeqUnit for the quiescent-point specs of C15.  Two differences from the shared SeqUnit:

    * The specs are deliberately nondeterministic where the property is silent (a hook attached while a Trigger is in
      flight may or may not be invoked by it; promise callbacks run in any order; unsubscribing during Trigger).  The
      real code takes one of the allowed branches (or a random one: Go map order), so states behind the other branches
      cannot be (reliably) visited.  Coverage gate: every stimulus group at a state that is reachable through
      deterministic edges only must have been exercised; the walker's own accounting of what it could reach is reported.
    * The thorough tier replays a larger transition system (<M>.lts2.cfg) while <M>.thorough.cfg is only model-checked.
    """

    def run_lts(self, ctx, sd):
        edges = os.path.join(ctx.out, self.module + ".edges")
        kind = "lts2" if ctx.thorough and os.path.exists(os.path.join(sd, self.module + ".lts2.cfg")) else "lts"
        r, n = flows.lts(sd, self.module, edges, cfgkind=kind, timeout=self.mc_timeout)
        if not r.ok() or n == 0:
            save = os.path.join(ctx.out, self.module + ".lts.out")
            with open(save, "w") as fh:
                fh.write(r.out)
            raise Inconclusive("LTS export of %s failed: %s (%s)" % (self.module, r.status, save))
        walks, depth = self.thorough_walks if ctx.thorough else self.walks
        rep_path = os.path.join(ctx.out, self.module + ".walk.json")
        p = run_h(ctx, ["lts", self.sut, edges, "-seed", str(ctx.seed), "-walks", str(walks), "-depth", str(depth), "-out", rep_path],
                  timeout=1500)
        if p.returncode != 0:
            raise Inconclusive("walker died on %s: %s" % (self.module, (p.stderr or p.stdout)[-2000:]))
        rep = json.load(open(rep_path))
        sure = sure_groups(edges)
        self.info["lts"] = {"states": rep["states"], "edges": rep["edges"], "covered": rep["edges_covered"],
                            "groups": rep["stimulus_groups"], "groups_covered": rep["stimulus_groups_covered"],
                            "groups_reachable": rep.get("stimulus_groups_reachable", 0), "groups_surely_reachable": sure,
                            "steps": rep["steps"]}
        ctx.bump("lts_edges_total", rep["edges"])
        ctx.bump("lts_edges_covered", rep["edges_covered"])
        ctx.bump("lts_stimulus_groups_total", rep["stimulus_groups"])
        ctx.bump("lts_stimulus_groups_covered", rep["stimulus_groups_covered"])
        ctx.bump("lts_stimulus_groups_reachable_by_this_implementation", rep.get("stimulus_groups_reachable", 0))
        ctx.bump("replay_steps_on_real_code", rep["steps"])
        ctx.replayed += rep["resets"]
        for s in (rep.get("samples") or [])[:1]:
            ctx.sample({"unit": self.name, "flow": "model->code (LTS tour path)", "path": s})
        seen = set()
        for m in rep.get("mismatches") or []:
            sig = "%s:lts:%s" % (self.sut, m["op"])
            if "|panic:" in (m.get("class") or ""):
                sig = "%s:lts:%s" % (self.sut, m["class"].split("|", 1)[1].rstrip())
            if sig in seen:
                continue
            seen.add(sig)
            what = "%s.%s: real code gave %s, model allows %s (cfg %s, after %d steps)" % (
                self.sut, m["op"], json.dumps(m["observed"]), json.dumps(m["expected"]), json.dumps(m["cfg"]), len(m["path"]) - 1)
            ctx.violation(self.name, sig, what, {"kind": "path", "sut": self.sut, "mismatch": m})
        # the tour ends only when no reliably reachable group is left undone; cross-check the count
        if not rep.get("mismatches") and rep["stimulus_groups_covered"] < sure:
            raise Inconclusive("LTS tour of %s covered %d stimulus groups, %d are reachable whatever the implementation chooses" % (
                self.module, rep["stimulus_groups_covered"], sure))


def sure_groups(edges_path):
    """number of stimulus groups at states that are reachable through deterministic (single-edge) groups only"""
    groups, inits = {}, set()
    with open(edges_path) as fh:
        for line in fh:
            e = json.loads(line)
            stim = json.dumps({k: v for k, v in e["e"].items() if k not in ("res", "st")}, sort_keys=True)
            groups.setdefault(e["f"], {}).setdefault(stim, []).append(e["t"])
            if e["i"]:
                inits.add(e["f"])
    seen, stack = set(inits), list(inits)
    while stack:
        x = stack.pop()
        for tos in groups.get(x, {}).values():
            if len(tos) == 1 and tos[0] not in seen:
                seen.add(tos[0])
                stack.append(tos[0])
    return sum(len(groups.get(x, {})) for x in seen)


def units(ctx):
    return [
        # ---- pattern 1: API-level specs at quiescent points, replayed on the real objects + recorded histories ----
        # runtime/event: Hook/Unhook/Trigger/LinkTo histories incl. re-entrant callbacks, Triggers parked in gate hooks while
        # other calls are made (2 harness threads), event/hook WithMaxTriggerCount, LinkTo re-targeting, pooled hooks
        QUnit("events", "Events", traces=(60, 40), thorough_traces=(600, 60), walks=(100, 20), thorough_walks=(300, 30), mc_timeout=1200),
        # runtime/promise Event / Event1: callbacks registered before / during (from inside a callback, and from another
        # thread while Trigger is parked in a gate callback) / after Trigger; unsubscribe; second Trigger
        QUnit("events", "Promise", traces=(60, 30), thorough_traces=(600, 40), walks=(100, 12), thorough_walks=(300, 16)),
        # runtime/valuenotifier: Listener / Notify / Wait (blocking, park detection) / Deregister / cancelled context for
        # repeated values, several listeners per value
        QUnit("events", "Notifier", traces=(60, 40), thorough_traces=(600, 60), walks=(100, 20), thorough_walks=(300, 30)),
        # ---- pattern 2: implementation-level model of Trigger/Unhook (linked list walked without a lock, atomic counters),
        # all interleavings of 3 triggerers (counting) / 2 triggerers + 1 unhooker; negative controls must be refuted ----
        McUnit("events", "EventsImpl", "count_quick", name="EventsImpl:count", thorough_cfgkind="count"),
        McUnit("events", "EventsImpl", "unhook_quick", name="EventsImpl:unhook", thorough_cfgkind="unhook"),
        McUnit("events", "EventsImpl", "load_then_add", name="ctl-load-then-add", expect="MaxCount"),
        McUnit("events", "EventsImpl", "no_flag", name="ctl-no-unhooked-flag", expect="NoCallAfterUnhook"),
        # ---- pattern 3: free-running goroutines on the real objects (3-4 concurrent triggerers with max trigger counts released
        # by a spinning barrier; Hook/Unhook/Trigger churn; OnTrigger/unsubscribe/Trigger races; Listener/Notify/Deregister/
        # Wait races); every recorded execution is validated by TLC against the trace spec ----
        TraceUnit("events", "Races", "c15race", args=["-rounds", 4000, "-traces", 40], thorough_args=["-rounds", 60000, "-traces", 600], sut="Races"),
    ]
