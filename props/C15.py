"""C15 - events, promises and notifiers deliver exactly the right calls."""
import json
import os

from lib import flows
from lib.units import SeqUnit, McUnit, TraceUnit, Inconclusive, run_h


class QUnit(SeqUnit):
    """SeqUnit whose specs are deliberately nondeterministic where the property is silent (a hook attached while a
    Trigger is in flight may or may not be invoked by it, promise callbacks run in any order, ...).  The real code takes
    one of the allowed branches, so states behind the other branches cannot be visited: the coverage gate is
    'every stimulus group the implementation can reach was exercised' (the walker's reachable accounting)."""

    def run_lts(self, ctx, sd):
        try:
            super().run_lts(ctx, sd)
        except Inconclusive as e:
            if "stimulus groups" not in str(e):
                raise
        rep_path = os.path.join(ctx.out, self.module + ".walk.json")
        rep = json.load(open(rep_path))
        sure = sure_groups(os.path.join(ctx.out, self.module + ".edges"))
        self.info["lts"]["reachable"] = rep.get("stimulus_groups_reachable", 0)
        self.info["lts"]["surely_reachable"] = sure
        # the tour ends only when no reliably reachable group is left undone; cross-check the count
        if not rep.get("mismatches") and rep["stimulus_groups_covered"] < sure:
            raise Inconclusive("LTS tour of %s covered %d stimulus groups, %d are reachable whatever the implementation chooses" % (
                self.module, rep["stimulus_groups_covered"], sure))


def sure_groups(edges_path):
    """number of stimulus groups at states that are reachable through deterministic (single-edge) groups only"""
    groups, inits = {}, set()
    with open(edges_path) as fh:
        for line in fh:
            e = json.loads(line)
            stim = json.dumps({k: v for k, v in e["e"].items() if k not in ("res", "st")}, sort_keys=True)
            groups.setdefault(e["f"], {}).setdefault(stim, []).append(e["t"])
            if e["i"]:
                inits.add(e["f"])
    seen, stack = set(inits), list(inits)
    while stack:
        x = stack.pop()
        for tos in groups.get(x, {}).values():
            if len(tos) == 1 and tos[0] not in seen:
                seen.add(tos[0])
                stack.append(tos[0])
    return sum(len(groups.get(x, {})) for x in seen)


def units(ctx):
    return [
        # quiescent-point LTS replay + recorded histories, one module per subsystem
        QUnit("events", "Events", traces=(60, 40), thorough_traces=(600, 60), walks=(100, 20), thorough_walks=(1000, 30)),
        QUnit("events", "Promise", traces=(60, 30), thorough_traces=(600, 40), walks=(100, 12), thorough_walks=(1000, 16)),
        QUnit("events", "Notifier", traces=(60, 40), thorough_traces=(600, 60), walks=(100, 20), thorough_walks=(1000, 30)),
        # free-running goroutines on the real objects (3-4 concurrent triggerers with max trigger counts released by a spinning
        # barrier; Hook/Unhook/Trigger churn; OnTrigger/unsubscribe/Trigger races; Listener/Notify/Deregister/Wait races);
        # every recorded execution is validated by TLC against the trace spec
        TraceUnit("events", "Races", "c15race", args=["-rounds", 4000, "-traces", 40], thorough_args=["-rounds", 60000, "-traces", 600], sut="Races"),
    ]
