"""C20 - daemon stops background workers in descending shutdown order."""
from lib.units import SeqUnit, McUnit, TraceUnit


def units(ctx):
    return [
        SeqUnit("daemon", "Daemon", traces=(40, 40), thorough_traces=(300, 60), walks=(60, 25), thorough_walks=(500, 40)),
    ]
