"""C20 - daemon stops background workers in descending shutdown order."""
from lib.units import SeqUnit, McUnit, TraceUnit


def units(ctx):
    return [
        # API-level spec at quiescent points (worker handlers and the two verif yield points are gates): every order of
        # BackgroundWorker / Start / Run / Shutdown / ShutdownAndWait / held calls / worker exits, replayed on the real daemon
        SeqUnit("daemon", "Daemon", traces=(40, 40), thorough_traces=(300, 60), walks=(60, 25), thorough_walks=(500, 40)),
        McUnit("daemon", "Daemon", "full", name="Daemon:full", thorough_only=True, timeout=1800),
        # all interleavings of the implementation-level model (stopWorkers walk, BackgroundWorker/Start check-then-lock
        # windows, Run's wait loop, worker goroutines)
        # (quick: 3 names, 1 registering thread, 1 shutdown caller; thorough: 2 registering threads / 2 shutdown callers;
        #  DaemonImpl.big.cfg = both at once, ~1M states, 5 min, not part of a tier)
        McUnit("daemon", "DaemonImpl", "quick", name="DaemonImpl", thorough_cfgkind="adders2", timeout=1800),
        McUnit("daemon", "DaemonImpl", "callers2", name="DaemonImpl:callers2", thorough_only=True, timeout=1800),
        # negative controls: models of the three defects the code had and of the three Appendix-B mutations must be refuted
        McUnit("daemon", "DaemonImpl", "unlocked_check", name="ctl-unlocked-check", expect="ShutdownWaits"),
        McUnit("daemon", "DaemonImpl", "run_snapshot", name="ctl-run-snapshot", expect="RunWaits"),
        McUnit("daemon", "DaemonImpl", "sync_waitgroup", name="ctl-sync-waitgroup", expect="NoPanic"),
        McUnit("daemon", "DaemonImpl", "cmp_gt", name="ctl-cmp-gt", expect="CancelOrder"),
        McUnit("daemon", "DaemonImpl", "wait_current", name="ctl-wait-current", expect="ShutdownWaits"),
        McUnit("daemon", "DaemonImpl", "wrong_index", name="ctl-wrong-index", expect="any"),
        # sanity of the trace spec itself
        McUnit("daemon", "DaemonRun", "", name="DaemonRun:spec", thorough_only=True),
        # forced schedules (TLC's counterexamples through the yield points) + free-running registrations / Run /
        # concurrent Shutdown callers / re-registration races; every recorded execution validated by TLC
        TraceUnit("daemon", "DaemonRun", "daemonstress", args=["-traces", 40, "-reuse", 400],
                  thorough_args=["-traces", 400, "-reuse", 3000], sut="DaemonRun"),
    ]
