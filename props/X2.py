"""X2 - extension of the specification beyond the 20 listed properties: runtime/contextutils (merged contexts) and
runtime/module (module lifecycle on reactive events)."""
from lib.units import SeqUnit, McUnit, TraceUnit


def units(ctx):
    return [
        # runtime/module: exhaustive slice "one module, two callbacks, both lifecycles"; replay of the slice "callbacks and
        # lifecycles of one module"; random histories over 4 modules / 8 callbacks / 3 wait groups validated by TLC
        SeqUnit("ext2", "Lifecycle", lts_kind=("lts2" if ctx.thorough else "lts"), traces=(60, 60), thorough_traces=(600, 80),
                walks=(60, 20), thorough_walks=(300, 30)),
        # replay of the slice "sub-module, log levels, TriggerAll / WaitAll"
        SeqUnit("ext2", "Lifecycle", name="Lifecycle:tree", lts_kind="ltsB", do_mc=False, do_trace=False, walks=(60, 20)),
        # further exhaustive slices: tree of three modules with levels; wait groups over two modules
        McUnit("ext2", "Lifecycle", "mcT", name="Lifecycle:mcT"),
        McUnit("ext2", "Lifecycle", "mcW", name="Lifecycle:mcW"),
        SeqUnit("ext2", "MergeCtx", lts_kind=("lts2" if ctx.thorough else "lts"), traces=(40, 40), thorough_traces=(400, 60), walks=(60, 20), thorough_walks=(300, 30)),
        # runtime/module under concurrency: forced schedules (a Trigger held in flight inside a gate callback while other calls
        # are made) + free-running triggerers / registrars / unsubscribers / InitSimpleLifecycle / TriggerAll / WaitAll+Wait / readers
        TraceUnit("ext2", "LifeRun", "x2life", args=["-traces", 60], thorough_args=["-traces", 1500], sut="LifeRun"),
        # the trace spec itself (closed over a small alphabet): what it accepts keeps the first error
        McUnit("ext2", "CtxRun", "", name="CtxRun:spec"),
        # MergeContexts under concurrency: forced schedules through the gates in the fake parents' Done()/Err() + free-running
        # enders / cancellers / readers (also GOMAXPROCS(1)); every execution validated by TLC
        TraceUnit("ext2", "CtxRun", "x2ctx", args=["-traces", 60], thorough_args=["-traces", 1500], sut="CtxRun"),
    ]
