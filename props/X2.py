"""X2 - extension of the specification beyond the 20 listed properties:

  runtime/contextutils  MergeContexts: done iff a parent is done or the cancel function was called; Err / Deadline / Value;
                        helper goroutine ends with the context            (spec/ext2/MergeCtx.tla, CtxRun.tla)
  runtime/module        the module lifecycle on reactive events: four one-shot events, OnTrigger callbacks, InitSimpleLifecycle,
                        TriggerAll, WaitAll, NewSubModule                 (spec/ext2/Lifecycle.tla, LifeRun.tla)

(The work order also named a generic runtime/promise.Promise with Resolve/Reject; no such type exists in this snapshot of
hive.go - runtime/promise holds Event/Event1 only, which property C15 covers.)
"""
from lib.units import SeqUnit, McUnit, TraceUnit


def units(ctx):
    lts = "lts2" if ctx.thorough else "lts"
    return [
        # ---- runtime/module, sequential (re-entrant callbacks included) ----
        # exhaustive slice "one module, two callbacks (plain / registering / triggering), both lifecycles"; replay of the LTS
        # "one module, one callback, both lifecycles" on real modules; random histories over 4 modules / 8 callbacks /
        # 3 wait groups / 3 log levels validated by TLC
        SeqUnit("ext2", "Lifecycle", lts_kind=lts, traces=(60, 60), thorough_traces=(600, 80), walks=(60, 20), thorough_walks=(300, 30)),
        # replay of the LTS "root + sub-module, log levels, TriggerAll / WaitAll, a callback on the wait group"
        SeqUnit("ext2", "Lifecycle", name="Lifecycle:tree", lts_kind="ltsB", do_mc=False, do_trace=False, walks=(60, 20)),
        # further exhaustive slices: a tree of three modules with log levels; wait groups over two modules
        McUnit("ext2", "Lifecycle", "mcT", name="Lifecycle:mcT"),
        McUnit("ext2", "Lifecycle", "mcW", name="Lifecycle:mcW"),
        # ---- runtime/module under concurrency: forced schedules (a Trigger held in flight inside a gate callback while other
        # calls are made) + free-running triggerers / registrars / unsubscribers / InitSimpleLifecycle / TriggerAll /
        # WaitAll + Wait / readers (also GOMAXPROCS(1)); every execution validated by TLC against the trace spec ----
        TraceUnit("ext2", "LifeRun", "x2life", args=["-traces", 60], thorough_args=["-traces", 1500], sut="LifeRun"),
        # ---- runtime/contextutils at quiescent points: nested merges, std and hand-written parents, deadlines, values ----
        SeqUnit("ext2", "MergeCtx", lts_kind=lts, traces=(40, 40), thorough_traces=(400, 60), walks=(60, 20), thorough_walks=(300, 30)),
        # ---- runtime/contextutils under concurrency: the trace spec itself (closed over a small alphabet), then forced
        # schedules through the gates in the fake parents' Done()/Err() + free-running enders / cancellers / readers ----
        McUnit("ext2", "CtxRun", "", name="CtxRun:spec"),
        TraceUnit("ext2", "CtxRun", "x2ctx", args=["-traces", 60], thorough_args=["-traces", 1500], sut="CtxRun"),
    ]
