"""X2 - extension of the specification beyond the 20 listed properties: runtime/contextutils (merged contexts) and
runtime/module (module lifecycle on reactive events)."""
from lib.units import SeqUnit, McUnit, TraceUnit


def units(ctx):
    return [
        SeqUnit("ext2", "Lifecycle", do_mc=False, do_lts=False, traces=(60, 60), thorough_traces=(600, 80)),
        SeqUnit("ext2", "MergeCtx", lts_kind=("lts2" if ctx.thorough else "lts"), traces=(40, 40), thorough_traces=(400, 60), walks=(60, 20), thorough_walks=(300, 30)),
        # the trace spec itself (closed over a small alphabet): what it accepts keeps the first error
        McUnit("ext2", "CtxRun", "", name="CtxRun:spec"),
        # MergeContexts under concurrency: forced schedules through the gates in the fake parents' Done()/Err() + free-running
        # enders / cancellers / readers (also GOMAXPROCS(1)); every execution validated by TLC
        TraceUnit("ext2", "CtxRun", "x2ctx", args=["-traces", 60], thorough_args=["-traces", 1500], sut="CtxRun"),
    ]
