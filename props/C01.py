"""C01 - serix, JSON and stream codecs round-trip every encodable value.
Composed from the two Wire work packages: W1 (binary serix: spec/wire/Wire*.tla, harness/sut/wire) and
W2 (JSON/map form, stream helpers, Serializer/Deserializer primitives, ByteBuffer, SerializableOrderedMap:
spec/wire/{WireJson,Stream,Deser}*.tla, harness/sut/wire2)."""
from props import W1, W2


def units(ctx):
    return W1.units_for(ctx, "C01") + W2.units_for(ctx, "C01")
