"""C05 - KVStore operations are linearizable under concurrent use.

spec/kvstore/KVStoreConc.tla       Invoke / silent Lin / Return around the sequential C04 contract (EXTENDS KVStore)
spec/kvstore/KVStoreConcMC.tla     closed composition for TLC (+ ghost `seen`, negative-control variant per_entry)
spec/kvstore/KVStoreConcTrace.tla  trace validation with silent steps: TLC searches a placement of the Lin steps
harness/sut/kvconc                 driver `kvconc`: free-running goroutines (2..16), forced schedules (iteration held
                                   inside its consumer while other views mutate), unlogged bursts; built with -race

lib/flows.validate assumes one model step per log line, so the validation loop lives here (LinUnit): the NDJSON file is
cut into histories, chunks of histories are validated by parallel TLC processes (-workers 1, depth-first queue); a
chunk is accepted when TLC reaches the end of the file, otherwise its high-water mark names the history (and line) no
placement explains -> VIOLATION with that history as replay artefact; the rest of the chunk is validated again.
"""
import concurrent.futures as cf
import json
import os
import re
import sys

from lib import tlc
from lib.units import Unit, McUnit, Inconclusive, build_harness, run_h

SUB, TRACE = "kvstore", "KVStoreConcTrace"


def split_histories(text):
    """-> list of histories (lists of raw lines); a trailing history without its final line (driver died) is dropped."""
    hs, cur = [], None
    for line in text.splitlines():
        if not line.strip():
            continue
        if '"op":"reset"' in line:
            cur = [line]
            hs.append(cur)
        elif cur is not None:
            cur.append(line)
    if hs and '"op":"final"' not in hs[-1][-1]:
        hs.pop()
    return hs


KNOWN_SIG = "KVStoreConc:flushkv-mutation-visible-but-ErrStoreClosed"


def run_tlc(ctx, lines, tag, explain=False, timeout=600, strict=False):
    sd = ctx.spec(SUB)
    with open(os.path.join(sd, TRACE + (".strict.cfg" if strict else ".cfg"))) as fh:
        cfg = fh.read()
    if explain:
        cfg = cfg.replace("Explain = FALSE", "Explain = TRUE")
    path = os.path.join(ctx.out, "lin.%s.ndjson" % tag)
    with open(path, "w") as fh:
        fh.write("\n".join(lines) + "\n")
    r = tlc.run(sd, TRACE, cfg, extra_files={"trace.ndjson": path}, workers=1, dfs=True, timeout=timeout)
    hw = None
    accepted = False
    expected = []
    for t, payload in r.prints:
        if t == "HW":
            hw = int(payload)
        elif t == "ACCEPTED":
            accepted = True
        elif t == "EXPECTED":
            try:
                expected.append(json.loads(payload))
            except ValueError:
                pass
    return r, accepted, hw, expected


MAX_REJECTED = 3   # per chunk: after that many rejected histories the rest of the chunk is not validated any more


def validate_histories(ctx, hs, tag, timeout=600):
    """-> (n_accepted, rejected:[(history, line_index, expected)], undecided:[history], states)"""
    accepted, rejected, undecided, states = 0, [], [], 0
    rest = list(hs)
    rnd = 0
    while rest:
        if len(rejected) >= MAX_REJECTED:
            undecided += rest      # reported as "skipped": the verdict is a violation already
            break
        rnd += 1
        lines = [l for h in rest for l in h]
        r, ok, hw, _ = run_tlc(ctx, lines, "%s.%d" % (tag, rnd), timeout=timeout)
        states += r.distinct
        if r.status == "timeout":
            if len(rest) == 1:
                undecided.append(rest[0])
                break
            # isolate: validate the histories one by one with a smaller budget
            for i, h in enumerate(rest):
                a, rj, ud, st = validate_histories(ctx, [h], "%s.%d.%d" % (tag, rnd, i), timeout=120)
                accepted += a
                rejected += rj
                undecided += ud
                states += st
            break
        if r.status != "ok" or hw is None:
            save = os.path.join(ctx.out, "lin.%s.%d.out" % (tag, rnd))
            with open(save, "w") as fh:
                fh.write(r.out)
            raise Inconclusive("trace validation did not run (TLC status %s, output %s)" % (r.status, save))
        if ok:
            accepted += len(rest)
            break
        # hw = 1-based index of the first line nothing explains; everything before its history is accepted
        pos = 0
        for i, h in enumerate(rest):
            if pos < hw <= pos + len(h):
                local = hw - pos  # 1-based line inside the history
                r2, ok2, hw2, exp = run_tlc(ctx, h, "%s.%d.x" % (tag, rnd), explain=True, timeout=120)
                exp = [e["res"] for e in exp if e.get("l") == local]
                uniq = []
                for e in exp:
                    if e not in uniq:
                        uniq.append(e)
                rejected.append((h, local, uniq))
                accepted += i
                rest = rest[i + 1:]
                break
            pos += len(h)
        else:
            raise Inconclusive("cannot locate line %s of the rejected chunk" % hw)
    return accepted, rejected, undecided, states


def describe(h, local):
    """the offending line of a rejected history in words"""
    evs = [json.loads(x) for x in h]
    head, off = evs[0], evs[local - 1]
    if off["op"] == "final":
        pend = {}
        for e in evs[1:local - 1]:
            if e["op"] == "inv":
                pend[e["t"]] = e["call"]
            elif e["op"] == "ret":
                pend.pop(e["t"], None)
        return "hang", "history #%s (%s, %s goroutines): calls that did not return within the watchdog's bound: %s" % (
            head.get("id"), head.get("kind"), head.get("threads"), json.dumps(pend, sort_keys=True))
    call = None
    for e in evs[1:local - 1]:
        if e["op"] == "inv" and e["t"] == off["t"]:
            call = e["call"]
    return "lin:" + (call or {}).get("op", "?"), (
        "history #%s (%s, %s goroutines, wrap %s): no placement of the linearization points explains line %d: "
        "thread %s's %s returned %s" % (head.get("id"), head.get("kind"), head.get("threads"), head["cfg"]["wrap"], local,
                                        off["t"], json.dumps(call, sort_keys=True), json.dumps(off["res"], sort_keys=True)))


def corrupt(hs, what):
    """negative controls: a copy of an accepted history with one impossible observation"""
    for h in hs:
        evs = [json.loads(x) for x in h]
        for i, e in enumerate(evs):
            if what == "get" and e["op"] == "ret" and e["res"].get("val"):
                e["res"]["val"] = [99, 99]          # a value nobody ever wrote
            elif what == "iter" and e["op"] == "ret" and e["res"].get("kv"):
                e["res"]["kv"][-1]["v"] = [99, 99]
            elif what == "keys" and e["op"] == "ret" and len(e["res"].get("keys") or []) >= 1:
                e["res"]["keys"] = e["res"]["keys"] + [[7, 7, 7]]   # a key nobody ever wrote
            elif what == "hang" and e["op"] == "final":
                e["finished"] = False
            else:
                continue
            return [json.dumps(x, separators=(",", ":")) for x in evs], i + 1
    return None, None


class LinUnit(Unit):
    def __init__(self, name, args, thorough_args, chunk=45, jobs=6):
        self.name, self.args, self.thorough_args, self.chunk, self.jobs = name, args, thorough_args, chunk, jobs
        self.info = {}

    def summary(self):
        return json.dumps(self.info)

    def run(self, ctx):
        tr = os.path.join(ctx.out, "kvconc.ndjson")
        args = self.thorough_args if ctx.thorough else self.args
        p = run_h(ctx, ["kvconc", "-seed", str(ctx.seed), "-out", tr] + [str(a) for a in args], timeout=3000, race=True)
        err = p.stderr or ""
        self.info["driver"] = (p.stdout or "").strip()[-200:]
        racy = "WARNING: DATA RACE" in err or "fatal error: concurrent map" in err
        if racy:
            save = os.path.join(ctx.out, "kvconc.race.txt")
            with open(save, "w") as fh:
                fh.write(err)
            m = re.search(r"(WARNING: DATA RACE|fatal error: concurrent map[^\n]*)(.*?)(\n\n|==================)", err, re.S)
            frames = re.findall(r"\n\s+(github\.com/iotaledger/hive\.go/\S+)\(\)\n", err)
            where = ", ".join(list(dict.fromkeys(f.split("/")[-1] for f in frames))[:6])
            ctx.violation(self.name, "kvconc:race",
                          "the store is not free of data races: %s in %s (full report: %s)" % (
                              "Go race detector report" if "DATA RACE" in err else (m.group(1) if m else "fatal error"),
                              where or "?", save),
                          {"kind": "race", "report": err[:8000]})
        elif p.returncode != 0:
            raise Inconclusive("driver kvconc died: %s" % (err or p.stdout)[-2000:])
        m = re.search(r'"burst_hangs": (\d+)', p.stdout or "")
        if m and int(m.group(1)) > 0:
            ctx.violation(self.name, "kvconc:hang", "%s unlogged bursts of 16 goroutines did not finish within the watchdog's "
                          "bound (deadlock)" % m.group(1), {"kind": "race", "report": p.stdout})
        with open(tr) as fh:
            hs = split_histories(fh.read())
        if not hs:
            if racy:
                return
            raise Inconclusive("driver recorded nothing")
        # the forced schedule flushkv mutation / Close (known finding) is judged separately, by the STRICT reading
        fcs = [h for h in hs if json.loads(h[0]).get("kind") == "flushclose"]
        hs = [h for h in hs if json.loads(h[0]).get("kind") != "flushclose"]
        self.flush_close(ctx, fcs)
        size = max(self.chunk, len(hs) // (self.jobs * 4))   # fewer, longer TLC runs for the thorough tier
        chunks = [hs[i:i + size] for i in range(0, len(hs), size)]
        controls = {}
        for what in ("get", "iter", "keys", "hang"):
            lines, at = corrupt(hs, what)
            if lines:
                controls[what] = (lines, at)
        acc, rej, und, states = 0, [], [], 0
        with cf.ThreadPoolExecutor(max_workers=self.jobs) as ex:
            futs = [ex.submit(validate_histories, ctx, c, "c%d" % i) for i, c in enumerate(chunks)]
            cfuts = {w: ex.submit(run_tlc, ctx, lines, "ctl-" + w, False, 300) for w, (lines, at) in controls.items()}
            for f in futs:
                a, r, u, s = f.result()
                acc, rej, und, states = acc + a, rej + r, und + u, states + s
            ctl = {w: f.result() for w, f in cfuts.items()}
        ctx.bump("trace_validation_states", states)
        ctx.states += states
        kinds = {"free": 0, "forced": 0, "controlled": 0}
        events = 0
        bad = {id(h) for h, _, _ in rej} | {id(h) for h in und}
        for h in hs:
            if id(h) not in bad:
                kinds[json.loads(h[0]).get("kind", "free")] += 1
                events += len(h)
        ctx.validated += kinds["free"]      # code -> model: free-running histories accepted by TLC
        ctx.replayed += kinds["forced"] + kinds["controlled"]   # model -> code: forced / controlled schedules executed on the real store (and accepted)
        ctx.bump("validated_trace_events", events)
        ctx.bump("forced_schedules", kinds["forced"])
        ctx.bump("controlled_schedules_at_map_lock_grain", kinds["controlled"])
        self.info.update({"histories": len(hs), "accepted": acc, "rejected": len(rej), "undecided": len(und),
                          "events": sum(len(h) for h in hs), "tlc_states": states})
        for h, local, exp in rej:
            tag, what = describe(h, local)
            sig = "kvconc:" + tag
            if exp:
                what += "; results the model allows at that point: %s" % json.dumps(exp, sort_keys=True)[:600]
            if not any(v["sig"] == sig for v in ctx.violations):
                ctx.violation(self.name, sig, what, {"kind": "history", "line": local, "lines": [json.loads(x) for x in h]})
        if und and not rej:
            ctx.inconclusive.append("%s: %d histories not decided by TLC within the time limit" % (self.name, len(und)))
        # negative controls: the binding must reject an impossible observation at exactly that line
        okc = 0
        for w, (r, ok, hw, _) in ctl.items():
            if r.status == "ok" and not ok and hw == controls[w][1]:
                okc += 1
            else:
                ctx.inconclusive.append("%s: negative control '%s' not rejected at line %s (accepted=%s, hw=%s, TLC %s)" % (
                    self.name, w, controls[w][1], ok, hw, r.status))
        if len(controls) < 4:
            ctx.inconclusive.append("%s: negative controls missing (%s)" % (self.name, sorted(controls)))
        ctx.bump("negative_controls_passed", okc)
        self.info["controls"] = okc
        if hs:
            ctx.sample({"unit": self.name, "flow": "code->model (recorded concurrent history, first lines)",
                        "trace": [json.loads(x) for x in hs[0][:10]]})

    def flush_close(self, ctx, fcs):
        """T1's flushkv.Set is held in its trailing Flush, T3 reads the value, T2 closes, T1 returns ErrStoreClosed.
        Relaxed reading (mutation, then Flush): must be accepted.  Strict reading (one atomic call, the letter of C05):
        rejected -> the known finding, reported under its fixed sig."""
        for n, h in enumerate(fcs):
            head = json.loads(h[0])
            r, ok, hw, _ = run_tlc(ctx, h, "fc%d" % n, timeout=120)
            if r.status != "ok" or hw is None:
                raise Inconclusive("flushkv/Close schedule: TLC did not run (%s)" % r.status)
            if not ok:  # not even the two-step reading explains it: an ordinary violation
                tag, what = describe(h, hw)
                ctx.violation(self.name, "kvconc:" + tag, what, {"kind": "history", "line": hw, "lines": [json.loads(x) for x in h]})
                continue
            ctx.replayed += 1
            ctx.bump("forced_schedules")
            r, ok, hw, _ = run_tlc(ctx, h, "fc%d.strict" % n, timeout=120, strict=True)
            if r.status != "ok" or hw is None:
                raise Inconclusive("flushkv/Close schedule (strict): TLC did not run (%s)" % r.status)
            self.info["flushclose_strict"] = "accepted" if ok else "rejected at line %d" % hw
            if not ok:
                evs = [json.loads(x) for x in h]
                ctx.violation(self.name, KNOWN_SIG,
                              "history #%s (flushclose, forced): thread 1's flushkv %s is held in the Flush that follows its inner "
                              "mutation, thread 3's Get returns the written value %s, thread 2's Close returns, thread 1 returns %s: "
                              "under the strict reading (a flushkv mutation is one atomic call; ErrStoreClosed = no effect) TLC finds "
                              "no linearization (first unexplained line %d: %s)" % (
                                  head.get("id"), json.dumps(evs[1]["call"], sort_keys=True),
                                  json.dumps(next((e["res"] for e in evs if e["op"] == "ret" and e["t"] == 3), None), sort_keys=True),
                                  json.dumps(next((e["res"] for e in evs if e["op"] == "ret" and e["t"] == 1), None), sort_keys=True),
                                  hw, json.dumps(evs[hw - 1], sort_keys=True)),
                              {"kind": "history", "strict": True, "line": hw, "lines": evs})

    def replay(self, ctx, data):
        if data.get("kind") == "history":
            lines = [json.dumps(x, separators=(",", ":")) for x in data["lines"]]
            r, ok, hw, _ = run_tlc(ctx, lines, "replay", strict=bool(data.get("strict")))
            if r.status != "ok":
                print("TLC did not run:", r.status)
                return 2
            if ok:
                print("history accepted: a placement of the linearization points exists")
                return 0
            print("history rejected: no placement explains line %s: %s" % (hw, json.dumps(data["lines"][hw - 1])))
            return 1
        print(data.get("report", ""))
        return 1


def units(ctx):
    if "--no-build" not in sys.argv:
        build_harness(ctx, race=True)
    ctx.assumptions.append(
        "C05: a batch is built by one goroutine; its Commit is one call whose individual writes (last Set/Delete per key) "
        "take effect one by one, in any order, between the Commit's invocation and its return")
    ctx.assumptions.append(
        "C05: free-running histories interleave as the Go scheduler, GOMAXPROCS 1..16 and random yields produce; forced schedules "
        "use the consumer callbacks of Iterate/IterateKeys as gates; controlled schedules (2-3 goroutines with private handles) "
        "are cut at every acquisition of the shared map's lock (hook mapdb.VerifHook), not inside a critical section")
    return [
        # the specification itself: every interleaving of Invoke / Lin / Return of the closed composition
        McUnit(SUB, "KVStoreConcMC", "", name="KVStoreConc:2x2", deadlock=True, thorough_cfgkind="thorough", timeout=1800),
        McUnit(SUB, "KVStoreConcMC", "allops", name="KVStoreConc:allops", deadlock=True),
        # negative control of the snapshot invariant: an iteration reading one entry per atomic step is refuted
        McUnit(SUB, "KVStoreConcMC", "per_entry", name="ctl-iterate-per-entry", expect="IterSnapshot", deadlock=True),
        # the real store: free-running + forced histories (race build), validated by TLC with silent Lin steps
        LinUnit("KVStoreConc:histories",
                args=["-histories", 300, "-forced", 100, "-bursts", 20, "-controlled", 300],
                thorough_args=["-histories", 5000, "-forced", 1000, "-bursts", 200, "-controlled", 5000]),
    ]
