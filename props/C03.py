"""C03 - wire format is fixed; validated decoding accepts only canonical bytes (W1: spec/wire/Wire.tla is the
independent reference encoder/decoder)."""
from props import W1


def units(ctx):
    return W1.units_for(ctx, "C03")
