"""C14 - derived reactive values converge to their defining function."""
from lib.units import McUnit, SeqUnit, TraceUnit


def units(ctx):
    return [
        SeqUnit("reactive", "Derived"),
    ]
