"""C14 - derived reactive values converge to their defining function."""
import json
import os

from lib import flows
from lib.units import Inconclusive, McUnit, SeqUnit, TraceUnit, split_traces


class KindTraceUnit(TraceUnit):
    """TraceUnit whose violation signature names the kind of derived value (cfg.kind of the rejected trace), so that a
    finding on one kind does not hide (or get confused with) a finding on another kind.  Validation itself is the shared
    flow (flows.validate: TLC checks Do(Trace[l]) /\\ ev' = Trace[l] line by line)."""

    def validate(self, ctx, tr):
        sd = ctx.spec(self.sub)
        with open(tr) as fh:
            traces = split_traces([l for l in fh.read().splitlines() if l.strip()])
        total, rejected, events = len(traces), 0, 0
        for rnd in range(12):
            cur = os.path.join(ctx.out, "%s.validate.ndjson" % self.module)
            with open(cur, "w") as fh:
                for t in traces:
                    fh.write("\n".join(t) + "\n")
            v = flows.validate(sd, self.module, cur, cfgkind=self.cfgkind, timeout=self.timeout)
            ctx.bump("trace_validation_states", v["tlc"].distinct)
            if v.get("error"):
                save = os.path.join(ctx.out, self.module + ".trace.out")
                with open(save, "w") as fh:
                    fh.write(v["tlc"].out)
                raise Inconclusive("trace validation of %s did not run: %s (%s)" % (self.module, v["error"], save))
            if v["accepted"]:
                events += v["total"]
                break
            idx, pos, bad = v["offending_index"], 0, None
            for i, t in enumerate(traces):
                if pos <= idx < pos + len(t):
                    bad = i
                    break
                pos += len(t)
            if bad is None:
                raise Inconclusive("cannot locate rejected line %s" % idx)
            upto = [json.loads(x) for x in traces[bad][: idx - pos + 1]]
            off = v["offending"]
            kind = upto[0].get("cfg", {}).get("kind", "?")
            sig = "%s:trace:%s:%s" % (self.sut, kind, off.get("op", "?"))
            if off.get("op") == "final" and off.get("hung"):
                sig += ":hung"
            what = "%s (%s): real code recorded %s, which the trace specification does not allow here (model: %s); history: %s" % (
                self.module, kind, json.dumps(off), json.dumps(v["expected"]), json.dumps(upto[1:-1][-14:]))
            if not any(x["sig"] == sig for x in ctx.violations):
                ctx.violation(self.name, sig, what, {"kind": "trace", "module": self.module, "trace": upto, "expected": v["expected"]})
            rejected += 1
            events += pos
            del traces[bad]
            if not traces:
                break
        else:
            ctx.inconclusive.append("%s: more than 12 rejected traces, rest not validated" % self.module)
        ctx.validated += total - rejected
        ctx.bump("validated_trace_events", events)
        self.info["trace"] = {"traces": total, "rejected": rejected, "events": sum(len(t) for t in traces)}
        if traces:
            ctx.sample({"unit": self.name, "flow": "code->model (recorded concurrent execution, first lines)",
                        "trace": [json.loads(x) for x in traces[0][:8]]})

    def run(self, ctx):
        from lib.units import run_h, classify_crash
        tr = os.path.join(ctx.out, self.name.replace(":", "_") + ".ndjson")
        args = self.thorough_args if (ctx.thorough and self.thorough_args is not None) else self.args
        p = run_h(ctx, [self.command, "-seed", str(ctx.seed), "-out", tr] + [str(a) for a in args], timeout=self.timeout)
        self.info["recorder"] = (p.stdout or "").strip()[-300:]
        if p.returncode != 0:
            crash = classify_crash(p.stderr or "")
            if crash:
                save = os.path.join(ctx.out, self.name.replace(":", "_") + ".crash.txt")
                with open(save, "w") as fh:
                    fh.write(p.stderr)
                ctx.violation(self.name, "%s:crash:%s" % (self.sut, crash[:60]),
                              "the real code crashed under the driver: %s (see %s)" % (crash, save), {"kind": "crash", "report": p.stderr[-6000:]})
                return
            raise Inconclusive("recorder %s died: %s" % (self.command, (p.stderr or p.stdout)[-2000:]))
        self.validate(ctx, tr)


def units(ctx):
    return [
        # sequential histories of input writes and structural changes: exhaustive TLC, complete LTS replay on the real
        # objects, recorded random histories validated by TLC
        SeqUnit("reactive", "Derived"),
        # all interleavings of the implementation-level models where the design has a hazard, + negative controls
        # SortedSet: its own mutex vs. the weight callback's execution lock (weight update || Delete)
        McUnit("reactive", "DerivedSortedImpl", "", name="DerivedSortedImpl", thorough_cfgkind="thorough"),
        McUnit("reactive", "DerivedSortedImpl", "unsub_under_mutex", name="ctl-sorted-unsub-under-mutex", expect="Terminates"),
        McUnit("reactive", "DerivedSortedImpl", "no_deleted_flag", name="ctl-sorted-no-deleted-flag", expect="NoCorruption"),
        # WaitGroup: pre-incremented atomic counter vs. concurrent Done / duplicate Add
        McUnit("reactive", "DerivedWaitGroupImpl", "", name="DerivedWaitGroupImpl"),
        McUnit("reactive", "DerivedWaitGroupImpl", "inc_after_insert", name="ctl-waitgroup-inc-after-insert", expect="NoEarlyTrigger"),
        McUnit("reactive", "DerivedWaitGroupImpl", "dup_no_trigger", name="ctl-waitgroup-dup-no-trigger", expect="TriggeredWhenEmptied"),
        McUnit("reactive", "DerivedRun", "", name="DerivedRun:spec"),
        # forced schedules + free-running writers / structural changers, derived = F(inputs) at quiescence, watchdog
        KindTraceUnit("reactive", "DerivedRun", "derivedrun", args=["-traces", 400], thorough_args=["-traces", 2000], sut="DerivedRun"),
    ]
