"""C16 - WorkerPool conserves tasks and always shuts down."""
from lib.units import SeqUnit, McUnit, TraceUnit


def units(ctx):
    return [
        # API-level spec at quiescent points (task bodies and the Submit yield point are gates): every arrival order of
        # Submit / held Submit / Shutdown / Start / waits / task completion, replayed on the real pool
        SeqUnit("workerpool", "WorkerPool", traces=(40, 40), thorough_traces=(300, 60), walks=(60, 25), thorough_walks=(500, 40)),
        # two Submits held past their running check while Shutdown arrives (3 threads; sub-alphabet, deeper)
        SeqUnit("workerpool", "WorkerPool", name="WorkerPool:two-held-submits", lts_kind="lts2", do_mc=False, do_trace=False,
                walks=(40, 20), thorough_walks=(400, 30)),
        SeqUnit("workerpool", "PoolGroup", traces=(40, 40), thorough_traces=(300, 60), walks=(60, 25), thorough_walks=(500, 40)),
        # the dispatcher's shutdown wake-up at lock level (all interleavings) + the model of the defect the code had
        McUnit("workerpool", "DispatcherWakeImpl", "", name="DispatcherWakeImpl"),
        McUnit("workerpool", "DispatcherWakeImpl", "nolock", name="ctl-signal-without-lock", expect="DispatcherExits"),
        # forced schedule of that counterexample (verif yield point in Stack.PopOrWait) + free-running submitters / nested submits / Shutdown, conservation validated by TLC on every recorded execution
        TraceUnit("workerpool", "PoolRun", "poolstress", args=["-traces", 40], thorough_args=["-traces", 400]),
    ]
