"""C16 - WorkerPool conserves tasks and always shuts down."""
from lib.units import SeqUnit, McUnit, TraceUnit


def units(ctx):
    return [
        # API-level spec at quiescent points (task bodies and the Submit yield point are gates): every arrival order of
        # Submit / held Submit / Shutdown / Start / waits / task completion, replayed on the real pool
        SeqUnit("workerpool", "WorkerPool", traces=(40, 40), thorough_traces=(300, 60), walks=(60, 25), thorough_walks=(500, 40)),
        # two Submits held past their running check while Shutdown arrives (3 threads; sub-alphabet, deeper)
        SeqUnit("workerpool", "WorkerPool", name="WorkerPool:two-held-submits", lts_kind="lts2", do_mc=False, do_trace=False,
                walks=(40, 20), thorough_walks=(400, 30)),
        SeqUnit("workerpool", "PoolGroup", traces=(40, 40), thorough_traces=(300, 60), walks=(60, 25), thorough_walks=(500, 40)),
        # implementation-level model of the whole pool (submitters, dispatcher, workers, controller script), all interleavings
        McUnit("workerpool", "WorkerPoolImpl", "code", name="WorkerPoolImpl:1w"),
        McUnit("workerpool", "WorkerPoolImpl", "code2", name="WorkerPoolImpl:2w-cancel"),
        McUnit("workerpool", "WorkerPoolImpl", "restart", name="WorkerPoolImpl:restart"),
        # negative controls: the three defects the code had and the seeded change C16-shutdown-cas, as model variants
        McUnit("workerpool", "WorkerPoolImpl", "v_mutex", name="ctl-running-under-mutex", expect="ShutdownTerminates"),
        McUnit("workerpool", "WorkerPoolImpl", "v_unguarded", name="ctl-submit-unguarded", expect="Conservation"),
        McUnit("workerpool", "WorkerPoolImpl", "v_signal", name="ctl-signal-without-lock", expect="ShutdownTerminates"),
        McUnit("workerpool", "WorkerPoolImpl", "v_flagfirst", name="ctl-shutdown-flag-first", expect="Conservation"),
        # the dispatcher's shutdown wake-up at lock level (all interleavings) + the model of the defect the code had
        McUnit("workerpool", "DispatcherWakeImpl", "", name="DispatcherWakeImpl"),
        McUnit("workerpool", "DispatcherWakeImpl", "nolock", name="ctl-wake-signal-without-lock", expect="DispatcherExits"),
        # forced schedule of that counterexample (verif yield point in Stack.PopOrWait) + free-running submitters / nested submits / Shutdown, conservation validated by TLC on every recorded execution
        TraceUnit("workerpool", "PoolRun", "poolstress", args=["-traces", 40], thorough_args=["-traces", 400]),
        # controlled executions of a group tree (stopping points: the pending counters' lock acquisitions, hook 8964680, and the
        # task bodies): a WaitChildren that returns has seen a moment at which nothing below the group was pending
        TraceUnit("workerpool", "GroupRun", "grouprun", args=["-traces", 60], thorough_args=["-traces", 800]),
    ]
