"""C09 - authenticated map/set: contents, content-only root, faithful reopen.

One module (spec/ads/AuthMap.tla), one adapter (harness/sut/ads) that builds ads.NewMap or ads.NewSet
over mapdb according to cfg.flavour.  Quick tier: TLC exhaustive on AuthMap.cfg (3 keys x 3 values),
transition tour over AuthMap.lts.cfg (map 3 keys x {"", "a"}, set 4 keys; the empty value as empty and as nil slice; 
observers in st / observers as stimuli), recorded histories over 4 keys x 3 values.
Thorough tier: TLC on AuthMap.thorough.cfg (4 keys), tour over AuthMap.ltsthorough.cfg (3 keys x 3 values).
"""
import glob
import os
import shutil

from lib.units import SeqUnit


class AdsUnit(SeqUnit):
    """SeqUnit whose thorough tier uses different constants for the exhaustive run (AuthMap.thorough.cfg)
    and for the exported transition system (AuthMap.ltsthorough.cfg): the former would be millions of edges."""

    def run_lts(self, ctx, sd):
        if ctx.thorough:
            tmp = os.path.join(ctx.out, "spec-lts")
            shutil.rmtree(tmp, ignore_errors=True)
            os.makedirs(tmp)
            for f in glob.glob(os.path.join(sd, "*.tla")):
                shutil.copy(f, tmp)
            shutil.copy(os.path.join(sd, self.module + ".ltsthorough.cfg"), os.path.join(tmp, self.module + ".thorough.cfg"))
            sd = tmp
        super().run_lts(ctx, sd)


def units(ctx):
    return [
        AdsUnit("ads", "AuthMap", traces=(200, 100), thorough_traces=(800, 120), mc_timeout=1500),
    ]
