"""C09 - authenticated map/set: contents, content-only root, faithful reopen."""
from lib.units import SeqUnit


def units(ctx):
    return [
        SeqUnit("ads", "AuthMap"),
    ]
