"""C19 - safemath returns the exact result or an overflow error, never wraps.

The functions are pure, so the sequential cfg/ev/Do convention (LTS tour / recorded histories) does not
fit; this file brings its own units around spec/safemath/SafeMath.tla (the exact meaning, integers for
8/16 bit, 15-bit limbs for 32/64 bit):

  SafeMathMC        TLC checks the lemmas that tie the independent formulations in the spec together
  SafeMath:records  code -> model: every call of the real functions (all int8/uint8 pairs and shifts,
                    a 16-bit boundary lattice, boundary-biased 32/64-bit records) is written as one
                    NDJSON record and TLC judges every record with Good (16 TLC processes in parallel)
  SafeMath:table    model -> code: TLC generates the complete 8-bit (+ 16-bit lattice) expectation table
                    from the spec, the harness compares the real functions with every entry
"""
import json
import os
from concurrent.futures import ThreadPoolExecutor

from lib import tlc
from lib.units import Inconclusive, McUnit, Unit, run_h

SUB = "safemath"
PAR = 16
GO = {"Add": "SafeAdd", "Sub": "SafeSub", "Mul": "SafeMul", "Div": "SafeDiv", "Shl": "SafeLeftShift",
      "MulUint64": "SafeMulUint64", "MulInt64": "SafeMulInt64", "MulDiv64": "Safe64MulDiv"}
BITS = {"int8": 8, "uint8": 8, "int16": 16, "uint16": 16, "int32": 32, "uint32": 32, "int64": 64, "uint64": 64}
TRACE_CFG = "INIT TInit\nNEXT TNext\nPOSTCONDITION Accepted\n"


def num(v):
    """record operand (int or limb value) -> python int (display and classification only)"""
    if isinstance(v, dict):
        x = 0
        for limb in reversed(v.get("m", [])):
            x = x * 32768 + limb
        return -x if v.get("n") else x
    return v


def rtype(rec):
    return {"MulUint64": "uint64", "MulInt64": "int64", "MulDiv64": "uint64"}.get(rec["op"], rec["t"])


def exact(rec):
    """the mathematical result, for the message only (the verdict is TLC's)"""
    a, b, op = num(rec["a"]), num(rec["b"]), rec["op"]
    try:
        if op == "Add":
            return a + b
        if op == "Sub":
            return a - b
        if op in ("Mul", "MulUint64", "MulInt64"):
            return a * b
        if op == "Shl":
            return a * 2 ** b
        if op == "Div":
            q = abs(a) // abs(b)
            return q if (a < 0) == (b < 0) else -q
        if op == "MulDiv64":
            return a * b // num(rec["c"])
    except ZeroDivisionError:
        return None
    return None


def call_text(rec):
    t = rtype(rec)
    args = [num(rec["a"]), num(rec["b"])] + ([num(rec["c"])] if "c" in rec else [])
    if rec["op"] in ("MulUint64", "MulInt64", "MulDiv64"):
        return "%s(%s)" % (GO[rec["op"]], ", ".join(str(x) for x in args))
    return "%s[%s](%s)" % (GO[rec["op"]], t, ", ".join(str(x) for x in args))


def classify(rec, want):
    """(sig, text) for a record of the real code that the model rejects; want = model's outcome"""
    t = rtype(rec)
    a, b = num(rec["a"]), num(rec["b"])
    tmin = -(2 ** (BITS[t] - 1)) if t.startswith("int") else 0
    if rec["ok"] and not want["ok"]:
        kind = "wrapped" if want["err"] == "overflow" else "no-error"
    elif not rec["ok"] and want["ok"]:
        kind = "spurious-error"
    elif rec["ok"]:
        kind = "wrong-value"
    else:
        kind = "wrong-error-class"
    tag = kind
    if kind == "wrapped" and rec["op"] in ("Mul", "MulInt64") and tmin < 0 and {a, b} == {-1, tmin}:
        tag = "neg-one-times-min"
    if kind == "wrapped" and rec["op"] == "Div" and tmin < 0 and (a, b) == (tmin, -1):
        tag = "min-div-neg-one"
    sig = "%s:%s:%s" % (GO[rec["op"]], t, tag)
    got = "(%s, nil)" % num(rec["r"]) if rec["ok"] else "(0, %s error)" % rec["err"]
    ex = exact(rec)
    if want["ok"]:
        dem = "the exact result %s is representable and must be returned" % ex
    else:
        dem = "the model demands the %s error" % want["err"] + (" (exact result %s does not fit %s)" % (ex, t) if ex is not None else "")
    return sig, "%s returned %s; %s" % (call_text(rec), got, dem)


def report(ctx, unit, bad):
    """bad: list of (rec, want). one violation per class"""
    groups = {}
    for rec, want in bad:
        sig, text = classify(rec, want)
        g = groups.setdefault(sig, {"n": 0, "first": (rec, want, text), "examples": []})
        g["n"] += 1
        if len(g["examples"]) < 5:
            g["examples"].append({"rec": rec, "want": want})
    for sig in sorted(groups):
        g = groups[sig]
        if any(v["sig"] == sig for v in ctx.violations):
            continue
        rec, want, text = g["first"]
        ctx.violation(unit, sig, "%s  [%d calls in this class, flow %s]" % (text, g["n"], unit),
                      {"kind": "record", "rec": rec, "want": want, "count": g["n"], "examples": g["examples"]})
    return {s: g["n"] for s, g in groups.items()}


def validate_parts(ctx, files, timeout=1500):
    """TLC judges every record of every file (one TLC process per file, PAR at a time).
    returns (records, bad[(rec, want)], states)"""
    sd = ctx.spec(SUB)

    def one(path):
        return path, tlc.run(sd, "SafeMathTrace", TRACE_CFG, timeout=timeout, workers=1, heap="3g",
                             extra_files={"records.ndjson": path})

    with ThreadPoolExecutor(max_workers=PAR) as ex:
        results = list(ex.map(one, files))
    total, bad, states = 0, [], 0
    for path, r in results:
        with open(path) as fh:
            lines = [x for x in fh.read().splitlines() if x.strip()]
        depth = [p for t, p in r.prints if t == "DEPTH"]
        if not r.ok() or not depth or int(depth[0]) != len(lines) + 1:
            save = os.path.join(ctx.out, os.path.basename(path) + ".tlc.out")
            with open(save, "w") as fh:
                fh.write(r.out)
            raise Inconclusive("record validation of %s did not complete: %s (%s)" % (os.path.basename(path), r.status, save))
        total += len(lines)
        states += r.distinct
        ctx.add_tlc(r)
        for t, p in r.prints:
            if t == "BAD":
                b = json.loads(p)
                bad.append((json.loads(lines[b["l"] - 1]), b["want"]))
    return total, bad, states


def part_files(prefix, parts):
    return [f for f in ("%s.%02d.ndjson" % (prefix, i) for i in range(parts)) if os.path.getsize(f) > 0]


class Records(Unit):
    """code -> model"""
    name = "SafeMath:records"

    def __init__(self):
        self.info = {}

    def summary(self):
        return json.dumps(self.info)

    def run(self, ctx):
        radius, nwide = (8, 200000) if ctx.thorough else (1, 20000)
        jobs = [("enum8", ["sm-enum8"], PAR),
                ("lat16", ["sm-lat16", "-radius", str(radius)], PAR if ctx.thorough else 4),
                ("wide", ["sm-wide", "-seed", str(ctx.seed), "-n", str(nwide)], PAR)]
        files = []
        for name, cmd, parts in jobs:
            prefix = os.path.join(ctx.out, name)
            p = run_h(ctx, cmd + ["-out", prefix, "-parts", str(parts)])
            if p.returncode != 0:
                raise Inconclusive("harness %s died: %s" % (cmd[0], (p.stderr or p.stdout)[-1500:]))
            self.info[name] = json.loads(p.stdout)["records"]
            files += part_files(prefix, parts)
        # wide parts are the slow ones: start them first
        files.sort(key=lambda f: (0 if "/wide." in f else 1, f))
        total, bad, states = validate_parts(ctx, files)
        if total != sum(self.info[k] for k in ("enum8", "lat16", "wide")):
            raise Inconclusive("records written %s, validated %d" % (self.info, total))
        self.info["rejected"] = report(ctx, self.name, bad)
        ctx.validated += total
        ctx.bump("records_validated_by_tlc", total)
        ctx.bump("records_8bit_exhaustive", self.info["enum8"])
        ctx.bump("records_16bit_lattice", self.info["lat16"])
        ctx.bump("records_wide_sampled", self.info["wide"])
        ctx.bump("records_rejected", len(bad))
        with open(files[0]) as fh:
            first = [json.loads(next(fh)) for _ in range(3)]
        ctx.sample({"unit": self.name, "flow": "code->model (records of real calls judged by SafeMath!Good)", "records": first})

    def replay(self, ctx, data):
        return replay_record(ctx, data)


GEN_CFG = "INIT GInit\nNEXT GNext\nCONSTANTS GenOps = {%s}\n GenTypes = {%s}\n GenA <- LatA\n"
# cfg files cannot hold negative numbers: the first-operand set is defined in a generated root module
GEN_ROOT = "---- MODULE SafeMathGenRun ----\nEXTENDS SafeMathGen\nLatA == {%s}\n====\n"


class Table(Unit):
    """model -> code"""
    name = "SafeMath:table"

    def __init__(self):
        self.info = {}

    def summary(self):
        return json.dumps(self.info)

    def run(self, ctx):
        sd = ctx.spec(SUB)
        radius = 8 if ctx.thorough else 1
        vals = os.path.join(ctx.out, "lat16.table.vals.json")
        p = run_h(ctx, ["sm-lat16", "-radius", str(radius), "-out", os.path.join(ctx.out, "lat16.unused"), "-parts", "1", "-vals", vals])
        if p.returncode != 0:
            raise Inconclusive("harness sm-lat16 died: %s" % (p.stderr or p.stdout)[-1500:])
        os.remove(os.path.join(ctx.out, "lat16.unused.00.ndjson"))
        lat = json.load(open(vals))
        ops = ["Add", "Sub", "Mul", "Div", "Shl"]
        tasks = [(op, t, "") for op in ops for t in ("int8", "uint8")]
        tasks += [(op, t, ", ".join(str(v) for v in lat[t])) for op in ops for t in ("int16", "uint16")]

        def gen(task):
            op, t, ga = task
            return task, tlc.run(sd, "SafeMathGenRun", GEN_CFG % ('"%s"' % op, '"%s"' % t), timeout=1500, workers=1, heap="3g",
                                 extra_modules={"SafeMathGenRun": GEN_ROOT % ga})

        with ThreadPoolExecutor(max_workers=PAR) as ex:
            results = list(ex.map(gen, tasks))
        rows_path = os.path.join(ctx.out, "table.rows.ndjson")
        nrows = 0
        with open(rows_path, "w") as fh:
            for task, r in results:
                rows = [pl for tag, pl in r.prints if tag == "ROW"]
                if not r.ok() or not rows:
                    save = os.path.join(ctx.out, "gen.%s.%s.out" % task[:2])
                    with open(save, "w") as o:
                        o.write(r.out)
                    raise Inconclusive("table generation %s/%s failed: %s (%s)" % (task[0], task[1], r.status, save))
                for pl in rows:
                    fh.write(pl + "\n")
                nrows += len(rows)
        rep_path = os.path.join(ctx.out, "table.report.json")
        p = run_h(ctx, ["sm-table", rows_path, "-out", rep_path])
        if p.returncode != 0:
            raise Inconclusive("harness sm-table died: %s" % (p.stderr or p.stdout)[-1500:])
        rep = json.load(open(rep_path))
        want8 = 2 * 5 * 256 * 256
        n8 = sum(n for k, n in rep["per_op_type"].items() if k.endswith("int8"))
        if rep["rows"] != nrows or n8 != want8:
            raise Inconclusive("expectation table incomplete: %d rows of %d, %d 8-bit entries of %d" % (rep["rows"], nrows, n8, want8))
        bad = []
        for m in rep["mismatches"]:
            rec = {"op": m["op"], "t": m["t"], "a": m["a"], "b": m["b"], "ok": m["got"]["ok"], "r": m["got"]["r"], "err": m["got"]["err"]}
            bad.append((rec, m["want"]))
        self.info = {"rows": rep["rows"], "entries": rep["entries"], "entries_8bit": n8, "mismatches": rep["mismatch_count"],
                     "rejected": report(ctx, self.name, bad)}
        ctx.replayed += rep["entries"]
        ctx.bump("table_entries_generated_by_tlc_and_compared", rep["entries"])
        ctx.bump("table_entries_8bit_exhaustive", n8)
        ctx.bump("table_mismatches", rep["mismatch_count"])
        with open(rows_path) as fh:
            row = json.loads(next(fh))
        ctx.sample({"unit": self.name, "flow": "model->code (expectation row generated by TLC, first entries)",
                    "row": {k: (v[:6] if isinstance(v, list) else v) for k, v in row.items()}})

    def replay(self, ctx, data):
        return replay_record(ctx, data)


def replay_record(ctx, data):
    """perform the recorded call again on the real code and let TLC judge the fresh record"""
    rec = data["rec"]
    stim = os.path.join(ctx.out, "replay.in.json")
    with open(stim, "w") as fh:
        json.dump({k: rec[k] for k in ("op", "t", "a", "b", "c") if k in rec}, fh)
    prefix = os.path.join(ctx.out, "replay")
    p = run_h(ctx, ["sm-one", stim, "-out", prefix])
    if p.returncode != 0:
        print("harness failed:", p.stderr or p.stdout)
        return 2
    try:
        total, bad, _ = validate_parts(ctx, [prefix + ".00.ndjson"])
    except Inconclusive as e:
        print(e)
        return 2
    fresh = json.loads(open(prefix + ".00.ndjson").readline())
    if bad:
        sig, text = classify(*bad[0])
        print("still rejected by SafeMath!Good [%s]: %s" % (sig, text))
        return 1
    print("accepted by SafeMath!Good: %s -> %s" % (call_text(fresh), json.dumps({k: fresh[k] for k in ("ok", "r", "err")})))
    return 0


def units(ctx):
    ctx.assumptions += [
        "int8/uint8: every operand pair and every shift count 0..255 is enumerated in both directions",
        "16-bit types: only a boundary lattice (values next to 0/min/max/powers of two) is enumerated; the generic "
        "functions share one body across all widths, which is the argument for the rest of the 16-bit pairs",
        "32/64-bit types and SafeMulUint64/SafeMulInt64/Safe64MulDiv: deterministic anchor pairs + seeded boundary-biased "
        "samples only, judged by TLC with base-2^15 limb arithmetic (quotients by their characteristic inequality)",
        "trusted: the harness' conversion of 32/64-bit values to limbs, and its mapping of errors to classes with errors.Is",
    ]
    return [
        McUnit(SUB, "SafeMathMC", thorough_cfgkind="thorough", timeout=1500),
        Records(),
        Table(),
    ]
