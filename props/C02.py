"""C02 - decoders are total and resource-bounded on arbitrary input (W1: serix.Decode; W2: Deserializer primitives,
stream Read* helpers, JSONDecode/MapDecode)."""
from props import W1, W2


def units(ctx):
    return W1.units_for(ctx, "C02") + W2.units_for(ctx, "C02")
