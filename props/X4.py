"""X4 - extension of the specification beyond the 20 listed properties (no entry in properties.jsonl):

  core/eventticker   EventTicker: registration API between retries (StartTicker(s) / StopTicker / HasTicker / QueueSize /
                     EvictUntil / Clear / Shutdown and the events triggered by each call)           spec/ext4/EvTicker.tla
                     retries with real (1-2 ms) intervals: ticks only while the ticker is registered, never closer than the
                     interval, N + 2 ticks then TickerFailed exactly once, at most one tick after StopTicker / EvictUntil
                     returned, none after Shutdown; forced schedules hold the Tick hook (Stop / Stop+Start / Evict /
                     Shutdown while a retry callback runs, the Tick of StartTicker itself held, restart from the
                     TickerFailed hook, two StartTicker at once)                                    spec/ext4/TickRun.tla
                     all interleavings of start / stop / retry callback + negative controls         spec/ext4/EvTickerImpl.tla
  runtime/timeutil   Ticker, PrecisionTicker, Sleep: handler invocations sequential and only while running, none decided
                     after Shutdown / cancel returned, WaitForShutdown / WaitForGracefulShutdown, Iterations, maxIterations,
                     lower bounds on the rates                                                      spec/ext4/TimeRun.tla
                     the run loop of Ticker, all interleavings + negative controls                  spec/ext4/TimeTickerImpl.tla
  web/websockethub   Hub + Client over an httptest server on loopback: delivery (at most once, sender order, filter, nothing
                     that was broadcast after the removal), dontDrop messages reach every registered client or the client is
                     dropped, dropped clients are removed, availability errors, stop removes everybody and never hangs
                                                                                                    spec/ext4/HubRun.tla
                     the unregister path (hub goroutine / pumps / channel), deadlock + negative control   spec/ext4/HubImpl.tla

Trace specs (TickRun, TimeRun, HubRun): code -> model, every recorded execution is validated by TLC; their guards use
real-time LOWER bounds only (timers never fire early), never upper bounds, so machine load cannot raise an alarm.  The
"<M>:spec" units check the trace specs themselves on a closed small alphabet.
"""
import json

from lib.units import SeqUnit, McUnit, TraceUnit, Inconclusive

# what the guard that rejected an event demands (appended to the generic message of TraceUnit)
EXPLAIN = {
    ("TickRun", "tick"): "a Tick that the contract does not allow here: the ticker is not registered (stopped / failed / evicted and no "
                         "callback was in flight), or it ticks closer than the retry interval (two retry chains), or more than N + 2 times, "
                         "or after Shutdown returned",
    ("TickRun", "failed"): "TickerFailed for a ticker that is not registered or has not ticked N + 2 times in this run (or a second TickerFailed)",
    ("TickRun", "started"): "TickerStarted although a ticker is registered / the index is evicted / the EventTicker is shut down (or announced twice)",
    ("TickRun", "stopped"): "TickerStopped for a ticker that is not registered",
    ("TickRun", "se"): "StartTicker returned without TickerStarted + Tick for an unregistered id (or with only one of them)",
    ("TickRun", "xe"): "StopTicker returned and the ticker is still registered",
    ("TickRun", "final"): "HasTicker / QueueSize at the end differ from the tickers that were started and neither stopped, failed nor evicted "
                          "(or a ticker never failed, or a call hung)",
    ("TimeRun", "hb"): "a handler / callback invocation that must not begin: overlapping the previous one, too early for the rate, beyond "
                       "maxIterations, or decided after Shutdown (context cancel) / WaitForGracefulShutdown had returned",
    ("TimeRun", "we"): "WaitForShutdown returned although nothing shut the ticker down",
    ("TimeRun", "ge"): "WaitForGracefulShutdown returned before a shutdown began or while a handler runs",
    ("TimeRun", "it"): "Iterations() differs from the number of callbacks performed",
    ("TimeRun", "ze"): "Sleep returned true before the duration elapsed / false without a cancellation / true for a context cancelled before a long sleep",
    ("TimeRun", "final"): "a call hung, a handler still runs, or Iterations / maxIterations disagree at the end",
    ("HubRun", "rx"): "a client received a message it must not get: unknown, twice, out of its sender's order, rejected by its filter, "
                      "addressed to another client, or broadcast after its onDisconnect",
    ("HubRun", "sync"): "10 s after the last call: a dontDrop message accepted while a (still connected) client was registered did not reach it, "
                        "or a client whose connection ended was not removed (hub goroutine stuck?)",
    ("HubRun", "be"): "BroadcastMsg result: nil while the hub is not running / ErrWebsocketServerUnavailable while it runs / 'timeout': the "
                      "call did not return within 25 s (hub goroutine stuck?)",
    ("HubRun", "qe"): "Client.Send result: nil for a removed client or a stopped hub / 'timeout': the call did not return within 25 s",
    ("HubRun", "re"): "Run returned with clients that were not removed (or without a cancellation)",
    ("HubRun", "disc"): "onDisconnect without onConnect, twice, or after Run returned",
    ("HubRun", "conn"): "onConnect twice or after Run returned",
    ("HubRun", "final"): "a call or Run hung, or clients are left after Run returned",
}


class X4Trace(TraceUnit):
    """TraceUnit whose violation messages say what the rejecting guard demands."""

    def run(self, ctx):
        before = len(ctx.violations)
        try:
            # nhooyr.io/websocket v1.8.10 (the hub's dependency) can panic with "WaitGroup is reused before previous Wait has
            # returned" when one goroutine closes a connection while another one notices its end (Conn.close adds to the
            # WaitGroup that Close / CloseNow wait on).  The driver recovers this on the dialling side; should the process
            # die of it on the hub's side, the recorder is run again (once) with another seed instead of blaming the hub.
            retry = False
            try:
                super().run(ctx)
            except Inconclusive as e:
                if "WaitGroup is reused" not in str(e):
                    raise
                retry = True
            lib = [v for v in ctx.violations[before:] if "WaitGroup is reused" in v["what"]]
            if lib:
                ctx.violations[:] = [v for v in ctx.violations if v not in lib]
                retry = True
            if retry:
                ctx.bump("recorder_retries_after_websocket_library_panic")
                saved, ctx.seed = ctx.seed, ctx.seed + 1000
                try:
                    super().run(ctx)
                finally:
                    ctx.seed = saved
        finally:
            for v in ctx.violations[before:]:
                parts = v["sig"].split(":")
                why = EXPLAIN.get((self.module, parts[2] if len(parts) > 2 else ""))
                if why and why not in v["what"]:
                    v["what"] += " -- " + why
                    try:
                        with open(v["replay"]) as fh:
                            d = json.load(fh)
                        d["what"] = v["what"]
                        with open(v["replay"], "w") as fh:
                            json.dump(d, fh, indent=1)
                    except Exception:
                        pass


def units(ctx):
    return [
        # ---- core/eventticker ----
        SeqUnit("ext4", "EvTicker", lts_kind="lts2" if ctx.thorough else "ltsq", traces=(60, 60), thorough_traces=(600, 80), walks=(100, 25), thorough_walks=(1000, 40)),
        McUnit("ext4", "EvTicker", "phantom", name="EvTicker:ctl-phantom-count", expect="SizeMatches"),
        McUnit("ext4", "EvTickerImpl", "", name="EvTickerImpl", thorough_cfgkind="thorough"),
        McUnit("ext4", "EvTickerImpl", "exists_only", name="ctl-evticker-exists-only", expect="OneChain"),
        McUnit("ext4", "EvTickerImpl", "unlocked_start", name="ctl-evticker-unlocked-start", expect="OneChain"),
        McUnit("ext4", "EvTickerImpl", "unlocked_resched", name="ctl-evticker-unlocked-resched", expect="SizeMatches"),
        McUnit("ext4", "TickRun", "", name="TickRun:spec"),
        X4Trace("ext4", "TickRun", "x4tick", args=["-traces", 60], thorough_args=["-traces", 400, "-forced", 12], sut="TickRun"),
        # ---- runtime/timeutil ----
        McUnit("ext4", "TimeTickerImpl", "", name="TimeTickerImpl"),
        McUnit("ext4", "TimeTickerImpl", "add_in_goroutine", name="ctl-ticker-add-in-goroutine", expect="GracefulMeans"),
        McUnit("ext4", "TimeTickerImpl", "random_select", name="ctl-ticker-random-select", expect="NoLateHandler"),
        McUnit("ext4", "TimeRun", "", name="TimeRun:spec"),
        X4Trace("ext4", "TimeRun", "x4time", args=["-traces", 45], thorough_args=["-traces", 600], sut="TimeRun"),
        # ---- web/websockethub ----
        McUnit("ext4", "HubImpl", "", name="HubImpl", deadlock=True, thorough_cfgkind="thorough"),
        McUnit("ext4", "HubImpl", "no_exit_case", name="ctl-hub-unregister-no-exit-case", expect="HubNotStuck", deadlock=True),
        McUnit("ext4", "HubRun", "", name="HubRun:spec", thorough_cfgkind="thorough"),
        McUnit("ext4", "HubRun", "two", name="HubRun:spec2"),
        X4Trace("ext4", "HubRun", "x4hub", args=["-traces", 36], thorough_args=["-traces", 240], sut="HubRun"),
    ]
