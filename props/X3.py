"""X3 - extension of the specification beyond the 20 listed properties (no entry in properties.jsonl).

  log                   the hierarchical logger: child loggers (names, paths, numbered children), level inheritance and
                        SetLogLevel on parents / children, Shutdown of a child / of the root, OnLogLevelActive, which
                        records reach the handler (capturing slog handler, the default text handler, EmptyLogger)
                                                                                     (spec/ext3/Logger.tla)
  runtime/valuenotifier Listener / Notify / Wait / Deregister at quiescent points: 3 harness threads, live / cancelled /
                        expired contexts and a context that holds the Wait between its deregistered check and its select
                        (spec/ext3/ValueNotifier.tla); all interleavings of the implementation (map, reference counts,
                        shared channels, flags) with five seeded defects as negative controls (ValueNotifierImpl.tla)
  app/shutdown          ShutdownHandler driven in a child process of the harness: Run, SelfShutdown before / right after /
                        after Run, real SIGTERM / SIGINT, order of log record - log file - event - daemon shutdown,
                        critical exit code, grace period, the once-a-second reporter     (spec/ext3/Shutdown.tla)

Per module: exhaustive TLC (invariants + step properties), LTS tours on the real objects (model -> code), recorded
random histories validated by TLC (code -> model), negative controls (Variant constants) that TLC must refute.

The three subsystems are independent, so their units run side by side (ParUnit: a few threads, each with the units of one
subsystem one after the other).  `--only <name>`, `--replay` and X3_SEQ=1 use the plain sequential list.
"""
import copy
import os
import sys
import threading
import time
import traceback

from lib.units import SeqUnit, McUnit, Unit, Inconclusive


class X3Unit(SeqUnit):
    """SeqUnit whose exported transition system always comes from the cfg kind given as lts_kind (both tiers; the
    thorough tier walks it with more and longer random walks; <M>.thorough.cfg is only model-checked)."""

    def run_lts(self, ctx, sd):
        saved, keep = ctx.thorough, self.walks
        if saved:
            self.walks = self.thorough_walks
        ctx.thorough = False
        try:
            super().run_lts(ctx, sd)
        finally:
            ctx.thorough, self.walks = saved, keep


class ParUnit(Unit):
    """Runs groups of units concurrently (a group = the units of one subsystem, in order).  Every group works on a shallow
    copy of the context: the lists / dicts (violations, samples, extra, inconclusive) are shared, violation() and bump()
    are serialised, the counters are merged at the end."""
    name = "X3"

    def __init__(self, groups):
        self.groups = groups
        self.lines = []

    def summary(self):
        return "%d units in %d groups" % (sum(len(g) for g in self.groups), len(self.groups))

    def run(self, ctx):
        lock = threading.Lock()
        counters = ("states", "transitions", "replayed", "validated")

        def locked(f):
            def g(*a, **k):
                with lock:
                    return f(*a, **k)
            return g

        def work(group, sub):
            for u in group:
                t1 = time.time()
                try:
                    u.run(sub)
                except Inconclusive as e:
                    ctx.inconclusive.append("%s: %s" % (u.name, e))
                except Exception:
                    traceback.print_exc()
                    ctx.inconclusive.append("%s: harness exception" % u.name)
                with lock:
                    print("unit %-28s %6.1fs  %s" % (u.name, time.time() - t1, u.summary()), flush=True)

        subs, threads = [], []
        for g in self.groups:
            sub = copy.copy(ctx)
            for c in counters:
                setattr(sub, c, 0)
            sub.violation = locked(ctx.violation)
            sub.bump = locked(ctx.bump)
            sub.sample = locked(ctx.sample)
            subs.append(sub)
            th = threading.Thread(target=work, args=(g, sub))
            th.start()
            threads.append(th)
        for th in threads:
            th.join()
        for sub in subs:
            for c in counters:
                setattr(ctx, c, getattr(ctx, c) + getattr(sub, c))


def logger_units():
    w = dict(walks=(60, 25), thorough_walks=(2000, 40))
    return [
        # exhaustive: trees of 3 loggers + 1 hook (capture / EmptyLogger); replay: trees of 3 loggers, levels, child shutdown
        X3Unit("ext3", "Logger", traces=(60, 50), thorough_traces=(800, 100), **w),
        # replay: 2 loggers, 2 OnLogLevelActive registrations (capture / EmptyLogger)
        X3Unit("ext3", "Logger", name="Logger:hooks", lts_kind="ltsH", do_mc=False, do_trace=False, **w),
        # replay: the default text handler (asynchronous writer, column widths, root shutdown), every logging entry point
        X3Unit("ext3", "Logger", name="Logger:text", lts_kind="ltsT", do_mc=False, do_trace=False, **w),
        # further exhaustive slices: text handler with 3 loggers; 2 hooks on 2 loggers
        McUnit("ext3", "Logger", "mcT", name="Logger:mcT", workers=4),
        McUnit("ext3", "Logger", "mcH", name="Logger:mcH", workers=4),
        # negative controls: "<" instead of "<=", followers that do not follow, the number of an enumerated child reused
        McUnit("ext3", "Logger", "ctl_strict", name="ctl-logger-strict", expect="Steps", workers=2),
        McUnit("ext3", "Logger", "ctl_nofollow", name="ctl-logger-nofollow", expect="Steps", workers=2),
        McUnit("ext3", "Logger", "ctl_samenum", name="ctl-logger-samenum", expect="UniqueNames", workers=2),
        McUnit("ext3", "Logger", "ctl_deep", name="ctl-logger-deep", expect="Steps", workers=2, thorough_only=True),
        McUnit("ext3", "Logger", "ctl_relog", name="ctl-logger-relog", expect="Steps", workers=2, thorough_only=True),
    ]


def notifier_units():
    w = dict(walks=(60, 20), thorough_walks=(1000, 30))
    return [
        # replay: 2 listeners x 2 values, live / cancelled / expired contexts
        X3Unit("ext3", "ValueNotifier", traces=(60, 50), thorough_traces=(600, 80), **w),
        # replay: 2 listeners of one value, a Wait held between its deregistered check and its select
        X3Unit("ext3", "ValueNotifier", name="ValueNotifier:gated", lts_kind="ltsG", do_mc=False, do_trace=False, **w),
        # replay: 3 listeners of one value
        X3Unit("ext3", "ValueNotifier", name="ValueNotifier:3x1", lts_kind="lts2", do_mc=False, do_trace=False, **w),
        # implementation level, all interleavings: 2 listeners (creator/waiter + deregisterer + canceller each), 2 notifiers
        McUnit("ext3", "ValueNotifierImpl", "", name="ValueNotifierImpl", thorough_cfgkind="thorough"),
        # negative controls: the code before the X3 fix, the code before 33da508, three more seeded defects
        McUnit("ext3", "ValueNotifierImpl", "no_priority", name="ctl-vn-no-priority", expect="OkOnlyIfNotified", workers=2),
        McUnit("ext3", "ValueNotifierImpl", "old_remove", name="ctl-vn-old-remove", expect="OkOnlyIfNotified", workers=2),
        McUnit("ext3", "ValueNotifierImpl", "no_identity", name="ctl-vn-no-identity", expect="MustWake", workers=2),
        McUnit("ext3", "ValueNotifierImpl", "no_delete", name="ctl-vn-no-delete", expect="NoPanic", workers=2, thorough_only=True),
        McUnit("ext3", "ValueNotifierImpl", "no_recheck", name="ctl-vn-no-recheck", expect="NoPanic", workers=2, thorough_only=True),
        McUnit("ext3", "ValueNotifier", "ctl_late", name="ctl-vn-late", expect="TypeOK", workers=2),
        McUnit("ext3", "ValueNotifier", "ctl_wakeall", name="ctl-vn-wakeall", expect="Steps", workers=2, thorough_only=True),
    ]


def shutdown_units():
    return [
        X3Unit("ext3", "Shutdown", traces=(30, 10), thorough_traces=(300, 16), walks=(20, 8), thorough_walks=(400, 10)),
        # negative controls: requests made before the handler waits are lost (the code before the X3 fix); a second request
        # is handled again; the daemon is stopped before the event hooks ran
        McUnit("ext3", "Shutdown", "ctl_lossy", name="ctl-sd-lossy", expect="NotLost", workers=1),
        McUnit("ext3", "Shutdown", "ctl_twice", name="ctl-sd-twice", expect="Once", workers=1),
        McUnit("ext3", "Shutdown", "ctl_early", name="ctl-sd-early", expect="Steps", workers=1, thorough_only=True),
    ]


def units(ctx):
    lg, vn, sd = logger_units(), notifier_units(), shutdown_units()
    groups = [[lg[0]] + lg[3:5], lg[1:3] + lg[5:], vn[:3], sd[:1], vn[3:] + sd[1:]]
    if "--only" in sys.argv or "--replay" in sys.argv or os.environ.get("X3_SEQ"):
        return [u for g in groups for u in g]
    return [ParUnit(groups)]
