"""C17 - Starving/DAG mutexes: exclusion, no lost wake-up, condition waits."""
from lib.units import SeqUnit


def units(ctx):
    return [
        SeqUnit("syncutils", "StarvingMutex", traces=(40, 40), thorough_traces=(300, 60), walks=(100, 25)),
        SeqUnit("syncutils", "DAGMutex", traces=(40, 40), thorough_traces=(300, 60), walks=(100, 25)),
    ]
