"""C17 - Starving/DAG mutexes: exclusion, no lost wake-up, condition waits."""
from lib.units import SeqUnit, McUnit, TraceUnit


def units(ctx):
    w = dict(traces=(40, 40), thorough_traces=(300, 60), walks=(100, 25), thorough_walks=(1000, 40))
    return [
        # all interleavings of the implementation-level model (internal mutex, condition queues, signal windows)
        McUnit("syncutils", "StarvingMutexImpl", "", name="StarvingMutexImpl:liveness", thorough_cfgkind="thorough", timeout=1800),
        McUnit("syncutils", "StarvingMutexImpl", "safety", name="StarvingMutexImpl:safety"),
        # negative controls: the same model with a seeded defect must be refuted by TLC
        McUnit("syncutils", "StarvingMutexImpl", "nosignal", name="StarvingMutexImpl:ctl-nosignal", expect="NoLostWakeup"),
        McUnit("syncutils", "StarvingMutexImpl", "ignorew", name="StarvingMutexImpl:ctl-ignorew", expect="Exclusion"),
        # API-level specs at quiescent points, replayed on the real goroutines (all arrival orders) + random traces
        SeqUnit("syncutils", "StarvingMutex", **w),
        SeqUnit("syncutils", "DAGMutex", **w),
        SeqUnit("syncutils", "CounterWait", **w),
        SeqUnit("syncutils", "StackWait", **w),
        # free-running contention, holders discipline validated by TLC
        TraceUnit("syncutils", "LockHold", "contend", args=["-traces", 20, "-ops", 30],
                  thorough_args=["-traces", 200, "-ops", 40]),
        # free-running rounds on syncutils.Stack: parked consumers, then producers and condition waiters together; at the
        # quiescent end nobody may be blocked whose wake-up condition holds (every change is broadcast, on every path)
        TraceUnit("syncutils", "StackRun", "stackrun", args=["-traces", 150], thorough_args=["-traces", 2000]),
    ]
