"""C18 - timed queue / executor / task executor: never early, at most once, cancel honoured."""
import json
import os
import re
import sys
import threading

from lib import flows
from lib.units import SeqUnit, McUnit, TraceUnit, Unit, Inconclusive, run_h, split_traces


class _Sub:
    """Per-thread stand-in for Ctx: read-only attributes come from the real one, everything a unit adds (violations,
    counters, samples) is collected here and merged when the threads have joined."""

    def __init__(self, ctx, tag):
        self._p, self._tag = ctx, re.sub(r"[^A-Za-z0-9]", "_", tag)
        self.violations, self.inconclusive, self.samples, self.extra = [], [], [], {}
        self.states = self.transitions = self.replayed = self.validated = 0

    def __getattr__(self, k):
        return getattr(self._p, k)

    def add_tlc(self, r):
        self.states += r.distinct
        self.transitions += r.generated

    def bump(self, key, n=1):
        self.extra[key] = self.extra.get(key, 0) + n

    def sample(self, s):
        self.samples.append(s)

    def violation(self, unit, sig, what, replay_obj):
        path = os.path.join(self._p.out, "violation_%s_%d.json" % (self._tag, len(self.violations) + 1))
        replay_obj = dict(replay_obj)
        replay_obj.update({"property": self._p.pid, "unit": unit, "sig": sig, "what": what})
        with open(path, "w") as fh:
            json.dump(replay_obj, fh, indent=1)
        self.violations.append({"unit": unit, "sig": sig, "what": what, "replay": path})

    def merge(self):
        p = self._p
        p.states += self.states
        p.transitions += self.transitions
        p.replayed += self.replayed
        p.validated += self.validated
        p.inconclusive += self.inconclusive
        for v in self.violations:
            if not any(x["sig"] == v["sig"] for x in p.violations):
                p.violations.append(v)
        for s in self.samples:
            p.sample(s)
        for k, n in self.extra.items():
            p.bump(k, n)


class Parallel(Unit):
    """Runs independent units side by side (TLC runs: each JVM start costs ~1.5 s; quiescent-point replays: one harness
    process each, quiescence is a per-process notion)."""

    def __init__(self, name, subs):
        self.name, self.subs, self.info = name, subs, {}

    def summary(self):
        return json.dumps(self.info)

    def run(self, ctx):
        errs, proxies = [], []

        def one(u, sub):
            try:
                u.run(sub)
            except Inconclusive as e:
                errs.append("%s: %s" % (u.name, e))
            except Exception as e:  # noqa: BLE001 - a crashed sub-unit must not be mistaken for a pass
                errs.append("%s: exception %r" % (u.name, e))
            inf = getattr(u, "info", {}) or {}
            self.info[u.name] = [inf.get("status"), inf.get("violated"), inf.get("distinct"), inf.get("wall")] if "status" in inf else inf

        ths = []
        for u in self.subs:
            sub = _Sub(ctx, u.name)
            proxies.append(sub)
            ths.append(threading.Thread(target=one, args=(u, sub)))
        for t in ths:
            t.start()
        for t in ths:
            t.join()
        for sub in proxies:
            sub.merge()
        if errs:
            raise Inconclusive("; ".join(errs))

    def replay(self, ctx, data):
        for u in self.subs:
            if u.name == data.get("unit"):
                return u.replay(ctx, data)
        return 2


class TimedTrace(TraceUnit):
    """TraceUnit whose violation signature names the scenario and the rejected event, so that different defects
    are reported separately (lib's validate_file signs by event kind only)."""

    def run(self, ctx):
        tr = os.path.join(ctx.out, self.name.replace(":", "_") + ".ndjson")
        args = self.thorough_args if (ctx.thorough and self.thorough_args is not None) else self.args
        p = run_h(ctx, [self.command, "-seed", str(ctx.seed), "-out", tr] + [str(a) for a in args], timeout=self.timeout)
        self.info["recorder"] = (p.stdout or "").strip()[-300:]
        if p.returncode != 0:
            from lib.units import classify_crash
            crash = classify_crash(p.stderr or "")
            if crash:   # a Go panic / fatal error whose first frame outside the runtime lies in hive.go = behaviour of the code under test
                save = os.path.join(ctx.out, self.name.replace(":", "_") + ".crash.txt")
                with open(save, "w") as fh:
                    fh.write(p.stderr)
                ctx.violation(self.name, "Timed:crash:%s" % crash[:60],
                              "the real code crashed under the driver: %s (see %s)" % (crash, save), {"kind": "crash", "report": p.stderr[-6000:]})
                return
            raise Inconclusive("recorder %s died: %s" % (self.command, (p.stderr or p.stdout)[-2000:]))
        m = re.search(r'"discarded": (\d+)', p.stdout or "")
        if m and int(m.group(1)):
            ctx.bump("timed_runs_discarded_for_stalls", int(m.group(1)))
        sd = ctx.spec(self.sub)
        with open(tr) as fh:
            traces = split_traces([l for l in fh.read().splitlines() if l.strip()])
        total, rejected, events = len(traces), 0, 0
        for rnd in range(12):
            cur = os.path.join(ctx.out, "%s.validate.ndjson" % self.module)
            with open(cur, "w") as fh:
                for t in traces:
                    fh.write("\n".join(t) + "\n")
            v = flows.validate(sd, self.module, cur, cfgkind=self.cfgkind, timeout=self.timeout)
            ctx.bump("trace_validation_states", v["tlc"].distinct)
            if v.get("error"):
                save = os.path.join(ctx.out, self.module + ".trace.out")
                with open(save, "w") as fh:
                    fh.write(v["tlc"].out)
                raise Inconclusive("trace validation of %s did not run: %s (%s)" % (self.module, v["error"], save))
            if v["accepted"]:
                events += v["total"]
                break
            idx, pos, bad = v["offending_index"], 0, None
            for i, t in enumerate(traces):
                if pos <= idx < pos + len(t):
                    bad = i
                    break
                pos += len(t)
            if bad is None:
                raise Inconclusive("cannot locate rejected line %s" % idx)
            t = traces[bad]
            upto = [json.loads(x) for x in t[: idx - pos + 1]]
            off = v["offending"]
            scen = next((e.get("name") for e in upto if e.get("op") == "note"), "?")
            scen = re.sub(r"^free-\d+$", "free", scen)
            extra = ""
            if off.get("op") == "kcancelEnd":
                extra = ":" + str(off.get("res")).lower()
            if off.get("op") == "final" and off.get("hung"):
                extra = ":hung"
            sig = "Timed:trace:%s:%s%s" % (scen, off.get("op", "?"), extra)
            what = "Timed (%s): the real code recorded %s, which the API-level spec does not allow here" % (scen, json.dumps(off))
            if v.get("invariant"):
                sig += ":" + v["invariant"]
            if not any(x["sig"] == sig for x in ctx.violations):
                ctx.violation(self.name, sig, what, {"kind": "trace", "module": self.module, "trace": upto, "expected": v["expected"]})
            rejected += 1
            events += pos
            del traces[bad]
            if not traces:
                break
        else:
            ctx.inconclusive.append("%s: more than 12 rejected traces, rest not validated" % self.module)
        ctx.validated += total - rejected
        ctx.bump("validated_trace_events", events)
        self.info["trace"] = {"traces": total, "rejected": rejected}
        if traces:
            ctx.sample({"unit": self.name, "flow": "code->model (recorded trace with time stamps, first lines)",
                        "trace": [json.loads(x) for x in traces[0][:8]]})


class ConfirmedSeqUnit(SeqUnit):
    """SeqUnit for quiescent-point replay of objects with timers: a poller whose element is already due waits for an
    expired timer that the Go scheduler still has to run, so on a very busy machine "everybody is parked" can be observed
    a moment too early.  Every mismatch is therefore re-applied to a fresh real object (up to 3 times); only a mismatch
    that shows again is reported (a glitch of the observation is counted in the evidence, it is never an alarm)."""

    def _confirm(self, ctx, before):
        keep = []
        for v in ctx.violations[before:]:
            with open(v["replay"]) as fh:
                data = json.load(fh)
            mm = None
            if data.get("kind") == "path":
                mm = data["mismatch"]
            elif data.get("kind") == "trace":
                tr, exp = data["trace"], data.get("expected") or []
                mm = {"sut": self.sut, "cfg": tr[0]["cfg"],
                      "path": [tr[0]] + [{"stim": {k: x for k, x in e.items() if k not in ("res", "st")}} for e in tr[1:]],
                      "expected": [{"res": e.get("res"), "st": e.get("st")} for e in exp if isinstance(e, dict)]}
            again = mm is None
            for _ in range(3):
                if again:
                    break
                pth = os.path.join(ctx.out, "confirm_path_%s.json" % self.sut)
                with open(pth, "w") as fh:
                    json.dump(mm, fh)
                again = run_h(ctx, ["path", self.sut, pth], timeout=120).returncode != 0
            if again:
                keep.append(v)
            else:
                ctx.bump("observation_glitches_not_reproduced")
        ctx.violations[before:] = keep

    def run_lts(self, ctx, sd):
        before = len(ctx.violations)
        super().run_lts(ctx, sd)
        self._confirm(ctx, before)

    def run_trace(self, ctx, sd):
        before = len(ctx.violations)
        super().run_trace(ctx, sd)
        self._confirm(ctx, before)


def ctl(module, kind, expect):
    return McUnit("timed", module, kind, name="ctl-%s-%s" % (module, kind.replace("_", "-")), expect=expect, workers=2)


def units(ctx):
    us = [
        # pattern 2: implementation-level models, all interleavings, abstract clock
        Parallel("TimedImpl+TaskExecImpl", [
            McUnit("timed", "TimedImpl", "quick", name="TimedImpl", workers=8),
            McUnit("timed", "TimedImpl", "quicksize", name="TimedImpl:maxsize", workers=4),
            McUnit("timed", "TaskExecImpl", "quick", name="TaskExecImpl", workers=2),
        ]),
        # negative controls: the defects the code had (fixed, see findings/C18.json) and the Appendix-B mutations must be refuted
        Parallel("negative-controls", [
            ctl("TimedImpl", "select_race", "CancelHonoured"),
            ctl("TimedImpl", "add_unguarded", "QuietDelivered"),
            ctl("TimedImpl", "broadcast_if_empty", "QuietShutdown"),
            ctl("TimedImpl", "early_timer", "NeverEarly"),
            ctl("TimedImpl", "cancel_keeps_heap", "CancelRemoves"),
            ctl("TimedImpl", "shutdown_drains", "QuietDelivered"),
            ctl("TaskExecImpl", "delete_after_two", "OnePendingPerId"),
            ctl("TaskExecImpl", "delete_after_replaced", "Replaces"),
            ctl("TaskExecImpl", "delete_after_false", "CancelFalseMeansNonePending"),
            ctl("TaskExecImpl", "delete_after_true", "CancelTrueMeansPrevented"),
            ctl("TaskExecImpl", "delete_after_identity", "CancelTrueMeansPrevented"),
            ctl("TaskExecImpl", "delete_before_noskip", "CancelTrueMeansPrevented"),
        ]),
        # pattern 1: the API-level models of Queue (Poll on harness threads) and TaskExecutor (callbacks are gates) replayed
        # on the real objects at quiescent points: every order of Add / Poll(wait) / Cancel / Shutdown(flags), resp.
        # ExecuteAt(id, due | hours ahead) / Cancel(id) / callback return / Shutdown(flags) with 1-2 workers
        Parallel("TimedQueue+TaskExec", [
            ConfirmedSeqUnit("timed", "TimedQueue", traces=(30, 25), thorough_traces=(300, 30), walks=(40, 15), thorough_walks=(300, 25)),
            ConfirmedSeqUnit("timed", "TaskExec", traces=(30, 25), thorough_traces=(300, 30), walks=(40, 15), thorough_walks=(300, 25)),
        ]),
        # pattern 3: forced schedules (TLC's counterexamples through the verif yield points and callback gates) + free-running
        # scenarios of the real Executor / TaskExecutor with monotonic time stamps, validated by TLC (now' = ts)
        TimedTrace("timed", "Timed", "timeddrive", args=["-traces", 36, "-reps", 8], thorough_args=["-traces", 200, "-reps", 12], sut="Timed"),
    ]
    if "--replay" in sys.argv:      # check.py looks a violation's unit up by name among the top-level units
        us = [x for u in us for x in (u.subs if isinstance(u, Parallel) else [u])]
    if ctx.thorough:
        us += [
            McUnit("timed", "TimedImpl", "thorough", name="TimedImpl:thorough", timeout=1800),
            McUnit("timed", "TimedImpl", "size2", name="TimedImpl:size2", timeout=1800),
            McUnit("timed", "TimedImpl", "live", name="TimedImpl:liveness", timeout=1800),
            McUnit("timed", "TaskExecImpl", "thorough", name="TaskExecImpl:thorough", timeout=1800),
            McUnit("timed", "Timed", "", name="Timed:spec", timeout=1800),
        ]
    return us
