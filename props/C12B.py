"""C12 part B - Walker, TimeHeap, IndexedStorage, OnChangeMap, SubscriptionManager are equivalent
to their abstract models (spec/containers2, harness/sut/containers2)."""
import os

from lib.units import SeqUnit, Inconclusive


class TimeHeapUnit(SeqUnit):
    """TimeHeap runs on the real clock with coarse epochs (see TimeHeap.tla / timeheap.go).  The adapter
    supervises its own timing margins and reports a failed margin out-of-band; such a run proves nothing
    either way, so it is discarded and repeated (never an alarm); persistent failure = inconclusive."""

    ATTEMPTS = 3

    def run(self, ctx):
        marker = os.path.join(ctx.out, "TimeHeap.margin")
        os.environ["VERIF_TIMEHEAP_MARGIN"] = marker
        try:
            for attempt in range(1, self.ATTEMPTS + 1):
                if os.path.exists(marker):
                    os.remove(marker)
                nviol = len(ctx.violations)
                ninc = len(ctx.inconclusive)
                do_mc, self.do_mc = self.do_mc, self.do_mc and attempt == 1
                try:
                    super().run(ctx)
                finally:
                    self.do_mc = do_mc
                if not os.path.exists(marker):
                    self.info["timing_margin_failures"] = 0
                    self.info["attempts"] = attempt
                    return
                with open(marker) as fh:
                    n = len([l for l in fh.read().splitlines() if l.strip()])
                # the machine was too slow/busy for the epoch construction: drop what this attempt concluded
                del ctx.violations[nviol:]
                del ctx.inconclusive[ninc:]
                self.info["timing_margin_failures"] = n
            raise Inconclusive("TimeHeap: real-time margins failed in %d consecutive runs (machine too loaded)" % self.ATTEMPTS)
        finally:
            os.environ.pop("VERIF_TIMEHEAP_MARGIN", None)


def units(ctx):
    return [
        SeqUnit("containers2", "Walker"),
        # few sleeping steps: every Tick is a >= 30 ms sleep
        TimeHeapUnit("containers2", "TimeHeap", traces=(12, 50), thorough_traces=(60, 80),
                     walks=(12, 25), thorough_walks=(60, 40)),
        SeqUnit("containers2", "IndexedStorage"),
        SeqUnit("containers2", "OnChangeMap"),
        SeqUnit("containers2", "SubMgr"),
    ]
