"""C12 part B - Walker, TimeHeap, IndexedStorage, OnChangeMap, SubscriptionManager are equivalent
to their abstract models (spec/containers2, harness/sut/containers2)."""
import os

from lib.units import SeqUnit, Inconclusive


class TimeHeapUnit(SeqUnit):
    """TimeHeap runs on the real clock with coarse epochs (see TimeHeap.tla / timeheap.go).  The adapter
    supervises its own timing margins and reports a failed margin out-of-band; such a run proves nothing
    either way, so that flow is discarded and repeated (never an alarm); persistent failure = inconclusive."""

    ATTEMPTS = 4

    def _flow(self, ctx, marker, **flags):
        """run the parent's unit with only the given flows enabled, repeating while the margin marker appears"""
        saved = (self.do_mc, self.do_lts, self.do_trace)
        fails = 0
        try:
            self.do_mc, self.do_lts, self.do_trace = (flags.get("mc", False) and saved[0], flags.get("lts", False) and saved[1],
                                                      flags.get("trace", False) and saved[2])
            for attempt in range(1, self.ATTEMPTS + 1):
                if os.path.exists(marker):
                    os.remove(marker)
                nviol, ninc = len(ctx.violations), len(ctx.inconclusive)
                extra = dict(ctx.extra)
                counters = (ctx.replayed, ctx.validated)
                super().run(ctx)
                if not os.path.exists(marker):
                    return fails
                with open(marker) as fh:
                    fails += len([l for l in fh.read().splitlines() if l.strip()])
                # the machine was too slow/busy for the epoch construction: drop what this attempt concluded
                del ctx.violations[nviol:]
                del ctx.inconclusive[ninc:]
                ctx.extra = extra
                ctx.replayed, ctx.validated = counters
            self.info["timing_margin_failures"] = fails
            raise Inconclusive("TimeHeap: real-time margins failed in %d consecutive runs of %s (machine too loaded)"
                               % (self.ATTEMPTS, "/".join(k for k, v in flags.items() if v)))
        finally:
            self.do_mc, self.do_lts, self.do_trace = saved

    def run(self, ctx):
        marker = os.path.join(ctx.out, "TimeHeap.margin")
        os.environ["VERIF_TIMEHEAP_MARGIN"] = marker
        try:
            self._flow(ctx, marker, mc=True)
            n = self._flow(ctx, marker, lts=True)
            n += self._flow(ctx, marker, trace=True)
            self.info["discarded_runs_timing_margin"] = n
        finally:
            os.environ.pop("VERIF_TIMEHEAP_MARGIN", None)
            if os.path.exists(marker):
                os.remove(marker)


def units(ctx):
    return [
        SeqUnit("containers2", "Walker"),
        # few sleeping steps: every Tick is a >= 30 ms sleep
        TimeHeapUnit("containers2", "TimeHeap", traces=(12, 50), thorough_traces=(30, 60),
                     walks=(12, 25), thorough_walks=(30, 30)),
        SeqUnit("containers2", "IndexedStorage"),
        SeqUnit("containers2", "OnChangeMap"),
        SeqUnit("containers2", "SubMgr"),
    ]
