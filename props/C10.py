"""C10 - ds.List behaves exactly like Go's container/list.

One TLA+ module (spec/list/List.tla, a pointer-level heap model of container/list), one exported
transition system, three real objects walked over it: Go's container/list (the reference - if it
disagrees the MODEL is wrong: inconclusive, never an alarm), the lock-free and the thread-safe
hive.go list (disagreement = VIOLATION).  Recorded random histories of all three are validated
by TLC against the same module.

The LTS has > 10^5 edges, so this unit brings its own exporter (compact state ids) and its own
walker (`h-C10 listlts`, harness/sut/list/walker.go); exhaustive TLC, LTS walk and trace
validation run concurrently.
"""
import json
import os
import threading
import time

from lib import flows, tlc
from lib.units import SeqUnit, Inconclusive, run_h, validate_file

LTS_KINDS = ["lts", "lts2", "lts3"]   # List.lts3.cfg: iterations whose callback removes an element (not on the thread-safe flavour,
                                       # which holds its lock while it iterates)   # List.lts.cfg: all calls, 3 handles; List.lts2.cfg: element-creating calls, 4 handles
REFERENCE = "List.go"
SUTS = [REFERENCE, "List.lockfree", "List.threadsafe"]
KIND_SUTS = {"lts3": [REFERENCE, "List.lockfree"]}

GEN = """---- MODULE ListGen ----
EXTENDS List, Json
GenDump == PrintT(<<"E", ToJson([f |-> ToString(Sid), t |-> ToString(Sid'), i |-> (ev.op = "reset"), c |-> cfg, e |-> ev'])>>)
====
"""


class ListUnit(SeqUnit):
    def __init__(self):
        super().__init__("list", "List")
        self.name = "List"

    # -- the three flows ------------------------------------------------------------------------
    def flow_mc(self, ctx, sd, box):
        kind = "thorough" if ctx.thorough else ""
        r = flows.mc(sd, self.module, kind, timeout=self.mc_timeout, coverage=False)
        box["mc"] = r
        if ctx.thorough:
            box["mc2"] = flows.mc(sd, self.module, "deep", timeout=self.mc_timeout)

    def flow_lts(self, ctx, sd, box, kind):
        edges = os.path.join(ctx.out, "List.%s.edges" % kind)
        cfg = flows._strip_props(flows.read_cfg(sd, self.module, kind))
        cfg = "SPECIFICATION Spec\n" + cfg + "\nVIEW View\nACTION_CONSTRAINT GenDump\n"
        r = tlc.run(sd, "ListGen", cfg, extra_modules={"ListGen": GEN}, timeout=self.mc_timeout, workers=1)
        n, seen = 0, set()
        with open(edges, "w") as fh:
            for tag, payload in r.prints:
                if tag == "E" and payload not in seen:
                    seen.add(payload)
                    fh.write(payload + "\n")
                    n += 1
        box[kind] = (r, n)
        if not r.ok() or n == 0:
            return
        walks, depth = self.thorough_walks if ctx.thorough else self.walks
        prefix = os.path.join(ctx.out, "List." + kind)
        box["walk." + kind] = run_h(ctx, ["listlts", edges, "-suts", ",".join(KIND_SUTS.get(kind, SUTS)), "-seed", str(ctx.seed), "-walks", str(walks),
                                  "-depth", str(depth), "-out", prefix], timeout=1500)

    def flow_record(self, ctx, box):
        ntr, ln = self.thorough_traces if ctx.thorough else self.traces
        for sut in SUTS:
            tr = os.path.join(ctx.out, sut + ".ndjson")
            box["rec." + sut] = (run_h(ctx, ["record", sut, "-seed", str(ctx.seed), "-traces", str(ntr), "-len", str(ln), "-out", tr]), tr)

    # -- orchestration --------------------------------------------------------------------------
    def run(self, ctx):
        sd = ctx.spec(self.sub)
        box = {}
        errs = []

        def guard(f, *a):
            try:
                f(*a)
            except Exception as e:  # reported below, in the main thread
                errs.append(e)

        ths = [threading.Thread(target=guard, args=(self.flow_mc, ctx, sd, box)),
               threading.Thread(target=guard, args=(self.flow_lts, ctx, sd, box, "lts")),
               threading.Thread(target=guard, args=(self.flow_record, ctx, box)),
               threading.Thread(target=guard, args=(self.flow_lts, ctx, sd, box, "lts2")),
               threading.Thread(target=guard, args=(self.flow_lts, ctx, sd, box, "lts3"))]
        for t in ths:
            t.start()
        # traces can be validated while TLC/walker are still busy (validation runs TLC with one worker)
        ths[2].join()
        problems = []
        if not errs:
            problems += self.finish_traces(ctx, sd, box)
        for t in ths:
            t.join()
        if errs:
            raise errs[0] if isinstance(errs[0], Inconclusive) else Inconclusive("flow failed: %r" % (errs[0],))
        problems += self.finish_mc(ctx, box)
        self.info["lts"] = {}
        seen = set()
        for kind in LTS_KINDS:
            problems += self.finish_walks(ctx, box, kind, seen)
        if problems:
            raise Inconclusive("; ".join(problems))

    def finish_mc(self, ctx, box):
        out = []
        for key in ("mc", "mc2"):
            r = box.get(key)
            if r is None:
                continue
            ctx.add_tlc(r)
            self.info[key] = [r.status, r.distinct, r.generated, round(r.wall, 1)]
            if not r.ok():
                save = os.path.join(ctx.out, "List.%s.out" % key)
                with open(save, "w") as fh:
                    fh.write(r.out)
                out.append("TLC on List (%s): %s %s (model problem, output in %s)" % (key, r.status, r.violated or "", save))
        return out

    def finish_walks(self, ctx, box, kind, seen):
        r, n = box[kind]
        if not r.ok() or n == 0:
            save = os.path.join(ctx.out, "List.%s.out" % kind)
            with open(save, "w") as fh:
                fh.write(r.out)
            return ["LTS export of List (%s) failed: %s (%s)" % (kind, r.status, save)]
        p = box["walk." + kind]
        if p.returncode != 0:
            return ["walker died on List: %s" % (p.stderr or p.stdout)[-2000:]]
        out = []
        for sut in KIND_SUTS.get(kind, SUTS):
            rep = json.load(open(os.path.join(ctx.out, "List.%s.%s.walk.json" % (kind, sut))))
            self.info["lts"][kind + ":" + sut] = {"states": rep["states"], "edges": rep["edges"], "covered": rep["edges_covered"],
                                     "groups": rep["stimulus_groups"], "groups_covered": rep["stimulus_groups_covered"],
                                     "steps": rep["steps"], "resets": rep["resets"]}
            ctx.bump("lts_edges_total", rep["edges"])
            ctx.bump("lts_edges_covered", rep["edges_covered"])
            ctx.bump("lts_stimulus_groups_total", rep["stimulus_groups"])
            ctx.bump("lts_stimulus_groups_covered", rep["stimulus_groups_covered"])
            ctx.bump("replay_steps_on_real_code", rep["steps"])
            ctx.replayed += rep["resets"]
            if sut != REFERENCE:
                for s in (rep.get("samples") or [])[:1]:
                    ctx.sample({"unit": self.name, "sut": sut, "flow": "model->code (LTS tour path)", "path": s[:6]})
            mism = rep.get("mismatches") or []
            if sut == REFERENCE:
                if mism:
                    m = mism[0]
                    out.append("the model disagrees with container/list (the reference) on %s: observed %s, model %s" % (
                        json.dumps(m["stimulus"]), json.dumps(m["observed"])[:400], json.dumps(m["expected"])[:400]))
                    json.dump(m, open(os.path.join(ctx.out, "reference_mismatch.%s.json" % kind), "w"), indent=1)
            else:
                for m in mism:
                    sig = "%s:lts:%s" % (sut, m["op"])
                    res = m["observed"].get("res")
                    if isinstance(res, dict) and res.get("x") in ("HANG", "PANIC"):
                        sig += ":" + res["x"]
                    if sig in seen:
                        continue
                    seen.add(sig)
                    what = "%s.%s%s: real code gave %s, model (= container/list) gives %s (after %d steps)" % (
                        sut, m["op"], json.dumps(m["stimulus"]), _short(m["observed"]), _short(m["expected"]), len(m["path"]) - 1)
                    ctx.violation(self.name, sig, what, {"kind": "path", "sut": sut, "mismatch": m})
            if not mism and rep["stimulus_groups_covered"] < rep["stimulus_groups"]:
                out.append("LTS tour (%s) of %s covered %d/%d stimulus groups" % (kind, sut, rep["stimulus_groups_covered"], rep["stimulus_groups"]))
        return out

    def finish_traces(self, ctx, sd, box):
        out = []
        traces = {}
        for sut in SUTS:
            p, tr = box["rec." + sut]
            if p.returncode != 0:
                out.append("recorder died on %s: %s" % (sut, (p.stderr or p.stdout)[-1000:]))
                continue
            self.sut = sut
            before = len(ctx.violations)
            validate_file(ctx, self, sd, self.module, tr)
            traces[sut] = self.info.get("trace")
            if sut == REFERENCE and len(ctx.violations) > before:
                bad = ctx.violations[before:]
                del ctx.violations[before:]
                out.append("the model rejects a recorded history of container/list (the reference): %s" % bad[0]["what"][:600])
        self.sut = self.module
        self.info["trace"] = traces
        return out


    def replay(self, ctx, data):
        """a rejected recorded history is re-executed on the real object (not only re-validated)"""
        if data.get("kind") == "trace" and data.get("expected") and data.get("trace"):
            tr = data["trace"]
            stim = lambda e: {k: v for k, v in e.items() if k not in ("res", "st")}
            m = {"sut": data["sig"].split(":")[0], "flow": "trace", "op": tr[-1].get("op"), "stimulus": stim(tr[-1]),
                 "cfg": tr[0]["cfg"], "path": [tr[0]] + [{"stim": stim(e)} for e in tr[1:]],
                 "expected": [{"res": e.get("res"), "st": e.get("st")} for e in data["expected"]], "observed": {}}
            return super().replay(ctx, {"kind": "path", "sut": m["sut"], "mismatch": m})
        return super().replay(ctx, data)


def _short(x, n=700):
    s = json.dumps(x)
    return s if len(s) <= n else s[:n] + "..."


def units(ctx):
    return [ListUnit()]
