"""C13 - reactive subscribers see every change exactly once, in order."""
from lib.units import McUnit, TraceUnit


def units(ctx):
    return [
        # all interleavings of the implementation-level model of Variable (2 writers x 2 writes, 2 subscribers, 1 unsubscriber)
        McUnit("reactive", "ReactiveVarImpl", "", name="ReactiveVarImpl", thorough_cfgkind="thorough", timeout=1800),
        # negative controls: the model with each of three seeded locking defects must be refuted
        McUnit("reactive", "ReactiveVarImpl", "sub_unlock_before_exec", name="ctl-sub-unlock-before-exec", expect="ChainOK"),
        McUnit("reactive", "ReactiveVarImpl", "unsub_no_exec_lock", name="ctl-unsub-no-exec-lock", expect="NoneAfterUnsubscribe"),
        McUnit("reactive", "ReactiveVarImpl", "no_order_mutex", name="ctl-no-order-mutex", expect="ChainOK"),
        McUnit("reactive", "ReactiveObs", "", name="ReactiveObs:spec"),
        # forced schedules (TLC's counterexamples through callback gates and verif yield points) + free-running
        # writers/subscribers/unsubscribers on Variable, Set and Event; every execution validated by TLC
        TraceUnit("reactive", "ReactiveObs", "reactobs", args=["-traces", 90, "-controlled", 80], thorough_args=["-traces", 1500, "-controlled", 2000], sut="Reactive"),
    ]
