"""C06 - TypedValue/TypedStore are transparent, error-faithful typed views."""
from lib.units import McUnit, SeqUnit


def units(ctx):
    us = [
        # sequential + fault-sequence part: every history x every position at which a codec or
        # store call of the operation can fail (outcome plan in the stimulus)
        SeqUnit("typed", "TypedValue", traces=(80, 100), thorough_traces=(800, 150)),
        SeqUnit("typed", "TypedStore", traces=(80, 100), thorough_traces=(800, 150)),
    ]
    # negative control: the model of the defect hive.go had (Compute swallowing the encode error)
    # must violate the property - shows the invariants / action properties are not vacuous
    us.append(McUnit("typed", "TypedValue", cfgkind="defect", name="TypedValue:defect-control", expect="any"))
    # thorough tier: the action properties on the next size up (the <M>.thorough.cfg used by SeqUnit
    # for the bigger LTS cannot carry VIEW/PROPERTIES, so the exhaustive run has its own cfg)
    us += [
        McUnit("typed", "TypedValue", cfgkind="mcthorough", thorough_only=True),
        McUnit("typed", "TypedStore", cfgkind="mcthorough", thorough_only=True),
    ]
    # --- interleaving part (concurrent Compute/Set/Delete are serialised) ---
    from lib import lin
    us += [
        # lock-level model, all interleavings of 3 callers x {Get, Set, Delete, Compute}: cache coherent, no lost update
        McUnit("typed", "TypedValueImpl", "", name="TypedValueImpl"),
        McUnit("typed", "TypedValueImpl", "unlocks", name="ctl-compute-unlocks", expect="NoLostUpdate"),
        McUnit("typed", "TypedValueImpl", "cachefirst", name="ctl-set-cache-first", expect="CacheCoherent"),
        # concurrent histories of the real TypedValue (forced: compute function as a gate; free-running; pure increments),
        # TLC searches a linearization of each against an atomic register
        lin.LinUnit("typed", "RegLin", "tvconc", ["-histories", 80], ["-histories", 1000], "TypedValue", name="RegLin:tvconc"),
    ]
    return us
