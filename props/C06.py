"""C06 - TypedValue/TypedStore are transparent, error-faithful typed views."""
from lib.units import SeqUnit


def units(ctx):
    us = [
        # sequential + fault-sequence part: every history x every position at which a codec or
        # store call of the operation can fail (outcome plan in the stimulus)
        SeqUnit("typed", "TypedValue", traces=(80, 100), thorough_traces=(800, 150)),
        SeqUnit("typed", "TypedStore", traces=(80, 100), thorough_traces=(800, 150)),
    ]
    # --- interleaving part (concurrent Compute/Set/Delete are serialised): added below ---
    return us
