"""X1 - extension of the specification beyond the 20 listed properties (no entry in properties.jsonl).

Units
  HealthTracker   kvstore.StoreHealthTracker (spec/ext1/HealthTracker.tla): version + corrupted/tainted markers persisted
                  in the store; restarts, crashes at every store-operation boundary, store failures, lost/kept
                  outstanding writes (a KVStore wrapper with the documented Flush contract).
  Backoff         runtime/backoff (spec/ext1/Backoff.tla): intervals of constant/exponential policies, composition of
                  MaxRetries/MaxInterval/Jitter/Timeout/Cancel, Policy.New, Retry.
Both: exhaustive TLC (invariants + step properties), LTS tour on the real objects (model -> code), recorded random
histories validated by TLC (code -> model).

cfg files: .cfg exhaustive quick, .thorough.cfg exhaustive thorough, .trace.cfg trace validation; exported transition
systems (both tiers, the thorough tier walks more): Backoff.lts.cfg; HealthTracker.ltsM.cfg (markers, every plan) and
HealthTracker.ltsV.cfg (versions, every plan) - see the comment above LtsMStimuli in HealthTracker.tla.
"""
from lib.units import SeqUnit


class X1Unit(SeqUnit):
    """SeqUnit whose exported transition system always comes from the cfg kind given as lts_kind (the .thorough.cfg of
    these modules selects the unthinned stimulus set, which is meant for the exhaustive run only; the thorough tier
    walks the same transition systems with more and longer random walks)."""

    def run_lts(self, ctx, sd):
        saved, keep = ctx.thorough, self.walks
        if saved:
            self.walks = self.thorough_walks
        ctx.thorough = False
        try:
            super().run_lts(ctx, sd)
        finally:
            ctx.thorough, self.walks = saved, keep


def units(ctx):
    return [
        X1Unit("ext1", "HealthTracker", lts_kind="ltsM", traces=(150, 80), thorough_traces=(1500, 120), walks=(300, 40),
               thorough_walks=(5000, 60)),
        X1Unit("ext1", "HealthTracker", name="HealthTracker:versions", lts_kind="ltsV", do_mc=False, do_trace=False,
               walks=(300, 40), thorough_walks=(5000, 60)),
        X1Unit("ext1", "Backoff", traces=(150, 40), thorough_traces=(1500, 60), walks=(200, 25),
               thorough_walks=(3000, 40)),
    ]
