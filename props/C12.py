"""C12 - remaining containers are equivalent to their abstract models."""
from lib.units import SeqUnit


def units(ctx):
    return [
        SeqUnit("containers", "Queue"),
    ]
