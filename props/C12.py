"""C12 - remaining containers are equivalent to their abstract models (part A: the plain containers; part B, props/C12B.py: Walker, TimeHeap,
IndexedStorage, OnChangeMap, SubscriptionManager).

One SeqUnit per (module, SUT): exhaustive TLC of the module, LTS tour + random walks on the real object
(model -> code), recorded random histories validated by TLC (code -> model).  Modules with two SUTs
(PriorityQueue: the public type and generalheap driven directly; Stack: simple and thread-safe) are model
checked once.
"""
from lib.units import SeqUnit


def _second(sub, module, sut, **kw):
    u = SeqUnit(sub, module, sut=sut, do_mc=False, **kw)
    u.name = sut
    return u


def units(ctx):
    from props import C12B
    return _part_a(ctx) + C12B.units(ctx)


def _part_a(ctx):
    return [
        SeqUnit("containers", "Queue"),
        SeqUnit("containers", "ShrinkingMap", walks=(100, 40), traces=(60, 120)),
        SeqUnit("containers", "RandomMap"),
        SeqUnit("containers", "PriorityQueue"),
        _second("containers", "PriorityQueue", "GeneralHeap"),
        SeqUnit("containers", "TimedPriorityQueue"),
        SeqUnit("containers", "RingBuffer"),
        _second("containers", "Stack", "StackSimple"),
        SeqUnit("containers", "Stack", sut="StackThreadSafe"),
        SeqUnit("containers", "BytesFilter", traces=(60, 200)),
    ]
