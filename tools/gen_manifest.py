#!/usr/bin/env python3
"""Regenerate MANIFEST.json from the table below (claimed checks) + properties.jsonl (not_applicable)."""
import json
import os
import subprocess

ROOT = os.path.dirname(os.path.dirname(os.path.abspath(__file__)))

# id -> (design_ref, text, note, technique)
CLAIMED = {
    "C17": ("5/C17",
            "TLC checks exclusion, counter exactness and (under weak fairness) no-lost-wake-up on an implementation-level "
            "TLA+ model of StarvingMutex for ALL interleavings of 3 threads x lock/unlock scripts, plus API-level quiescent-point "
            "specs of StarvingMutex, DAGMutex, Counter and Stack waits whose complete transition systems (every arrival order of "
            "2-3 threads' calls, misuse included) are replayed on the real goroutines with park detection; free-running contention "
            "traces (2-16 goroutines) are validated by TLC against a holders spec.",
            "Bounds: 3 threads, 2 entities, scripts of <= 2 pairs; interleavings inside one internal critical section are explored "
            "on the model only; trusted: TLC, goroutine park detection via runtime.Stack, adapters.",
            "TLA+ impl-level + API-level specs (TLC exhaustive), LTS replay on real goroutines, TLC trace validation"),
    "C19": ("5/C19",
            "A TLA+ module defines the exact mathematical result/representability of every safemath operation; TLC validates "
            "records of the real functions for ALL int8/uint8 operand pairs and shift counts (complete), a 16-bit boundary lattice "
            "and boundary-biased 32/64-bit samples, and TLC generates the complete 8-bit expectation table which is compared with "
            "the real functions (opposite direction).",
            "16-bit pairs only on a boundary lattice, 32/64-bit sampled (limb arithmetic in TLA+); the generic functions share one "
            "body across widths; trusted: TLC, value->limb conversion in the harness.",
            "TLA+ reference semantics, TLC validation of exhaustive 8-bit call records, model-generated expectation table"),
}


def main():
    props = [json.loads(l) for l in open(os.path.join(ROOT, "properties.jsonl"))]
    hooks_commits = []
    try:
        out = subprocess.run(["git", "-C", "/repo", "log", "--format=%h %s"], stdout=subprocess.PIPE, text=True).stdout
        hooks_commits = [l.split()[0] for l in out.splitlines() if l.split(" ", 1)[1].startswith("verif:")]
    except Exception:
        pass
    checks = []
    for p in props:
        pid = p["id"]
        if pid not in CLAIMED:
            continue
        ref, text, note, tech = CLAIMED[pid]
        checks.append({
            "property_id": pid,
            "quick_cmd": "cd /verif && python3 check.py %s --tier quick" % pid,
            "thorough_cmd": "cd /verif && python3 check.py %s --tier thorough" % pid,
            "evidence_file": "/verif/evidence/%s.json" % pid,
            "replay_cmd_template": "cd /verif && python3 check.py %s --replay {path}" % pid,
            "engine": "tlc",
            "level_claimed": {"category": "model_checking", "text": text, "design_ref": "DESIGN.md section " + ref},
            "level_note": note,
            "technique": tech,
        })
    na = [{"property_id": p["id"], "reason": "check not built yet (work in progress; DESIGN.md section 10 gives the build order)"}
          for p in props if p["id"] not in CLAIMED]
    m = {
        "version": 1,
        "setup_cmd": "cd /verif && ./setup.sh",
        "hooks": {
            "guard": "verif",
            "enable": "go build -tags verif (the harness module /verif/harness replaces every hive.go module by /repo/<module>)",
            "baseline_off_cmd": "cd /verif && ./baseline_off.sh",
            "source_commits": hooks_commits,
            "add_only": True,
        },
        "engines": [{"name": "tlc", "path": "/verif/spec", "serves_properties": sorted(CLAIMED),
                     "kind_free_text": "explicit TLA+ specifications checked by TLC; bound to the code by replaying TLC's transition "
                                       "systems on the real objects (model->code) and TLC validation of recorded traces (code->model)"}],
        "checks": checks,
        "notes": "One process per property: python3 check.py <ID>. See DESIGN.md. Known findings: known_findings.json.",
        "not_applicable": na,
    }
    json.dump(m, open(os.path.join(ROOT, "MANIFEST.json"), "w"), indent=1)
    print("claimed:", sorted(CLAIMED), "not_applicable:", len(na))


if __name__ == "__main__":
    main()
