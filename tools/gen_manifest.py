#!/usr/bin/env python3
"""Regenerate MANIFEST.json from the table below (claimed checks) + properties.jsonl (not_applicable)."""
import json
import os
import subprocess

ROOT = os.path.dirname(os.path.dirname(os.path.abspath(__file__)))

# id -> (design_ref, text, note, technique)
CLAIMED = {
    "C05": ("5/C05",
            "KVStoreConc.tla extends the sequential KVStore spec with Invoke / silent Lin / Return per call (a committed batch = one Lin per "
            "write, Iterate reads the whole map in its Lin); TLC checks the closed composition (2-3 threads) and a per-entry-iteration "
            "negative control; concurrent histories of the real store (2-16 goroutines, all views, flushkv, occasional Close; built with the "
            "race detector, 20 s watchdog), forced schedules (Iterate consumers as gates; a gated Flush between flushkv and mapdb) and "
            "controlled schedules (token scheduler over the acquisitions of the shared map's lock, hook 733e506: random interleavings at the "
            "grain of the lock's critical sections, few-preemption schedules, atomicity probes that stop a multi-key call between two "
            "acquisitions) are recorded and TLC searches a placement of the linearization points for each; a race report or a hang is a violation.",
            "Controlled schedules use private handles and 2-3 goroutines; 8-16 goroutine runs use few writers (TLC search cost); one known finding "
            "(flushkv mutation visible but ErrStoreClosed when Close falls between the inner call and the trailing Flush).",
            "TLA+ linearizability spec with silent steps (TLC DFS trace validation), forced and lock-grain controlled schedules, Go race detector"),
    "C15": ("5/C15",
            "TLA+ modules Events, Promise, Notifier at quiescent points (hook/promise callbacks as gates; Hook/Unhook from inside a running "
            "callback and during an in-flight Trigger, LinkTo re-linking, max trigger counts, listener re-creation after Notify, Wait on "
            "harness threads) replayed as complete LTS on the real objects; EventsImpl models the trigger counter and the unhook flag for all "
            "interleavings with 2 negative controls; free-running races (concurrent triggerers with max counts, Deregister vs Wait, "
            "registration vs Trigger) validated by TLC against Races.tla.",
            "Event1[int] only for runtime/event (other arities share the template); preTrigger functions and LinkTo from inside callbacks not exercised.",
            "TLA+ quiescent-point specs (TLC exhaustive, LTS replay with callback gates), impl-level model, TLC trace validation"),
    "C18": ("5/C18",
            "Timed.tla is the API-level meaning with an abstract clock (never early, at most once, cancel honoured, eventual delivery, "
            "shutdown flags, size bound); TimedImpl / TaskExecImpl model Poll's pop-then-select window, Add's shutdown check and the "
            "TaskExecutor wrapper for all interleavings with 12 negative controls; TimedQueue / TaskExec quiescent-point LTS are replayed on "
            "the real queue / task executor (callbacks and two yield points as gates); real-time traces (40 ms unit, monotonic stamps, "
            "forced schedules + free runs) are validated by TLC with now' = ts.",
            "Real-time runs whose own margins were missed are discarded and retried (never alarms); size bound > 0 not in the LTS replay; "
            "PanicOnModificationsAfterShutdown is a configuration of the TaskExec LTS only.",
            "TLA+ timed spec (TLC exhaustive + impl-level models), LTS replay with gates, TLC validation of timestamped traces"),
    "C01": ("5/C01",
            "TLA+ modules define the codecs declaratively and independently of the Go code: Wire (binary serix: Enc/Dec over schemas and "
            "value trees, numbers as limbs), WireJson (JSON/map form), Stream (Write*/Read* pairs over a reader that splits its reads "
            "arbitrarily), Deser (Serializer/Deserializer primitives), StreamBuf. TLC checks round trip, consumed = produced, all read "
            "splittings and Enc determinism on small scopes; TLC-generated (schema, value, bytes, chunking) tables are replayed on the real "
            "serix API / stream helpers for a catalogue of 75 + 11 Go types (model -> code), and records of random values and chunkings "
            "from the real code are validated by TLC (code -> model).",
            "Real-code shapes limited to the hand-written type catalogue; custom Serializable types opaque; NaN payloads bitwise.",
            "TLA+ declarative codec models (TLC small-scope exhaustive), model-generated tables replayed on the code, TLC record validation"),
    "C02": ("5/C02",
            "The decoders are modelled as step machines over (src, offset) with offset <= Len(src) and alloc <= remaining + c as "
            "invariants; TLC checks them for ALL byte strings of length <= 6 over {0,1,2,255} x all catalogue schemas / 43 primitive "
            "programs / 29 stream helpers and all JSON documents of a 126-document family at every field position; every enumerated "
            "input is fed to the real serix.Decode, Deserializer primitives, stream Read* helpers and JSONDecode/MapDecode under recover "
            "with allocation deltas and an iteration watchdog, and the result class, consumed count and value must equal the model's; "
            "mutated real encodings are validated by TLC.",
            "Inputs longer than 6 bytes only sampled; allocation is measured (MemStats), not proved; zero-width element sequences "
            "are excluded (the count is not bounded by the input there - outside the statement).",
            "TLA+ decoder state machines (TLC exhaustive over all short inputs), table replay on real decoders, TLC record validation"),
    "C03": ("5/C03",
            "Wire.tla IS the documented layout (LE limbs, 0/1 bool, 1/2/4/8-byte prefixes, u8/u32 type codes, u32 optional marker, 32-byte "
            "LE uint256, ns timestamps, byte-lexical map order, all array rules) written independently of the Go code. Forward: Encode(v) "
            "of the real API must equal the model's bytes for all TLC-enumerated (schema, value) pairs of the catalogue. Reverse: for "
            "every enumerated or mutated byte string the real validating decoder accepts, acceptance must agree with the model and the "
            "re-encoding must equal b[:n].",
            "76 catalogue types; byte strings of length <= 6 exhaustively, longer ones sampled (mutated records) or derived by TLC from the "
            "value catalogue (unsorted encodings of every value); timestamps inside the int64-ns range.",
            "TLA+ reference encoder/decoder (TLC small-scope exhaustive), forward/reverse table replay on the real serix API"),
    "C14": ("5/C14",
            "TLA+ module Derived defines each derived value as the FUNCTION of its inputs (DerivedVariable 1/2 inputs, InheritFrom, "
            "DerivedSet union, SubtractReactive, Counter, SortedSet, WaitGroup, EvictionState); TLC exhaustive + complete LTS replay on the "
            "real objects + recorded histories (all histories); implementation-level models of SortedSet and WaitGroup for all "
            "interleavings with negative controls; free-running writers on different inputs plus 13 forced schedules (gated weight "
            "variables, yield points) and controlled eviction runs (every acquisition of the EvictionState mutex is a stopping point) validated "
            "by TLC against DerivedRun: at quiescence derived = F(inputs) and nobody hangs.",
            "3 elements / weights {0,1,2} / 2-3 inputs; DerivedVariable3/4 not covered; interleavings on the real code only through gates, "
            "two yield points and free running.",
            "TLA+ functional spec (TLC exhaustive, LTS replay), impl-level models, forced schedules, TLC trace validation"),
    "C20": ("5/C20",
            "TLA+ module Daemon at quiescent points (worker handlers are gates that observe cancellation and are released by the harness): "
            "every arrival order of BackgroundWorker / Start / Run / Shutdown / ShutdownAndWait / worker exit for 3-4 workers with ties, "
            "negative orders and gaps is replayed on real daemon instances; DaemonImpl models stopWorkers/BackgroundWorker/Run at lock "
            "level for all interleavings with 6 negative controls; forced schedules through two yield points and free-running executions "
            "are validated by TLC against DaemonRun (no cancel before higher orders returned, equal orders together, waits complete).",
            "Quick LTS uses orders {-1,5}, the rest in traces/thorough (half of the configurations hand MinInt/-1/1/MaxInt to the daemon for them); "
            "orders fixed per name in DaemonImpl.",
            "TLA+ quiescent-point spec (TLC exhaustive, LTS replay with handler gates), impl-level model, TLC trace validation"),
    "C10": ("5/C10",
            "A pointer-level TLA+ heap model of container/list semantics (sentinels, next/prev/owner pointers, len; live, removed, "
            "foreign and Init-orphaned handles; a list as its own argument) is checked by TLC (ring well-formedness) and its complete "
            "transition systems are replayed edge by edge in lock-step on THREE objects: Go's container/list (validates the model), the "
            "lock-free and the thread-safe hive.go list; forwards/backwards order, Len and Prev/Next/Value of every handle are compared "
            "after every call; recorded random histories validated by TLC.",
            "2 lists, 3-4 handles (6 in traces), values {1,2}; concurrent use of the thread-safe flavour is not covered; calls that may "
            "hang are bounded by a 2 s watchdog and reported as HANG.",
            "TLA+ heap model (TLC exhaustive), LTS replay on container/list + both hive.go lists, TLC trace validation"),
    "C08": ("5/C08",
            "An implementation-level TLA+ model of BatchedWriter (Enqueue in 4 steps, writer loop with receive/flush/time-out, collector, "
            "Commit, Done callbacks, Stop) is checked by TLC for ALL interleavings of 2 producers x 2 objects (no loss, write-before-done, "
            "Stop waits, all-or-nothing, nobody stuck under fairness) with 4 negative-control variants; TLC's counterexamples of the two "
            "defects the code had are replayed on the real writer through two verif yield points, and every forced or free-running "
            "execution (2-6 producers, queue 0-4, batch 1-3, time-outs 1-50 ms, Flush, GOMAXPROCS(1)) is validated by TLC against the "
            "API-level trace spec.",
            "Model: 2 producers, 2 objects, queue 1, batch 2; real-code interleavings only through the two yield points, callbacks and free running.",
            "TLA+ impl-level model (TLC, all interleavings) + API-level trace spec, forced schedules via yield points, TLC trace validation"),
    "C13": ("5/C13",
            "An implementation-level TLA+ model of the reactive Variable (update-order mutex, value mutex, per-callback execution lock, "
            "snapshot, unsubscribe) is checked by TLC for ALL interleavings of 2 writers x 2 writes, 2-3 subscribers and an unsubscriber "
            "(gap-free in-order chain, no overlap, none after unsubscribe, last = final) with 3 negative-control variants; their "
            "counterexamples are replayed on the real Variable and Set through callback gates and verif yield points, and every forced or "
            "free-running execution of Variable, Set and Event is validated by TLC against the API-level observation spec (one chain of "
            "changes shared by all observers, fold of set mutations = contents, OnTrigger exactly once).",
            "Impl-level model only for Variable (Set shares the scheme); interleavings on the real code through 6 yield points, callbacks and free running.",
            "TLA+ impl-level model (TLC, all interleavings) + API-level observation spec, forced schedules, TLC trace validation"),
    "C04": ("5/C04",
            "A TLA+ module models every view/wrapper/batch operation of the kvstore as an operation on ONE ordered map keyed by "
            "realm||key; TLC checks realm isolation, iteration order/prefix/stop, DeletePrefix/Clear exactness, batch last-op-wins, "
            "closed=>ErrStoreClosed and aliasing-safety exhaustively on small alphabets; the exported transition systems (all 5 "
            "views x 5 wrapper stacks x batches x 0xff/empty keys) are replayed edge by edge on the real mapdb/flushkv/debug objects, "
            "and long random histories of the real objects are validated by TLC; iterations whose consumer writes to the store through any "
            "view (IterMut: snapshot semantics, no self-deadlock - a call that does not return within 30 s is reported as a hang).",
            "Bounds: keys of length <=2 over {0,1,255}, <=3 live keys in the LTS, 16 keys in traces; debug callback contents not modelled.",
            "TLA+ sequential spec (TLC exhaustive), LTS tour replay on real objects, TLC trace validation"),
    "C06": ("5/C06",
            "TLA+ modules TypedValue/TypedStore with an outcome plan per operation (every codec and store call may fail, compute "
            "functions may abort/fail); TLC checks cache-coherence, stored-bytes=last-written-value and failure=>unchanged+reported; "
            "complete LTS replay on the real objects over a fault-injecting store and failing codecs; recorded random fault histories "
            "validated by TLC; a model of the fixed Compute defect is kept as negative control.",
            "One fault per operation; fail-before-apply stores only; the 'concurrent callers are serialised' clause is covered by "
            "TLC on the lock-level model, by free-running callers, by forced schedules with the compute function as gate and by "
            "controlled schedules on a cold object whose stopping points are the store's lock acquisitions.",
            "TLA+ spec with fault plans (TLC exhaustive), LTS replay with fault injection, TLC trace validation"),
    "C07": ("5/C07",
            "TLA+ module Sequence with crash/fail plans at every store-operation boundary (before/after), restarts with intervals 1..3 "
            "and Release; TLC checks NoReuse, strict increase, waste<=interval per crash and 0 per Release exhaustively (4 incarnations, "
            "8 numbers) and an implementation-level model with 2 concurrent callers; the LTS is replayed on real Sequence objects over a "
            "store wrapper that panics at operation k; recorded histories (incl. 2-4 goroutines) validated by TLC; 4 negative-control models.",
            "Bounded incarnations/numbers; no Apalache inductive proof; crashes while concurrent callers run are explored on the model only.",
            "TLA+ spec with crash points (TLC exhaustive), crash-injecting LTS replay, TLC trace validation"),
    "C09": ("5/C09",
            "TLA+ module AuthMap (contents, committed snapshot, ever-committed flag); root = injective function of contents learned by "
            "the harness across all paths of the LTS tour (equal contents via different histories => equal root bytes, different contents "
            "=> different); complete LTS replay on ads.Map and ads.Set over mapdb incl. reopen after commit, keys sharing 20-29 hash-path "
            "bits and keys that are byte prefixes of one another (incl. the empty key), nil/empty values; recorded histories validated by TLC.",
            "4 keys x 3 values; reopen asserted only at committed points; root injectivity only on everything explored.",
            "TLA+ sequential spec (TLC exhaustive), LTS tour replay with learned root table, TLC trace validation"),
    "C11": ("5/C11",
            "TLA+ modules OrderedMap, OrderedSet, SetArith: insertion order, exact diffs of Apply/AddAll/DeleteAll/Replace/Compute, set "
            "algebra and arithmetic thresholds, Encode/Decode; TLC exhaustive on a 3-element universe; complete LTS replay on the real "
            "objects; recorded histories validated by TLC; the pre-fix Replace kept as negative control; iterations whose consumer deletes / inserts (ForEachMut); concurrent clause: see units in props/C11.py "
            "(linearizability histories of ds.Set incl. Replace with a gated view of the receiver, and of OrderedMap itself - MapLin: results and the final "
            "iteration order must fit one linearization of an insertion-ordered map -, lock-level model, forced schedules).",
            "3-element universe; concurrency clause (no deadlock/atomicity/linearizability) decided by forced schedules and free-running "
            "histories for the method pairs listed in DESIGN.md, not for all combinations.",
            "TLA+ sequential specs (TLC exhaustive), LTS tour replay, TLC trace validation, forced schedules"),
    "C12": ("5/C12",
            "One TLA+ module per container (ShrinkingMap, RandomMap, PriorityQueue/generalheap, timed.PriorityQueue, Queue, RingBuffer, "
            "Stack x2, BytesFilter, Walker, TimeHeap, IndexedStorage, OnChangeMap, SubscriptionManager) over small universes and all "
            "option settings; TLC exhaustive; every LTS edge (nondeterministic picks followed adaptively) replayed on the real object; "
            "recorded random histories validated by TLC.",
            "Universes of 3 keys/values, capacities 1-3; TimeHeap uses coarse real-time epochs (runs that miss their own margins are "
            "discarded, never alarms).",
            "TLA+ sequential specs (TLC exhaustive), adaptive LTS tour replay, TLC trace validation"),
    "C16": ("5/C16",
            "TLA+ module WorkerPool at quiescent points with task bodies and the Submit yield point as gates: every arrival order of "
            "Submit / held Submit / Shutdown / Start / ShutdownComplete.Wait / WaitIsZero / task completion for 1-2 workers, cancel on/off, "
            "tasks that submit tasks, restart; TLC checks conservation, counter equation, justified waiters, shutdown completion; the "
            "complete LTS is replayed on the real pool with goroutine park detection; PoolGroup (WaitChildren/Shutdown over a 2-level tree) "
            "likewise; free-running stress executions (pools made directly and by a Group with explicit options, short-lived pools that are shut "
            "down before their goroutines ran) validated by TLC against PoolRun.",
            "2 harness threads, <=3 tasks in the LTS; interleavings inside the pool's own critical sections only through the one yield "
            "point and free-running stress; one known finding (WaitGroup reuse panic on restart with a concurrent waiter).",
            "TLA+ quiescent-point spec (TLC exhaustive), gate/hook-driven LTS replay on real goroutines, TLC trace validation"),
    "C17": ("5/C17",
            "TLC checks exclusion, counter exactness and (under weak fairness) no-lost-wake-up on an implementation-level "
            "TLA+ model of StarvingMutex for ALL interleavings of 3 threads x lock/unlock scripts, plus API-level quiescent-point "
            "specs of StarvingMutex, DAGMutex, Counter and Stack waits whose complete transition systems (every arrival order of "
            "2-3 threads' calls, misuse included) are replayed on the real goroutines with park detection; free-running contention "
            "traces (2-16 goroutines) are validated by TLC against a holders spec, free-running Stack rounds (parked consumers, then producers and "
            "condition waiters together) against StackRun: at the quiescent end nobody is blocked whose wake-up condition holds.",
            "Bounds: 3 threads, 2 entities, scripts of <= 2 pairs; interleavings inside one internal critical section are explored "
            "on the model only; trusted: TLC, goroutine park detection via runtime.Stack, adapters.",
            "TLA+ impl-level + API-level specs (TLC exhaustive), LTS replay on real goroutines, TLC trace validation"),
    "C19": ("5/C19",
            "A TLA+ module defines the exact mathematical result/representability of every safemath operation; TLC validates "
            "records of the real functions for ALL int8/uint8 operand pairs and shift counts (complete), a 16-bit boundary lattice "
            "and boundary-biased 32/64-bit samples, and TLC generates the complete 8-bit expectation table which is compared with "
            "the real functions (opposite direction).",
            "16-bit pairs only on a boundary lattice, 32/64-bit sampled (limb arithmetic in TLA+); the generic functions share one "
            "body across widths; trusted: TLC, value->limb conversion in the harness.",
            "TLA+ reference semantics, TLC validation of exhaustive 8-bit call records, model-generated expectation table"),
}


def main():
    props = [json.loads(l) for l in open(os.path.join(ROOT, "properties.jsonl"))]
    hooks_commits = []
    try:
        out = subprocess.run(["git", "-C", "/repo", "log", "--format=%h %s"], stdout=subprocess.PIPE, text=True).stdout
        hooks_commits = [l.split()[0] for l in out.splitlines() if l.split(" ", 1)[1].startswith(("verif:", "verif hook:"))]
    except Exception:
        pass
    checks = []
    for p in props:
        pid = p["id"]
        if pid not in CLAIMED:
            continue
        ref, text, note, tech = CLAIMED[pid]
        checks.append({
            "property_id": pid,
            "quick_cmd": "cd /verif && python3 check.py %s --tier quick" % pid,
            "thorough_cmd": "cd /verif && python3 check.py %s --tier thorough" % pid,
            "evidence_file": "/verif/evidence/%s.json" % pid,
            "replay_cmd_template": "cd /verif && python3 check.py %s --replay {path}" % pid,
            "engine": "tlc",
            "level_claimed": {"category": "model_checking", "text": text, "design_ref": "DESIGN.md section " + ref},
            "level_note": note,
            "technique": tech,
        })
    na = [{"property_id": p["id"], "reason": "check not built yet (work in progress; DESIGN.md section 10 gives the build order)"}
          for p in props if p["id"] not in CLAIMED]
    m = {
        "version": 1,
        "setup_cmd": "cd /verif && ./setup.sh",
        "hooks": {
            "guard": "verif",
            "enable": "go build -tags verif (the harness module /verif/harness replaces every hive.go module by /repo/<module>)",
            "baseline_off_cmd": "cd /verif && ./baseline_off.sh",
            "source_commits": hooks_commits,
            "add_only": True,
        },
        "engines": [{"name": "tlc", "path": "/verif/spec", "serves_properties": sorted(CLAIMED),
                     "kind_free_text": "explicit TLA+ specifications checked by TLC; bound to the code by replaying TLC's transition "
                                       "systems on the real objects (model->code) and TLC validation of recorded traces (code->model)"}],
        "checks": checks,
        "notes": "One process per property: python3 check.py <ID>. See DESIGN.md. Known findings: known_findings.json.",
        "not_applicable": na,
    }
    json.dump(m, open(os.path.join(ROOT, "MANIFEST.json"), "w"), indent=1)
    print("claimed:", sorted(CLAIMED), "not_applicable:", len(na))


if __name__ == "__main__":
    main()
