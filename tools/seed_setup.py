#!/usr/bin/env python3
"""seed_setup.py <round-letter> <property> ...  - for each property: scratch worktree /tmp/wt-<L><nn> of /repo HEAD with PROPERTY.txt
(the property's text only) and the agent prompt printed to out/seedprompt_<L><nn>.txt (template tools/seed_prompt.txt)."""
import json, os, subprocess, sys
ROOT = os.path.dirname(os.path.dirname(os.path.abspath(__file__)))
MOD = {"C01": ("serializer", "./..."), "C02": ("serializer", "./..."), "C03": ("serializer", "./..."),
       "C04": ("kvstore", "./..."), "C05": ("kvstore", "./..."), "C06": ("kvstore", "./..."), "C07": ("kvstore", "./..."),
       "C08": ("kvstore", "./..."), "C09": ("ads", "./..."), "C10": ("ds", "."), "C11": ("ds", ". ./orderedmap/..."),
       "C12": ("ds", "./..."), "C13": ("ds", "./reactive/..."), "C14": ("ds", "./reactive/..."),
       "C15": ("runtime", "./event/... ./promise/... ./valuenotifier/..."), "C16": ("runtime", "./workerpool/... ./syncutils/..."),
       "C17": ("runtime", "./syncutils/..."), "C18": ("runtime", "./timed/..."), "C19": ("core", "./safemath/..."),
       "C20": ("app", "./daemon/...")}
props = {json.loads(l)["id"]: json.loads(l) for l in open(os.path.join(ROOT, "properties.jsonl"))}
letter = sys.argv[1]
for pid in sys.argv[2:]:
    r = letter + pid[1:]
    wt = "/tmp/wt-" + r
    subprocess.run("git -C /repo worktree remove --force %s" % wt, shell=True, capture_output=True)
    subprocess.run("git -C /repo worktree add --detach %s HEAD" % wt, shell=True, check=True, capture_output=True)
    p = props[pid]
    with open(os.path.join(wt, "PROPERTY.txt"), "w") as fh:
        fh.write("%s\n\n%s\n\nQuantified over: %s\n\nFiles concerned:\n%s\n\nMechanisms:\n%s\n" % (
            p["title"], p["statement"], p["quantifier"]["text"], "\n".join("  " + f for f in p["anchors"]["files"]),
            "\n".join("  - %s (%s)" % (m["name"], m["where"]) for m in p["anchors"].get("mechanism", []))))
    earlier = []
    for n in sorted(os.listdir(os.path.join(ROOT, "seeded"))):
        mp = os.path.join(ROOT, "seeded", n, "meta.json")
        if os.path.exists(mp) and json.load(open(mp))["property"] == pid:
            earlier.append(n.split("-", 1)[1].replace("-", " "))
    focus = ("earlier seeds for this property already did these (do something that differs in mechanism and place): %s. "
             "Prefer a change whose effect needs a specific interleaving, a specific sequence of calls, or a specific boundary value. "
             "Corners worth considering: error/failure paths and what state they leave behind, rarely combined options or wrappers, "
             "callbacks that call back into the same object, objects used right after construction or right after shutdown/restart, "
             "the less used methods of the API, aliasing of caller-owned slices, integer boundaries, state shared between several objects "
             "of the same type, two objects used together (a view and its parent, a group and its pools, a set and its derived set), "
             "promptness (something that must happen soon happens only much later), options and constructors that the examples never use." % "; ".join(earlier))
    mod, pkgs = MOD[pid]
    t = open(os.path.join(ROOT, "tools", "seed_prompt.txt")).read()
    t = t.replace("@R@", r).replace("@FOCUS@", focus).replace("@MOD@", mod).replace("@PKGS@", pkgs).replace("second-round", "later-round")
    with open(os.path.join(ROOT, "out", "seedprompt_%s.txt" % r), "w") as fh:
        fh.write(t)
    print(r, wt, len(earlier), "earlier")
