#!/bin/sh
# usage: seed_confirm.sh <worktree> <module> <pkgdir-rel-to-module> <seed-subdir> [extra go test flags]
# confirms: existing tests of the package pass with the change; demo fails with it and passes without it.
export GOFLAGS=-mod=mod GOPROXY=off GOSUMDB=off GOTOOLCHAIN=local
WT=$1; MOD=$2; PKG=$3; SD=$4; shift 4
cd $WT/$MOD || exit 2
echo "existing tests with change: $(timeout 300 go test -vet=off -count=1 ./$PKG/ 2>&1 | tail -1)"
for f in $WT/$SD/*_test.go; do cp $f $PKG/zz_seed_$(basename $f); done
echo "demo WITH change:    $(timeout 300 go test -vet=off -count=1 "$@" -run 'Seed' ./$PKG/ 2>&1 | tail -1)"
git -C $WT apply -R $WT/$SD/patch.diff || echo "cannot unapply"
echo "demo WITHOUT change: $(timeout 300 go test -vet=off -count=1 "$@" -run 'Seed' ./$PKG/ 2>&1 | tail -1)"
git -C $WT apply $WT/$SD/patch.diff
rm -f $PKG/zz_seed_*_test.go
