#!/bin/sh
# usage: tools/seed_check.sh <seed-dir-name> <property-id> <worktree>   - runs the property's quick check against the worktree
# (which holds the seeded change) without touching /repo; prints the verdict lines.
cd /verif
VERIF_REPO=$3 timeout 1500 python3 check.py $2 > out/seedrun_$1.log 2>&1
rc=$?
echo "seed=$1 property=$2 exit=$rc violations=$(grep -c '^VIOLATION' out/seedrun_$1.log) inconclusive=$(grep -c '^INCONCLUSIVE' out/seedrun_$1.log)"
grep -A1 '^VIOLATION' out/seedrun_$1.log | grep 'what:' | cut -c1-260 | head -4
