#!/usr/bin/env python3
"""Merge findings/<ID>.json fragments into the committed known_findings.json."""
import glob, json, os
root = os.path.dirname(os.path.dirname(os.path.abspath(__file__)))
out = []
for p in sorted(glob.glob(os.path.join(root, "findings", "*.json"))):
    try:
        data = json.load(open(p))
        if not isinstance(data, list) or not all(isinstance(x, dict) and "property" in x for x in data):
            print("skip (not a findings list)", p)
            continue
        out.extend(data)
    except Exception as e:
        print("skip", p, e)
json.dump({"findings": out}, open(os.path.join(root, "known_findings.json"), "w"), indent=1)
print(len(out), "findings")
