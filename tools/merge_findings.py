#!/usr/bin/env python3
"""Merge findings/<ID>.json fragments into the committed known_findings.json."""
import glob, json, os
root = os.path.dirname(os.path.dirname(os.path.abspath(__file__)))
out = []
for p in sorted(glob.glob(os.path.join(root, "findings", "*.json"))):
    try:
        data = json.load(open(p))
        if not isinstance(data, list) or not all(isinstance(x, dict) and "property" in x for x in data):
            print("skip (not a findings list)", p)
            continue
        out.extend(data)
    except Exception as e:
        print("skip", p, e)
for f in out:
    what = " ".join(str(f.get("what", "")).split())
    if f.get("status") == "fixed":
        f["line"] = "fixed: property=%s %s %s" % (f.get("property"), f.get("commit", "?"), what)
    else:
        f["line"] = "KNOWN-FINDING: property=%s %s" % (f.get("property"), what)
listed = [f for f in out if not str(f.get("property", "")).startswith("X")]
ext = [f for f in out if str(f.get("property", "")).startswith("X")]
out = listed
json.dump({"format": "one entry per finding; status 'known' = genuine defect recorded and suppressed by its sig (printed as KNOWN-FINDING by the check), "
                     "status 'fixed' = repaired by the named fix: commit in /repo (suppresses nothing); 'line' is the entry in the one-line form",
           "findings": out,
           "extension_findings_note": "defects found and repaired by the extension models X1/X2 (DESIGN 11.7), which lie outside the 20 listed properties; "
                                      "all fixed, none suppresses anything",
           "extension_findings": ext}, open(os.path.join(root, "known_findings.json"), "w"), indent=1)
print(len(out), "findings")
