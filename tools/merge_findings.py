#!/usr/bin/env python3
"""Merge findings/<ID>.json fragments into the committed known_findings.json."""
import glob, json, os
root = os.path.dirname(os.path.dirname(os.path.abspath(__file__)))
out = []
for p in sorted(glob.glob(os.path.join(root, "findings", "*.json"))):
    try:
        out.extend(json.load(open(p)))
    except Exception as e:
        print("skip", p, e)
json.dump({"findings": out}, open(os.path.join(root, "known_findings.json"), "w"), indent=1)
print(len(out), "findings")
