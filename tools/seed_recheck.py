#!/usr/bin/env python3
"""seed_recheck.py [-j N] [name-substring ...]   - sensitivity regression: for every /verif/seeded/<name>/ (or those matching)
make a scratch worktree of /repo's HEAD under /tmp, apply patch.diff, run the property's quick check against it
(VERIF_REPO, /repo itself untouched), remove the worktree; prints one line per seed and writes out/seed_recheck.json."""
import concurrent.futures as cf
import json
import os
import subprocess
import sys

ROOT = os.path.dirname(os.path.dirname(os.path.abspath(__file__)))
ENV = dict(os.environ, GOFLAGS="-mod=mod", GOPROXY="off", GOSUMDB="off", GOTOOLCHAIN="local")


def one(name):
    d = os.path.join(ROOT, "seeded", name)
    meta = json.load(open(os.path.join(d, "meta.json")))
    prop = meta["property"]
    wt = "/tmp/rc-" + name[:40]
    subprocess.run("git -C /repo worktree remove --force %s" % wt, shell=True, capture_output=True)
    p = subprocess.run("git -C /repo worktree add --detach %s HEAD" % wt, shell=True, capture_output=True, text=True)
    if p.returncode != 0:
        return name, prop, "worktree failed: " + p.stderr[-200:], 2, []
    try:
        p = subprocess.run("git -C %s apply %s/patch.diff" % (wt, d), shell=True, capture_output=True, text=True)
        if p.returncode != 0:
            return name, prop, "patch does not apply: " + p.stderr[-300:], 2, []
        p = subprocess.run("timeout 1800 python3 check.py %s" % prop, cwd=ROOT, shell=True, capture_output=True, text=True,
                           env=dict(ENV, VERIF_REPO=wt))
        out = p.stdout + p.stderr
        what = [l.strip()[:240] for l in out.splitlines() if l.strip().startswith("what:")]
        nviol = len([l for l in out.splitlines() if l.startswith("VIOLATION")])
        with open(os.path.join(ROOT, "out", "seedrecheck_%s.log" % name), "w") as fh:
            fh.write(out)
        return name, prop, "detected" if nviol else "MISSED", p.returncode, what[:2]
    finally:
        subprocess.run("git -C /repo worktree remove --force %s" % wt, shell=True, capture_output=True)
        base = os.path.basename(wt)
        subprocess.run("rm -rf %s/harness/bin/*-alt-%s* %s/harness/go.alt-%s* %s/out/*-alt-%s*" % (ROOT, base, ROOT, base, ROOT, base), shell=True)


def main():
    args = sys.argv[1:]
    j = 2
    if args[:1] == ["-j"]:
        j = int(args[1])
        args = args[2:]
    names = sorted(n for n in os.listdir(os.path.join(ROOT, "seeded")) if os.path.exists(os.path.join(ROOT, "seeded", n, "patch.diff")))
    if args:
        names = [n for n in names if any(a in n for a in args)]
    res = []
    with cf.ThreadPoolExecutor(j) as ex:
        for r in ex.map(one, names):
            print("%-48s %-4s %-9s exit=%d %s" % (r[0], r[1], r[2], r[3], (r[4] or [""])[0][:150]), flush=True)
            res.append({"seed": r[0], "property": r[1], "verdict": r[2], "exit": r[3], "what": r[4]})
    json.dump(res, open(os.path.join(ROOT, "out", "seed_recheck.json"), "w"), indent=1)
    missed = [r for r in res if r["verdict"] != "detected"]
    print("%d seeds, %d detected, %d not" % (len(res), len(res) - len(missed), len(missed)))
    return 1 if missed else 0


if __name__ == "__main__":
    sys.exit(main())
