#!/usr/bin/env python3
"""seed_process.py <worktree> <property> <module> <pkgdir> <name> [<seed-subdir>=SEED] [--other <subdir>] [--race] [--tags verif] [--run REGEX]

Confirms a seeded change delivered by an independent agent in <worktree>/<seed-subdir> (patch.diff, *_test.go, notes.md):
 existing tests of the package pass with it, the demonstration fails with it and passes without it; then runs the
 property's quick check against the worktree holding ONLY this change (VERIF_REPO, /repo untouched) and stores everything
 under /verif/seeded/<name>/ (patch.diff, demo, notes.md, meta.json).  --other <subdir>: another seed applied in the same
 worktree that has to be unapplied while this one is checked."""
import glob
import json
import os
import shutil
import subprocess
import sys

ENV = dict(os.environ, GOFLAGS="-mod=mod", GOPROXY="off", GOSUMDB="off", GOTOOLCHAIN="local")


def sh(cmd, cwd=None, timeout=900, env=ENV):
    p = subprocess.run(cmd, cwd=cwd, shell=True, stdout=subprocess.PIPE, stderr=subprocess.STDOUT, text=True, timeout=timeout, env=env)
    return p.returncode, p.stdout


def main():
    a = sys.argv[1:]
    wt, prop, mod, pkg, name = a[:5]
    rest = a[5:]
    sub = "SEED"
    other = None
    extra = ""
    runre = "Seed"
    i = 0
    while i < len(rest):
        if rest[i] == "--other":
            other = rest[i + 1]
            i += 2
        elif rest[i] == "--race":
            extra += " -race"
            i += 1
        elif rest[i] == "--run":
            runre = rest[i + 1]
            i += 2
        elif rest[i] == "--tags":
            extra += " -tags " + rest[i + 1]
            i += 2
        else:
            sub = rest[i]
            i += 1
    sd = os.path.join(wt, sub)
    moddir = os.path.join(wt, mod)
    if other:
        rc, out = sh("git -C %s apply -R %s/%s/patch.diff" % (wt, wt, other))
        if rc != 0:
            print("cannot unapply other seed:", out)
            return 2
    try:
        rc, out = sh("go test -vet=off -count=1 ./%s/" % pkg, cwd=moddir)
        existing_ok = rc == 0
        if not existing_ok:   # one retry (timing-flaky tests on a loaded machine)
            rc, out = sh("go test -vet=off -count=1 ./%s/" % pkg, cwd=moddir)
            existing_ok = rc == 0
        demos = glob.glob(os.path.join(sd, "*_test.go"))
        for f in demos:
            shutil.copy(f, os.path.join(moddir, pkg, "zz_seed_" + os.path.basename(f)))
        rc_with, out_with = sh("go test -vet=off -count=1%s -run '%s' ./%s/" % (extra, runre, pkg), cwd=moddir)
        sh("git -C %s apply -R %s/patch.diff" % (wt, sd))
        rc_without, out_without = sh("go test -vet=off -count=1%s -run '%s' ./%s/" % (extra, runre, pkg), cwd=moddir)
        sh("git -C %s apply %s/patch.diff" % (wt, sd))
        for f in glob.glob(os.path.join(moddir, pkg, "zz_seed_*_test.go")):
            os.remove(f)
        confirmed = existing_ok and rc_with != 0 and rc_without == 0
        print("existing tests pass with change: %s; demo fails with change: %s; demo passes without: %s" % (existing_ok, rc_with != 0, rc_without == 0))
        if not confirmed:
            print("NOT CONFIRMED\n--- with:\n%s\n--- without:\n%s" % (out_with[-800:], out_without[-800:]))
        env = dict(ENV, VERIF_REPO=wt)
        rc, out = sh("timeout 1500 python3 check.py %s" % prop, cwd="/verif", timeout=1600, env=env)
        viol = [l for l in out.splitlines() if l.startswith("VIOLATION") or l.strip().startswith("what:")]
        inc = [l for l in out.splitlines() if l.startswith("INCONCLUSIVE")]
        print("check exit=%d violations=%d inconclusive=%d" % (rc, len([v for v in viol if v.startswith("VIOLATION")]), len(inc)))
        for v in viol[:6]:
            print("  " + v[:260])
        with open("/verif/out/seedrun_%s.log" % name, "w") as fh:
            fh.write(out)
        d = os.path.join("/verif/seeded", name)
        os.makedirs(d, exist_ok=True)
        shutil.copy(os.path.join(sd, "patch.diff"), os.path.join(d, "patch.diff"))
        for f in demos:
            shutil.copy(f, os.path.join(d, os.path.basename(f) + ".txt"))
        notes = ""
        if os.path.exists(os.path.join(sd, "notes.md")):
            shutil.copy(os.path.join(sd, "notes.md"), os.path.join(d, "notes.md"))
            notes = open(os.path.join(sd, "notes.md")).read()
        meta = {"property": prop, "breaks": " ".join(notes.split())[:600], "needs_to_manifest": "see notes.md",
                "author": "independent sub-agent given only the property text (plus one-line descriptions of earlier seeds to avoid) and a scratch worktree",
                "confirmed": ("existing tests of the touched package pass with the change; the demonstration fails with the change and passes "
                              "without it (tools/seed_process.py)") if confirmed else "NOT confirmed - see tools/seed_process.py output",
                "ran": "VERIF_REPO=<scratch worktree with only this change> python3 check.py %s" % prop,
                "detected": bool([v for v in viol if v.startswith("VIOLATION")]), "check_exit": rc,
                "check_output": [v[:300] for v in viol[:6]]}
        with open(os.path.join(d, "meta.json"), "w") as fh:
            json.dump(meta, fh, indent=1)
    finally:
        if other:
            sh("git -C %s apply %s/%s/patch.diff" % (wt, wt, other))
    base = os.path.basename(wt.rstrip("/"))   # (only this worktree's scratch: other seeds may be processed concurrently)
    subprocess.run("rm -rf /verif/harness/bin/*-alt-%s* /verif/harness/go.alt-%s* /verif/out/*-alt-%s*" % (base, base, base), shell=True)
    return 0


if __name__ == "__main__":
    sys.exit(main())
