\* thorough tier: 4 element handles, handle ids are recycled (Forget)
CONSTANTS
  Ns = {4}
  Vals = {1, 2}
  Ops <- AllOps
  Recycle = TRUE
  Deep = FALSE
INVARIANTS TypeOK WellFormed RemovedDetached Observable Terminates
