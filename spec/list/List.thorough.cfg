\* thorough tier: 5 element handles
CONSTANTS
  Ns = {5}
  Vals = {1, 2}
  Recycle = FALSE
  Deep = FALSE
INVARIANTS TypeOK WellFormed RemovedDetached Observable Terminates
