\* thorough tier, second run: keeps exploring on tainted lists, handle ids are recycled
CONSTANTS
  Ns = {3}
  Vals = {1, 2}
  Recycle = TRUE
  Deep = TRUE
INVARIANTS TypeOK WellFormed RemovedDetached Observable Terminates
