\* thorough tier, second run: keeps exploring on tainted lists, no recycling of handle ids
CONSTANTS
  Ns = {3}
  Vals = {1, 2}
  Ops <- AllOps
  Recycle = FALSE
  Deep = TRUE
INVARIANTS TypeOK WellFormed RemovedDetached Observable Terminates
