\* validation of recorded histories (Do is total; Recycle/Deep only shape Next)
CONSTANTS
  Ns = {6}
  Vals = {1, 2}
  Ops <- AllOps
  Recycle = TRUE
  Deep = TRUE
INVARIANTS TypeOK WellFormed
