\* second exported transition system: 4 element handles, only the calls that create elements
\* (whole-list pushes of lists with 2 elements onto themselves / each other need > 3 handles)
CONSTANTS
  Ns = {4}
  Vals = {1, 2}
  Ops = {"PushFront", "PushBack", "PushBackList", "PushFrontList", "Init"}
  Recycle = FALSE
  Deep = FALSE
INVARIANTS TypeOK WellFormed RemovedDetached Observable Terminates
