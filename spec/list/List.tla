------------------------------- MODULE List -------------------------------
(* ds.List (property C10): "behaves exactly like Go's container/list".                      *)
(*                                                                                          *)
(* Pointer-level heap model of the *reference* (Go's container/list), not of hive.go:       *)
(*   cells   = two sentinels (Root(1) = -1, Root(2) = -2) and the elements 1..cfg.n          *)
(*   hp.n/p  = next / prev pointer of every cell (0 = nil)                                  *)
(*   hp.o    = owner ("list") pointer of every element (0 = nil)                            *)
(*   hp.v    = value of every element (0 = handle id not allocated)                         *)
(*   hp.len  = len field of both lists                                                      *)
(* Handles are the element ids; a new element gets the smallest unallocated id (the adapter *)
(* keeps the table id -> real *Element).  Every operation is the sequence of pointer        *)
(* assignments of container/list, so the behaviour with removed handles, handles of the     *)
(* other list, the same list as argument of PushBackList/PushFrontList and with handles     *)
(* orphaned by Init ("stale": their owner pointer still names the list) is the reference's. *)
(*                                                                                          *)
(* stale = elements orphaned by Init; taint = lists on which a stale handle was used in a   *)
(* mutating call (from then on the ring of that list is not a ring any more, in Go as well).*)
(* Next explores every call on untainted states including the call that taints; what is     *)
(* explored beyond that is governed by Deep (see Enabled).                                  *)
(*                                                                                          *)
(* Convention of spec/README.md: cfg, ev = stimulus + res + st, Do(s).                      *)
(*   res = [x |-> "ok" | "err" | "PANIC" (| "HANG" only ever produced by an adapter),       *)
(*          r |-> integer result (handle id / value / count) or visited values (ForEach..)]  *)
(*   st  = both lists forwards and backwards, Len, Front, Back, and Prev/Next/Value of      *)
(*         every handle id.  The adapters fill st through the read-only API after every call *)
(*         (Len, Front, Back, Values, ForEach, ForEachReverse, Range, RangeReverse, and      *)
(*         Prev/Next/Value of every handle); `agree` says all iteration APIs gave one answer.*)
(* cfg files: List.cfg (quick MC, 4 handles), List.lts.cfg (all calls, 3 handles) and       *)
(* List.lts2.cfg (element-creating calls, 4 handles) are exported and walked on the three   *)
(* real objects; List.trace.cfg validates recorded histories (6 handles, ids recycled by    *)
(* Forget, tainted lists included); List.thorough.cfg / List.deep.cfg: thorough tier.       *)
EXTENDS Integers, Sequences, FiniteSets, TLC

CONSTANTS Ns,       \* sizes of the handle table (cfg.n)
          Vals,     \* values stored (positive integers)
          Ops,      \* operations Next issues (AllOps, or a subset to focus a bigger handle table)
          Recycle,  \* TRUE: Next contains the harness-level stimulus Forget (frees handle ids)
          Deep      \* TRUE: Next keeps exploring after a list was tainted by a stale handle
ASSUME 0 \notin Vals
AllOps == {"PushFront", "PushBack", "InsertBefore", "InsertAfter", "Remove", "MoveToFront", "MoveToBack",
           "MoveBefore", "MoveAfter", "PushBackList", "PushFrontList", "Init", "ForEach", "ForEachReverse"}
\* RangeMut: an iteration whose callback removes an element of the list at its k-th call (lock-free flavours only: the
\* thread-safe flavour holds its lock while it iterates)
MutOps == {"RangeMut"}
ASSUME Ops \subseteq AllOps \cup MutOps

VARIABLES cfg, hp, stale, taint, ev
vars == <<cfg, hp, stale, taint, ev>>
View == <<cfg, hp, stale, taint>>

Lists == {1, 2}
Root(L) == 0 - L
Elems == 1..cfg.n
Cells(c) == {-2, -1} \cup (1..c.n)

InitHeap(c) == [n   |-> [x \in Cells(c) |-> IF x < 0 THEN x ELSE 0],
                p   |-> [x \in Cells(c) |-> IF x < 0 THEN x ELSE 0],
                o   |-> [x \in 1..c.n |-> 0],
                v   |-> [x \in 1..c.n |-> 0],
                len |-> [L \in Lists |-> 0]]

\* compact, injective rendering of View (state id in the exported transition system)
Sid == <<cfg.n, [i \in 1..cfg.n |-> <<hp.n[i], hp.p[i], hp.o[i], hp.v[i]>>],
         <<hp.n[-1], hp.p[-1], hp.n[-2], hp.p[-2]>>, hp.len, stale, taint>>

Cfgs == [n : Ns]
Init == /\ cfg \in Cfgs
        /\ hp = InitHeap(cfg)
        /\ stale = {}
        /\ taint = {}
        /\ ev = [op |-> "reset", cfg |-> cfg]

-----------------------------------------------------------------------------
(* container/list, element methods *)
OwnerOf(h, e) == IF e > 0 THEN h.o[e] ELSE 0                \* the sentinels' list pointer is nil
NextOf(h, e) == IF OwnerOf(h, e) # 0 /\ h.n[e] # Root(OwnerOf(h, e)) THEN h.n[e] ELSE 0
PrevOf(h, e) == IF OwnerOf(h, e) # 0 /\ h.p[e] # Root(OwnerOf(h, e)) THEN h.p[e] ELSE 0
ValOf(h, e)  == IF e > 0 THEN h.v[e] ELSE 0                 \* sentinel: zero value

(* container/list, list methods *)
FrontOf(h, L) == IF h.len[L] = 0 THEN 0 ELSE h.n[Root(L)]
BackOf(h, L)  == IF h.len[L] = 0 THEN 0 ELSE h.p[Root(L)]

Free(h)  == {e \in DOMAIN h.v : h.v[e] = 0}
Fresh(h) == CHOOSE e \in Free(h) : \A x \in Free(h) : e <= x

NotNil(x) == Assert(x # 0, "nil pointer dereference in the reference model")

\* insert(e, at): e.prev = at; e.next = at.next; e.prev.next = e; e.next.prev = e; e.list = l; l.len++
Insert(h, L, e, at) ==
  LET h1 == [h  EXCEPT !.p[e] = at, !.n[e] = h.n[at]]
      h2 == [h1 EXCEPT !.n[h1.p[e]] = e]
      h3 == [h2 EXCEPT !.p[h2.n[e]] = e]
  IN IF NotNil(at) /\ NotNil(h.n[at])
       THEN [h3 EXCEPT !.o[e] = L, !.len[L] = @ + 1] ELSE h
InsertValue(h, L, v, at) == LET e == Fresh(h) IN Insert([h EXCEPT !.v[e] = v], L, e, at)

\* remove(e): e.prev.next = e.next; e.next.prev = e.prev; e.next = nil; e.prev = nil; e.list = nil; l.len--
Unlink(h, L, e) ==
  LET h1 == [h  EXCEPT !.n[h.p[e]] = h.n[e]]
      h2 == [h1 EXCEPT !.p[h1.n[e]] = h1.p[e]]
  IN IF NotNil(h.p[e]) /\ NotNil(h.n[e])
       THEN [h2 EXCEPT !.n[e] = 0, !.p[e] = 0, !.o[e] = 0, !.len[L] = @ - 1] ELSE h

\* move(e, at): if e == at return; unlink e; e.prev = at; e.next = at.next; e.prev.next = e; e.next.prev = e
Move(h, e, at) ==
  IF e = at THEN h ELSE
  LET h1 == [h  EXCEPT !.n[h.p[e]] = h.n[e]]
      h2 == [h1 EXCEPT !.p[h1.n[e]] = h1.p[e]]
      h3 == [h2 EXCEPT !.p[e] = at]
      h4 == [h3 EXCEPT !.n[e] = h3.n[at]]
      h5 == [h4 EXCEPT !.n[h4.p[e]] = e]
      h6 == [h5 EXCEPT !.p[h5.n[e]] = e]
  IN IF NotNil(h.p[e]) /\ NotNil(h.n[e]) /\ NotNil(at) /\ NotNil(h3.n[at]) THEN h6 ELSE h

\* for e := l.Front(); e != nil; e = e.Next() { visit e.Value }   (and the reverse); -9 = does not end
RECURSIVE Walk(_, _, _, _)
Walk(h, e, fwd, fuel) ==
  IF e = 0 THEN <<>>
  ELSE IF fuel = 0 THEN <<-9>>
  ELSE <<ValOf(h, e)>> \o Walk(h, IF fwd THEN NextOf(h, e) ELSE PrevOf(h, e), fwd, fuel - 1)
\* the same loop with a callback that, at its k-th call, removes element s.h from list s.l: the iteration goes on from what
\* e.Next() / e.Prev() says AFTER the callback returned (a removed element has no neighbours: removing the visited element ends
\* the iteration, removing the next one skips it)
RECURSIVE WalkM(_, _, _, _, _, _)
WalkM(h, e, fwd, fuel, cnt, s) ==
  IF e = 0 THEN [vis |-> <<>>, h |-> h]
  ELSE IF fuel = 0 THEN [vis |-> <<-9>>, h |-> h]
  ELSE LET h1 == IF cnt = s.k /\ h.o[s.h] = s.l THEN Unlink(h, s.l, s.h) ELSE h
           r  == WalkM(h1, IF fwd THEN NextOf(h1, e) ELSE PrevOf(h1, e), fwd, fuel - 1, cnt + 1, s)
       IN  [vis |-> <<ValOf(h, e)>> \o r.vis, h |-> r.h]
Fuel == cfg.n + 2
Fwd(h, L) == Walk(h, FrontOf(h, L), TRUE, Fuel)
Bwd(h, L) == Walk(h, BackOf(h, L), FALSE, Fuel)

\* PushBackList:  for i, e := other.Len(), other.Front(); i > 0; i, e = i-1, e.Next() { l.insertValue(e.Value, l.root.prev) }
\* PushFrontList: for i, e := other.Len(), other.Back();  i > 0; i, e = i-1, e.Prev() { l.insertValue(e.Value, &l.root) }
\* e = nil inside the loop panics in the reference.  (e = sentinel reads the sentinel's nil Value in the
\* reference; that only happens on tainted lists, which Enabled excludes for these two calls.)
RECURSIVE PushAll(_, _, _, _, _)
PushAll(h, L, i, e, back) ==
  IF i <= 0 THEN [h |-> h, x |-> "ok"]
  ELSE IF e <= 0 THEN [h |-> h, x |-> "PANIC"]
  ELSE LET h1 == InsertValue(h, L, h.v[e], IF back THEN h.p[Root(L)] ELSE Root(L))
       IN PushAll(h1, L, i - 1, IF back THEN NextOf(h1, e) ELSE PrevOf(h1, e), back)

-----------------------------------------------------------------------------
(* projection of the state: what the public API shows *)
Proj(x) == IF x < 0 THEN -1 ELSE x          \* a sentinel handed out as element (tainted lists only)
LSt(h, L) == [len   |-> h.len[L],
              front |-> Proj(FrontOf(h, L)),
              back  |-> Proj(BackOf(h, L)),
              fwd   |-> Fwd(h, L),          \* Values() = ForEach = Range = Front().Next()...
              bwd   |-> Bwd(h, L),          \* ForEachReverse = RangeReverse = Back().Prev()...
              agree |-> TRUE]               \* all ways of iterating gave the same sequence
St(h) == [l1 |-> LSt(h, 1), l2 |-> LSt(h, 2),
          h  |-> [i \in 1..cfg.n |-> [p |-> Proj(PrevOf(h, i)), n |-> Proj(NextOf(h, i)), v |-> h.v[i]]]]

Out(s, h2, x, r, stale2, taint2) ==
  /\ UNCHANGED cfg
  /\ hp' = h2
  /\ stale' = stale2
  /\ taint' = taint2
  /\ ev' = [res |-> [x |-> x, r |-> r], st |-> St(h2)] @@ s

Taint(L, args) == IF \E a \in args : a \in stale /\ hp.o[a] = L THEN taint \cup {L} ELSE taint
Noop(s, r) == Out(s, hp, "ok", r, stale, taint)

Take(q, k) == SubSeq(q, 1, IF Len(q) < k THEN Len(q) ELSE k)

\* harness-level: drop handle ids so that they can be reused (never changes what a list shows)
Unreferenced(h, e) == \A c \in DOMAIN h.n : h.n[c] # e /\ h.p[c] # e
ForgetGroup(e) ==
  IF hp.v[e] = 0 THEN {}
  ELSE IF hp.o[e] = 0 THEN (IF Unreferenced(hp, e) THEN {e} ELSE {})
  ELSE IF e \in stale /\ hp.o[e] \notin taint THEN {x \in stale : hp.o[x] = hp.o[e]}
  ELSE {}

Do(s) ==
  CASE s.op = "reset" ->
         /\ cfg' = s.cfg /\ hp' = InitHeap(s.cfg) /\ stale' = {} /\ taint' = {} /\ ev' = s
    [] s.op \in {"PushFront", "PushBack"} ->
         LET at == IF s.op = "PushFront" THEN Root(s.l) ELSE hp.p[Root(s.l)]
         IN Out(s, InsertValue(hp, s.l, s.v, at), "ok", Fresh(hp), stale, taint)
    [] s.op \in {"InsertBefore", "InsertAfter"} ->
         IF hp.o[s.p] # s.l THEN Noop(s, 0)
         ELSE LET at == IF s.op = "InsertBefore" THEN hp.p[s.p] ELSE s.p
              IN Out(s, InsertValue(hp, s.l, s.v, at), "ok", Fresh(hp), stale, Taint(s.l, {s.p}))
    [] s.op = "Remove" ->
         IF hp.o[s.h] # s.l THEN Noop(s, hp.v[s.h])
         ELSE Out(s, Unlink(hp, s.l, s.h), "ok", hp.v[s.h], stale, Taint(s.l, {s.h}))
    [] s.op = "MoveToFront" ->
         IF hp.o[s.h] # s.l \/ hp.n[Root(s.l)] = s.h THEN Noop(s, 0)
         ELSE Out(s, Move(hp, s.h, Root(s.l)), "ok", 0, stale, Taint(s.l, {s.h}))
    [] s.op = "MoveToBack" ->
         IF hp.o[s.h] # s.l \/ hp.p[Root(s.l)] = s.h THEN Noop(s, 0)
         ELSE Out(s, Move(hp, s.h, hp.p[Root(s.l)]), "ok", 0, stale, Taint(s.l, {s.h}))
    [] s.op = "MoveBefore" ->
         IF hp.o[s.h] # s.l \/ s.h = s.p \/ hp.o[s.p] # s.l THEN Noop(s, 0)
         ELSE Out(s, Move(hp, s.h, hp.p[s.p]), "ok", 0, stale, Taint(s.l, {s.h, s.p}))
    [] s.op = "MoveAfter" ->
         IF hp.o[s.h] # s.l \/ s.h = s.p \/ hp.o[s.p] # s.l THEN Noop(s, 0)
         ELSE Out(s, Move(hp, s.h, s.p), "ok", 0, stale, Taint(s.l, {s.h, s.p}))
    [] s.op = "PushBackList" ->
         LET r == PushAll(hp, s.l, hp.len[s.o], FrontOf(hp, s.o), TRUE)
         IN Out(s, r.h, r.x, 0, stale, taint)
    [] s.op = "PushFrontList" ->
         LET r == PushAll(hp, s.l, hp.len[s.o], BackOf(hp, s.o), FALSE)
         IN Out(s, r.h, r.x, 0, stale, taint)
    [] s.op = "Init" ->       \* returns the list itself (r = 1)
         LET r == Root(s.l)
         IN Out(s, [hp EXCEPT !.n[r] = r, !.p[r] = r, !.len[s.l] = 0], "ok", 1,
                stale \cup {e \in Elems : hp.o[e] = s.l}, taint)
    [] s.op \in {"ForEach", "ForEachReverse"} ->   \* the callback fails at its k-th call
         LET w == IF s.op = "ForEach" THEN Fwd(hp, s.l) ELSE Bwd(hp, s.l)
         IN Out(s, hp, IF Len(w) >= s.k THEN "err" ELSE "ok", Take(w, s.k), stale, taint)
    [] s.op = "RangeMut" ->
         LET r == WalkM(hp, IF s.fwd THEN FrontOf(hp, s.l) ELSE BackOf(hp, s.l), s.fwd, cfg.n + 2, 1, s)
         IN Out(s, r.h, "ok", r.vis, stale, taint)
    [] s.op = "Forget" ->
         LET g == ForgetGroup(s.h)
         IN Out(s, [hp EXCEPT !.n = [c \in DOMAIN hp.n |-> IF c \in g THEN 0 ELSE hp.n[c]],
                              !.p = [c \in DOMAIN hp.p |-> IF c \in g THEN 0 ELSE hp.p[c]],
                              !.o = [c \in DOMAIN hp.o |-> IF c \in g THEN 0 ELSE hp.o[c]],
                              !.v = [c \in DOMAIN hp.v |-> IF c \in g THEN 0 ELSE hp.v[c]]],
                "ok", Cardinality(g), stale \ g, taint)

-----------------------------------------------------------------------------
Hs == {h \in Elems : hp.v[h] # 0}          \* handles the caller holds
Stimuli ==
       [op : {"PushFront", "PushBack"}, l : Lists, v : Vals]
  \cup [op : {"InsertBefore", "InsertAfter"}, l : Lists, v : Vals, p : Hs]
  \cup [op : {"Remove", "MoveToFront", "MoveToBack"}, l : Lists, h : Hs]
  \cup [op : {"MoveBefore", "MoveAfter"}, l : Lists, h : Hs, p : Hs]
  \cup [op : {"PushBackList", "PushFrontList"}, l : Lists, o : Lists]
  \cup [op : {"Init"}, l : Lists]
  \cup [op : {"ForEach", "ForEachReverse"}, l : Lists, k : 1..2]
  \cup [op : {"RangeMut"}, l : Lists, fwd : BOOLEAN, k : 1..2, h : Hs]
  \cup (IF Recycle THEN [op : {"Forget"}, h : Hs] ELSE {})

Need(s) == CASE s.op \in {"PushFront", "PushBack"} -> 1
             [] s.op \in {"InsertBefore", "InsertAfter"} -> IF hp.o[s.p] = s.l THEN 1 ELSE 0
             [] s.op \in {"PushBackList", "PushFrontList"} -> IF hp.len[s.o] > 0 THEN hp.len[s.o] ELSE 0
             [] OTHER -> 0

Enabled(s) ==
  /\ (s.op \in Ops \/ s.op = "Forget")
  /\ Need(s) <= Cardinality(Free(hp))                  \* enough handle ids left
  /\ (s.op \in {"PushBackList", "PushFrontList"} => {s.l, s.o} \cap taint = {})
  /\ (s.op = "Forget" => ForgetGroup(s.h) # {})
  /\ (s.op = "RangeMut" => s.h \notin stale /\ hp.o[s.h] = s.l /\ taint = {})
  /\ (Deep \/ taint = {})

Next == \E s \in Stimuli : Enabled(s) /\ Do(s)
Spec == Init /\ [][Next]_vars

-----------------------------------------------------------------------------
(* The property on the model.                                                               *)
(* While only live handles are used (list not tainted) each list is a well-formed ring:     *)
(* root -> e1 -> ... -> ek -> root by next, the inverse by prev, k = len, and e1..ek are     *)
(* exactly the elements whose owner pointer names the list (minus those orphaned by Init).  *)
RECURSIVE Follow(_, _, _, _)
Follow(h, e, root, fuel) ==
  IF e = root THEN <<>>
  ELSE IF fuel = 0 \/ e = 0 THEN <<-9>>
  ELSE <<e>> \o Follow(h, h.n[e], root, fuel - 1)

WFList(L) ==
  LET r == Root(L)
      s == Follow(hp, hp.n[r], r, cfg.n + 1)
      m == {e \in Elems : hp.o[e] = L /\ e \notin stale}
  IN /\ \A i \in 1..Len(s) : s[i] > 0
     /\ Len(s) = hp.len[L]
     /\ {s[i] : i \in 1..Len(s)} = m
     /\ Cardinality(m) = Len(s)
     /\ \A i \in 1..Len(s) : hp.p[s[i]] = (IF i = 1 THEN r ELSE s[i - 1])
     /\ hp.p[r] = (IF s = <<>> THEN r ELSE s[Len(s)])
     /\ \A i \in 1..Len(s) : hp.v[s[i]] \in Vals
WellFormed == \A L \in Lists : L \notin taint => WFList(L)

\* removed elements are fully detached (nobody points at them) while no list is tainted
RemovedDetached ==
  taint = {} => \A e \in Elems : (hp.v[e] # 0 /\ hp.o[e] = 0) =>
                                 (hp.n[e] = 0 /\ hp.p[e] = 0 /\ Unreferenced(hp, e))

\* what a caller sees of an untainted list is one sequence: backwards = reverse of forwards,
\* Len = its length, Front/Back = its ends, Prev/Next of every member = its neighbours
Rev(q) == [i \in 1..Len(q) |-> q[Len(q) + 1 - i]]
Observable ==
  \A L \in Lists : L \notin taint =>
     LET f == Fwd(hp, L)  b == Bwd(hp, L)
         ids == Follow(hp, hp.n[Root(L)], Root(L), cfg.n + 1)
     IN /\ b = Rev(f)
        /\ Len(f) = hp.len[L]
        /\ f = [i \in 1..Len(ids) |-> hp.v[ids[i]]]
        /\ FrontOf(hp, L) = (IF ids = <<>> THEN 0 ELSE ids[1])
        /\ BackOf(hp, L) = (IF ids = <<>> THEN 0 ELSE ids[Len(ids)])
        /\ \A i \in 1..Len(ids) :
              /\ PrevOf(hp, ids[i]) = (IF i = 1 THEN 0 ELSE ids[i - 1])
              /\ NextOf(hp, ids[i]) = (IF i = Len(ids) THEN 0 ELSE ids[i + 1])

\* iterating always ends, even on tainted lists (otherwise the adapters could not read st)
Terminates == \A L \in Lists : -9 \notin {Fwd(hp, L)[i] : i \in 1..Len(Fwd(hp, L))}
                            /\ -9 \notin {Bwd(hp, L)[i] : i \in 1..Len(Bwd(hp, L))}

TypeOK == /\ \A L \in Lists : hp.len[L] \in Int
          /\ stale \subseteq Elems
          /\ taint \subseteq Lists
=============================================================================
