\* exported transition system 3: iterations whose callback removes an element (walked on the reference and the lock-free flavour)
CONSTANTS
  Ns = {3}
  Vals = {1, 2}
  Ops = {"PushBack", "PushFront", "Remove", "RangeMut"}
  Recycle = FALSE
  Deep = FALSE
INVARIANTS TypeOK WellFormed RemovedDetached Observable Terminates
