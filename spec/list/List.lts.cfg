\* exported transition system (walked on the three real objects)
CONSTANTS
  Ns = {3}
  Vals = {1, 2}
  Ops <- AllOps
  Recycle = FALSE
  Deep = FALSE
INVARIANTS TypeOK WellFormed RemovedDetached Observable Terminates
