\* exhaustive run of the quick tier: 4 element handles, exploration stops at the call that taints
CONSTANTS
  Ns = {4}
  Vals = {1, 2}
  Ops <- AllOps
  Recycle = FALSE
  Deep = FALSE
INVARIANTS TypeOK WellFormed RemovedDetached Observable Terminates
