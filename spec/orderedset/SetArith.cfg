CONSTANTS
  NE = 3
  Below = 1
  Hi = 2
  Thresholds = {0, 1, 2}
INVARIANTS TypeOK
PROPERTIES Netto
VIEW View
