SPECIFICATION Spec
CONSTANTS
  Threads = {1, 2, 3}
  Methods = {"Add", "Delete", "AddAll", "DeleteAll", "Apply", "Compute", "Replace"}
  Variant = "code"
INVARIANTS AtomicWeak
PROPERTIES NoDeadlock
