------------------------------- MODULE SetLin -------------------------------
(* Linearizability of ds.Set as a trace specification with silent steps (C11: single-element *)
(* operations are linearizable; Apply/Compute/Replace are atomic).  Recorded histories hold    *)
(* invoke/return events of concurrent callers in one global order (invoke logged before the    *)
(* call, return after it); TLC searches for a placement of the silent Lin(t) steps, one per    *)
(* call between its invoke and its return, such that every result is the one the sequential    *)
(* set gives at that point.  A history is accepted iff the end of the log can be reached       *)
(* (invariant NotDone is then "violated"); concatenated histories are separated by reset.      *)
EXTENDS Integers, Sequences, FiniteSets, SequencesExt, TLC, Json

CONSTANTS Threads
VARIABLES l, contents, pend
vars == <<l, contents, pend>>

Log == ndJsonDeserialize("trace.ndjson")
Idle == [st |-> "idle"]
SeqSet(q) == {q[i] : i \in DOMAIN q}
Sorted(S) == SetToSortSeq(S, <)

(* sequential meaning: result and new contents of operation op with argument a on contents c *)
Res(op, a, c) ==
  CASE op = "Add" -> a \notin c
    [] op = "Delete" -> a \in c
    [] op = "Has" -> a \in c
    [] op = "Size" -> Cardinality(c)
    [] op = "Apply" -> [added |-> Sorted(SeqSet(a.add) \ c), deleted |-> Sorted(SeqSet(a.del) \cap (c \cup SeqSet(a.add)))]
    [] op = "Toggle" -> IF a \in c THEN [added |-> <<>>, deleted |-> <<a>>] ELSE [added |-> <<a>>, deleted |-> <<>>]   \* Compute(toggle a)
    [] op = "Replace" -> Sorted(c \ SeqSet(a))
    [] op = "ReplaceSelf" -> <<>>        \* Replace(a read-only view of the set itself): nothing is removed, the contents stay
Eff(op, a, c) ==
  CASE op = "Add" -> c \cup {a}
    [] op = "Delete" -> c \ {a}
    [] op \in {"Has", "Size"} -> c
    [] op = "Apply" -> (c \cup SeqSet(a.add)) \ SeqSet(a.del)
    [] op = "Toggle" -> IF a \in c THEN c \ {a} ELSE c \cup {a}
    [] op = "Replace" -> SeqSet(a)
    [] op = "ReplaceSelf" -> c

Init == l = 1 /\ contents = {} /\ pend = [t \in Threads |-> Idle] /\ TLCSet(1, 1)

Consume ==
  /\ l <= Len(Log) /\ l' = l + 1
  /\ LET e == Log[l] IN
     CASE e.ev = "reset" -> contents' = {} /\ pend' = [t \in Threads |-> Idle]
       [] e.ev = "inv" -> /\ pend[e.t].st = "idle"
                          /\ pend' = [pend EXCEPT ![e.t] = [st |-> "inv", op |-> e.op, a |-> e.a]] /\ UNCHANGED contents
       [] e.ev = "ret" -> /\ pend[e.t].st = "lin" /\ pend[e.t].res = e.res      \* the logged result is the sequential one
                          /\ pend' = [pend EXCEPT ![e.t] = Idle] /\ UNCHANGED contents
       [] e.ev = "final" -> /\ e.hung = <<>>                                     \* every call returned (no deadlock)
                            /\ e.contents = Sorted(contents)                     \* and the contents are what the linearization says
                            /\ UNCHANGED <<contents, pend>>
  /\ TLCSet(1, IF TLCGet(1) < l + 1 THEN l + 1 ELSE TLCGet(1))     \* (last: only when line l was consumed) high-water mark
(* Apply / Replace hold the write lock: no other MUTATOR can take effect in between (they are atomic with respect to *)
(* each other and to Add/Delete/Compute), but they change the map element by element, and the lock-free readers      *)
(* (Has, Size) may observe the intermediate contents - the property does not promise atomicity towards readers.      *)
Writing == \E u \in Threads : pend[u].st = "w"
Micro(op, a, c) == IF op = "Apply" THEN [i \in 1..Len(a.add) |-> <<"add", a.add[i]>>] \o [i \in 1..Len(a.del) |-> <<"del", a.del[i]>>]
                   ELSE LET new == IF op = "ReplaceSelf" THEN Sorted(c) ELSE a      \* (the view is read under the write lock: what the set holds then)
                        IN  <<<<"clear", 0>>>> \o [i \in 1..Len(new) |-> <<"add", new[i]>>]
WBegin(t) == /\ pend[t].st = "inv" /\ pend[t].op \in {"Apply", "Replace", "ReplaceSelf"} /\ ~Writing
             /\ pend' = [pend EXCEPT ![t] = [st |-> "w", res |-> Res(pend[t].op, pend[t].a, contents), todo |-> Micro(pend[t].op, pend[t].a, contents)]]
             /\ UNCHANGED <<l, contents>>
WStep(t) == /\ pend[t].st = "w" /\ pend[t].todo # <<>>
            /\ LET m == Head(pend[t].todo) IN
               contents' = CASE m[1] = "add" -> contents \cup {m[2]} [] m[1] = "del" -> contents \ {m[2]} [] OTHER -> {}
            /\ pend' = [pend EXCEPT ![t].todo = Tail(@)] /\ UNCHANGED l
WEnd(t) == /\ pend[t].st = "w" /\ pend[t].todo = <<>>
           /\ pend' = [pend EXCEPT ![t] = [st |-> "lin", res |-> pend[t].res]] /\ UNCHANGED <<l, contents>>
Lin(t) == /\ pend[t].st = "inv" /\ pend[t].op \notin {"Apply", "Replace", "ReplaceSelf"}
          /\ (pend[t].op \in {"Add", "Delete", "Toggle"} => ~Writing)
          /\ pend' = [pend EXCEPT ![t] = [st |-> "lin", res |-> Res(pend[t].op, pend[t].a, contents)]]
          /\ contents' = Eff(pend[t].op, pend[t].a, contents) /\ UNCHANGED l
Next == Consume \/ \E t \in Threads : Lin(t) \/ WBegin(t) \/ WStep(t) \/ WEnd(t)
Spec == Init /\ [][Next]_vars

NotDone == l <= Len(Log)
Short == [l |-> l]
HighWater == PrintT(<<"HW", ToString(TLCGet(1))>>)
=============================================================================
