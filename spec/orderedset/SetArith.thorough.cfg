CONSTANTS
  NE = 2
  Below = 2
  Hi = 4
  Thresholds = {0, 1, 2, 3}
INVARIANTS TypeOK
PROPERTIES Netto
