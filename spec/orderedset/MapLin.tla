------------------------------- MODULE MapLin -------------------------------
(* Linearizability of orderedmap.OrderedMap as a trace specification with silent steps (C11: the map is an    *)
(* insertion-ordered map for every history; single-element operations are linearizable).  Recorded histories  *)
(* hold invoke/return events of concurrent callers in one global order (invoke logged before the call, return *)
(* after it); TLC searches for a placement of the silent Lin(t) steps, one per call between its invoke and its *)
(* return, such that every result is the one the sequential insertion-ordered map gives at that point, and    *)
(* such that what the map shows once everything returned - forward and backward iteration, Size, Head, Tail - *)
(* is the state the linearization ends in.  Every call of the map is one critical section (Delete: a          *)
(* pre-check and a second look-up under the write lock), so each call is one atomic step here.                *)
EXTENDS Integers, Sequences, FiniteSets, SequencesExt, TLC, Json

CONSTANTS Threads
VARIABLES l, ord, pend
vars == <<l, ord, pend>>

Log == ndJsonDeserialize("trace.ndjson")
Idle == [st |-> "idle"]
Pos(q, k) == IF \E i \in DOMAIN q : q[i][1] = k THEN CHOOSE i \in DOMAIN q : q[i][1] = k ELSE 0
Rev(q) == [i \in DOMAIN q |-> q[Len(q) + 1 - i]]
None == <<0, 0, FALSE>>
Entry(q, i) == IF i = 0 \/ i > Len(q) THEN None ELSE <<q[i][1], q[i][2], TRUE>>

(* sequential meaning: result and new contents of operation op with argument a on the ordered contents q *)
Res(op, a, q) ==
  LET i == IF op \in {"Set", "Delete", "Get", "Has"} THEN Pos(q, IF op = "Set" THEN a[1] ELSE a) ELSE 0 IN
  CASE op = "Set" -> IF i = 0 THEN <<0, FALSE>> ELSE <<q[i][2], TRUE>>      \* previous value, previous value existed
    [] op = "Delete" -> i # 0
    [] op = "Has" -> i # 0
    [] op = "Get" -> IF i = 0 THEN <<0, FALSE>> ELSE <<q[i][2], TRUE>>
    [] op = "Size" -> Len(q)
    [] op = "Clear" -> 0
    [] op = "Head" -> Entry(q, IF q = <<>> THEN 0 ELSE 1)
    [] op = "Tail" -> Entry(q, Len(q))
Eff(op, a, q) ==
  CASE op = "Set" -> LET i == Pos(q, a[1]) IN IF i = 0 THEN Append(q, a) ELSE [q EXCEPT ![i] = a]   \* an overwrite keeps the position
    [] op = "Delete" -> SelectSeq(q, LAMBDA e : e[1] # a)
    [] op = "Clear" -> <<>>
    [] OTHER -> q

Init == l = 1 /\ ord = <<>> /\ pend = [t \in Threads |-> Idle] /\ TLCSet(1, 1)

Consume ==
  /\ l <= Len(Log) /\ l' = l + 1
  /\ LET e == Log[l] IN
     CASE e.ev = "reset" -> ord' = <<>> /\ pend' = [t \in Threads |-> Idle]
       [] e.ev = "inv" -> /\ pend[e.t].st = "idle"
                          /\ pend' = [pend EXCEPT ![e.t] = [st |-> "inv", op |-> e.op, a |-> e.a]] /\ UNCHANGED ord
       [] e.ev = "ret" -> /\ pend[e.t].st = "lin" /\ pend[e.t].res = e.res      \* the logged result is the sequential one
                          /\ pend' = [pend EXCEPT ![e.t] = Idle] /\ UNCHANGED ord
       [] e.ev = "final" -> /\ e.hung = <<>>                                     \* every call returned
                            /\ e.fwd = ord /\ e.bwd = Rev(ord)                   \* iteration order = insertion order of the live keys
                            /\ e.size = Len(ord)
                            /\ e.head = Entry(ord, IF ord = <<>> THEN 0 ELSE 1) /\ e.tail = Entry(ord, Len(ord))
                            /\ UNCHANGED <<ord, pend>>
  /\ TLCSet(1, IF TLCGet(1) < l + 1 THEN l + 1 ELSE TLCGet(1))     \* high-water mark (last: only when line l was consumed)
Lin(t) == /\ pend[t].st = "inv"
          /\ pend' = [pend EXCEPT ![t] = [st |-> "lin", res |-> Res(pend[t].op, pend[t].a, ord)]]
          /\ ord' = Eff(pend[t].op, pend[t].a, ord) /\ UNCHANGED l
Next == Consume \/ \E t \in Threads : Lin(t)
Spec == Init /\ [][Next]_vars

NotDone == l <= Len(Log)
Short == [l |-> l]
HighWater == PrintT(<<"HW", ToString(TLCGet(1))>>)
=============================================================================
