CONSTANTS
  NE = 2
  Below = 1
  Hi = 3
  Thresholds = {0, 1, 2}
INVARIANTS TypeOK
