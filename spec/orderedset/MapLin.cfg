SPECIFICATION Spec
CONSTANTS
  Threads = {1, 2, 3, 4, 5, 6}
INVARIANT NotDone
ALIAS Short
POSTCONDITION HighWater
