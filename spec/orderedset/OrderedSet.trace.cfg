CONSTANTS
  NE = 3
INVARIANTS TypeOK Observed
