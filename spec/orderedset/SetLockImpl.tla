---------------------------- MODULE SetLockImpl ----------------------------
(* Lock discipline of ds.Set: applyMutex is a Go sync.RWMutex (a waiting writer blocks NEW    *)
(* readers); Add/Delete/AddAll/DeleteAll hold it for reading, Apply/Compute/Replace for       *)
(* writing; AddAll/DeleteAll call a user-supplied iteration (of the argument set) while they   *)
(* hold the read lock.  TLC explores all interleavings of one method call per thread and       *)
(* checks C11's concurrent clause: every method returns (no combination can deadlock) and      *)
(* Apply/Compute/Replace exclude each other and every other mutator.                           *)
EXTENDS Integers, Sequences, FiniteSets, TLC

CONSTANTS Threads, Methods,
          Variant   \* "code" | "deleteall_reentrant" (DeleteAll calls the locking Delete per element, as before the fix)
                    \* | "compute_rlock" (Compute takes only the read lock)

VARIABLES method,     \* thread -> method it runs
          pc,         \* thread -> "start" | "wantR" | "wantW" | "inR" | "inR2want" | "inR2" | "inW" | "done"
          readers,    \* number of read locks held
          writer,     \* thread holding the write lock or 0
          wwait,      \* threads waiting for the write lock
          steps       \* thread -> remaining per-element steps of AddAll/DeleteAll
vars == <<method, pc, readers, writer, wwait, steps>>

Writers == {"Apply", "Compute", "Replace"}
IsW(m) == m \in Writers /\ ~(Variant = "compute_rlock" /\ m = "Compute")

Init == /\ method \in [Threads -> Methods]
        /\ pc = [t \in Threads |-> "start"] /\ readers = 0 /\ writer = 0 /\ wwait = {}
        /\ steps = [t \in Threads |-> 2]

Start(t) == /\ pc[t] = "start"
            /\ IF IsW(method[t]) THEN pc' = [pc EXCEPT ![t] = "wantW"] /\ wwait' = wwait \cup {t}
                                 ELSE pc' = [pc EXCEPT ![t] = "wantR"] /\ UNCHANGED wwait
            /\ UNCHANGED <<method, readers, writer, steps>>
(* RLock: granted only if no writer holds the lock and no writer is waiting *)
RLock(t) == /\ pc[t] = "wantR" /\ writer = 0 /\ wwait = {}
            /\ readers' = readers + 1 /\ pc' = [pc EXCEPT ![t] = "inR"]
            /\ UNCHANGED <<method, writer, wwait, steps>>
Lock(t) == /\ pc[t] = "wantW" /\ writer = 0 /\ readers = 0
           /\ writer' = t /\ wwait' = wwait \ {t} /\ pc' = [pc EXCEPT ![t] = "inW"]
           /\ UNCHANGED <<method, readers, steps>>
(* body under the read lock: single-element ops finish; AddAll/DeleteAll do one step per element *)
RBody(t) == /\ pc[t] = "inR"
            /\ IF method[t] \in {"AddAll", "DeleteAll"} /\ steps[t] > 0
                 THEN IF method[t] = "DeleteAll" /\ Variant = "deleteall_reentrant"
                        THEN pc' = [pc EXCEPT ![t] = "inR2want"] /\ UNCHANGED <<readers, steps>>     \* nested s.Delete -> RLock again
                        ELSE steps' = [steps EXCEPT ![t] = @ - 1] /\ UNCHANGED <<pc, readers>>
                 ELSE readers' = readers - 1 /\ pc' = [pc EXCEPT ![t] = "done"] /\ UNCHANGED steps
            /\ UNCHANGED <<method, writer, wwait>>
RLock2(t) == /\ pc[t] = "inR2want" /\ writer = 0 /\ wwait = {}
             /\ readers' = readers + 1 /\ pc' = [pc EXCEPT ![t] = "inR2"]
             /\ UNCHANGED <<method, writer, wwait, steps>>
RUnlock2(t) == /\ pc[t] = "inR2" /\ readers' = readers - 1 /\ steps' = [steps EXCEPT ![t] = @ - 1]
               /\ pc' = [pc EXCEPT ![t] = "inR"] /\ UNCHANGED <<method, writer, wwait>>
WBody(t) == /\ pc[t] = "inW" /\ writer' = 0 /\ pc' = [pc EXCEPT ![t] = "done"]
            /\ UNCHANGED <<method, readers, wwait, steps>>

Step(t) == Start(t) \/ RLock(t) \/ Lock(t) \/ RBody(t) \/ RLock2(t) \/ RUnlock2(t) \/ WBody(t)
Next == \E t \in Threads : Step(t)
Spec == Init /\ [][Next]_vars /\ \A t \in Threads : WF_vars(Step(t))

(* Apply/Compute/Replace are atomic: while one runs, no other mutator is inside the set *)
Atomic == \A t \in Threads : (pc[t] = "inW" /\ method[t] \in Writers) =>
             \A u \in Threads \ {t} : pc[u] \notin {"inR", "inR2", "inW", "inR2want"}
AtomicWeak == \A t, u \in Threads : (t # u /\ method[t] \in Writers /\ method[u] \in Writers) =>
             ~(pc[t] \in {"inW", "inR"} /\ pc[u] \in {"inW", "inR"})
NoDeadlock == <>(\A t \in Threads : pc[t] = "done")
=============================================================================
