CONSTANTS
  NK = 3
  Vals = {1, 2}
  KeyTypes = {"u8", "str"}
INVARIANTS TypeOK
