CONSTANTS
  NE = 3
  Below = 1000000
  Hi = 1000000
  Thresholds = {0, 1, 2, 3}
