SPECIFICATION Spec
CONSTANTS
  Threads = {1, 2, 3}
  Methods = {"Add", "Delete", "AddAll", "DeleteAll", "Apply", "Compute", "Replace"}
  Variant = "deleteall_reentrant"
INVARIANTS AtomicWeak
PROPERTIES NoDeadlock
