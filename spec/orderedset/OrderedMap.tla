---------------------------- MODULE OrderedMap ----------------------------
(* ds/orderedmap.OrderedMap (through ds/serializableorderedmap, which embeds it and adds      *)
(* Encode/Decode): a map that iterates in FIRST-INSERTION order.  Property C11, sequential    *)
(* half.  Written from the documented contract:                                               *)
(*   - Set(k,v) returns (previous value, existed); an existing key keeps its position         *)
(*   - Get/Has/Delete report presence; Delete removes the key (a later Set appends it anew)   *)
(*   - ForEach visits live entries oldest-first, ForEachReverse newest-first; the consumer    *)
(*     returning false stops the iteration and makes the call return false                    *)
(*   - Head/Tail = oldest/newest entry; Size/IsEmpty; Clear; Clone = independent copy         *)
(*   - Encode ; Decode into a fresh map reproduces contents AND order; Decode into a          *)
(*     non-empty map upserts the decoded entries in encoded order                             *)
(* State: m = sequence of <<key, value>> pairs with distinct keys, oldest insertion first.    *)
(* Convention: see spec/README.md (cfg / ev / Do / Stimuli / View).                           *)
EXTENDS Integers, Sequences, FiniteSets, TLC, SequencesExt

CONSTANTS NK,        \* keys are 1..NK (the adapter maps them to real keys of type cfg.kt)
          Vals,      \* values
          KeyTypes   \* real key types the adapter instantiates the generic map with
VARIABLES cfg, m, ev
vars == <<cfg, m, ev>>
View == <<cfg, m>>

Keys == 1..NK

------------------------------------------------------------------------------
(* the abstract insertion-ordered map *)
KeysOf(q)    == {q[i][1] : i \in DOMAIN q}
HasK(q, k)   == k \in KeysOf(q)
Idx(q, k)    == CHOOSE i \in DOMAIN q : q[i][1] = k
GetK(q, k)   == IF HasK(q, k) THEN <<q[Idx(q, k)][2]>> ELSE <<>>       \* optional value
Put(q, k, v) == IF HasK(q, k) THEN [q EXCEPT ![Idx(q, k)] = <<k, v>>] ELSE Append(q, <<k, v>>)
Del(q, k)    == SelectSeq(q, LAMBDA p : p[1] # k)
RECURSIVE PutAll(_, _)
PutAll(q, ps) == IF ps = <<>> THEN q ELSE PutAll(Put(q, Head(ps)[1], Head(ps)[2]), Tail(ps))
FirstE(q)     == IF q = <<>> THEN <<>> ELSE <<q[1]>>
LastE(q)      == IF q = <<>> THEN <<>> ELSE <<q[Len(q)]>>
(* iteration whose consumer returns false at its n-th call (n = 0: never) *)
Stops(q, n)  == n > 0 /\ n <= Len(q)
Visit(q, n)  == IF Stops(q, n) THEN SubSeq(q, 1, n) ELSE q
Pos(q, k)    == Idx(q, k)
Before(q, a, b) == Pos(q, a) < Pos(q, b)

(* iteration whose consumer changes the map at its at-th call (Delete(k) or Set(k, v)): the iteration goes from entry to entry -  *)
(* after the consumer returned, it moves to the entry that follows the visited one NOW: a key deleted before its turn is not      *)
(* visited, a key appended behind the cursor is, an overwritten value is seen if its entry is still ahead; a visited entry that  *)
(* deletes itself is followed by the entry that followed it.  fwd = TRUE: oldest first.                                           *)
Dir(q, fwd)  == IF fwd THEN q ELSE Reverse(q)
NextKey(q, fwd, c) == LET d == Dir(q, fwd) i == Idx(d, c) IN IF i < Len(d) THEN d[i + 1][1] ELSE 0
Mutate(q, s) == IF s.mut = "del" THEN Del(q, s.k) ELSE Put(q, s.k, s.v)
RECURSIVE Walk(_, _, _, _)
Walk(q, cur, seen, s) ==
  IF cur = 0 THEN [seq |-> seen, m |-> q]
  ELSE LET seen2 == Append(seen, <<cur, GetK(q, cur)[1]>>)
           q2    == IF Len(seen2) = s.at THEN Mutate(q, s) ELSE q
           nxt   == IF HasK(q2, cur) THEN NextKey(q2, s.fwd, cur) ELSE NextKey(q, s.fwd, cur)   \* (the visited entry deleted itself)
       IN  Walk(q2, nxt, seen2, s)
WalkFrom(q, s) == Walk(q, IF q = <<>> THEN 0 ELSE Dir(q, s.fwd)[1][1], <<>>, s)

(* sequences of distinct keys: the arguments of DecodeInto *)
KeySeqs == {q \in UNION {[1..n -> Keys] : n \in 0..NK} : \A i, j \in DOMAIN q : i # j => q[i] # q[j]}
PairsOf(a, v) == [i \in DOMAIN a |-> <<a[i], v>>]

(* what the harness can observe of a map: everything the API offers *)
Proj(q) == [fwd |-> q, rev |-> Reverse(q), size |-> Len(q)]
St(q) == [fwd  |-> q,                                    \* ForEach
          rev  |-> Reverse(q),                           \* ForEachReverse
          size |-> Len(q), empty |-> (q = <<>>),         \* Size, IsEmpty
          has  |-> [k \in Keys |-> HasK(q, k)],          \* Has(k) for every key
          get  |-> [k \in Keys |-> GetK(q, k)],          \* Get(k) for every key
          head |-> FirstE(q), tail |-> LastE(q)]           \* Head, Tail

------------------------------------------------------------------------------
Cfgs == [kt : KeyTypes]
Init == /\ cfg \in Cfgs
        /\ m = <<>>
        /\ ev = [op |-> "reset", cfg |-> cfg]

(* the event for stimulus s with result r and state q afterwards *)
Out(s, r, q) == /\ m' = q
                /\ ev' = [res |-> r, st |-> St(q)] @@ s
                /\ UNCHANGED cfg

Do(s) ==
  CASE s.op = "reset" -> cfg' = s.cfg /\ m' = <<>> /\ ev' = s
    [] s.op = "Set"     -> Out(s, GetK(m, s.k), Put(m, s.k, s.v))
    [] s.op = "Get"     -> Out(s, GetK(m, s.k), m)
    [] s.op = "Has"     -> Out(s, HasK(m, s.k), m)
    [] s.op = "Delete"  -> Out(s, HasK(m, s.k), Del(m, s.k))
    [] s.op = "Size"    -> Out(s, Len(m), m)
    [] s.op = "IsEmpty" -> Out(s, m = <<>>, m)
    [] s.op = "Head"    -> Out(s, FirstE(m), m)
    [] s.op = "Tail"    -> Out(s, LastE(m), m)
    [] s.op = "ForEach" -> Out(s, [seq |-> Visit(m, s.n), done |-> ~Stops(m, s.n)], m)
    [] s.op = "ForEachReverse" ->
                           Out(s, [seq |-> Visit(Reverse(m), s.n), done |-> ~Stops(m, s.n)], m)
    [] s.op = "ForEachMut" -> LET w == WalkFrom(m, s) IN Out(s, [seq |-> w.seq, done |-> TRUE], w.m)
    [] s.op = "Clear"   -> Out(s, TRUE, <<>>)
       (* Clone, then on the clone Delete(k);Set(k,v): the copy is complete, ordered, and   *)
       (* independent (the original's st after the call is unchanged)                       *)
    [] s.op = "Clone"   -> Out(s, [c |-> Proj(m), c2 |-> Proj(Put(Del(m, s.k), s.k, s.v))], m)
       (* Encode, Decode the bytes into a fresh map: all bytes consumed, same entries, same order *)
    [] s.op = "RoundTrip" -> Out(s, [ok |-> TRUE, dec |-> Proj(m)], m)
       (* Decode (into this map) the encoding of the map a[1]->v, a[2]->v, ... *)
    [] s.op = "DecodeInto" -> Out(s, TRUE, PutAll(m, PairsOf(s.a, s.v)))

Stimuli == [op : {"Set"}, k : Keys, v : Vals]
      \cup [op : {"Get", "Has", "Delete"}, k : Keys]
      \cup [op : {"Size", "IsEmpty", "Head", "Tail", "Clear", "RoundTrip"}]
      \cup [op : {"ForEach", "ForEachReverse"}, n : 0..NK]
      \cup [op : {"ForEachMut"}, fwd : BOOLEAN, at : 1..NK, mut : {"del"}, k : Keys, v : {0}]
      \cup [op : {"ForEachMut"}, fwd : BOOLEAN, at : 1..NK, mut : {"set"}, k : Keys, v : Vals]
      \cup [op : {"Clone"}, k : Keys, v : Vals]
      \cup [op : {"DecodeInto"}, a : KeySeqs, v : Vals]
Next == \E s \in Stimuli : Do(s)
Spec == Init /\ [][Next]_vars

------------------------------------------------------------------------------
(* The property, stated on the model *)
TypeOK == /\ m \in Seq(Keys \X Vals)
          /\ \A i, j \in DOMAIN m : i # j => m[i][1] # m[j][1]
          /\ Len(m) <= NK
(* what is observed after a call is the abstract map: forward = reverse reversed, size, getters *)
Observed == ev.op # "reset" =>
              /\ ev.st.fwd = m /\ ev.st.rev = Reverse(m) /\ ev.st.size = Cardinality(KeysOf(m))
              /\ \A k \in Keys : /\ ev.st.has[k] = (k \in KeysOf(m))
                                  /\ ev.st.has[k] = (ev.st.get[k] # <<>>)
                                  /\ ev.st.has[k] => \E i \in DOMAIN m : m[i] = <<k, ev.st.get[k][1]>>
(* first-insertion order: surviving keys keep their relative order; new keys come after all  *)
(* surviving ones (a deleted and re-inserted key is new)                                     *)
OrderStep == LET old == KeysOf(m)  new == KeysOf(m')  kept == old \cap new IN
             /\ \A a, b \in kept : Before(m, a, b) => Before(m', a, b)
             /\ ev'.op \notin {"Delete", "Clear", "ForEachMut"} => old \subseteq new
             /\ \A a \in kept, b \in new \ old : Before(m', a, b)
(* Set/Get/Has/Delete report prior presence (and prior value) *)
ReportStep == /\ ev'.op = "Set" => /\ (ev'.res # <<>>) = HasK(m, ev'.k)
                                    /\ (HasK(m, ev'.k) => ev'.res = GetK(m, ev'.k))
                                    /\ GetK(m', ev'.k) = <<ev'.v>>
                                    /\ \A k \in Keys \ {ev'.k} : GetK(m', k) = GetK(m, k)
              /\ ev'.op = "Delete" => /\ ev'.res = HasK(m, ev'.k) /\ ~HasK(m', ev'.k)
                                       /\ \A k \in Keys \ {ev'.k} : GetK(m', k) = GetK(m, k)
              /\ ev'.op \in {"Get", "Has", "Size", "IsEmpty", "Head", "Tail", "ForEach",
                             "ForEachReverse", "Clone", "RoundTrip"} => m' = m
              /\ ev'.op = "RoundTrip" => ev'.res.dec.fwd = m
(* an iteration whose consumer changes the map: every visited key was live when it was visited and is reported once, keys are   *)
(* visited in (reverse) insertion order, a key that is live before and after the call and lies in the walk's direction is visited *)
IterMutStep == ev'.op = "ForEachMut" =>
                 LET ks == [i \in DOMAIN ev'.res.seq |-> ev'.res.seq[i][1]] IN
                 /\ \A i, j \in DOMAIN ks : i # j => ks[i] # ks[j]
                 /\ \A i \in DOMAIN ks : ks[i] \in KeysOf(m) \cup KeysOf(m')
                 /\ \A k \in KeysOf(m) \cap KeysOf(m') : \E i \in DOMAIN ks : ks[i] = k
                 /\ \A i, j \in DOMAIN ks : (i < j /\ ks[i] \in KeysOf(m') /\ ks[j] \in KeysOf(m')) =>
                        (IF ev'.fwd THEN Before(m', ks[i], ks[j]) ELSE Before(m', ks[j], ks[i]))
IterMut == [][IterMutStep]_vars
Order  == [][OrderStep]_vars
Obs    == [][Observed']_vars
Report == [][ReportStep]_vars
=============================================================================
