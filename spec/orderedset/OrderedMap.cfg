CONSTANTS
  NK = 3
  Vals = {1, 2}
  KeyTypes = {"u8", "str"}
INVARIANTS TypeOK Observed
PROPERTIES Obs Order Report IterMut
VIEW View
