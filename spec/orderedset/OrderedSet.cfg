CONSTANTS
  NE = 3
  CfgIds = {1, 2, 3}
  Buggy = FALSE
INVARIANTS TypeOK Observed
PROPERTIES Obs Order Diffs
VIEW View
