CONSTANTS
  NE = 3
INVARIANTS TypeOK Observed
PROPERTIES Obs Order Diffs
VIEW View
