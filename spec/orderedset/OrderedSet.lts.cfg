CONSTANTS
  NE = 3
  CfgIds = {2, 3}
  Buggy = FALSE
INVARIANTS TypeOK
