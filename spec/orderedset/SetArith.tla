---------------------------- MODULE SetArith ----------------------------
(* ds.SetArithmetic (ds/set.go, ds/set_impl.go; ds.NewSetArithmetic): counts occurrences of   *)
(* elements; Add/Subtract take mutations (added, deleted) and return the NET mutations of the *)
(* threshold set                                                                              *)
(*        T(cnt) = { e : cnt[e] >= threshold }          (threshold defaults to 1)             *)
(* i.e. the elements that rose to / fell below the threshold.  That is the mathematical       *)
(* definition this module is written from (property C11: "SetArithmetic thresholds match the  *)
(* mathematical definition"): cnt[e] = #additions - #subtractions of e, and applying every    *)
(* returned mutation to a set keeps that set equal to T(cnt).                                 *)
(*   Add(m)      : cnt[e] + 1 for e in m.added,   - 1 for e in m.deleted                      *)
(*   Subtract(m) : cnt[e] - 1 for e in m.added,   + 1 for e in m.deleted                      *)
(* The collectors AddedElementsCollector(M, t) / SubtractedElementsCollector(M, t) do one      *)
(* element at a time and accumulate into a caller-owned mutations object M: M is always the   *)
(* net change of the threshold set since M was created (crossings back cancel).               *)
(* State: cnt (occurrences), base = T(cnt) when the current M was created.                    *)
(* st.derived is a real ds.Set the adapter keeps by Apply()ing what the code returned.        *)
(* Convention: see spec/README.md (cfg / ev / Do / Stimuli / View).                           *)
EXTENDS Integers, Sequences, FiniteSets, TLC, SequencesExt

CONSTANTS NE,          \* universe 1..NE
          Below, Hi,   \* occurrence counts explored: -Below..Hi (negative: subtraction before addition)
          Thresholds   \* 0 = threshold argument omitted (default 1)
VARIABLES cfg, cnt, base, ev
vars == <<cfg, cnt, base, ev>>
View == <<cfg, cnt, base>>

U == 1..NE
Lo == 0 - Below
Sorted(S) == SelectSeq([i \in 1..NE |-> i], LAMBDA x : x \in S)   \* the subset S of U as a sorted sequence
Elems(q)  == {q[i] : i \in DOMAIN q}
SSets     == {Sorted(S) : S \in SUBSET U}
B(x)      == IF x THEN 1 ELSE 0

Thr(c)    == IF c.t = 0 THEN 1 ELSE c.t
T(c, n)   == {e \in U : n[e] >= Thr(c)}                 \* the threshold set
Net(from, to) == [added |-> Sorted(to \ from), deleted |-> Sorted(from \ to)]
Zero      == [e \in U |-> 0]
InBounds(n) == \A e \in U : n[e] >= Lo /\ n[e] <= Hi

St(c, n, b) == [derived |-> Sorted(T(c, n)),            \* set kept by applying the returned mutations
                m       |-> Net(b, T(c, n))]            \* the caller-owned mutations object M

Cfgs == [t : Thresholds]
Init == /\ cfg \in Cfgs
        /\ cnt = Zero /\ base = {}
        /\ ev = [op |-> "reset", cfg |-> cfg]

Out(x, r, n, b) == /\ InBounds(n)
                   /\ cnt' = n /\ base' = b
                   /\ ev' = [res |-> r, st |-> St(cfg, n, b)] @@ x
                   /\ UNCHANGED cfg

Do(x) ==
  CASE x.op = "reset" -> cfg' = x.cfg /\ cnt' = Zero /\ base' = {} /\ ev' = x
       (* Add / Subtract: result = net change of the threshold set; they work on a fresh M, and *)
       (* the adapter starts a new caller-owned M afterwards                                    *)
    [] x.op = "Add" ->
         LET n == [e \in U |-> cnt[e] + B(e \in Elems(x.a)) - B(e \in Elems(x.d))] IN
         Out(x, Net(T(cfg, cnt), T(cfg, n)), n, T(cfg, n))
    [] x.op = "Subtract" ->
         LET n == [e \in U |-> cnt[e] - B(e \in Elems(x.a)) + B(e \in Elems(x.d))] IN
         Out(x, Net(T(cfg, cnt), T(cfg, n)), n, T(cfg, n))
       (* one call of a collector bound to M; result = M afterwards *)
    [] x.op = "CollectAdd" ->
         LET n == [cnt EXCEPT ![x.e] = @ + 1] IN Out(x, Net(base, T(cfg, n)), n, base)
    [] x.op = "CollectSub" ->
         LET n == [cnt EXCEPT ![x.e] = @ - 1] IN Out(x, Net(base, T(cfg, n)), n, base)
       (* the caller applies M and starts a new one *)
    [] x.op = "NewM" -> Out(x, TRUE, cnt, T(cfg, cnt))

Stimuli == [op : {"Add", "Subtract"}, a : SSets, d : SSets]
      \cup [op : {"CollectAdd", "CollectSub"}, e : U]
      \cup [op : {"NewM"}]
Next == \E x \in Stimuli : Do(x)
Spec == Init /\ [][Next]_vars

------------------------------------------------------------------------------
TypeOK == cnt \in [U -> Lo..Hi] /\ base \subseteq U
(* folding what Add/Subtract return over the old threshold set gives the new one, and nothing  *)
(* is reported that did not cross the threshold                                               *)
NetStep == LET old == T(cfg, cnt)  new == T(cfg, cnt')  r == ev'.res IN
           /\ ev'.op \in {"Add", "Subtract"} =>
                /\ new = (old \cup Elems(r.added)) \ Elems(r.deleted)
                /\ Elems(r.added) \cap old = {} /\ Elems(r.deleted) \subseteq old
                /\ Elems(r.added) \cap Elems(r.deleted) = {}
           /\ ev'.op \in {"CollectAdd", "CollectSub"} =>
                /\ new = (base \cup Elems(r.added)) \ Elems(r.deleted)
                /\ Elems(r.added) \cap base = {} /\ Elems(r.deleted) \subseteq base
           /\ ev'.op # "reset" => ev'.st.derived = Sorted({e \in U : cnt'[e] >= Thr(cfg)})
Netto == [][NetStep]_vars
=============================================================================
