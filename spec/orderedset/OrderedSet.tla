---------------------------- MODULE OrderedSet ----------------------------
(* ds.Set (ds/set.go, ds/set_impl.go; ds.NewSet): a set that iterates in FIRST-INSERTION     *)
(* order.  Property C11, sequential half: "Add/Delete report prior presence, Apply/AddAll/    *)
(* DeleteAll/Replace/Compute return exactly the elements whose membership changed, the set    *)
(* algebra (HasAll, Equals, Intersect, Filter, Clone, Is, Any, ToSlice ...) matches the       *)
(* mathematical definition, Encode/Decode round-trips contents and order".                    *)
(*                                                                                            *)
(* State: s = sequence of distinct elements of U = 1..NE, oldest insertion first.             *)
(* Set-valued ARGUMENTS are model values: `a` = a sequence of distinct elements (the adapter  *)
(* builds a real set by inserting in that order - it matters for the order in which new       *)
(* elements arrive), `d`/`p` = a sorted sequence standing for a plain subset (the adapter     *)
(* inserts it in reverse order: the order of such an argument must not matter).               *)
(* Set-valued RESULTS that are "the elements whose membership changed" and Intersect are      *)
(* compared as sets (sorted sequences); copies/iterations (ToSlice, Range, ForEach, Iterator, *)
(* Clone, Filter) are compared in iteration order.                                            *)
(* Convention: see spec/README.md (cfg / ev / Do / Stimuli / View).                           *)
EXTENDS Integers, Sequences, FiniteSets, TLC, SequencesExt

CONSTANTS NE,        \* the universe is 1..NE
          CfgIds,    \* which of AllCfgs (below) are explored
          Buggy      \* FALSE; TRUE = negative control: Replace as hive.go had it before the fix: commits
                     \* e584b5e/bc0a259 (returns ALL previous elements; Replace(self) empties the set) -
                     \* TLC must then report the action property Diffs violated (OrderedSet.buggy.cfg)
VARIABLES cfg, s, ev
vars == <<cfg, s, ev>>
View == <<cfg, s>>

U == 1..NE

------------------------------------------------------------------------------
(* the abstract insertion-ordered set *)
Elems(q)   == {q[i] : i \in DOMAIN q}
In(q, e)   == e \in Elems(q)
AddE(q, e) == IF In(q, e) THEN q ELSE Append(q, e)
DelE(q, e) == SelectSeq(q, LAMBDA x : x # e)
RECURSIVE AddSeq(_, _)
AddSeq(q, a)  == IF a = <<>> THEN q ELSE AddSeq(AddE(q, Head(a)), Tail(a))   \* add a[1], a[2], ... in turn
DelSet(q, D)  == SelectSeq(q, LAMBDA x : x \notin D)
Keep(q, P)    == SelectSeq(q, LAMBDA x : x \in P)
Sorted(S) == SelectSeq([i \in 1..NE |-> i], LAMBDA x : x \in S)   \* the subset S of U as a sorted sequence
Idx(q, e)     == CHOOSE i \in DOMAIN q : q[i] = e
Before(q, a, b) == Idx(q, a) < Idx(q, b)
Stops(q, n)   == n > 0 /\ n <= Len(q)          \* callback fails at its n-th call (n = 0: never)
Visit(q, n)   == IF Stops(q, n) THEN SubSeq(q, 1, n) ELSE q

OSeqs == {q \in UNION {[1..n -> U] : n \in 0..NE} : \A i, j \in DOMAIN q : i # j => q[i] # q[j]}
SSets == {Sorted(S) : S \in SUBSET U}

Proj(q) == [fwd |-> q, rev |-> Reverse(q), size |-> Len(q)]
St(q) == [fwd  |-> q,                           \* ToSlice of the set (or of its ReadOnly view)
          rev  |-> Reverse(q),                  \* reverse iteration of the underlying ordered map
          size |-> Len(q), empty |-> (q = <<>>),
          has  |-> [e \in U |-> In(q, e)]]      \* Has(e) for every element of the universe

(* mutations (added, deleted) applied as documented: all additions, then all deletions; the  *)
(* applied mutations are the additions / deletions that changed membership when they ran     *)
Mid(q, a)          == AddSeq(q, a)
Applied(q, a, D)   == [added   |-> Sorted(Elems(a) \ Elems(q)),
                       deleted |-> Sorted(D \cap Elems(Mid(q, a))),
                       empty   |-> (Elems(a) \ Elems(q) = {} /\ D \cap Elems(Mid(q, a)) = {})]
After(q, a, D)     == DelSet(Mid(q, a), D)

(* the mutation factories handed to Compute; each sees the current set *)
FactoryAdd(f, q, s0) == CASE f = "const"      -> s0.a
                          [] f = "complement" -> Sorted(U \ Elems(q))    \* add what is missing ...
                          [] f = "readd"      -> q                       \* re-add what is there
FactoryDel(f, q, s0) == CASE f = "const"      -> Elems(s0.d)
                          [] f = "complement" -> Elems(q)                \* ... delete what is there
                          [] f = "readd"      -> {}

------------------------------------------------------------------------------
(* cfg.init: arguments of NewSet (duplicates allowed); cfg.ro: read through the ReadOnly() view *)
AllCfgs == <<[init |-> <<>>, ro |-> FALSE], [init |-> <<2, 1>>, ro |-> TRUE], [init |-> <<3, 3, 1>>, ro |-> FALSE]>>
Cfgs == {AllCfgs[i] : i \in CfgIds}
Init == /\ cfg \in Cfgs
        /\ s = AddSeq(<<>>, cfg.init)
        /\ ev = [op |-> "reset", cfg |-> cfg]

Out(st, r, q) == /\ s' = q
                 /\ ev' = [res |-> r, st |-> St(q)] @@ st
                 /\ UNCHANGED cfg

Do(x) ==
  CASE x.op = "reset" -> cfg' = x.cfg /\ s' = AddSeq(<<>>, x.cfg.init) /\ ev' = x
       (* single elements: report prior presence *)
    [] x.op = "Add"      -> Out(x, ~In(s, x.e), AddE(s, x.e))
    [] x.op = "Delete"   -> Out(x, In(s, x.e), DelE(s, x.e))
    [] x.op = "Has"      -> Out(x, In(s, x.e), s)
    [] x.op = "Is"       -> Out(x, Elems(s) = {x.e}, s)
       (* bulk writers: return exactly the elements whose membership changed *)
    [] x.op = "AddAll"    -> Out(x, Sorted(Elems(x.a) \ Elems(s)), AddSeq(s, x.a))
    [] x.op = "DeleteAll" -> Out(x, Sorted(Elems(x.d) \cap Elems(s)), DelSet(s, Elems(x.d)))
    [] x.op = "Apply"     -> Out(x, Applied(s, x.a, Elems(x.d)), After(s, x.a, Elems(x.d)))
    [] x.op = "Compute"   -> LET a == FactoryAdd(x.f, s, x)  D == FactoryDel(x.f, s, x) IN
                             Out(x, [seen |-> s] @@ Applied(s, a, D), After(s, a, D))
       (* Replace: afterwards the set holds the given elements (in their order); returns the  *)
       (* removed elements = those that were members and no longer are                        *)
    [] x.op = "Replace"   -> Out(x, Sorted(Elems(s) \ (IF Buggy THEN {} ELSE Elems(x.a))), x.a)
    [] x.op = "Clear"     -> Out(x, TRUE, <<>>)
       (* the same calls with the set ITSELF (cfg.ro: its ReadOnly view) as the argument:      *)
       (* X(self) behaves as X(argument with the current contents)                             *)
    [] x.op = "AddAllSelf"    -> Out(x, <<>>, s)
    [] x.op = "DeleteAllSelf" -> Out(x, Sorted(Elems(s)), <<>>)
    [] x.op = "ReplaceSelf"   -> IF Buggy THEN Out(x, Sorted(Elems(s)), <<>>) ELSE Out(x, <<>>, s)
    [] x.op = "HasAllSelf"    -> Out(x, TRUE, s)
    [] x.op = "EqualsSelf"    -> Out(x, TRUE, s)
    [] x.op = "IntersectSelf" -> Out(x, Sorted(Elems(s)), s)
       (* algebra *)
    [] x.op = "HasAll"    -> Out(x, Elems(x.d) \subseteq Elems(s), s)
    [] x.op = "Equals"    -> Out(x, Elems(x.d) = Elems(s), s)
    [] x.op = "Intersect" -> Out(x, Sorted(Elems(x.d) \cap Elems(s)), s)
       (* Filter with the predicate "is in p"; the predicate is asked once per element, in order *)
    [] x.op = "Filter"    -> Out(x, [out |-> Keep(s, Elems(x.p)), asked |-> s], s)
       (* Clone, then Delete(e);Add(e) on the clone: complete, ordered, independent copy *)
    [] x.op = "Clone"     -> Out(x, [c |-> Proj(s), c2 |-> Proj(AddE(DelE(s, x.e), x.e))], s)
       (* Any: some member iff the set is not empty (the adapter reports whether the returned *)
       (* element is a member; which one is not specified)                                     *)
    [] x.op = "Any"       -> Out(x, [ex |-> s # <<>>, member |-> s # <<>>], s)
    [] x.op = "Size"      -> Out(x, Len(s), s)
    [] x.op = "IsEmpty"   -> Out(x, s = <<>>, s)
       (* iterations: first-insertion order *)
    [] x.op \in {"ToSlice", "Range", "Iterator"} -> Out(x, s, s)
    [] x.op = "ForEach"   -> Out(x, [seq |-> Visit(s, x.n), err |-> Stops(s, x.n)], s)
       (* Encode, Decode into a fresh set: all bytes consumed, same elements, same order *)
    [] x.op = "RoundTrip" -> Out(x, [ok |-> TRUE, dec |-> Proj(s)], s)
       (* Decode (into this set) the encoding of the set built from a *)
    [] x.op = "DecodeInto" -> Out(x, TRUE, AddSeq(s, x.a))

Stimuli == [op : {"Add", "Delete", "Has", "Is", "Clone"}, e : U]
      \cup [op : {"AddAll", "Replace", "DecodeInto"}, a : OSeqs]
      \cup [op : {"DeleteAll", "HasAll", "Equals", "Intersect"}, d : SSets]
      \cup [op : {"Apply"}, a : OSeqs, d : SSets]
      \cup [op : {"Compute"}, f : {"const"}, a : SSets, d : SSets]
      \cup [op : {"Compute"}, f : {"complement", "readd"}]
      \cup [op : {"Filter"}, p : SSets]
      \cup [op : {"ForEach"}, n : 0..NE]
      \cup [op : {"AddAllSelf", "DeleteAllSelf", "ReplaceSelf", "HasAllSelf", "EqualsSelf", "IntersectSelf"}]
      \cup [op : {"Clear", "Any", "Size", "IsEmpty", "ToSlice", "Range", "Iterator", "RoundTrip"}]
Next == \E x \in Stimuli : Do(x)
Spec == Init /\ [][Next]_vars

------------------------------------------------------------------------------
(* The property, stated on the model *)
TypeOK == /\ s \in Seq(U)
          /\ \A i, j \in DOMAIN s : i # j => s[i] # s[j]
Observed == ev.op # "reset" =>
              /\ ev.st.fwd = s /\ ev.st.rev = Reverse(s) /\ ev.st.size = Cardinality(Elems(s))
              /\ \A e \in U : ev.st.has[e] = (e \in Elems(s))
(* first-insertion order: surviving elements keep their relative order (Replace re-inserts),  *)
(* new elements come after all surviving ones                                                 *)
OrderStep == LET old == Elems(s)  new == Elems(s')  kept == old \cap new IN
             ev'.op \notin {"Replace"} =>
               /\ \A a, b \in kept : Before(s, a, b) => Before(s', a, b)
               /\ \A a \in kept, b \in new \ old : Before(s', a, b)
(* exact diffs: folding the returned elements over the old contents gives the new contents,   *)
(* and nothing is returned that did not change membership                                     *)
Set(q) == Elems(q)
DiffStep ==
  LET old == Elems(s)  new == Elems(s')  r == ev'.res IN
  /\ ev'.op = "Add"       => /\ r = (ev'.e \notin old) /\ new = old \cup {ev'.e}
  /\ ev'.op = "Delete"    => /\ r = (ev'.e \in old) /\ new = old \ {ev'.e}
  /\ ev'.op = "AddAll"    => /\ Set(r) = new \ old /\ old \subseteq new /\ new = old \cup Set(ev'.a)
  /\ ev'.op = "DeleteAll" => /\ Set(r) = old \ new /\ new \subseteq old /\ new = old \ Set(ev'.d)
  /\ ev'.op = "Replace"   => /\ Set(r) = old \ new /\ new = Set(ev'.a)
  /\ ev'.op = "AddAllSelf"    => /\ Set(r) = new \ old /\ new = old
  /\ ev'.op = "DeleteAllSelf" => /\ Set(r) = old \ new /\ new = {}
  /\ ev'.op = "ReplaceSelf"   => /\ Set(r) = old \ new /\ s' = s
  /\ ev'.op \in {"Apply", "Compute"} =>
       /\ new = (old \cup Set(r.added)) \ Set(r.deleted)          \* fold
       /\ Set(r.added) \cap old = {}                              \* only real additions
       /\ Set(r.deleted) \subseteq old \cup Set(r.added)          \* only real deletions
       /\ Set(r.added) \cap Set(r.deleted) = {} => /\ Set(r.added) = new \ old
                                                    /\ Set(r.deleted) = old \ new
       /\ r.empty = (r.added = <<>> /\ r.deleted = <<>>)
  /\ ev'.op \in {"Has", "Is", "HasAll", "Equals", "Intersect", "Filter", "Clone", "Any", "Size", "IsEmpty",
                 "ToSlice", "Range", "Iterator", "ForEach", "RoundTrip", "HasAllSelf", "EqualsSelf",
                 "IntersectSelf"} => s' = s
  /\ ev'.op = "RoundTrip" => ev'.res.dec.fwd = s
Order == [][OrderStep]_vars
Obs   == [][Observed']_vars
Diffs == [][DiffStep]_vars
=============================================================================
