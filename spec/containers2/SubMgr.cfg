CONSTANTS
  Clients = {1, 2}
  Topics = {1, 2, 3}
  Maxes = {0, 2, 3}
  Cleanups = {TRUE}
  MaxCount = 2
INVARIANTS TypeOK CountsAreSums LimitHolds
PROPERTIES EventsMirror
