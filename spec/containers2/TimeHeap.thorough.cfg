CONSTANTS
  Counts = {1, 2}
  MaxEntries = 4
INVARIANTS TypeOK WindowedSum ClearedIsZero
