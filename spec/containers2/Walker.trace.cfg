CONSTANTS
  Vals = {1, 2, 3}
  MaxArgs = 3
  MaxLen = 100000
INVARIANTS TypeOK ExactlyOnce HasNextDef
