CONSTANTS
  Ids = {1, 2, 3}
  Vals = {1, 2}
INVARIANTS TypeOK
