CONSTANTS
  Vals = {1, 2, 3}
  MaxArgs = 2
  MaxLen = 3
INVARIANTS TypeOK ExactlyOnce HasNextDef
