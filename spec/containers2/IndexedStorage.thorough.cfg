CONSTANTS
  Idx = {1, 2, 3}
  Keys = {1, 2}
  Vals = {1, 2}
INVARIANTS TypeOK FreshAfterEvict ViewsAgree
