CONSTANTS
  Counts = {1, 2, 3}
  MaxEntries = 100000
INVARIANTS TypeOK WindowedSum ClearedIsZero
