---------------------------- MODULE OnChangeMap ----------------------------
(* ds/onchangemap.OnChangeMap: a keyed store of items (id, value) whose callbacks mirror     *)
(* every change.                                                                            *)
(* Contract (doc comments):  Add fails if the id exists;  Modify(id, f) applies f to the    *)
(* stored item and returns a copy of it (error if missing) - f tells whether it modified    *)
(* the item;  Delete fails if missing;  Get / All return copies (changing a copy never      *)
(* changes the store).  While callbacks are enabled (CallbacksEnabled(TRUE); initially off) *)
(* every change first reports the whole new contents to the "changed" callback and then     *)
(* the affected item to its added / modified / deleted callback - each only if registered.  *)
(* A failing callback's error is returned by the operation (the change itself stays) and a  *)
(* failing "changed" callback suppresses the item callback.  ExecuteChangedCallback reports *)
(* the contents on demand (when enabled).                                                   *)
(* cfg: which callbacks are registered (changed / the three item callbacks) and which one   *)
(* fails.  res = [ret, item, cbs]: ret = "ok" or an error class, item = the returned copy   *)
(* (or all items for All), cbs = the callback invocations the call made, in order, each     *)
(* [k |-> kind, items |-> the items it was given] (changed: sorted by id).                  *)
EXTENDS Integers, Sequences, FiniteSets, SequencesExt, TLC

CONSTANTS Ids, Vals            \* integers; 0 = "no item"
VARIABLES cfg, m, enabled, ev
vars == <<cfg, m, enabled, ev>>
View == <<cfg, m, enabled>>

Item(i, v) == [id |-> i, val |-> v]
Items(mm) == LET is == SetToSortSeq({i \in Ids : mm[i] # 0}, <)
             IN [j \in 1..Len(is) |-> Item(is[j], mm[is[j]])]
IdSeq == SetToSortSeq(Ids, <)
St(mm) == [all |-> Items(mm),
           get |-> [j \in 1..Len(IdSeq) |-> IF mm[IdSeq[j]] # 0 THEN <<mm[IdSeq[j]]>> ELSE <<>>]]

Cfgs == {c \in [changed : BOOLEAN, item : BOOLEAN, fail : {"none", "changed", "item"}, nids : {Cardinality(Ids)}] :
           /\ c.fail = "changed" => c.changed
           /\ c.fail = "item" => c.item}
Init == /\ cfg \in Cfgs
        /\ m = [i \in Ids |-> 0] /\ enabled = FALSE
        /\ ev = [op |-> "reset", cfg |-> cfg]

(* the callbacks a change of `kind` to item `it` triggers when the contents became mm, and the result *)
ChangedCb(mm) == [k |-> "changed", items |-> Items(mm)]
Notify(kind, it, mm) ==
  IF ~enabled THEN [ret |-> "ok", cbs |-> <<>>]
  ELSE LET c1 == IF cfg.changed THEN <<ChangedCb(mm)>> ELSE <<>>
           c2 == IF cfg.item THEN <<[k |-> kind, items |-> <<it>>]>> ELSE <<>>
       IN IF cfg.fail = "changed" THEN [ret |-> "ErrChangedCallback", cbs |-> c1]
          ELSE IF cfg.fail = "item" THEN [ret |-> "ErrItemCallback", cbs |-> c1 \o c2]
          ELSE [ret |-> "ok", cbs |-> c1 \o c2]

Do(s) ==
  CASE s.op = "reset" -> cfg' = s.cfg /\ m' = [i \in Ids |-> 0] /\ enabled' = FALSE /\ ev' = s
    [] s.op = "Add" ->
         /\ UNCHANGED <<cfg, enabled>>
         /\ IF m[s.id] # 0
              THEN /\ m' = m
                   /\ ev' = [op |-> "Add", id |-> s.id, v |-> s.v,
                             res |-> [ret |-> "ErrExists", item |-> <<>>, cbs |-> <<>>], st |-> St(m)]
              ELSE /\ m' = [m EXCEPT ![s.id] = s.v]
                   /\ LET n == Notify("added", Item(s.id, s.v), m')
                      IN ev' = [op |-> "Add", id |-> s.id, v |-> s.v,
                                res |-> [ret |-> n.ret, item |-> <<>>, cbs |-> n.cbs], st |-> St(m')]
    [] s.op = "Modify" ->       \* f: if s.write then item.val := s.v; return s.report
         /\ UNCHANGED <<cfg, enabled>>
         /\ IF m[s.id] = 0
              THEN /\ m' = m
                   /\ ev' = [op |-> "Modify", id |-> s.id, v |-> s.v, write |-> s.write, report |-> s.report,
                             res |-> [ret |-> "ErrNotFound", item |-> <<>>, cbs |-> <<>>], st |-> St(m)]
              ELSE /\ m' = IF s.write THEN [m EXCEPT ![s.id] = s.v] ELSE m
                   /\ LET it == Item(s.id, m'[s.id])
                          n  == IF s.report THEN Notify("modified", it, m') ELSE [ret |-> "ok", cbs |-> <<>>]
                      IN ev' = [op |-> "Modify", id |-> s.id, v |-> s.v, write |-> s.write, report |-> s.report,
                                res |-> [ret |-> n.ret, item |-> <<it>>, cbs |-> n.cbs], st |-> St(m')]
    [] s.op = "Delete" ->
         /\ UNCHANGED <<cfg, enabled>>
         /\ IF m[s.id] = 0
              THEN /\ m' = m
                   /\ ev' = [op |-> "Delete", id |-> s.id,
                             res |-> [ret |-> "ErrNotFound", item |-> <<>>, cbs |-> <<>>], st |-> St(m)]
              ELSE /\ m' = [m EXCEPT ![s.id] = 0]
                   /\ LET n == Notify("deleted", Item(s.id, m[s.id]), m')
                      IN ev' = [op |-> "Delete", id |-> s.id,
                                res |-> [ret |-> n.ret, item |-> <<>>, cbs |-> n.cbs], st |-> St(m')]
    [] s.op = "Get" ->
         /\ UNCHANGED <<cfg, m, enabled>>
         /\ ev' = [op |-> "Get", id |-> s.id,
                   res |-> (IF m[s.id] = 0 THEN [ret |-> "ErrNotFound", item |-> <<>>, cbs |-> <<>>]
                            ELSE [ret |-> "ok", item |-> <<Item(s.id, m[s.id])>>, cbs |-> <<>>]),
                   st |-> St(m)]
    [] s.op = "All" ->
         /\ UNCHANGED <<cfg, m, enabled>>
         /\ ev' = [op |-> "All", res |-> [ret |-> "ok", item |-> Items(m), cbs |-> <<>>], st |-> St(m)]
    [] s.op = "Enable" ->
         /\ UNCHANGED <<cfg, m>>
         /\ enabled' = s.on
         /\ ev' = [op |-> "Enable", on |-> s.on, res |-> [ret |-> "ok", item |-> <<>>, cbs |-> <<>>], st |-> St(m)]
    [] s.op = "ExecChanged" ->
         /\ UNCHANGED <<cfg, m, enabled>>
         /\ LET fire == enabled /\ cfg.changed
            IN ev' = [op |-> "ExecChanged",
                      res |-> [ret |-> (IF fire /\ cfg.fail = "changed" THEN "ErrChangedCallback" ELSE "ok"),
                               item |-> <<>>, cbs |-> (IF fire THEN <<ChangedCb(m)>> ELSE <<>>)],
                      st |-> St(m)]

Stimuli == [op : {"Add"}, id : Ids, v : Vals]
           \cup [op : {"Modify"}, id : Ids, v : Vals, write : BOOLEAN, report : BOOLEAN]
           \cup [op : {"Delete", "Get"}, id : Ids]
           \cup [op : {"Enable"}, on : BOOLEAN]
           \cup [op : {"All", "ExecChanged"}]
Next == \E s \in Stimuli : Do(s)
Spec == Init /\ [][Next]_vars

-----------------------------------------------------------------------------
TypeOK == m \in [Ids -> Vals \cup {0}] /\ enabled \in BOOLEAN
(* "callbacks mirror every change": a step that changes the contents while callbacks are on   *)
(* (and that the caller's f did not hide) hands the NEW contents to the changed callback (if  *)
(* registered) and the affected item to the right item callback (if registered and the        *)
(* changed callback did not fail); a step that changes nothing and is no honest Modify /      *)
(* ExecuteChangedCallback calls nothing; nothing is called while callbacks are off.           *)
Kind(op) == CASE op = "Add" -> "added" [] op = "Modify" -> "modified" [] op = "Delete" -> "deleted" [] OTHER -> "?"
Mirror ==
  [][ LET cbs == ev'.res.cbs
          hidden == ev'.op = "Modify" /\ ~ev'.report
      IN /\ (~enabled /\ ev'.op # "Enable") => cbs = <<>>
         /\ (enabled /\ m' # m /\ ~hidden) =>
               /\ cfg.changed => (Len(cbs) >= 1 /\ cbs[1] = ChangedCb(m'))
               /\ (cfg.item /\ cfg.fail # "changed") =>
                     /\ cbs[Len(cbs)].k = Kind(ev'.op)
                     /\ Len(cbs[Len(cbs)].items) = 1
                     /\ cbs[Len(cbs)].items[1].id = ev'.id
               /\ Len(cbs) = (IF cfg.changed THEN 1 ELSE 0) + (IF cfg.item /\ cfg.fail # "changed" THEN 1 ELSE 0)
         /\ (m' = m /\ ev'.op \notin {"Modify", "ExecChanged"}) => cbs = <<>>
         /\ (m' # m) => ev'.op \in {"Add", "Modify", "Delete"} ]_vars
(* a failed operation (other than a failing callback) leaves the store alone *)
ErrorsKeepState == [][ ev'.res.ret \in {"ErrExists", "ErrNotFound"} => m' = m ]_vars
=======================================================================
