---------------------------- MODULE IndexedStorage ----------------------------
(* core/memstorage.IndexedStorage: a keyed store (index -> sub-storage), each sub-storage   *)
(* itself a key/value map handed out by reference.                                          *)
(* Contract: Get(i) returns the sub-storage of i or nil; Get(i, TRUE) creates an empty one  *)
(* when missing (Get(i) and Get(i, FALSE) never create); the handle is the live storage:    *)
(* writes through it are seen by every later Get / ForEach.  Evict(i) removes and returns    *)
(* the sub-storage (nil if missing); a later Get(i, TRUE) starts from an EMPTY storage no    *)
(* matter what is done to the evicted handle.  Clear removes and returns everything;         *)
(* ForEach visits every (index, storage) pair exactly once (order unspecified: the adapter   *)
(* sorts by index).                                                                          *)
(* Encoding: a sub-storage's contents = sequence of [k, v] sorted by k; a set of storages =  *)
(* sequence of [i, kv] sorted by i; optional = <<>> / <<x>>.                                 *)
EXTENDS Integers, Sequences, FiniteSets, SequencesExt, TLC

CONSTANTS Idx, Keys, Vals     \* small integer universes (0 is reserved for "no value")
VARIABLES cfg, present, data, ev
vars == <<cfg, present, data, ev>>
View == <<cfg, present, data>>

Empty == [k \in Keys |-> 0]
Pairs(m) == LET ks == SetToSortSeq({k \in Keys : m[k] # 0}, <)
            IN [j \in 1..Len(ks) |-> [k |-> ks[j], v |-> m[ks[j]]]]
AllOf(pp, dd) == LET is == SetToSortSeq(pp, <)
                 IN [j \in 1..Len(is) |-> [i |-> is[j], kv |-> Pairs(dd[is[j]])]]
IdxSeq == SetToSortSeq(Idx, <)
St(pp, dd) == [all |-> AllOf(pp, dd),
               get |-> [j \in 1..Len(IdxSeq) |-> IF IdxSeq[j] \in pp THEN <<Pairs(dd[IdxSeq[j]])>> ELSE <<>>]]

Cfgs == {[nidx |-> Cardinality(Idx)]}   \* tells the adapter how many indexes st.get enumerates
Init == /\ cfg \in Cfgs
        /\ present = {} /\ data = [i \in Idx |-> Empty]
        /\ ev = [op |-> "reset", cfg |-> cfg]

Do(s) ==
  CASE s.op = "reset" -> cfg' = s.cfg /\ present' = {} /\ data' = [i \in Idx |-> Empty] /\ ev' = s
    [] s.op = "Get" ->          \* mode: "none" = Get(i), "false" = Get(i, false), "true" = Get(i, true)
         /\ UNCHANGED <<cfg, data>>
         /\ present' = IF s.mode = "true" THEN present \cup {s.i} ELSE present
         /\ ev' = [op |-> "Get", i |-> s.i, mode |-> s.mode,
                   res |-> (IF s.i \in present' THEN <<Pairs(data[s.i])>> ELSE <<>>),
                   st |-> St(present', data)]
    [] s.op = "Put" ->          \* Get(i, true).Set(k, v); res = Set's "was created"
         /\ UNCHANGED cfg
         /\ present' = present \cup {s.i}
         /\ data' = [data EXCEPT ![s.i][s.k] = s.v]
         /\ ev' = [op |-> "Put", i |-> s.i, k |-> s.k, v |-> s.v, res |-> (data[s.i][s.k] = 0), st |-> St(present', data')]
    [] s.op = "Del" ->          \* st := Get(i); if st # nil then st.Delete(k)
         /\ UNCHANGED <<cfg, present>>
         /\ data' = [data EXCEPT ![s.i][s.k] = 0]
         /\ ev' = [op |-> "Del", i |-> s.i, k |-> s.k,
                   res |-> (IF s.i \notin present THEN "nostorage" ELSE IF data[s.i][s.k] = 0 THEN "absent" ELSE "deleted"),
                   st |-> St(present, data')]
    [] s.op = "Evict" ->
         /\ UNCHANGED cfg
         /\ present' = present \ {s.i}
         /\ data' = [data EXCEPT ![s.i] = Empty]
         /\ ev' = [op |-> "Evict", i |-> s.i,
                   res |-> (IF s.i \in present THEN <<Pairs(data[s.i])>> ELSE <<>>),
                   st |-> St(present', data')]
    [] s.op = "Clear" ->
         /\ UNCHANGED cfg
         /\ present' = {} /\ data' = [i \in Idx |-> Empty]
         /\ ev' = [op |-> "Clear", res |-> AllOf(present, data), st |-> St(present', data')]
    [] s.op = "ForEach" ->
         /\ UNCHANGED <<cfg, present, data>>
         /\ ev' = [op |-> "ForEach", res |-> AllOf(present, data), st |-> St(present, data)]

Stimuli == [op : {"Get"}, i : Idx, mode : {"none", "false", "true"}]
           \cup [op : {"Put"}, i : Idx, k : Keys, v : Vals]
           \cup [op : {"Del"}, i : Idx, k : Keys]
           \cup [op : {"Evict"}, i : Idx]
           \cup [op : {"Clear", "ForEach"}]
Next == \E s \in Stimuli : Do(s)
Spec == Init /\ [][Next]_vars

-----------------------------------------------------------------------------
TypeOK == /\ present \subseteq Idx
          /\ data \in [Idx -> [Keys -> Vals \cup {0}]]
(* a missing index has no remembered contents: re-creating it starts empty *)
FreshAfterEvict == \A i \in Idx \ present : data[i] = Empty
(* every view of the store agrees: the ForEach view lists exactly the indexes Get finds *)
ViewsAgree == ev.op # "reset" =>
                /\ Len(ev.st.all) = Cardinality(present)
                /\ \A j \in 1..Len(IdxSeq) : (ev.st.get[j] # <<>>) = (IdxSeq[j] \in present)
(* only creating/removing operations change the index set, and exactly as asked *)
IndexSetMirrors ==
  [][ /\ ev'.op \in {"ForEach", "Del"} => present' = present
      /\ ev'.op = "Get" => present' = (IF ev'.mode = "true" THEN present \cup {ev'.i} ELSE present)
      /\ ev'.op = "Evict" => present' = present \ {ev'.i} /\ (ev'.res # <<>>) = (ev'.i \in present)
      /\ ev'.op = "Clear" => present' = {} /\ Len(ev'.res) = Cardinality(present) ]_vars
=======================================================================
