CONSTANTS
  Ids = {1, 2}
  Vals = {1, 2}
INVARIANTS TypeOK
PROPERTIES Mirror ErrorsKeepState
