CONSTANTS
  Vals = {1, 2, 3}
  MaxArgs = 3
  MaxLen = 4
INVARIANTS TypeOK ExactlyOnce HasNextDef
