---------------------------- MODULE SubMgr ----------------------------
(* web/subscriptionmanager.SubscriptionManager: clients connect, subscribe to topics (a     *)
(* client may subscribe to the same topic several times), unsubscribe, disconnect.          *)
(* Contract (property C12 + doc comments + the package's tests):                            *)
(*  - per-topic subscriber count = sum over connected clients of their subscriptions of     *)
(*    that topic (TopicHasSubscribers(t) <=> that sum > 0; TopicsSize = #topics with > 0);  *)
(*  - the emitted events mirror every state change: TopicSubscribed / TopicUnsubscribed     *)
(*    once per subscription gained / lost by a client, TopicAdded / TopicRemoved when a     *)
(*    topic's count leaves / reaches 0, ClientConnected / ClientDisconnected when a client  *)
(*    appears / disappears (Connect of a connected client = disconnect + connect);          *)
(*  - max > 0: a client that subscribes to a NEW topic while already holding max-1 distinct *)
(*    topics is dropped (tests: with max = 5 the 5th distinct topic drops the client): all  *)
(*    its subscriptions are released (events as for a disconnect), DropClient is emitted    *)
(*    before ClientDisconnected, Subscribe returns FALSE and the refused subscription never *)
(*    shows up anywhere (no event about it, no count changed for other clients).            *)
(*  - the shrinking thresholds of the underlying maps (cfg.cleanup) are unobservable.       *)
(* Event order inside one call is the documented emission order (removed topics, then       *)
(* unsubscriptions, then DropClient, ClientDisconnected, ClientConnected; TopicAdded before  *)
(* TopicSubscribed; TopicRemoved before TopicUnsubscribed); among several topics of one      *)
(* block the order is unspecified - the adapter sorts each block of equal kind by topic.     *)
(* res = [ret |-> BOOLEAN, evs |-> sequence of [k, c, t]] (c / t = 0 when not applicable).   *)
EXTENDS Integers, Sequences, FiniteSets, SequencesExt, TLC

CONSTANTS Clients, Topics,    \* integers >= 1
          Maxes,              \* values of WithMaxTopicSubscriptionsPerClient (0 = off)
          Cleanups,           \* subset of BOOLEAN: eager shrinking of the internal maps on/off
          MaxCount            \* exploration bound: subscriptions of one client to one topic
VARIABLES cfg, conn, subs, topics, ev
vars == <<cfg, conn, subs, topics, ev>>
View == <<cfg, conn, subs, topics>>

E(k, c, t) == [k |-> k, c |-> c, t |-> t]
Rep(x, n) == [i \in 1..n |-> x]
TopSeq == SetToSortSeq(Topics, <)
CliSeq == SetToSortSeq(Clients, <)
NoSubs == [t \in Topics |-> 0]
Distinct(c) == Cardinality({t \in Topics : subs[c][t] > 0})
SumOver(ss, t) == FoldSeq(LAMBDA c, acc : acc + ss[c][t], 0, CliSeq)

St(cn, ss, tp) ==
  [subscribers |-> Cardinality(cn),
   topics      |-> Cardinality({t \in Topics : tp[t] > 0}),
   topicsAll   |-> FoldSeq(LAMBDA c, acc : acc + Cardinality({t \in Topics : ss[c][t] > 0}), 0, CliSeq),
   has         |-> [j \in 1..Len(TopSeq) |-> tp[TopSeq[j]] > 0],
   sub         |-> [i \in 1..Len(CliSeq) |-> [j \in 1..Len(TopSeq) |-> ss[CliSeq[i]][TopSeq[j]] > 0]]]

Cfgs == [max : Maxes, cleanup : Cleanups, nclients : {Cardinality(Clients)}, ntopics : {Cardinality(Topics)}]
Init == /\ cfg \in Cfgs
        /\ conn = {} /\ subs = [c \in Clients |-> NoSubs] /\ topics = NoSubs
        /\ ev = [op |-> "reset", cfg |-> cfg]

(* releasing everything client c holds: new global counts and the events *)
Released(c) == [t \in Topics |-> topics[t] - subs[c][t]]
ReleaseEvs(c) ==
  LET gone == SetToSortSeq({t \in Topics : subs[c][t] > 0 /\ topics[t] - subs[c][t] = 0}, <)
  IN [j \in 1..Len(gone) |-> E("TopicRemoved", 0, gone[j])]
     \o FlattenSeq([j \in 1..Len(TopSeq) |-> Rep(E("TopicUnsubscribed", c, TopSeq[j]), subs[c][TopSeq[j]])])

Out(s, ret, evs) == [ret |-> ret, evs |-> evs]

Do(s) ==
  CASE s.op = "reset" ->
         /\ cfg' = s.cfg /\ conn' = {} /\ subs' = [c \in Clients |-> NoSubs] /\ topics' = NoSubs /\ ev' = s
    [] s.op = "Connect" ->
         /\ UNCHANGED cfg
         /\ conn' = conn \cup {s.c}
         /\ subs' = [subs EXCEPT ![s.c] = NoSubs]
         /\ topics' = IF s.c \in conn THEN Released(s.c) ELSE topics
         /\ ev' = [op |-> "Connect", c |-> s.c,
                   res |-> Out(s, TRUE, (IF s.c \in conn THEN ReleaseEvs(s.c) \o <<E("ClientDisconnected", s.c, 0)>> ELSE <<>>)
                                        \o <<E("ClientConnected", s.c, 0)>>),
                   st |-> St(conn', subs', topics')]
    [] s.op = "Disconnect" ->
         /\ UNCHANGED cfg
         /\ conn' = conn \ {s.c}
         /\ subs' = [subs EXCEPT ![s.c] = NoSubs]
         /\ topics' = IF s.c \in conn THEN Released(s.c) ELSE topics
         /\ ev' = [op |-> "Disconnect", c |-> s.c,
                   res |-> (IF s.c \in conn THEN Out(s, TRUE, ReleaseEvs(s.c) \o <<E("ClientDisconnected", s.c, 0)>>)
                            ELSE Out(s, FALSE, <<>>)),
                   st |-> St(conn', subs', topics')]
    [] s.op = "Subscribe" ->
         /\ UNCHANGED cfg
         /\ IF s.c \notin conn
              THEN /\ UNCHANGED <<conn, subs, topics>>
                   /\ ev' = [op |-> "Subscribe", c |-> s.c, t |-> s.t, res |-> Out(s, FALSE, <<>>), st |-> St(conn, subs, topics)]
              ELSE IF subs[s.c][s.t] = 0 /\ cfg.max # 0 /\ Distinct(s.c) + 1 >= cfg.max
              THEN \* forced drop at the subscription limit
                   /\ conn' = conn \ {s.c}
                   /\ subs' = [subs EXCEPT ![s.c] = NoSubs]
                   /\ topics' = Released(s.c)
                   /\ ev' = [op |-> "Subscribe", c |-> s.c, t |-> s.t,
                             res |-> Out(s, FALSE, ReleaseEvs(s.c) \o <<E("DropClient", s.c, 0), E("ClientDisconnected", s.c, 0)>>),
                             st |-> St(conn', subs', topics')]
              ELSE /\ UNCHANGED conn
                   /\ subs' = [subs EXCEPT ![s.c][s.t] = @ + 1]
                   /\ topics' = [topics EXCEPT ![s.t] = @ + 1]
                   /\ ev' = [op |-> "Subscribe", c |-> s.c, t |-> s.t,
                             res |-> Out(s, TRUE, (IF topics[s.t] = 0 THEN <<E("TopicAdded", 0, s.t)>> ELSE <<>>)
                                                  \o <<E("TopicSubscribed", s.c, s.t)>>),
                             st |-> St(conn, subs', topics')]
    [] s.op = "Unsubscribe" ->
         /\ UNCHANGED <<cfg, conn>>
         /\ IF s.c \notin conn \/ subs[s.c][s.t] = 0
              THEN /\ UNCHANGED <<subs, topics>>
                   /\ ev' = [op |-> "Unsubscribe", c |-> s.c, t |-> s.t, res |-> Out(s, FALSE, <<>>), st |-> St(conn, subs, topics)]
              ELSE /\ subs' = [subs EXCEPT ![s.c][s.t] = @ - 1]
                   /\ topics' = [topics EXCEPT ![s.t] = @ - 1]
                   /\ ev' = [op |-> "Unsubscribe", c |-> s.c, t |-> s.t,
                             res |-> Out(s, TRUE, (IF topics[s.t] = 1 THEN <<E("TopicRemoved", 0, s.t)>> ELSE <<>>)
                                                  \o <<E("TopicUnsubscribed", s.c, s.t)>>),
                             st |-> St(conn, subs', topics')]

Stimuli == [op : {"Connect", "Disconnect"}, c : Clients] \cup [op : {"Subscribe", "Unsubscribe"}, c : Clients, t : Topics]
Enabled(s) == s.op = "Subscribe" => subs[s.c][s.t] < MaxCount
Next == \E s \in Stimuli : Enabled(s) /\ Do(s)
Spec == Init /\ [][Next]_vars

-----------------------------------------------------------------------------
TypeOK == /\ conn \subseteq Clients
          /\ \A c \in Clients, t \in Topics : subs[c][t] >= 0
          /\ \A c \in Clients \ conn : subs[c] = NoSubs
(* the property: per-topic counts = sum of the clients' subscriptions *)
CountsAreSums == \A t \in Topics : topics[t] = SumOver(subs, t)
(* the limit is never exceeded by a connected client *)
LimitHolds == cfg.max # 0 => \A c \in conn : Distinct(c) < cfg.max
(* events mirror the state change of the step *)
Count(evs, k, c, t) == Cardinality({i \in 1..Len(evs) : evs[i] = E(k, c, t)})
EventsMirror ==
  [][ LET evs == ev'.res.evs IN
      /\ \A c \in Clients, t \in Topics :
            Count(evs, "TopicSubscribed", c, t) - Count(evs, "TopicUnsubscribed", c, t) = subs'[c][t] - subs[c][t]
      /\ \A t \in Topics :
            /\ Count(evs, "TopicAdded", 0, t) = (IF topics[t] = 0 /\ topics'[t] > 0 THEN 1 ELSE 0)
            /\ Count(evs, "TopicRemoved", 0, t) = (IF topics[t] > 0 /\ topics'[t] = 0 THEN 1 ELSE 0)
      /\ \A c \in Clients :
            /\ Count(evs, "ClientDisconnected", c, 0) = (IF c \in conn /\ (c \notin conn' \/ ev'.op = "Connect") /\ ev'.c = c THEN 1 ELSE 0)
            /\ Count(evs, "ClientConnected", c, 0) = (IF ev'.op = "Connect" /\ ev'.c = c THEN 1 ELSE 0)
            /\ Count(evs, "DropClient", c, 0) = (IF ev'.op = "Subscribe" /\ c \in conn /\ c \notin conn' THEN 1 ELSE 0)
      /\ (ev'.res.ret = FALSE /\ evs = <<>>) => UNCHANGED <<conn, subs, topics>> ]_vars
=======================================================================
