---------------------------- MODULE TimeHeap ----------------------------
(* ds/timeheap.TimeHeap: "reports the windowed sum of what was added and not cleared".     *)
(* Time is an integer epoch counter `now`; the binding realises an epoch change (Tick) as  *)
(* a real sleep of cfg.tickMs (>= 30 ms) and uses two windows: "short" (cfg.shortMs =      *)
(* 15 ms: exactly the entries of the current epoch are inside, provided the calls of one   *)
(* epoch complete within the margin the adapter supervises) and "long" (1 h: everything).  *)
(* Contract (doc comments): Add(n) stamps n with the current time; AveragePerSecond(w)     *)
(* removes the entries older than w for good and reports (sum of the remaining entries)/w; *)
(* Clear removes all entries - afterwards nothing that was added before counts.            *)
(* res of Avg is the SUM (the adapter multiplies the reported average by the window and    *)
(* checks it is integral); st.sum is AveragePerSecond(1 h) * 1 h, which removes nothing at *)
(* this time scale and therefore is a pure observer.                                       *)
EXTENDS Integers, Sequences, FiniteSets, SequencesExt, TLC

CONSTANTS Counts,      \* values passed to Add
          MaxEntries   \* exploration bound on the number of live entries
VARIABLES cfg, now, entries, ev
vars == <<cfg, now, entries, ev>>

(* Only whether an entry belongs to the current epoch matters for the two windows, so the  *)
(* view abstracts absolute time away (bisimilar states) and the state space is finite      *)
(* although `now` grows without bound.                                                     *)
View == <<cfg, [i \in 1..Len(entries) |-> [cur |-> entries[i].t = now, n |-> entries[i].n]]>>

Sum(es) == FoldSeq(LAMBDA e, acc : acc + e.n, 0, es)
St(es) == [sum |-> Sum(es)]

Cfgs == {[shortMs |-> 15, longMs |-> 3600000, tickMs |-> 32]}
Init == /\ cfg \in Cfgs
        /\ now = 0 /\ entries = <<>>
        /\ ev = [op |-> "reset", cfg |-> cfg]

Inside(e, w) == w = "long" \/ e.t = now

Do(s) ==
  CASE s.op = "reset" -> cfg' = s.cfg /\ now' = 0 /\ entries' = <<>> /\ ev' = s
    [] s.op = "Add" ->
         /\ UNCHANGED <<cfg, now>>
         /\ entries' = Append(entries, [t |-> now, n |-> s.n])
         /\ ev' = [op |-> "Add", n |-> s.n, res |-> TRUE, st |-> St(entries')]
    [] s.op = "Clear" ->
         /\ UNCHANGED <<cfg, now>>
         /\ entries' = <<>>
         /\ ev' = [op |-> "Clear", res |-> TRUE, st |-> St(<<>>)]
    [] s.op = "Avg" ->
         /\ UNCHANGED <<cfg, now>>
         /\ entries' = SelectSeq(entries, LAMBDA e : Inside(e, s.w))
         /\ ev' = [op |-> "Avg", w |-> s.w, res |-> Sum(entries'), st |-> St(entries')]
    [] s.op = "Tick" ->
         /\ UNCHANGED <<cfg, entries>>
         /\ now' = now + 1
         /\ ev' = [op |-> "Tick", res |-> TRUE, st |-> St(entries)]

Stimuli == [op : {"Add"}, n : Counts] \cup [op : {"Avg"}, w : {"short", "long"}] \cup [op : {"Clear", "Tick"}]
Enabled(s) == s.op = "Add" => Len(entries) < MaxEntries
Next == \E s \in Stimuli : Enabled(s) /\ Do(s)
Spec == Init /\ [][Next]_vars

-----------------------------------------------------------------------------
TypeOK == \A i \in 1..Len(entries) : entries[i].t <= now /\ entries[i].n \in Counts
(* the property, on the model: what is reported is the sum over the window of what is live, *)
(* a cleared heap reports 0, and the reported sum never exceeds what was added and is live  *)
WindowedSum == ev.op = "Avg" => ev.res = Sum(SelectSeq(entries, LAMBDA e : Inside(e, ev.w)))
ClearedIsZero == ev.op = "Clear" => ev.st.sum = 0
=======================================================================
