CONSTANTS
  Clients = {1, 2}
  Topics = {1, 2, 3}
  Maxes = {0, 2, 3, 4}
  Cleanups = {TRUE, FALSE}
  MaxCount = 100000
INVARIANTS TypeOK CountsAreSums LimitHolds
