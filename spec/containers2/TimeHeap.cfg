CONSTANTS
  Counts = {1, 2}
  MaxEntries = 3
INVARIANTS TypeOK WindowedSum ClearedIsZero
