---------------------------- MODULE Walker ----------------------------
(* ds/walker.Walker: a work queue for graph walks.                                          *)
(* Contract (property C12 + doc comments): every element pushed (Push / PushAll to the      *)
(* back, PushFront to the front, arguments processed left to right) is yielded by Next      *)
(* exactly once per Reset - a repeated push of an element that was already pushed is        *)
(* skipped, and only that element - unless the walker was built with revisit = TRUE, in     *)
(* which case every push is queued.  Next yields in queue order.  StopWalk forces HasNext   *)
(* to FALSE; Reset forgets queue, pushed set and the stop flag.                             *)
(* Next on an empty queue is outside the contract (nil dereference) and not a stimulus.     *)
EXTENDS Integers, Sequences, FiniteSets, SequencesExt, TLC

CONSTANTS Vals,      \* element universe (integers)
          MaxArgs,   \* PushAll / PushFront take 0..MaxArgs arguments
          MaxLen     \* exploration bound on the queue length (matters only with revisit)
VARIABLES cfg, q, pushed, stopped, out, ev
vars == <<cfg, q, pushed, stopped, out, ev>>
View == <<cfg, q, pushed, stopped, out>>

St(qq, pp, ss) == [hasNext |-> (Len(qq) > 0 /\ ~ss), stopped |-> ss, pushed |-> SetToSortSeq(pp, <)]

Cfgs == [revisit : BOOLEAN]
Init == /\ cfg \in Cfgs
        /\ q = <<>> /\ pushed = {} /\ stopped = FALSE /\ out = {}
        /\ ev = [op |-> "reset", cfg |-> cfg]

(* pushing a list of elements one by one, left to right; result <<queue, pushed>> *)
RECURSIVE PushEach(_, _, _, _, _)
PushEach(qq, pp, xs, front, rv) ==
  IF xs = <<>> THEN <<qq, pp>>
  ELSE LET x == Head(xs) IN
       IF x \in pp /\ ~rv
         THEN PushEach(qq, pp, Tail(xs), front, rv)                       \* skip only this one
         ELSE PushEach(IF front THEN <<x>> \o qq ELSE Append(qq, x), pp \cup {x}, Tail(xs), front, rv)

Do(s) ==
  CASE s.op = "reset" ->
         /\ cfg' = s.cfg /\ q' = <<>> /\ pushed' = {} /\ stopped' = FALSE /\ out' = {} /\ ev' = s
    [] s.op = "Push" ->
         LET r == PushEach(q, pushed, <<s.v>>, FALSE, cfg.revisit)
         IN /\ UNCHANGED <<cfg, stopped, out>>
            /\ q' = r[1] /\ pushed' = r[2]
            \* res: the call returns the walker itself (fluent API)
            /\ ev' = [op |-> "Push", v |-> s.v, res |-> TRUE, st |-> St(q', pushed', stopped)]
    [] s.op \in {"PushAll", "PushFront"} ->
         LET r == PushEach(q, pushed, s.vs, s.op = "PushFront", cfg.revisit)
         IN /\ UNCHANGED <<cfg, stopped, out>>
            /\ q' = r[1] /\ pushed' = r[2]
            /\ ev' = [op |-> s.op, vs |-> s.vs, res |-> TRUE, st |-> St(q', pushed', stopped)]
    [] s.op = "Next" ->
         /\ UNCHANGED <<cfg, pushed, stopped>>
         /\ q' = Tail(q)
         /\ out' = IF cfg.revisit THEN out ELSE out \cup {Head(q)}
         /\ ev' = [op |-> "Next", res |-> Head(q), st |-> St(q', pushed, stopped)]
    [] s.op = "HasNext" ->
         /\ UNCHANGED <<cfg, q, pushed, stopped, out>>
         /\ ev' = [op |-> "HasNext", res |-> (Len(q) > 0 /\ ~stopped), st |-> St(q, pushed, stopped)]
    [] s.op = "WalkStopped" ->
         /\ UNCHANGED <<cfg, q, pushed, stopped, out>>
         /\ ev' = [op |-> "WalkStopped", res |-> stopped, st |-> St(q, pushed, stopped)]
    [] s.op = "Pushed" ->
         /\ UNCHANGED <<cfg, q, pushed, stopped, out>>
         /\ ev' = [op |-> "Pushed", v |-> s.v, res |-> (s.v \in pushed), st |-> St(q, pushed, stopped)]
    [] s.op = "StopWalk" ->
         /\ UNCHANGED <<cfg, q, pushed, out>>
         /\ stopped' = TRUE
         /\ ev' = [op |-> "StopWalk", res |-> TRUE, st |-> St(q, pushed, TRUE)]
    [] s.op = "Reset" ->
         /\ UNCHANGED cfg
         /\ q' = <<>> /\ pushed' = {} /\ stopped' = FALSE /\ out' = {}
         /\ ev' = [op |-> "Reset", res |-> TRUE, st |-> St(<<>>, {}, FALSE)]

ArgSeqs == UNION {[1..n -> Vals] : n \in 0..MaxArgs}
Stimuli == [op : {"Push", "Pushed"}, v : Vals] \cup [op : {"PushAll", "PushFront"}, vs : ArgSeqs]
           \cup [op : {"Next", "HasNext", "WalkStopped", "StopWalk", "Reset"}]

(* exploration guard (not part of Do, so recorded traces are not bounded by it) *)
Enabled(s) == CASE s.op = "Next" -> q # <<>>
                [] s.op = "Push" -> Len(q) + 1 <= MaxLen
                [] s.op \in {"PushAll", "PushFront"} -> Len(q) + Len(s.vs) <= MaxLen
                [] OTHER -> TRUE
Next == \E s \in Stimuli : Enabled(s) /\ Do(s)
Spec == Init /\ [][Next]_vars

-----------------------------------------------------------------------------
TypeOK == /\ Range(q) \subseteq pushed /\ pushed \subseteq Vals /\ stopped \in BOOLEAN
(* without revisiting: every pushed element is either still queued or was yielded, never both, *)
(* and it is queued at most once  ==  "yields every pushed element exactly once"               *)
ExactlyOnce == ~cfg.revisit =>
                 /\ out \cup Range(q) = pushed
                 /\ out \cap Range(q) = {}
                 /\ Cardinality(Range(q)) = Len(q)
HasNextDef == ev.op # "reset" => ev.st.hasNext = (q # <<>> /\ ~stopped)
=======================================================================
