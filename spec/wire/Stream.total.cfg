CONSTANTS
  Mode = "total"
  MaxChunk = 6
  L = 6
  Alphabet = {0, 1, 2, 255}
  Discipline = "full"
INVARIANTS Bounded Agree NotStuck
