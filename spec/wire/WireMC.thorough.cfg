\* thorough tier: a fifth byte value (128: sign bit, UTF-8 continuation byte, high bit of a length) and no pruning
SPECIFICATION Spec
CONSTANTS Alphabet = {0, 1, 2, 128, 255}
 MaxLen = 6
 Sids = {}
 Emit = FALSE
 Prune = FALSE
 ValDepth = 4
INVARIANTS BytesGood ValuesGood
