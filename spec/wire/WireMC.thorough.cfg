SPECIFICATION Spec
CONSTANTS Alphabet = {0, 1, 2, 255}
 MaxLen = 7
 Sids = {}
 Emit = FALSE
 ValDepth = 4
INVARIANTS BytesGood ValuesGood
