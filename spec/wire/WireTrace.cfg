\* needs records.ndjson (harness: h w1-record) and catalogue.json next to the modules
INIT TInit
NEXT TNext
POSTCONDITION Accepted
