------------------------------ MODULE WireProps ------------------------------
(* The statements of C01 / C02 / C03 on the MODEL, for one schema and one input (byte string or value).
   Used by WireMC (catalogue schemas, exhaustive over byte strings) and WireSim (random deeper schemas). *)
EXTENDS WireVals

\* a failed conjunct names itself on stdout (TLC only reports the enclosing invariant)
Chk(name, cond) == cond \/ (PrintT(<<"FAILED", name>>) /\ FALSE)

(* ---------------------------------------------------------------- byte-string states
   r0 / r1: what the plain / the validating decoder make of p                                          *)
InScope(s, r) == r.ok /\ ~Oos(s, r.v)

\* C02: a decoder never reports more bytes than it was given
Bounded(p, r0, r1) == (r0.ok => r0.n <= Len(p)) /\ (r1.ok => r1.n <= Len(p))
\* validation only rejects: what it accepts is what the plain decoder yields
ValidationRestricts(r0, r1) == r1.ok => r0 = r1
\* the result depends on the consumed prefix only
PrefixOnly(s, p, r0, r1) == (r0.ok /\ r0.n < Len(p)) => /\ Dec(s, SubSeq(p, 1, r0.n), FALSE) = r0
                                                         /\ Dec(s, SubSeq(p, 1, r0.n), TRUE) = r1
\* C03 reverse: the validating decoder accepts canonical bytes only
Canonical(s, p, r1, e1) == InScope(s, r1) => e1 = Ok(SubSeq(p, 1, r1.n))
\* C01 on every value a decoder can produce: it re-encodes, and decodes back to its canonical form
RoundTripDecoded(s, r0, e0) ==
  InScope(s, r0) => /\ e0.ok
                    /\ Dec(s, e0.b, FALSE) = OkD(Canon(s, r0.v, TRUE), Len(e0.b))

\* C02: what a decoder builds is bounded by what it consumed, never by a length field it read:
\* the fixed parts of the schema plus a schema constant per consumed byte
SizeBounded(s, r0) == r0.ok => Size(s, r0.v) <= Static(s) + PerByte(s) * r0.n

\* everything the properties say about byte string p handed to the decoders of schema s;
\* emit(r0, r1, e0, e1) lets the caller export the model's expectation for p
BytesGoodFor(s, p, emit(_, _, _, _)) ==
  LET r0 == Dec(s, p, FALSE)
      r1 == Dec(s, p, TRUE)
      e0 == IF r0.ok THEN Enc(s, r0.v, FALSE) ELSE Err
      e1 == IF r0.ok THEN Enc(s, r0.v, TRUE) ELSE Err IN
  /\ Chk("Bounded", Bounded(p, r0, r1))
  /\ Chk("ValidationRestricts", ValidationRestricts(r0, r1))
  /\ Chk("PrefixOnly", PrefixOnly(s, p, r0, r1))
  /\ Chk("Canonical", Canonical(s, p, r1, e1))
  /\ Chk("RoundTripDecoded", RoundTripDecoded(s, r0, e0))
  /\ Chk("SizeBounded", SizeBounded(s, r0))
  /\ emit(r0, r1, e0, e1)

\* everything the properties say about value v of schema s
ValGoodFor(s, v, emit(_, _, _)) ==
  LET e0 == Enc(s, v, FALSE)
      e1 == Enc(s, v, TRUE)
      c  == Canon(s, v, TRUE)
      rv == Rev(s, v) IN
  \* validation only restricts the encoder and never changes the bytes
  /\ Chk("ValidationRestrictsEnc", e1.ok => e0 = e1)
  \* C01: every encodable value round-trips (up to the canonical order) and all bytes are consumed
  /\ Chk("RoundTrip", e0.ok => Dec(s, e0.b, FALSE) = OkD(c, Len(e0.b)))
  /\ Chk("RoundTripV", e1.ok => Dec(s, e1.b, TRUE) = OkD(c, Len(e1.b)))
  \* C01: the bytes do not depend on the order in which map entries (sorted slices) are presented
  /\ Chk("OrderIndependent", Enc(s, rv, FALSE) = e0 /\ Enc(s, rv, TRUE) = e1)
  \* C03: the canonical form encodes to the same bytes
  /\ Chk("CanonSameBytes", e0.ok => Enc(s, c, FALSE) = e0)
  /\ emit(e0, e1, c)

=============================================================================
