------------------------------- MODULE WireJsonCat -----------------------------
(* The catalogue: the JSON shape of every Go type of harness/sut/wire2/jsoncat.go, written from the
   documented rules (field key = Go field name with the first letter lowered and ID/URL/NFT/HRP folded to
   Id/Url/Nft/Hrp, or the key given in the serix tag).  id = name of the Go type.                      *)
EXTENDS WireJson

SInner == SStruct("Inner", <<>>, <<F("a", "A", S("u8")), F("s", "S", S("string"))>>)
SBasic == SStruct("Basic", <<42>>, <<
            F("uint64", "Uint64", S("u64")), F("uint32", "Uint32", S("u32")), F("uint16", "Uint16", S("u16")), F("uint8", "Uint8", S("u8")),
            F("int64", "Int64", S("i64")), F("int32", "Int32", S("i32")), F("int16", "Int16", S("i16")), F("int8", "Int8", S("i8")),
            Omit(F("zeroInt32", "ZeroInt32", S("i32"))),
            F("float32", "Float32", S("f32")), F("float64", "Float64", S("f64")), F("string", "String", S("string")), F("bool", "Bool", S("bool"))>>)
SNested == SStruct("Nested", <<1>>, <<
            F("inner", "Inner", SInner), F("ptr", "Ptr", SPtr(SInner)), Opt(F("opt", "Opt", SPtr(SInner))),
            F("nodeId", "NodeID", S("u16")), F("myKey", "Custom", S("u8"))>>)
SSlices == SStruct("Slices", <<2>>, <<
            F("u16s", "U16s", SSlice(S("u16"))), F("blobs", "Blobs", SSlice(S("bytes"))), F("strs", "Strs", SSlice(S("string"))),
            F("inners", "Inners", SSlice(SInner)), F("ptrs", "Ptrs", SSlice(SPtr(SInner))), Omit(F("omitS", "OmitS", SSlice(S("u16"))))>>)
SMaps == SStruct("Maps", <<3>>, <<F("m1", "M1", SMap(S("u8"))), F("m2", "M2", SMap(SInner))>>)
SCircle == SStruct("Circle", <<0>>, <<F("r", "R", S("u8"))>>)
SRect == SStruct("Rect", <<1>>, <<F("w", "W", S("u16")), F("h", "H", S("u16"))>>)
STag == STArr("Tag", <<2>>, "data", 4)
SShape == SIface(<<SCircle, SRect, STag>>)
SIfaces == SStruct("Ifaces", <<4>>, <<F("one", "One", SShape), F("many", "Many", SSlice(SShape)), Opt(F("optI", "OptI", SShape))>>)
STyped == STArr("TArr", <<7>>, "otherObjKey", 2)
SByteArrs == SStruct("ByteArrs", <<5>>, <<F("arr", "Arr", SBArr(4)), F("typed", "Typed", SPtr(STyped)), F("ids", "IDs", SSlice(SBArr(2)))>>)
SBig == SStruct("Big", <<6>>, <<F("n", "N", S("bigint")), F("t", "T", S("time"))>>)
SEmbed == SStruct("Embed", <<8>>, <<Emb(F("Inner", "Inner", SInner)), F("extra", "Extra", S("u8"))>>)
SInl == SStruct("Inl", <<9>>, <<Emb(F("In", "In", SInner)), F("z", "Z", S("bool"))>>)
SArr16 == SStruct("Arr16", <<10>>, <<F("pair", "Pair", SArr(2, S("u16")))>>)
SGroup == SStruct("Group", <<3>>, <<F("members", "Members", SSlice(SPtr(SInner))), Opt(F("leader", "Leader", SPtr(SInner)))>>)
SDeep == SStruct("Deep", <<11>>, <<F("sh", "Sh", SIface(<<SGroup, SCircle>>))>>)
\* omitempty on a pointer field: the key is left out for the nil pointer only (a pointer to a zero value is a value and is written)
SOmitPtrs == SStruct("OmitPtrs", <<12>>, <<Opt(Omit(F("p", "P", SPtr(SInner)))), F("z", "Z", S("u8"))>>)

Types == << [id |-> "Basic", s |-> SBasic], [id |-> "Nested", s |-> SNested], [id |-> "Slices", s |-> SSlices],
            [id |-> "Maps", s |-> SMaps], [id |-> "Ifaces", s |-> SIfaces], [id |-> "ByteArrs", s |-> SByteArrs],
            [id |-> "Big", s |-> SBig], [id |-> "Embed", s |-> SEmbed], [id |-> "Inl", s |-> SInl],
            [id |-> "Arr16", s |-> SArr16], [id |-> "Deep", s |-> SDeep], [id |-> "OmitPtrs", s |-> SOmitPtrs] >>
===============================================================================
