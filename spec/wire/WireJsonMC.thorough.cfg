INVARIANTS RoundTrip DecTotal NotVacuous
