------------------------------- MODULE WireSim -------------------------------
(* Deeper schemas than the catalogue holds, on the MODEL only (thorough tier): TLC -simulate builds random
   schemas of nesting depth <= MaxDepth from an alphabet of leaves and wrappers (every constructor, the
   array rules, both code widths) and checks in every state the same properties WireMC checks, for all
   byte strings of length <= StrLen over Alphabet and for the small-scope values of the schema.
   No Go type exists for these schemas: this run argues that Wire.tla's properties do not depend on the
   particular shapes of the catalogue.                                                               *)
EXTENDS WireProps

CONSTANTS Alphabet, StrLen, MaxDepth

NoCode == [w |-> 0, c |-> 0]
Num8   == [k |-> "num", w |-> 1, s |-> FALSE, fl |-> FALSE]
Leaves == <<[k |-> "bool"], Num8,
            [k |-> "num", w |-> 2, s |-> FALSE, fl |-> FALSE],
            [k |-> "num", w |-> 1, s |-> TRUE, fl |-> FALSE],
            [k |-> "str", lp |-> 1, min |-> 0, max |-> 2],
            [k |-> "bytes", lp |-> 1, min |-> 1, max |-> 0],
            [k |-> "barr", n |-> 2, code |-> [w |-> 1, c |-> 1]],
            [k |-> "custom", n |-> 1, code |-> NoCode]>>

Slice(e, lp, mn, mx, sort, vlex, nodup, one) ==
  [k |-> "slice", e |-> e, lp |-> lp, n |-> 0, min |-> mn, max |-> mx, sort |-> sort, vlex |-> vlex,
   nodup |-> nodup, one |-> one, must |-> <<>>, mw |-> 1]
Struct(code, fs) == [k |-> "struct", code |-> code, f |-> fs]

NWraps == 13
Wrap(i, x) ==
  CASE i = 1  -> Slice(x, 1, 0, 0, FALSE, FALSE, FALSE, 0)
    [] i = 2  -> Slice(x, 1, 0, 0, TRUE, TRUE, TRUE, 0)
    [] i = 3  -> Slice(x, 1, 0, 0, FALSE, TRUE, FALSE, 0)
    [] i = 4  -> Slice(x, 2, 1, 2, FALSE, FALSE, TRUE, 0)
    [] i = 5  -> [Slice(x, 1, 0, 0, FALSE, FALSE, FALSE, 0) EXCEPT !.k = "arr", !.n = 2]
    [] i = 6  -> [k |-> "map", key |-> Num8, val |-> x, lp |-> 1, min |-> 0, max |-> 2]
    [] i = 7  -> [k |-> "map", key |-> x, val |-> [k |-> "bool"], lp |-> 1, min |-> 0, max |-> 0]
    [] i = 8  -> Struct(NoCode, <<x, Num8>>)
    [] i = 9  -> Struct([w |-> 1, c |-> 2], <<Num8, x>>)
    [] i = 10 -> Struct(NoCode, <<[k |-> "opt", t |-> x], Num8>>)
    [] i = 11 -> [k |-> "iface", w |-> 1, alts |-> <<[c |-> 0, t |-> Struct([w |-> 1, c |-> 0], <<x>>)],
                                                     [c |-> 1, t |-> Struct([w |-> 1, c |-> 1], <<Num8>>)]>>]
    [] i = 12 -> Slice([k |-> "iface", w |-> 4, alts |-> <<[c |-> 1, t |-> Struct([w |-> 4, c |-> 1], <<x>>)],
                                                          [c |-> 2, t |-> Struct([w |-> 4, c |-> 2], <<>>)]>>],
                       1, 0, 0, FALSE, FALSE, FALSE, 4)
    [] i = 13 -> Struct(NoCode, <<[k |-> "eptr", t |-> Struct(NoCode, <<x>>)], [k |-> "bool"]>>)

VARIABLES sch, depth
vars == <<sch, depth>>
Init == depth = 0 /\ \E i \in 1..Len(Leaves) : sch = Leaves[i]
Next == depth < MaxDepth /\ depth' = depth + 1 /\ \E i \in 1..NWraps : sch' = Wrap(i, sch)
Spec == Init /\ [][Next]_vars

Strs == UNION {[1..n -> Alphabet] : n \in 0..StrLen}
NoRow(r0, r1, e0, e1) == TRUE
NoVRow(e0, e1, c) == TRUE

SchemaGood == /\ \A q \in Strs : Chk(sch, BytesGoodFor(sch, q \o <<>>, NoRow))
              /\ LET vs == Vals(sch, 3) IN \A i \in 1..Len(vs) : Chk(sch, ValGoodFor(sch, vs[i], NoVRow))
==============================================================================
