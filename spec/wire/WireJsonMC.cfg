INVARIANTS RoundTrip
