-------------------------------- MODULE Wire --------------------------------
(* Declarative model of the binary serix wire format (properties C01, C02, C03, work id W1).

   Written from the documented layout, NOT from the Go code:
     - fixed-width numbers little-endian, signed ones in two's complement, floats as their IEEE bit pattern
     - bool = one byte, 0 or 1, nothing else is a bool
     - string / byte slice = length prefix (1, 2, 4 or 8 bytes, little-endian) + the bytes
     - byte array [N]byte = the N bytes, after the object-type code if the type has one
     - slice / array of anything else = length prefix (element count) + the elements back to back
     - map = length prefix (entry count) + entries (key bytes + value bytes) in byte-lexical order
     - struct = object-type code (uint8 or uint32, if registered) + fields in order; an embedded struct
       is flattened (no code of its own), an inlined one is an ordinary field
     - optional field = uint32 byte length of the payload (0 = absent) + payload
     - interface = the concrete object, which starts with its type code (uint8 or uint32)
     - *big.Int = 32 bytes little-endian (uint256), time.Time = uint64 nanoseconds since the epoch
     - custom Serializable = (code +) opaque bytes
   Validation (DecV / EncV = the operators with V = TRUE) adds: length bounds, UTF-8, and the array
   rules lexical order / no duplicates / at most one of each type / must occur; maps reject duplicate
   keys in every mode.

   Schemas and values are JSON-friendly trees (records, sequences, integers, booleans):
     schema  [k |-> kind, ...]   (see the CASE arms of Enc; spec/wire/catalogue.json lists the real ones)
     number  [n |-> negative?, m |-> magnitude as little-endian base-2^15 limbs]  (TLC integers are 32 bit)
     string, bytes, byte array, custom  sequence of 0..255
     slice, array  sequence of element values;  map  sequence of <<key, value>> pairs
     struct  sequence of field values;  optional  [some |-> FALSE] or [some |-> TRUE, v |-> value]
     interface  [c |-> type code, v |-> value of that alternative]
   Results:  Enc -> [ok |-> TRUE, b |-> bytes] or [ok |-> FALSE]
             Dec -> [ok |-> TRUE, v |-> value, n |-> bytes consumed] or [ok |-> FALSE]                 *)
EXTENDS Integers, Sequences, FiniteSets, TLC

Err   == [ok |-> FALSE]
Ok(b) == [ok |-> TRUE, b |-> b]
ErrD  == [ok |-> FALSE]
OkD(v, n) == [ok |-> TRUE, v |-> v, n |-> n]

MinOf(S) == CHOOSE x \in S : \A y \in S : x <= y
Tail2(b, n) == SubSeq(b, n + 1, Len(b))            \* b without its first n elements

(* ------------------------------------------------------------------ byte strings *)
\* bytes.Compare(a, b) < 0
LexLess(a, b) == LET n == IF Len(a) < Len(b) THEN Len(a) ELSE Len(b)
                     D == {i \in 1..n : a[i] # b[i]}
                 IN  IF D = {} THEN Len(a) < Len(b) ELSE a[MinOf(D)] < b[MinOf(D)]
LexLE(a, b) == ~LexLess(b, a)

\* TLC evaluates [i \in D |-> e] lazily and re-evaluates e at EVERY application; M(f) turns f into an explicit
\* tuple (each element evaluated once).  Semantically the identity on sequences.
M(f) == f \o <<>>

RECURSIVE Flatten(_)
Flatten(ss) == IF Len(ss) = 0 THEN <<>> ELSE Head(ss) \o Flatten(Tail(ss))

Huge == 1073741824       \* every length >= 2^30 is "more than any input holds"; keeps TLC inside 32 bits
\* little-endian unsigned value of the first w bytes of b (w in {1,2,4,8}), capped at Huge
LenVal(b, w) == IF w = 8 /\ (b[5] # 0 \/ b[6] # 0 \/ b[7] # 0 \/ b[8] # 0) THEN Huge
                ELSE IF w >= 4 /\ b[4] >= 64 THEN Huge
                ELSE IF w >= 4 THEN b[1] + 256 * b[2] + 65536 * b[3] + 16777216 * b[4]
                ELSE IF w = 2 THEN b[1] + 256 * b[2]
                ELSE b[1]
\* little-endian w bytes of l (0 <= l < 2^30)
LenBytes(w, l) == M([k \in 1..w |-> IF k > 4 THEN 0 ELSE (l \div (256 ^ (k - 1))) % 256])
FitsPfx(w, l)  == w >= 4 \/ l < 256 ^ w

\* object-type code: [w |-> 0 (none) | 1 | 4, c |-> number]
CodeBytes(code) == IF code.w = 0 THEN <<>> ELSE LenBytes(code.w, code.c)
HasCode(b, code) == Len(b) >= code.w /\ SubSeq(b, 1, code.w) = CodeBytes(code)

InBounds(s, cnt) == (s.min # 0 => cnt >= s.min) /\ (s.max # 0 => cnt <= s.max)

(* ------------------------------------------------------------------ numbers as limbs *)
NLimbs(w)  == CASE w = 1 -> 1 [] w = 2 -> 2 [] w = 4 -> 3 [] w = 8 -> 5 [] w = 32 -> 18
TopBits(w) == 8 * w - 15 * (NLimbs(w) - 1)
Limb(m, i) == IF i + 1 <= Len(m) THEN m[i + 1] ELSE 0            \* i counts from 0
ByteAt(b, j) == IF j + 1 <= Len(b) THEN b[j + 1] ELSE 0          \* j counts from 0
FitsU(m, w) == /\ Len(m) = NLimbs(w)
               /\ \A i \in 1..Len(m) : m[i] \in 0..32767
               /\ m[Len(m)] < 2 ^ TopBits(w)
IsZero(m)   == \A i \in 1..Len(m) : m[i] = 0
\* byte k (1-based, little-endian) of the magnitude m
UByte(m, k) == LET lo == 8 * (k - 1)  i == lo \div 15  off == lo % 15
               IN  ((Limb(m, i) \div (2 ^ off)) + Limb(m, i + 1) * (2 ^ (15 - off))) % 256
UBytes(m, w) == M([k \in 1..w |-> UByte(m, k)])
\* limb i (0-based) of the little-endian bytes b
LimbAt(b, i) == LET lo == 15 * i  k == lo \div 8  off == lo % 8
                IN  ((ByteAt(b, k) \div (2 ^ off)) + ByteAt(b, k + 1) * (2 ^ (8 - off))
                     + ByteAt(b, k + 2) * (2 ^ (16 - off))) % 32768
ULimbs(b, w) == M([i \in 1..NLimbs(w) |-> LimbAt(b, i - 1)])
\* two's complement negation of a little-endian byte string
NegBytes(b) == LET nz == {k \in 1..Len(b) : b[k] # 0}
               IN  IF nz = {} THEN b
                   ELSE LET j == MinOf(nz)
                        IN  M([k \in 1..Len(b) |-> IF k < j THEN 0 ELSE IF k = j THEN 256 - b[k] ELSE 255 - b[k]])

\* schema [k |-> "num", w |-> 1|2|4|8, s |-> signed?]  (floats: their bit pattern as an unsigned number)
EncNum(s, v) ==
  IF ~FitsU(v.m, s.w) THEN Err
  ELSE LET ub == UBytes(v.m, s.w) IN
       IF ~s.s THEN (IF v.n THEN Err ELSE Ok(ub))
       ELSE IF ~v.n THEN (IF ub[s.w] >= 128 THEN Err ELSE Ok(ub))
       ELSE IF IsZero(v.m) THEN Err
       ELSE LET nb == NegBytes(ub) IN IF nb[s.w] < 128 THEN Err ELSE Ok(nb)
DecNum(s, b) ==          \* b has exactly s.w bytes
  IF s.s /\ b[s.w] >= 128 THEN [n |-> TRUE, m |-> ULimbs(NegBytes(b), s.w)]
  ELSE [n |-> FALSE, m |-> ULimbs(b, s.w)]

\* time.Time: uint64 nanoseconds; stamps above MaxInt64 are saturated by documented design and are
\* outside the statement of C03: Dec marks them with the value OosTime (a "negative zero").
OosTime == [n |-> TRUE, m |-> <<0, 0, 0, 0, 0>>]
InInt64(m) == FitsU(m, 8) /\ m[5] < 8

(* ------------------------------------------------------------------ UTF-8 *)
Cont(b, i) == i <= Len(b) /\ b[i] \in 128..191
RECURSIVE Utf8From(_, _)
Utf8From(b, i) ==
  IF i > Len(b) THEN TRUE
  ELSE LET c == b[i] IN
       IF c < 128 THEN Utf8From(b, i + 1)
       ELSE IF c \in 194..223 THEN Cont(b, i + 1) /\ Utf8From(b, i + 2)
       ELSE IF c = 224 THEN i + 1 <= Len(b) /\ b[i + 1] \in 160..191 /\ Cont(b, i + 2) /\ Utf8From(b, i + 3)
       ELSE IF c \in 225..236 \/ c \in 238..239 THEN Cont(b, i + 1) /\ Cont(b, i + 2) /\ Utf8From(b, i + 3)
       ELSE IF c = 237 THEN i + 1 <= Len(b) /\ b[i + 1] \in 128..159 /\ Cont(b, i + 2) /\ Utf8From(b, i + 3)
       ELSE IF c = 240 THEN i + 1 <= Len(b) /\ b[i + 1] \in 144..191 /\ Cont(b, i + 2) /\ Cont(b, i + 3) /\ Utf8From(b, i + 4)
       ELSE IF c \in 241..243 THEN Cont(b, i + 1) /\ Cont(b, i + 2) /\ Cont(b, i + 3) /\ Utf8From(b, i + 4)
       ELSE IF c = 244 THEN i + 1 <= Len(b) /\ b[i + 1] \in 128..143 /\ Cont(b, i + 2) /\ Cont(b, i + 3) /\ Utf8From(b, i + 4)
       ELSE FALSE
Utf8(b) == Utf8From(b, 1)

(* ------------------------------------------------------------------ array rules
   schema fields of "slice"/"arr": min, max, sort (encoder sorts the element encodings), vlex (validation
   demands lexical order), nodup, one (0 | 1 | 4: at most one element per leading type code of that width),
   must (codes that must occur), mw (their width)                                                        *)
Distinct(xs) == \A i, j \in 1..Len(xs) : i < j => xs[i] # xs[j]
RulesOK(s, raw) ==
  /\ InBounds(s, Len(raw))
  /\ (s.vlex /\ ~s.nodup) => \A i \in 1..Len(raw) - 1 : LexLE(raw[i], raw[i + 1])
  /\ (s.vlex /\ s.nodup)  => \A i \in 1..Len(raw) - 1 : LexLess(raw[i], raw[i + 1])
  /\ (s.nodup /\ ~s.vlex) => Distinct(raw)
  /\ s.one # 0 => /\ \A i \in 1..Len(raw) : Len(raw[i]) >= s.one
                  /\ Distinct([i \in 1..Len(raw) |-> SubSeq(raw[i], 1, s.one)])
  /\ s.must # <<>> => /\ \A i \in 1..Len(raw) : Len(raw[i]) >= s.mw
                      /\ \A j \in 1..Len(s.must) : \E i \in 1..Len(raw) : SubSeq(raw[i], 1, s.mw) = LenBytes(s.mw, s.must[j])

(* ------------------------------------------------------------------ Enc *)
RECURSIVE Enc(_, _, _), EncFields(_, _, _, _)

\* elements of a sequence value, each encoded: [ok, raw |-> sequence of byte strings]
EncAll(e, vs, V) == LET es == M([i \in 1..Len(vs) |-> Enc(e, vs[i], V)])
                    IN  IF \E i \in 1..Len(vs) : ~es[i].ok THEN [ok |-> FALSE]
                        ELSE [ok |-> TRUE, raw |-> M([i \in 1..Len(vs) |-> es[i].b])]

EncFields(fs, vs, i, V) ==
  IF i > Len(fs) THEN Ok(<<>>)
  ELSE LET h == Enc(fs[i], vs[i], V) IN
       IF ~h.ok THEN Err
       ELSE LET t == EncFields(fs, vs, i + 1, V) IN IF ~t.ok THEN Err ELSE Ok(h.b \o t.b)

Enc(s, v, V) ==
  CASE s.k = "bool"   -> Ok(<<IF v THEN 1 ELSE 0>>)
    [] s.k = "num"    -> EncNum(s, v)
    [] s.k = "str"    -> IF ~FitsPfx(s.lp, Len(v)) \/ (V /\ ~(InBounds(s, Len(v)) /\ Utf8(v))) THEN Err
                         ELSE Ok(LenBytes(s.lp, Len(v)) \o v)
    [] s.k = "bytes"  -> IF ~FitsPfx(s.lp, Len(v)) \/ (V /\ ~InBounds(s, Len(v))) THEN Err
                         ELSE Ok(LenBytes(s.lp, Len(v)) \o v)
    [] s.k \in {"barr", "custom"} -> IF Len(v) # s.n THEN Err ELSE Ok(CodeBytes(s.code) \o v)
    [] s.k \in {"slice", "arr"} ->
         LET es == EncAll(s.e, v, V) IN
         IF ~es.ok \/ ~FitsPfx(s.lp, Len(v)) \/ (s.k = "arr" /\ Len(v) # s.n) THEN Err
         ELSE LET raw == IF s.sort THEN SortSeq(es.raw, LexLess) ELSE es.raw IN
              IF V /\ ~RulesOK(s, raw) THEN Err ELSE Ok(LenBytes(s.lp, Len(v)) \o Flatten(raw))
    [] s.k = "map" ->
         LET ks == EncAll(s.key, M([i \in 1..Len(v) |-> v[i][1]]), V)
             xs == EncAll(s.val, M([i \in 1..Len(v) |-> v[i][2]]), V) IN
         IF ~ks.ok \/ ~xs.ok \/ ~FitsPfx(s.lp, Len(v)) \/ ~Distinct(ks.raw) \/ (V /\ ~InBounds(s, Len(v))) THEN Err
         ELSE Ok(LenBytes(s.lp, Len(v)) \o Flatten(SortSeq(M([i \in 1..Len(v) |-> ks.raw[i] \o xs.raw[i]]), LexLess)))
    [] s.k = "struct" -> LET f == EncFields(s.f, v, 1, V) IN IF ~f.ok THEN Err ELSE Ok(CodeBytes(s.code) \o f.b)
    [] s.k = "opt"    -> IF ~v.some THEN Ok(<<0, 0, 0, 0>>)
                         ELSE LET p == Enc(s.t, v.v, V) IN
                              \* a present value with an empty encoding would read back as "absent": not representable
                              IF ~p.ok \/ Len(p.b) = 0 THEN Err ELSE Ok(LenBytes(4, Len(p.b)) \o p.b)
    \* embedded pointer to a struct: flattened like an embedded struct; a nil pointer has nothing to flatten
    [] s.k = "eptr"   -> IF ~v.some THEN Err ELSE Enc(s.t, v.v, V)
    [] s.k = "iface"  -> LET A == {j \in 1..Len(s.alts) : s.alts[j].c = v.c} IN
                         IF A = {} THEN Err ELSE Enc(s.alts[MinOf(A)].t, v.v, V)
    [] s.k = "u256"   -> IF v.n \/ ~FitsU(v.m, 32) THEN Err ELSE Ok(UBytes(v.m, 32))
    [] s.k = "time"   -> IF v.n \/ ~InInt64(v.m) THEN Err ELSE Ok(UBytes(v.m, 8))

(* ------------------------------------------------------------------ Dec *)
RECURSIVE Dec(_, _, _), DecElems(_, _, _, _), DecPairs(_, _, _, _), DecFields(_, _, _, _)

\* cnt elements of schema e from the front of b: [ok, vs, raw, n]
DecElems(e, cnt, b, V) ==
  IF cnt = 0 THEN [ok |-> TRUE, vs |-> <<>>, raw |-> <<>>, n |-> 0]
  ELSE LET r == Dec(e, b, V) IN
       IF ~r.ok THEN ErrD
       ELSE LET t == DecElems(e, cnt - 1, Tail2(b, r.n), V) IN
            IF ~t.ok THEN ErrD
            ELSE [ok |-> TRUE, vs |-> <<r.v>> \o t.vs, raw |-> <<SubSeq(b, 1, r.n)>> \o t.raw, n |-> r.n + t.n]

\* cnt map entries: [ok, vs (pairs), keys (raw key bytes), raw (raw entry bytes), n]
DecPairs(s, cnt, b, V) ==
  IF cnt = 0 THEN [ok |-> TRUE, vs |-> <<>>, keys |-> <<>>, raw |-> <<>>, n |-> 0]
  ELSE LET k == Dec(s.key, b, V) IN
       IF ~k.ok THEN ErrD
       ELSE LET x == Dec(s.val, Tail2(b, k.n), V) IN
            IF ~x.ok THEN ErrD
            ELSE LET t == DecPairs(s, cnt - 1, Tail2(b, k.n + x.n), V) IN
                 IF ~t.ok THEN ErrD
                 ELSE [ok |-> TRUE, vs |-> <<<<k.v, x.v>>>> \o t.vs, keys |-> <<SubSeq(b, 1, k.n)>> \o t.keys,
                       raw |-> <<SubSeq(b, 1, k.n + x.n)>> \o t.raw, n |-> k.n + x.n + t.n]

DecFields(fs, i, b, V) ==
  IF i > Len(fs) THEN [ok |-> TRUE, vs |-> <<>>, n |-> 0]
  ELSE LET r == Dec(fs[i], b, V) IN
       IF ~r.ok THEN ErrD
       ELSE LET t == DecFields(fs, i + 1, Tail2(b, r.n), V) IN
            IF ~t.ok THEN ErrD ELSE [ok |-> TRUE, vs |-> <<r.v>> \o t.vs, n |-> r.n + t.n]

Dec(s, b, V) ==
  CASE s.k = "bool"  -> IF Len(b) >= 1 /\ b[1] \in {0, 1} THEN OkD(b[1] = 1, 1) ELSE ErrD
    [] s.k = "num"   -> IF Len(b) >= s.w THEN OkD(DecNum(s, SubSeq(b, 1, s.w)), s.w) ELSE ErrD
    [] s.k \in {"str", "bytes"} ->
         IF Len(b) < s.lp THEN ErrD
         ELSE LET l == LenVal(b, s.lp) IN
              IF Len(b) - s.lp < l \/ (V /\ ~InBounds(s, l)) THEN ErrD
              ELSE LET x == SubSeq(b, s.lp + 1, s.lp + l) IN
                   IF V /\ s.k = "str" /\ ~Utf8(x) THEN ErrD ELSE OkD(x, s.lp + l)
    [] s.k \in {"barr", "custom"} ->
         IF ~HasCode(b, s.code) \/ Len(b) < s.code.w + s.n THEN ErrD
         ELSE OkD(SubSeq(b, s.code.w + 1, s.code.w + s.n), s.code.w + s.n)
    [] s.k \in {"slice", "arr"} ->
         IF Len(b) < s.lp THEN ErrD
         ELSE LET cnt == LenVal(b, s.lp) IN
              IF (s.k = "arr" /\ cnt # s.n) \/ (V /\ ~InBounds(s, cnt)) THEN ErrD
              ELSE LET r == DecElems(s.e, cnt, Tail2(b, s.lp), V) IN
                   IF ~r.ok \/ (V /\ ~RulesOK(s, r.raw)) THEN ErrD ELSE OkD(r.vs, s.lp + r.n)
    [] s.k = "map" ->
         IF Len(b) < s.lp THEN ErrD
         ELSE LET cnt == LenVal(b, s.lp) IN
              IF V /\ ~InBounds(s, cnt) THEN ErrD
              ELSE LET r == DecPairs(s, cnt, Tail2(b, s.lp), V) IN
                   IF ~r.ok \/ ~Distinct(r.keys) THEN ErrD
                   ELSE IF V /\ ~(\A i \in 1..Len(r.raw) - 1 : LexLess(r.raw[i], r.raw[i + 1])) THEN ErrD
                   ELSE OkD(r.vs, s.lp + r.n)
    [] s.k = "struct" ->
         IF ~HasCode(b, s.code) THEN ErrD
         ELSE LET r == DecFields(s.f, 1, Tail2(b, s.code.w), V) IN
              IF ~r.ok THEN ErrD ELSE OkD(r.vs, s.code.w + r.n)
    [] s.k = "opt" ->
         IF Len(b) < 4 THEN ErrD
         ELSE LET l == LenVal(b, 4) IN
              IF l = 0 THEN OkD([some |-> FALSE], 4)
              ELSE LET r == Dec(s.t, Tail2(b, 4), V) IN
                   IF ~r.ok \/ r.n # l THEN ErrD ELSE OkD([some |-> TRUE, v |-> r.v], 4 + l)
    [] s.k = "eptr" -> LET r == Dec(s.t, b, V) IN IF ~r.ok THEN ErrD ELSE OkD([some |-> TRUE, v |-> r.v], r.n)
    [] s.k = "iface" ->
         IF Len(b) < s.w THEN ErrD
         ELSE LET c == LenVal(b, s.w)
                  A == {j \in 1..Len(s.alts) : s.alts[j].c = c} IN
              IF A = {} THEN ErrD
              ELSE LET r == Dec(s.alts[MinOf(A)].t, b, V) IN
                   IF ~r.ok THEN ErrD ELSE OkD([c |-> c, v |-> r.v], r.n)
    [] s.k = "u256"  -> IF Len(b) < 32 THEN ErrD ELSE OkD([n |-> FALSE, m |-> ULimbs(SubSeq(b, 1, 32), 32)], 32)
    [] s.k = "time"  -> IF Len(b) < 8 THEN ErrD
                        ELSE LET m == ULimbs(SubSeq(b, 1, 8), 8) IN
                             IF InInt64(m) THEN OkD([n |-> FALSE, m |-> m], 8) ELSE OkD(OosTime, 8)

EncV(s, v) == Enc(s, v, TRUE)
DecV(s, b) == Dec(s, b, TRUE)

(* ------------------------------------------------------------------ canonical values
   Canon(s, v, all): the value Decode must give back for Encode(v): map entries in wire order, and
   (all = TRUE) the elements of slices whose settings make the encoder sort in sorted order.
   all = FALSE normalises only maps (a Go map has no order) - used to compare decoded values.          *)
RECURSIVE Canon(_, _, _)
ByEnc(e, vs) == LET raw == M([i \in 1..Len(vs) |-> Enc(e, vs[i], FALSE)])
                    idx == SortSeq([i \in 1..Len(vs) |-> i],
                                   LAMBDA i, j : raw[i].ok /\ raw[j].ok /\ LexLess(raw[i].b, raw[j].b))
                IN  M([i \in 1..Len(vs) |-> vs[idx[i]]])
Canon(s, v, all) ==
  CASE s.k \in {"slice", "arr"} -> LET c == M([i \in 1..Len(v) |-> Canon(s.e, v[i], all)])
                                   IN  IF all /\ s.sort THEN ByEnc(s.e, c) ELSE c
    [] s.k = "map"    -> LET c == M([i \in 1..Len(v) |-> <<Canon(s.key, v[i][1], all), Canon(s.val, v[i][2], all)>>])
                             ps == [k |-> "struct", code |-> [w |-> 0, c |-> 0], f |-> <<s.key, s.val>>]
                         IN  ByEnc(ps, c)
    [] s.k = "struct" -> M([i \in 1..Len(v) |-> Canon(s.f[i], v[i], all)])
    [] s.k \in {"opt", "eptr"} -> IF v.some THEN [some |-> TRUE, v |-> Canon(s.t, v.v, all)] ELSE v
    [] s.k = "iface"  -> LET A == {j \in 1..Len(s.alts) : s.alts[j].c = v.c}
                         IN  IF A = {} THEN v ELSE [c |-> v.c, v |-> Canon(s.alts[MinOf(A)].t, v.v, all)]
    [] OTHER -> v

\* does a decoded value contain a saturated time stamp (outside the statement of C03)?
RECURSIVE Oos(_, _)
Oos(s, v) ==
  CASE s.k = "time" -> v = OosTime
    [] s.k \in {"slice", "arr"} -> \E i \in 1..Len(v) : Oos(s.e, v[i])
    [] s.k = "map"    -> \E i \in 1..Len(v) : Oos(s.key, v[i][1]) \/ Oos(s.val, v[i][2])
    [] s.k = "struct" -> \E i \in 1..Len(v) : Oos(s.f[i], v[i])
    [] s.k \in {"opt", "eptr"} -> v.some /\ Oos(s.t, v.v)
    [] s.k = "iface"  -> LET A == {j \in 1..Len(s.alts) : s.alts[j].c = v.c}
                         IN  A # {} /\ Oos(s.alts[MinOf(A)].t, v.v)
    [] OTHER -> FALSE

\* least number of bytes any accepted encoding of the schema has (0 = an element may be empty)
RECURSIVE MinWidth(_)
RECURSIVE SumMin(_, _)
SumMin(fs, i) == IF i > Len(fs) THEN 0 ELSE MinWidth(fs[i]) + SumMin(fs, i + 1)
MinWidth(s) ==
  CASE s.k = "bool" -> 1
    [] s.k = "num" -> s.w
    [] s.k \in {"str", "bytes", "slice", "map"} -> s.lp
    [] s.k = "arr" -> s.lp + s.n * MinWidth(s.e)
    [] s.k \in {"barr", "custom"} -> s.code.w + s.n
    [] s.k = "struct" -> s.code.w + SumMin(s.f, 1)
    [] s.k = "opt" -> 4
    [] s.k = "eptr" -> MinWidth(s.t)
    [] s.k = "iface" -> s.w
    [] s.k = "u256" -> 32
    [] s.k = "time" -> 8

\* the width of every encoding if the schema is fixed-width, else -1
RECURSIVE FixedWidth(_)
RECURSIVE SumFixed(_, _)
SumFixed(fs, i) == IF i > Len(fs) THEN 0
                   ELSE LET h == FixedWidth(fs[i])  t == SumFixed(fs, i + 1)
                        IN  IF h < 0 \/ t < 0 THEN -1 ELSE h + t
FixedWidth(s) ==
  CASE s.k = "bool" -> 1
    [] s.k = "num" -> s.w
    [] s.k \in {"barr", "custom"} -> s.code.w + s.n
    [] s.k = "arr" -> LET e == FixedWidth(s.e) IN IF e < 0 THEN -1 ELSE s.lp + s.n * e
    [] s.k = "struct" -> LET f == SumFixed(s.f, 1) IN IF f < 0 THEN -1 ELSE s.code.w + f
    [] s.k = "eptr" -> FixedWidth(s.t)
    [] s.k = "u256" -> 32
    [] s.k = "time" -> 8
    [] OTHER -> -1

\* size of a value: the number of leaves (bytes, numbers, booleans, empty collections count 1)
RECURSIVE Size(_, _)
RECURSIVE SumSize(_, _, _)
SumSize(ss, vs, i) == IF i > Len(vs) THEN 0 ELSE Size(ss[i], vs[i]) + SumSize(ss, vs, i + 1)
Size(s, v) ==
  CASE s.k \in {"str", "bytes", "barr", "custom"} -> 1 + Len(v)
    [] s.k \in {"slice", "arr"} -> 1 + SumSize([i \in 1..Len(v) |-> s.e], v, 1)
    [] s.k = "map" -> 1 + SumSize([i \in 1..Len(v) |-> s.key], [i \in 1..Len(v) |-> v[i][1]], 1)
                        + SumSize([i \in 1..Len(v) |-> s.val], [i \in 1..Len(v) |-> v[i][2]], 1)
    [] s.k = "struct" -> 1 + SumSize(s.f, v, 1)
    [] s.k \in {"opt", "eptr"} -> IF v.some THEN 1 + Size(s.t, v.v) ELSE 1
    [] s.k = "iface" -> LET A == {j \in 1..Len(s.alts) : s.alts[j].c = v.c}
                        IN  IF A = {} THEN 1 ELSE 1 + Size(s.alts[MinOf(A)].t, v.v)
    [] OTHER -> 1
\* Static(s): the size a decoder may build WITHOUT consuming input for it: fixed parts (struct fields, array
\* slots, absent optionals) and the up to 255 elements of a slice of EMPTY elements (one-byte count only)
RECURSIVE Static(_)
RECURSIVE SumStatic(_, _)
SumStatic(fs, i) == IF i > Len(fs) THEN 0 ELSE Static(fs[i]) + SumStatic(fs, i + 1)
MaxOver(S) == IF S = {} THEN 0 ELSE CHOOSE x \in S : \A y \in S : y <= x
Static(s) ==
  CASE s.k \in {"barr", "custom"} -> 1 + s.n
    [] s.k = "slice" -> IF MinWidth(s.e) = 0 THEN 1 + 255 * Static(s.e) ELSE 1
    [] s.k = "arr" -> 1 + s.n * Static(s.e)
    [] s.k = "struct" -> 1 + SumStatic(s.f, 1)
    [] s.k \in {"opt", "eptr"} -> 1 + Static(s.t)
    [] s.k = "iface" -> 1 + MaxOver({Static(s.alts[j].t) : j \in 1..Len(s.alts)})
    [] OTHER -> 1
\* PerByte(s): the most a decoder may build per consumed byte: every dynamic element (string byte, slice
\* element, map entry) costs at least one input byte and brings at most the static size of its schema
RECURSIVE PerByte(_)
PerByte(s) ==
  CASE s.k \in {"str", "bytes"} -> 1
    [] s.k \in {"slice", "arr"} -> MaxOver({Static(s.e), PerByte(s.e)})
    [] s.k = "map" -> MaxOver({Static(s.key) + Static(s.val), PerByte(s.key), PerByte(s.val)})
    [] s.k = "struct" -> MaxOver({PerByte(s.f[i]) : i \in 1..Len(s.f)})
    [] s.k \in {"opt", "eptr"} -> PerByte(s.t)
    [] s.k = "iface" -> MaxOver({PerByte(s.alts[j].t) : j \in 1..Len(s.alts)})
    [] OTHER -> 0
=============================================================================
