CONSTANTS
  Mode = "rt"
  L = 0
  Alphabet = {0}
  Discipline = "checked"
INVARIANTS InBounds AllocBounded ItersBounded RoundTrip Agree
PROPERTIES Sticky
