-------------------------------- MODULE DeserGen ------------------------------
(* model -> code: TLC exports from Deser
     RT   one row per (program, value vector) of the round-trip catalogue: the bytes the Serializer chain
          must produce (the Deserializer chain must give the values back and report Len(bytes))
     WR   (operation, value) pairs the writer must refuse (length outside min/max)
     TOT  one row per (program, byte string of the bound): the outcome Done() must report -
          ok + values + consumed bytes, or an error whose class is one of errs
   GenPart/GenParts split the programs over parallel TLC processes.                                    *)
EXTENDS Deser, Json, SequencesExt

CONSTANTS GenWhat, GenPart, GenParts

\* zero-width element programs are NOT exported: for elements that consume no input the count is not "a length field that exceeds
\* what the remaining input could hold" (the statement of C02 does not cover them; see DESIGN.md, false alarms corrected)
ProgSeq == SetToSeq(Programs)
Mine == {ProgSeq[i] : i \in {j \in 1..Len(ProgSeq) : j % GenParts = GenPart}}
OutJ(o) == [ok |-> o.ok, vals |-> o.vals, off |-> o.off, errs |-> SetToSeq(o.errs)]

Refused == {<<o, x>> \in SingleOps \X (Strs(3, {65}) \cup {[i \in 1..256 |-> 65]}) :
              o.op \in {"VarBytes", "String"} /\ ~LenOK(o, Len(x))}

ASSUME GenWhat = "rt" =>
         /\ \A p \in Mine \ ZeroWidthPrograms : \A vv \in ValVecs(p, 1) :
              PrintT(<<"RT", ToJson([p |-> p, v |-> vv, bytes |-> SerEnc(p, vv)])>>)
         /\ GenPart = 0 => \A r \in Refused : PrintT(<<"WR", ToJson([p |-> <<r[1]>>, v |-> <<r[2]>>])>>)
ASSUME GenWhat = "tot" =>
         \A p \in Mine : \A s \in TotalStrs(p) :
              PrintT(<<"TOT", ToJson([p |-> p, s |-> s, w |-> OutJ(Outcome(Run(p, s)))])>>)

GInit == prog = 0 /\ vals = 0 /\ src = 0 /\ pc = 0 /\ st = 0
GNext == UNCHANGED vars
===============================================================================
