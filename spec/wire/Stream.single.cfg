CONSTANTS
  Mode = "rt"
  MaxChunk = 6
  L = 0
  Alphabet = {0}
  Discipline = "single"
INVARIANTS RoundTrip Bounded Agree NotStuck
