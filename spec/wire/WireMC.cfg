\* exhaustive run over the whole catalogue (props/W1.py splits Sids over several TLC processes and sets Emit = TRUE
\* to export the expectations); needs catalogue.json = the expanded spec/wire/catalogue.json next to the modules
SPECIFICATION Spec
CONSTANTS Alphabet = {0, 1, 2, 255}
 MaxLen = 6
 Sids = {}
 Emit = FALSE
 Prune = TRUE
 ValDepth = 3
INVARIANTS BytesGood ValuesGood
