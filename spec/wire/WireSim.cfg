SPECIFICATION Spec
CONSTANTS Alphabet = {0, 1, 2, 255}
 StrLen = 4
 MaxDepth = 3
INVARIANTS SchemaGood
