CONSTANTS
  Inits = {0, 1}
  MaxLen = 3
INVARIANTS TypeOK
