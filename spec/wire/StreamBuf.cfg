CONSTANTS
  Inits = {0, 2}
  MaxLen = 5
INVARIANTS TypeOK
PROPERTIES WriteLocal
