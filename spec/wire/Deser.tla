--------------------------------- MODULE Deser --------------------------------
(* serializer.Serializer / serializer.Deserializer primitives (properties C01, C02; work id W2).

   A PROGRAM is a sequence of primitive operations, the chain a caller writes
   (d.ReadNum(..).ReadBool(..).ReadVariableByteSlice(..)....Done()); an operation is
   [op |-> kind, a |-> int, b |-> int, c |-> int]:

     Num      a = width (1,2,4,8)                 WriteNum / ReadNum (uintN, intN, floatN)
     Bool                                          WriteBool / ReadBool        (0 / 1, anything else is an error)
     Byte                                          WriteByte / ReadByte
     Bytes    a = n                                WriteBytes / ReadBytes(n)
     InPlace  a = n                                WriteBytes / ReadBytesInPlace(slice of n)
     VarBytes a = prefix width (1,2,4,8) b = min c = max (0 = none)   WriteVariableByteSlice / ReadVariableByteSlice
     String   a = prefix width, b = min, c = max                    WriteString / ReadString
     U256                                          WriteUint256 / ReadUint256  (32 bytes)
     Time                                          WriteTime / ReadTime        (8 bytes, ns)
     PayLen                                        WritePayloadLength / ReadPayloadLength (4 bytes)
     Skip     a = n                                (WriteBytes of n zeros) / Skip(n)
     Prefix   a = denotation width (1,4) b = code  (WriteNum of the code) / CheckTypePrefix
     Seq      a = prefix width, b = element width  WriteSliceOfByteSlices / ReadSequenceOfObjects (no validation)
     All                                           ConsumedAll
     Obj      a = type denotation width (0,1,4) b = body width   WriteObject / ReadObject (GetObjectType + read guard + Serializable.Deserialize)
     Payload  b = body width                       WritePayload / ReadPayload  (uint32 length, 0 = no payload; uint32 type; body)
     Objs     a = prefix width, b = type denotation width (1,4), c = body width   WriteSliceOfObjects / ReadSliceOfObjects (no validation)
   The Serializable of Obj/Payload/Objs is the harness' fixed-layout object: its type denotation (KnownTypes = 1, 2; the read
   guard refuses every other type with "UnknownType"; without denotation the guard is asked for type 0 and accepts) followed by
   b body bytes; its Deserialize fails with NotEnoughData when the data is shorter.  The value of an object is its wire bytes.
   Values: numbers = BE digits, byte strings = byte sequences, Seq = sequence of byte strings; operations
   without a result (Skip, Prefix, All) have the value <<>>.

   THE DECODER is the step machine Step over (src, off): every operation first checks that what it is
   about to take is there; the first error sticks and later operations do nothing.  The state also
   counts what the property bounds:
     alloc  bytes allocated for results whose size comes from the INPUT (a length prefix)
     iters  element iterations whose count comes from the input
   TLC checks for ALL byte strings of the bound and every program of the catalogue (Deser.total.cfg):
     InBounds      off <= Len(src)                                   (never reports more than supplied)
     AllocBounded  alloc <= Len(src)                                 (a prefix cannot buy memory the input does not pay for)
     ItersBounded  iters <= Len(src) + 1
   and for the value catalogue (Deser.cfg): RoundTrip - running the program over SerEnc(prog, vals) \o tail
   gives back vals, no error, and off = Len(SerEnc(prog, vals)).
   Discipline = "alloc-first" is the negative control: the variable byte slice is allocated from the
   prefix before the prefix is checked - TLC must refute AllocBounded.                                    *)
EXTENDS StreamBytes, TLC

CONSTANTS Mode, L, Alphabet, Discipline

O(k, a, b, c) == [op |-> k, a |-> a, b |-> b, c |-> c]

-------------------------------------------------------------------------------
(* writer *)
LenOK(op, n) == (op.c = 0 \/ n <= op.c) /\ (op.b = 0 \/ n >= op.b) /\ FitsLE(n, op.a)
\* does the writer accept value v for op
EncOK(op, v) ==
  CASE op.op \in {"VarBytes", "String"} -> LenOK(op, Len(v))
    [] op.op \in {"Seq", "Objs"} -> FitsLE(Len(v), op.a)
    [] OTHER -> TRUE
EncOp(op, v) ==
  CASE op.op \in {"Num", "U256", "Time", "PayLen"} -> Rev(v)
    [] op.op \in {"Bool", "Byte", "Bytes", "InPlace"} -> v
    [] op.op \in {"VarBytes", "String"} -> ToLE(Len(v), op.a) \o v
    [] op.op = "Skip" -> Zeros(op.a)
    [] op.op = "Prefix" -> ToLE(op.b, op.a)
    [] op.op = "Seq" -> ToLE(Len(v), op.a) \o Flat(v)
    [] op.op = "All" -> <<>>
    [] op.op = "Obj" -> v
    [] op.op = "Payload" -> ToLE(Len(v), 4) \o v              \* no payload: v = <<>>, length 0
    [] op.op = "Objs" -> ToLE(Len(v), op.a) \o Flat(v)
SerEnc(prog, vals) == Flat([i \in 1..Len(prog) |-> EncOp(prog[i], vals[i])])

-------------------------------------------------------------------------------
(* decoder *)
NE == "NotEnoughData"
St0 == [off |-> 0, err |-> {}, vals |-> <<>>, alloc |-> 0, iters |-> 0]
Left(st, src) == Len(src) - st.off
Cut(src, off, n) == SubSeq(src, off + 1, off + n)
Fail(st, classes) == [st EXCEPT !.err = classes]
\* take n bytes as the value f(bytes)
Take(st, src, n, val) == [st EXCEPT !.off = st.off + n, !.vals = Append(st.vals, val)]
Fixed(st, src, n, rev) ==
  IF Left(st, src) < n THEN Fail(st, {NE})
  ELSE Take(st, src, n, IF rev THEN Rev(Cut(src, st.off, n)) ELSE Cut(src, st.off, n))

Width(op) == CASE op.op = "Num" -> op.a [] op.op \in {"Bool", "Byte"} -> 1 [] op.op \in {"Bytes", "InPlace", "Skip"} -> op.a
               [] op.op = "U256" -> 32 [] op.op = "Time" -> 8 [] op.op = "PayLen" -> 4 [] OTHER -> 0

\* reading ONE object with type denotation width tw and body width bw at offset off: the error classes, {} = it is there
KnownTypes == {1, 2}
MinPayload == 5
ObjErr(src, off, tw, bw) ==
  LET left == Len(src) - off IN
  IF left < tw THEN {NE}                                                            \* GetObjectType
  ELSE IF tw > 0 /\ Cut(src, off, tw) \notin {ToLE(t, tw) : t \in KnownTypes} THEN {"UnknownType"}   \* the read guard
  ELSE IF left < tw + bw THEN {NE}                                                  \* Serializable.Deserialize
  ELSE {}

Step(st, op, src) ==
  IF st.err # {} THEN st
  ELSE
  CASE op.op \in {"Num", "U256", "Time", "PayLen"} -> Fixed(st, src, Width(op), TRUE)
    [] op.op \in {"Byte", "Bytes", "InPlace"} -> Fixed(st, src, Width(op), FALSE)
    [] op.op = "Bool" ->
         IF Left(st, src) < 1 THEN Fail(st, {NE})
         ELSE IF src[st.off + 1] \notin {0, 1} THEN Fail(st, {"InvalidBool"})
         ELSE Take(st, src, 1, <<src[st.off + 1]>>)
    [] op.op = "Skip" ->
         IF Left(st, src) < op.a THEN Fail(st, {NE}) ELSE Take(st, src, op.a, <<>>)
    [] op.op = "Prefix" ->
         IF Left(st, src) < op.a THEN Fail(st, {NE})
         ELSE IF Cut(src, st.off, op.a) # ToLE(op.b, op.a) THEN Fail(st, {"TypeMismatch"})
         ELSE Take(st, src, op.a, <<>>)
    [] op.op \in {"VarBytes", "String"} ->
         IF Left(st, src) < op.a THEN Fail(st, {NE})
         ELSE LET n    == LEValCap(Cut(src, st.off, op.a), Len(src))
                  left == Left(st, src) - op.a
                  bad  == (IF op.c > 0 /\ n > op.c THEN {"MaxExceeded"} ELSE {})
                          \cup (IF op.b > 0 /\ n < op.b THEN {"MinNotReached"} ELSE {})
                  \* the negative control allocates what the prefix says before looking at it
                  early == IF Discipline = "alloc-first" /\ op.op = "VarBytes" THEN n ELSE 0
              IN  IF bad # {} THEN [Fail(st, bad \cup (IF n > left THEN {NE} ELSE {})) EXCEPT !.alloc = st.alloc + early]
                  ELSE IF n > left THEN [Fail(st, {NE}) EXCEPT !.alloc = st.alloc + early]
                  ELSE [Take(st, src, op.a + n, Cut(src, st.off + op.a, n)) EXCEPT !.alloc = st.alloc + n]
    [] op.op = "Seq" ->
         IF Left(st, src) < op.a THEN Fail(st, {NE})
         ELSE LET n    == LEValCap(Cut(src, st.off, op.a), Len(src))
                  left == Left(st, src) - op.a
              \* a count that the rest of the input cannot hold is refused before iterating
              IN  IF n > left \/ n * op.b > left THEN [Fail(st, {NE}) EXCEPT !.iters = st.iters + Min(n, left \div Max(op.b, 1) + 1)]
                  ELSE [Take(st, src, op.a + n * op.b, [k \in 1..n |-> Cut(src, st.off + op.a + (k - 1) * op.b, op.b)])
                          EXCEPT !.iters = st.iters + n]
    [] op.op = "All" ->
         IF Left(st, src) # 0 THEN Fail(st, {"NotAllConsumed"}) ELSE Take(st, src, 0, <<>>)
    [] op.op = "Obj" ->
         LET e == ObjErr(src, st.off, op.a, op.b) IN
         IF e # {} THEN Fail(st, e) ELSE Take(st, src, op.a + op.b, Cut(src, st.off, op.a + op.b))
    [] op.op = "Payload" ->
         IF Left(st, src) < 4 THEN Fail(st, {NE})
         ELSE LET n    == LEValCap(Cut(src, st.off, 4), Len(src))
                  left == Left(st, src) - 4
                  e    == ObjErr(src, st.off + 4, 4, op.b)
              IN  IF n = 0 THEN Take(st, src, 4, <<>>)                              \* no payload
                  \* what follows a non-zero length must be at least MinPayload bytes (the code compares the bytes AFTER the length
                  \* denotation with serializer.MinPayloadByteSize = 5, so a payload that is only its 4-byte type is written by
                  \* WritePayload but refused here: modelled as the code behaves, see DESIGN 11.5) and hold what the length denotes,
                  \* BEFORE anything is read from it
                  ELSE IF left < MinPayload \/ left < n THEN Fail(st, {NE})
                  ELSE IF e # {} THEN Fail(st, e)
                  ELSE IF n # 4 + op.b THEN Fail(st, {"InvalidBytes"})                \* the payload's own size disagrees with the denoted one
                  ELSE Take(st, src, 4 + n, Cut(src, st.off + 4, n))
    [] op.op = "Objs" ->
         IF Left(st, src) < op.a THEN Fail(st, {NE})
         ELSE LET n    == LEValCap(Cut(src, st.off, op.a), Len(src))
                  w    == op.b + op.c
                  at(k) == st.off + op.a + (k - 1) * w
                  bad  == {k \in 1..n : ObjErr(src, at(k), op.b, op.c) # {}}
              IN  IF bad # {}      \* the first element that cannot be read decides; nothing after it is looked at
                    THEN LET k == CHOOSE x \in bad : \A y \in bad : x <= y
                         IN  [Fail(st, ObjErr(src, at(k), op.b, op.c)) EXCEPT !.iters = st.iters + k]
                    ELSE [Take(st, src, op.a + n * w, [k \in 1..n |-> Cut(src, at(k), w)]) EXCEPT !.iters = st.iters + n]

RECURSIVE RunFrom(_, _, _, _)
RunFrom(st, prog, i, src) == IF i > Len(prog) THEN st ELSE RunFrom(Step(st, prog[i], src), prog, i + 1, src)
Run(prog, src) == RunFrom(St0, prog, 1, src)
\* what Done() must report: ok + values + consumed, or an error of one of the allowed classes
Outcome(st) == IF st.err = {} THEN [ok |-> TRUE, vals |-> st.vals, off |-> st.off, errs |-> {}]
               ELSE [ok |-> FALSE, vals |-> <<>>, off |-> 0, errs |-> st.err]

-------------------------------------------------------------------------------
(* catalogue *)
NumVals(w) == IF w <= 2 THEN [1..w -> {0, 1, 255}]
              ELSE {Zeros(w), [i \in 1..w |-> 255], [i \in 1..w |-> i], [i \in 1..w |-> IF i = 1 THEN 128 ELSE 0],
                    [i \in 1..w |-> IF i = w THEN 1 ELSE 0]}
\* timestamps the encoder does not saturate: 0 .. MaxInt64 ns
TimeVals == {Zeros(8), <<0, 0, 0, 0, 0, 0, 1, 2>>, <<127, 255, 255, 255, 255, 255, 255, 255>>, <<1, 2, 3, 4, 5, 6, 7, 8>>}
ObjVals(tw, bw) == {(IF tw = 0 THEN <<>> ELSE ToLE(t, tw)) \o body : t \in KnownTypes, body \in {[i \in 1..bw |-> i], [i \in 1..bw |-> 255]}}
OpVals(op) ==
  CASE op.op \in {"Num", "PayLen", "U256"} -> NumVals(Width(op))
    [] op.op = "Time" -> TimeVals
    [] op.op = "Bool" -> {<<0>>, <<1>>}
    [] op.op = "Byte" -> {<<0>>, <<255>>}
    [] op.op \in {"Bytes", "InPlace"} -> {[i \in 1..op.a |-> i], [i \in 1..op.a |-> 255]}
    [] op.op \in {"VarBytes", "String"} -> {x \in Strs(2, {0, 65}) \cup {<<1, 2, 3>>} : LenOK(op, Len(x))}
    [] op.op = "Seq" -> Strs(2, {[i \in 1..op.b |-> i], [i \in 1..op.b |-> 255]})
    [] op.op \in {"Skip", "Prefix", "All"} -> {<<>>}
    [] op.op = "Obj" -> ObjVals(op.a, op.b)
    [] op.op = "Payload" -> {<<>>} \cup (IF 4 + op.b >= MinPayload THEN ObjVals(4, op.b) ELSE {})
    [] op.op = "Objs" -> Strs(2, ObjVals(op.b, op.c))

ObjOps == {O("Obj", 0, 2, 0), O("Obj", 1, 1, 0), O("Obj", 4, 0, 0), O("Obj", 4, 1, 0),
           O("Payload", 0, 0, 0), O("Payload", 0, 1, 0), O("Payload", 0, 2, 0),
           O("Objs", 1, 1, 1), O("Objs", 1, 1, 0), O("Objs", 2, 4, 0), O("Objs", 4, 1, 2)}
SingleOps ==
       {O("Num", w, 0, 0) : w \in {1, 2, 4, 8}}
  \cup {O("Bool", 0, 0, 0), O("Byte", 0, 0, 0), O("U256", 0, 0, 0), O("Time", 0, 0, 0), O("PayLen", 0, 0, 0), O("All", 0, 0, 0)}
  \cup {O("Bytes", 0, 0, 0), O("Bytes", 2, 0, 0), O("InPlace", 3, 0, 0), O("Skip", 2, 0, 0)}
  \cup {O("VarBytes", w, 0, 0) : w \in {1, 2, 4, 8}} \cup {O("VarBytes", 1, 1, 2), O("VarBytes", 4, 0, 3), O("VarBytes", 2, 2, 0)}
  \cup {O("String", w, 0, 0) : w \in {1, 2, 4, 8}} \cup {O("String", 1, 1, 2), O("String", 4, 0, 2)}
  \cup {O("Prefix", 1, 2, 0), O("Prefix", 4, 1, 0)}
  \cup {O("Seq", w, e, 0) : w \in {1, 2, 4}, e \in {1, 2}} \cup {O("Seq", 8, 1, 0)}
  \cup ObjOps
  \cup {O("Seq", 4, 3, 0)}       \* also the wire form of ds/serializableorderedmap [uint8 -> uint16]: count + (key, value) entries
Chains == {
  <<O("Prefix", 1, 2, 0), O("Num", 2, 0, 0), O("VarBytes", 1, 0, 0), O("All", 0, 0, 0)>>,
  <<O("Bool", 0, 0, 0), O("Seq", 1, 1, 0), O("String", 1, 0, 0)>>,
  <<O("Num", 1, 0, 0), O("Skip", 1, 0, 0), O("Bool", 0, 0, 0), O("Bool", 0, 0, 0)>>,
  <<O("VarBytes", 1, 0, 1), O("VarBytes", 1, 0, 0)>>,
  <<O("String", 1, 2, 0), O("Byte", 0, 0, 0)>>,
  <<O("PayLen", 0, 0, 0), O("Prefix", 4, 1, 0)>>,
  <<O("Byte", 0, 0, 0), O("Payload", 0, 1, 0), O("Bool", 0, 0, 0)>>,
  <<O("Objs", 1, 1, 1), O("Obj", 1, 1, 0), O("All", 0, 0, 0)>> }
Programs == {<<o>> : o \in SingleOps} \cup Chains
\* zero-width elements: the count is not paid for by input bytes (kept apart: see ZeroWidth in props/W2.py)
ZeroWidthPrograms == {<<O("Seq", 1, 0, 0)>>, <<O("Seq", 4, 0, 0)>>}

\* all value vectors of a program
RECURSIVE ValVecs(_, _)
ValVecs(prog, i) == IF i > Len(prog) THEN {<<>>}
                    ELSE {<<x>> \o rest : x \in OpVals(prog[i]), rest \in ValVecs(prog, i + 1)}
Tails == {<<>>, <<255>>}
\* payload programs also get: every length denotation 0..7 followed by every tail over {0,1} of up to 6 bytes (an accepted payload
\* needs at least 8 bytes, more than the bound L of the plain strings)
PayloadStrs == {ToLE(n, 4) \o t : n \in 0..7, t \in Strs(6, {0, 1})}
HasPayload(p) == \E i \in 1..Len(p) : p[i].op = "Payload"
\* programs that start with an 8-byte length prefix also get the prefixes around the largest int (2^63-1 = ff..ff 7f little endian:
\* "offset + length" wraps there), around 2^62 and just above 2^63, followed by a short tail (the plain strings are too short for 8 bytes)
Wide8Strs == {<<lo, 255, 255, 255, 255, 255, 255, hi>> \o t : lo \in {247, 248, 255}, hi \in {63, 127, 128}, t \in Strs(2, {0})}
HasWide8(p) == p[1].op \in {"VarBytes", "String", "Seq"} /\ p[1].a = 8
TotalStrs(p) == Strs(L, Alphabet) \cup (IF HasPayload(p) /\ Len(p) = 1 THEN PayloadStrs ELSE {})
                                 \cup (IF HasWide8(p) THEN Wide8Strs ELSE {})
\* (a program that ends with ConsumedAll must of course reject a tail)
TailsFor(p) == IF \E i \in 1..Len(p) : p[i].op = "All" THEN {<<>>} ELSE Tails

-------------------------------------------------------------------------------
VARIABLES prog, vals, src, pc, st
vars == <<prog, vals, src, pc, st>>
None == <<"none">>
Init == /\ pc = 1 /\ st = St0
        /\ prog \in Programs
        /\ IF Mode = "rt"
             THEN vals \in ValVecs(prog, 1) /\ \E t \in TailsFor(prog) : src = SerEnc(prog, vals) \o t
             ELSE vals = None /\ src \in TotalStrs(prog)
Next == /\ pc <= Len(prog)
        /\ st' = Step(st, prog[pc], src)
        /\ pc' = pc + 1
        /\ UNCHANGED <<prog, vals, src>>
Spec == Init /\ [][Next]_vars

Done == pc > Len(prog)
InBounds     == st.off <= Len(src)
AllocBounded == st.alloc <= Len(src)
ItersBounded == st.iters <= Len(src) + 1
Sticky       == [][st.err # {} => st' = st]_vars
RoundTrip    == (Mode = "rt" /\ Done) => st.err = {} /\ st.vals = vals /\ st.off = Len(SerEnc(prog, vals))
\* the step machine and the functional reading agree (the table is exported from Run)
Agree        == Done => st = Run(prog, src)
===============================================================================
