------------------------------- MODULE StreamBuf -------------------------------
(* serializer/stream.ByteBuffer: the in-memory io.WriteSeeker the stream writers (WriteCollection patches
   the element count after the fact) rely on, and ByteReader over its content.  Sequential convention of
   spec/README.md (cfg / ev / Do).

   Contract (that of a file opened read-write): the buffer is a byte sequence with a position; Write
   overwrites from the position, extends the sequence when it runs past the end (a gap left by a Seek
   beyond the end reads as zeros) and advances the position; Seek moves the position (start / current /
   end relative), refusing a negative result without moving; Bytes/Reader expose the whole content.  *)
EXTENDS Integers, Sequences, TLC

CONSTANTS Inits, MaxLen
\* (cfg files cannot hold tuples or negative numbers)
Payloads == {<<1>>, <<2, 3>>, <<4, 5, 6>>}
Offsets == {-3, -1, 0, 1, 2}
VARIABLES cfg, buf, pos, ev
vars == <<cfg, buf, pos, ev>>
View == <<cfg, buf, pos>>

Zeros(n) == [i \in 1..n |-> 0]
St(b, p) == [bytes |-> b, pos |-> p, len |-> Len(b)]
Cfgs == [init : Inits]
Init == cfg \in Cfgs /\ buf = Zeros(cfg.init) /\ pos = 0 /\ ev = [op |-> "reset", cfg |-> cfg]

\* content after writing p at position q
Written(b, q, p) == LET padded == IF q > Len(b) THEN b \o Zeros(q - Len(b)) ELSE b
                        n == Len(padded)
                    IN  [i \in 1..(IF q + Len(p) > n THEN q + Len(p) ELSE n) |->
                           IF i > q /\ i <= q + Len(p) THEN p[i - q] ELSE padded[i]]
Target(s) == CASE s.whence = 0 -> s.off [] s.whence = 1 -> pos + s.off [] s.whence = 2 -> Len(buf) + s.off

Do(s) ==
  CASE s.op = "reset" -> cfg' = s.cfg /\ buf' = Zeros(s.cfg.init) /\ pos' = 0 /\ ev' = s
    [] s.op = "Write" ->
         /\ UNCHANGED cfg
         /\ buf' = Written(buf, pos, s.p) /\ pos' = pos + Len(s.p)
         /\ ev' = [op |-> "Write", p |-> s.p, res |-> [n |-> Len(s.p), err |-> "ok"], st |-> St(buf', pos')]
    [] s.op = "Seek" ->
         /\ UNCHANGED <<cfg, buf>>
         /\ IF Target(s) < 0
              THEN pos' = pos /\ ev' = [op |-> "Seek", off |-> s.off, whence |-> s.whence, res |-> [pos |-> 0, err |-> "negative"], st |-> St(buf, pos)]
              ELSE pos' = Target(s) /\ ev' = [op |-> "Seek", off |-> s.off, whence |-> s.whence, res |-> [pos |-> pos', err |-> "ok"], st |-> St(buf, pos')]
    [] s.op = "ReadAll" ->      \* Reader(): everything written so far, BytesRead counts what was taken
         /\ UNCHANGED <<cfg, buf, pos>>
         /\ ev' = [op |-> "ReadAll", res |-> [bytes |-> buf, read |-> Len(buf)], st |-> St(buf, pos)]

Stimuli == [op : {"Write"}, p : Payloads] \cup [op : {"Seek"}, off : Offsets, whence : {0, 1, 2}] \cup [op : {"ReadAll"}]
\* (the exhaustive run bounds the growth; Do itself is unbounded and judges recorded traces of any size)
Fits(s) == CASE s.op = "Write" -> (IF pos > Len(buf) THEN pos ELSE Len(buf)) + Len(s.p) <= MaxLen
             [] s.op = "Seek"  -> Target(s) <= MaxLen
             [] OTHER -> TRUE
Next == \E s \in Stimuli : Fits(s) /\ Do(s)
Spec == Init /\ [][Next]_vars

TypeOK == pos >= 0 /\ \A i \in 1..Len(buf) : buf[i] \in 0..255
\* a write never shrinks the content and leaves everything outside the written window untouched
WriteLocal == [][ev'.op = "Write" =>
                   /\ Len(buf') >= Len(buf)
                   /\ \A i \in 1..Len(buf) : (i <= pos \/ i > pos + Len(ev'.p)) => buf'[i] = buf[i]
                   /\ \A i \in 1..Len(ev'.p) : buf'[pos + i] = ev'.p[i]]_vars
================================================================================
