------------------------------- MODULE WireMC -------------------------------
(* Exhaustive small-scope check of the wire model and export of its expectations.

   The catalogue (catalogue.json: name + schema of every registered Go type of the harness, written by
   hand in the schema language of Wire.tla) is loaded; TLC visits one state per (schema, byte string)
   for ALL byte strings of length <= MaxLen over Alphabet, plus one state per schema in which a
   small-scope set of values is enumerated (WireVals).  In every state the invariants below state
   C01/C02/C03 ON THE MODEL; with Emit = TRUE each state also prints what the model demands of the real
   code for that input (ROW = expectation for a byte string, VROW = for a value); the harness replays
   these on serix.API.Encode/Decode.

   Sids selects the catalogue entries of this TLC process (the runs are split over processes).          *)
EXTENDS WireVals, Json

CONSTANTS Alphabet, MaxLen, Sids, Emit, ValDepth

Cat == JsonDeserialize("catalogue.json")          \* <<[name |-> ..., s |-> schema], ...>>

VARIABLES sid, p, mode
vars == <<sid, p, mode>>

S == Cat[sid].s

Init == /\ sid \in (IF Sids = {} THEN 1..Len(Cat) ELSE Sids \cap 1..Len(Cat))
        /\ p = <<>>
        /\ mode \in {"bytes", "vals"}
\* Longest byte strings visited for schema s: MaxLen; but a schema none of whose encodings fits into MaxLen bytes
\* only sees the strings of length <= 3 (all rejected), and a fixed-width schema sees nothing beyond one byte more
\* than its width (what follows an encoding is never looked at: PrefixOnly).
Limit(s) == IF MinWidth(s) > MaxLen THEN 3
            ELSE IF FixedWidth(s) >= 0 /\ FixedWidth(s) + 1 < MaxLen THEN FixedWidth(s) + 1
            ELSE MaxLen
Next == /\ mode = "bytes" /\ Len(p) < Limit(S)
        /\ \E a \in Alphabet : p' = Append(p, a)
        /\ UNCHANGED <<sid, mode>>
Spec == Init /\ [][Next]_vars

\* a failed conjunct names itself on stdout (TLC only reports the enclosing invariant)
Chk(name, cond) == cond \/ (PrintT(<<"FAILED", name>>) /\ FALSE)

(* ---------------------------------------------------------------- byte-string states
   r0 / r1: what the plain / the validating decoder make of p                                          *)
InScope(r) == r.ok /\ ~Oos(S, r.v)

\* C02: a decoder never reports more bytes than it was given
Bounded(r0, r1) == (r0.ok => r0.n <= Len(p)) /\ (r1.ok => r1.n <= Len(p))
\* validation only rejects: what it accepts is what the plain decoder yields
ValidationRestricts(r0, r1) == r1.ok => r0 = r1
\* the result depends on the consumed prefix only
PrefixOnly(r0, r1) == /\ (r0.ok /\ r0.n < Len(p)) => Dec(S, SubSeq(p, 1, r0.n), FALSE) = r0
                      /\ (r1.ok /\ r1.n < Len(p)) => Dec(S, SubSeq(p, 1, r1.n), TRUE) = r1
\* C03 reverse: the validating decoder accepts canonical bytes only
Canonical(r1, e1) == InScope(r1) => e1 = Ok(SubSeq(p, 1, r1.n))
\* C01 on every value a decoder can produce: it re-encodes, and decodes back to its canonical form
RoundTripDecoded(r0, e0) ==
  InScope(r0) => /\ e0.ok
                 /\ Dec(S, e0.b, FALSE) = OkD(Canon(S, r0.v, TRUE), Len(e0.b))

RECURSIVE ZW(_)
RECURSIVE SumZW(_, _)
SumZW(fs, i) == IF i > Len(fs) THEN 0 ELSE ZW(fs[i]) + SumZW(fs, i + 1)
ZW(s) == CASE s.k \in {"slice", "arr"} -> (IF MinWidth(s.e) = 0 THEN 1 ELSE 0) + ZW(s.e)
           [] s.k = "map" -> ZW(s.key) + ZW(s.val)
           [] s.k = "struct" -> SumZW(s.f, 1)
           [] s.k \in {"opt", "eptr"} -> ZW(s.t)
           [] s.k = "iface" -> SumZW([j \in 1..Len(s.alts) |-> s.alts[j].t], 1)
           [] OTHER -> 0
\* C02: what a decoder builds is bounded by what it consumed, not by a length field
\* (every dynamic element costs at least one input byte unless the element type is empty: 255 per such slice)
SizeBounded(r0) == r0.ok => Size(S, r0.v) <= 2 * r0.n + Static(S) + 260 * ZW(S)

Row(r0, r1, e0, e1) == [s |-> Cat[sid].name, b |-> p, r0 |-> r0, r1 |-> r1, e0 |-> e0, e1 |-> e1,
                        oos |-> r0.ok /\ Oos(S, r0.v)]

BytesGood ==
  mode = "bytes" =>
    LET r0 == Dec(S, p, FALSE)
        r1 == Dec(S, p, TRUE)
        e0 == IF r0.ok THEN Enc(S, r0.v, FALSE) ELSE Err
        e1 == IF r0.ok THEN Enc(S, r0.v, TRUE) ELSE Err IN
    /\ Chk("Bounded", Bounded(r0, r1))
    /\ Chk("ValidationRestricts", ValidationRestricts(r0, r1))
    /\ Chk("PrefixOnly", PrefixOnly(r0, r1))
    /\ Chk("Canonical", Canonical(r1, e1))
    /\ Chk("RoundTripDecoded", RoundTripDecoded(r0, e0))
    /\ Chk("SizeBounded", SizeBounded(r0))
    /\ (Emit => PrintT(<<"ROW", ToJson(Row(r0, r1, e0, e1))>>))

(* ---------------------------------------------------------------- value states *)
VS == Vals(S, ValDepth)

VGood(v) ==
  LET e0 == Enc(S, v, FALSE)
      e1 == Enc(S, v, TRUE)
      c  == Canon(S, v, TRUE)
      rv == Rev(S, v) IN
  \* validation only restricts the encoder and never changes the bytes
  /\ Chk("ValidationRestrictsEnc", e1.ok => e0 = e1)
  \* C01: every encodable value round-trips (up to the canonical order) and all bytes are consumed
  /\ Chk("RoundTrip", e0.ok => Dec(S, e0.b, FALSE) = OkD(c, Len(e0.b)))
  /\ Chk("RoundTripV", e1.ok => Dec(S, e1.b, TRUE) = OkD(c, Len(e1.b)))
  \* C01: the bytes do not depend on the order in which map entries (sorted slices) are presented
  /\ Chk("OrderIndependent", Enc(S, rv, FALSE) = e0 /\ Enc(S, rv, TRUE) = e1)
  \* C03: the canonical form encodes to the same bytes
  /\ Chk("CanonSameBytes", e0.ok => Enc(S, c, FALSE) = e0)
  /\ (Emit => PrintT(<<"VROW", ToJson([s |-> Cat[sid].name, v |-> v, e0 |-> e0, e1 |-> e1, c |-> c])>>))

ValuesGood == (mode = "vals" /\ Len(p) = 0) => LET vs == VS IN \A i \in 1..Len(vs) : VGood(vs[i])

\* the catalogue itself is well formed for the model (no unbounded loop over empty elements)
RECURSIVE WellFormed(_)
WellFormed(s) ==
  CASE s.k \in {"slice", "arr"} -> (MinWidth(s.e) > 0 \/ s.lp = 1) /\ WellFormed(s.e)
    [] s.k = "map" -> MinWidth(s.key) > 0 /\ WellFormed(s.key) /\ WellFormed(s.val)
    [] s.k = "struct" -> \A i \in 1..Len(s.f) : WellFormed(s.f[i])
    [] s.k \in {"opt", "eptr"} -> WellFormed(s.t)
    [] s.k = "iface" -> \A j \in 1..Len(s.alts) :
                           /\ WellFormed(s.alts[j].t)
                           /\ s.alts[j].t.code = [w |-> s.w, c |-> s.alts[j].c]
    [] OTHER -> TRUE
ASSUME \A i \in 1..Len(Cat) : WellFormed(Cat[i].s)
=============================================================================
