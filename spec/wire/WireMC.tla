------------------------------- MODULE WireMC -------------------------------
(* Exhaustive small-scope check of the wire model and export of its expectations.

   The catalogue (catalogue.json: name + schema of every registered Go type of the harness, written by
   hand in the schema language of Wire.tla) is loaded; TLC visits one state per (schema, byte string)
   for ALL byte strings of length <= MaxLen over Alphabet, plus one state per schema in which a
   small-scope set of values is enumerated (WireVals).  In every state the invariants below state
   C01/C02/C03 ON THE MODEL; with Emit = TRUE each state also prints what the model demands of the real
   code for that input (ROW = expectation for a byte string, VROW = for a value); the harness replays
   these on serix.API.Encode/Decode.

   Sids selects the catalogue entries of this TLC process (the runs are split over processes).          *)
EXTENDS WireProps, Json

CONSTANTS Alphabet, MaxLen, Sids, Emit, ValDepth, Prune

Cat == JsonDeserialize("catalogue.json")          \* <<[name |-> ..., s |-> schema], ...>>

VARIABLES sid, p, mode
vars == <<sid, p, mode>>

S == Cat[sid].s

Init == /\ sid \in (IF Sids = {} THEN 1..Len(Cat) ELSE Sids \cap 1..Len(Cat))
        /\ p = <<>>
        /\ mode \in {"bytes", "vals"}
\* Longest byte strings visited for schema s: MaxLen; but a schema none of whose encodings fits into MaxLen bytes
\* only sees the strings of length <= 3 (all rejected), and a fixed-width schema sees nothing beyond one byte more
\* than its width (what follows an encoding is never looked at: PrefixOnly).
Limit(s) == IF MinWidth(s) > MaxLen THEN 3
            ELSE IF FixedWidth(s) >= 0 /\ FixedWidth(s) + 1 < MaxLen THEN FixedWidth(s) + 1
            ELSE MaxLen
\* Prune = TRUE (quick tier): a string that already carries a complete encoding plus one more byte is not
\* extended further - PrefixOnly, checked in every visited state (so for every one-byte extension of every
\* accepted string), says the decoders never look past the encoding; the real code sees longer tails in the
\* value rows (3 trailing bytes) and in the mutated records.
Done(q) == Prune /\ LET r == Dec(S, q, FALSE) IN r.ok /\ r.n < Len(q)
Next == /\ mode = "bytes" /\ Len(p) < Limit(S) /\ ~Done(p)
        /\ \E a \in Alphabet : p' = Append(p, a)
        /\ UNCHANGED <<sid, mode>>
Spec == Init /\ [][Next]_vars

(* ---------------------------------------------------------------- byte-string states *)
Row(r0, r1, e0, e1) == [s |-> Cat[sid].name, b |-> p, r0 |-> r0, r1 |-> r1, e0 |-> e0, e1 |-> e1,
                        oos |-> r0.ok /\ Oos(S, r0.v)]
EmitRow(r0, r1, e0, e1) == Emit => PrintT(<<"ROW", ToJson(Row(r0, r1, e0, e1))>>)
BytesGood == mode = "bytes" => BytesGoodFor(S, p, EmitRow)

(* ---------------------------------------------------------------- value states *)
VS == Vals(S, ValDepth)
\* the schema without encoder-side sorting: Enc(Relax(S), v) writes the elements of v in the order given. For a value whose
\* elements are not in canonical order this is a byte string (of any length) that carries a NON-canonical order: what the model's
\* decoders say about it is exported as a ROW like that of any other byte string (C03: validated decoding must refuse it).
RECURSIVE Relax(_)
Relax(s) ==
  CASE s.k \in {"slice", "arr"} -> [s EXCEPT !.sort = FALSE, !.e = Relax(s.e)]
    [] s.k = "struct" -> [s EXCEPT !.f = M([i \in 1..Len(s.f) |-> Relax(s.f[i])])]
    [] s.k \in {"opt", "eptr"} -> [s EXCEPT !.t = Relax(s.t)]
    \* a map is laid out like a slice of (key, value) structs without type code: the relaxed schema writes its entries as given
    [] s.k = "map" -> [k |-> "slice", e |-> [k |-> "struct", code |-> [w |-> 0, c |-> 0], f |-> <<Relax(s.key), Relax(s.val)>>],
                       lp |-> s.lp, n |-> 0, min |-> s.min, max |-> s.max, sort |-> FALSE, vlex |-> FALSE, nodup |-> FALSE,
                       one |-> 0, must |-> <<>>, mw |-> 1]
    [] s.k = "iface" -> [s EXCEPT !.alts = M([j \in 1..Len(s.alts) |-> [s.alts[j] EXCEPT !.t = Relax(s.alts[j].t)]])]
    [] OTHER -> s
RowB(b, r0, r1, e0, e1) == [s |-> Cat[sid].name, b |-> b, r0 |-> r0, r1 |-> r1, e0 |-> e0, e1 |-> e1,
                            oos |-> r0.ok /\ Oos(S, r0.v)]
UnsortedGood(v) ==
  LET e0 == Enc(S, v, FALSE)
      a  == Enc(Relax(S), v, FALSE)
      b  == Enc(Relax(S), Rev(S, v), FALSE)
      bs == (IF a.ok /\ a # e0 THEN {a.b} ELSE {}) \cup (IF b.ok /\ b # e0 THEN {b.b} ELSE {}) IN
  \A x \in bs : LET EmitB(r0, r1, f0, f1) == Emit => PrintT(<<"ROW", ToJson(RowB(x, r0, r1, f0, f1))>>)
                 IN  BytesGoodFor(S, x, EmitB)
ValuesGood ==
  (mode = "vals" /\ Len(p) = 0) =>
     LET vs == VS IN
     \A i \in 1..Len(vs) :
        LET EmitV(e0, e1, c) == Emit => PrintT(<<"VROW", ToJson([s |-> Cat[sid].name, v |-> vs[i], e0 |-> e0, e1 |-> e1, c |-> c])>>)
        IN  ValGoodFor(S, vs[i], EmitV) /\ UnsortedGood(vs[i])

\* the catalogue itself is well formed for the model (no unbounded loop over empty elements)
RECURSIVE WellFormed(_)
WellFormed(s) ==
  CASE s.k \in {"slice", "arr"} -> (MinWidth(s.e) > 0 \/ s.lp = 1) /\ WellFormed(s.e)
    [] s.k = "map" -> MinWidth(s.key) > 0 /\ WellFormed(s.key) /\ WellFormed(s.val)
    [] s.k = "struct" -> \A i \in 1..Len(s.f) : WellFormed(s.f[i])
    [] s.k \in {"opt", "eptr"} -> WellFormed(s.t)
    [] s.k = "iface" -> \A j \in 1..Len(s.alts) :
                           /\ WellFormed(s.alts[j].t)
                           /\ s.alts[j].t.code = [w |-> s.w, c |-> s.alts[j].c]
    [] OTHER -> TRUE
ASSUME \A i \in 1..Len(Cat) : WellFormed(Cat[i].s)
=============================================================================
