----------------------------- MODULE StreamBytes ------------------------------
(* Byte-sequence vocabulary shared by Stream, Deser and WireJson (work id W2).

   Numbers never live in TLC integers (they are 32 bit): a number of a W-byte type is its sequence of
   W base-256 DIGITS, MOST SIGNIFICANT FIRST ("BE digits", the way the number is written in hex); the
   wire carries them least significant first.  Length prefixes are turned into integers by LEValCap,
   which saturates at cap+1, so a hostile 0xffffffff prefix is simply "more than can be there".     *)
EXTENDS Integers, Sequences, FiniteSets

Byte == 0..255
Min(a, b) == IF a < b THEN a ELSE b
Max(a, b) == IF a > b THEN a ELSE b
Rev(s) == [i \in 1..Len(s) |-> s[Len(s) + 1 - i]]
Zeros(n) == [i \in 1..n |-> 0]

\* n (0 <= n < 2^31) as w little-endian bytes (bytes above the fourth are 0)
P256(k) == CASE k = 0 -> 1 [] k = 1 -> 256 [] k = 2 -> 65536 [] k = 3 -> 16777216
ToLE(n, w) == [i \in 1..w |-> IF i > 4 THEN 0 ELSE (n \div P256(i - 1)) % 256]
\* does n fit a w-byte unsigned prefix (n < 2^31 always)
FitsLE(n, w) == w >= 4 \/ n < P256(w)

\* value of the little-endian byte sequence le, saturated at cap + 1 (cap < 2^22)
RECURSIVE BEValCap(_, _, _)
BEValCap(be, acc, cap) == IF be = <<>> THEN acc
                          ELSE BEValCap(Tail(be), IF acc > cap THEN cap + 1 ELSE Min(acc * 256 + Head(be), cap + 1), cap)
LEValCap(le, cap) == BEValCap(Rev(le), 0, cap)

\* all sequences over A of length <= L
Strs(L, A) == UNION {[1..n -> A] : n \in 0..L}

RECURSIVE Flat(_)
Flat(ss) == IF ss = <<>> THEN <<>> ELSE Head(ss) \o Flat(Tail(ss))

\* all ways to cut n bytes into read chunks of 1..mx bytes (compositions of n)
RECURSIVE Compositions(_, _)
Compositions(n, mx) == IF n = 0 THEN {<<>>}
                       ELSE UNION {{<<k>> \o c : c \in Compositions(n - k, mx)} : k \in 1..Min(n, mx)}

\* comparison of two digit sequences of equal length (most significant first)
DigitsLeq(a, b) == a = b \/ \E i \in 1..Len(a) : a[i] < b[i] /\ \A j \in 1..(i - 1) : a[j] = b[j]
===============================================================================
