-------------------------------- MODULE WireJsonMC -----------------------------
(* TLC checks the JSON model on the catalogue: one state per (type, value) and per (type, position).  *)
EXTENDS WireJsonCat, FiniteSets, SequencesExt

VARIABLES mode, ti, k
vars == <<mode, ti, k>>
\* constant-level tables (TLC evaluates them once)
Sch(t) == Types[t].s
AllVals == [t \in 1..Len(Types) |-> ValSeq(Types[t].s)]
AllBase == [t \in 1..Len(Types) |-> JEnc(Types[t].s, AllVals[t][1])]
AllPos  == [t \in 1..Len(Types) |-> SetToSeq(Positions(AllBase[t]))]
BaseDoc(t) == AllBase[t]
PosSeq(t) == AllPos[t]

\* (idle states only spread the work over TLC's workers: each expands its own share of the checks)
Stride == 4
Count(m, t) == IF m = "rt" THEN Len(AllVals[t]) ELSE Len(AllPos[t])
Init == mode = "idle" /\ ti \in 1..Len(Types) /\ k \in 1..Stride
Next == /\ mode = "idle"
        /\ mode' \in {"rt", "tot"}
        /\ k' \in {x \in 1..Count(mode', ti) : x % Stride = k % Stride}
        /\ UNCHANGED ti
Spec == Init /\ [][Next]_vars

\* C01 on the model: decoding the encoding gives the value back
RoundTrip == mode = "rt" => LET v == AllVals[ti][k] IN JDec(Sch(ti), JEnc(Sch(ti), v)) = Ok(v)
\* C02 on the model: the decoder is defined (accepts or refuses) on every document of the family at every position
DecTotal == mode = "tot" => LET p == PosSeq(ti)[k] IN
              /\ \A x \in Family : JDec(Sch(ti), Replace(BaseDoc(ti), p, x)).ok \in BOOLEAN
              /\ (p # <<>> /\ p[Len(p)].i = 0) => JDec(Sch(ti), DropMember(BaseDoc(ti), p)).ok \in BOOLEAN
\* sanity: the base document itself is accepted, and some family document is refused at every position
NotVacuous == mode = "tot" => LET p == PosSeq(ti)[k] IN
              /\ JDec(Sch(ti), BaseDoc(ti)).ok
              /\ \E x \in Family : ~JDec(Sch(ti), Replace(BaseDoc(ti), p, x)).ok
===============================================================================
