-------------------------------- MODULE WireJsonGen ----------------------------
(* model -> code: TLC exports from WireJson / WireJsonCat
     TYPE  the schema of every catalogue type (the harness walks Go values and trees along it)
     RT    one row per (type, catalogue value): the document MapEncode/JSONEncode must produce and
           MapDecode/JSONDecode must turn back into the value
     TOT   for every position of the type's base document and every document of the C02 family the
           document with the family member substituted there (and the document with that member
           removed), with the model's verdict: ok + value, or the refusal's (schema kind, JSON type)
   GenPart / GenParts split (type, position) pairs over parallel TLC processes.                        *)
EXTENDS WireJsonCat, Json, SequencesExt, FiniteSets

CONSTANTS GenWhat, GenPart, GenParts

AllVals == [t \in 1..Len(Types) |-> ValSeq(Types[t].s)]
AllBase == [t \in 1..Len(Types) |-> JEnc(Types[t].s, AllVals[t][1])]
AllPos  == [t \in 1..Len(Types) |-> SetToSeq(Positions(AllBase[t]))]
FamilySeq == SetToSeq(Family)

Verdict(x) == IF x.ok THEN [ok |-> TRUE, v |-> x.v, at |-> <<>>] ELSE [ok |-> FALSE, v |-> <<>>, at |-> x.at]
TotRow(t, p, what, doc) ==
  PrintT(<<"TOT", ToJson([id |-> Types[t].id, p |-> p, what |-> what, doc |-> doc, w |-> Verdict(JDec(Types[t].s, doc))])>>)

ASSUME GenWhat = "types" => \A t \in 1..Len(Types) : PrintT(<<"TYPE", ToJson([id |-> Types[t].id, s |-> Types[t].s])>>)
ASSUME GenWhat = "rt" =>
         \A t \in 1..Len(Types) : \A i \in 1..Len(AllVals[t]) :
            PrintT(<<"RT", ToJson([id |-> Types[t].id, v |-> AllVals[t][i], doc |-> JEnc(Types[t].s, AllVals[t][i])])>>)
ASSUME GenWhat = "tot" =>
         \A t \in 1..Len(Types) : \A k \in {x \in 1..Len(AllPos[t]) : (x + t) % GenParts = GenPart} :
            LET p == AllPos[t][k] IN
            /\ \A x \in 1..Len(FamilySeq) : TotRow(t, p, "replace", Replace(AllBase[t], p, FamilySeq[x]))
            /\ (p # <<>> /\ p[Len(p)].i = 0) => TotRow(t, p, "remove", DropMember(AllBase[t], p))

VARIABLE z
GInit == z = 0
GNext == UNCHANGED z
===============================================================================
