------------------------------- MODULE DeserTrace -----------------------------
(* code -> model: one record per run of a REAL Serializer/Deserializer chain (records.ndjson).

   {"k":"rt",  "p":program, "v":values, "w":bytes the real Serializer produced, "tail":extra bytes,
               "got":{ok,vals,off,err}, "alloc":n, "iters":n}
   {"k":"wr",  "p":program, "v":values}             the real Serializer refused the values
   {"k":"mut", "p":program, "s":hostile input, "got":..., "alloc":n, "iters":n}

   Good: rt  - every value is writable, w = SerEnc(p,v), and the Deserializer gave back v, no error, off = Len(w)
         wr  - some value is indeed not writable (length outside min/max/prefix range)
         mut - Done() reported what Run(p,s) demands (values and consumed bytes, or an error of an allowed
               class), off <= Len(s), allocation <= 64 KiB + 16*Len(s) (+ 256*Len(s) with object operations), iterations <= Len(s) + 1.
   A timestamp beyond MaxInt64 ns has no demanded reading (TimeWild).                                    *)
EXTENDS Deser, Json, SequencesExt

VARIABLE l
Log == ndJsonDeserialize("records.ndjson")

\* (object operations allocate a Serializable per object that is in the input)
AllocBound(p, n) == 65536 + 16 * n + (IF \E i \in 1..Len(p) : p[i].op \in {"Obj", "Payload", "Objs"} THEN 256 * n ELSE 0)
Writable(p, v) == Len(v) = Len(p) /\ \A i \in 1..Len(p) : EncOK(p[i], v[i])
\* timestamps: a raw value above MaxInt64 ns has no demanded reading
TimeWild(op, x) == op.op = "Time" /\ x[1] >= 128
Match(p, got, want) == Len(got) = Len(want) /\ \A i \in 1..Len(want) : TimeWild(p[i], want[i]) \/ got[i] = want[i]

OutJ(o) == [ok |-> o.ok, vals |-> o.vals, off |-> o.off, errs |-> SetToSeq(o.errs)]
WantOf(r) == CASE r.k = "rt"  -> [writable |-> Writable(r.p, r.v), w |-> IF Writable(r.p, r.v) THEN SerEnc(r.p, r.v) ELSE <<>>,
                                  got |-> [ok |-> TRUE, vals |-> r.v, off |-> 0, errs |-> <<>>]]
               [] r.k = "wr"  -> [writable |-> Writable(r.p, r.v), w |-> <<>>, got |-> [ok |-> FALSE, vals |-> <<>>, off |-> 0, errs |-> <<>>]]
               [] r.k = "mut" -> [writable |-> TRUE, w |-> r.s, got |-> OutJ(Outcome(Run(r.p, r.s)))]
Good(r) ==
  CASE r.k = "rt"  -> /\ Writable(r.p, r.v)
                      /\ r.w = SerEnc(r.p, r.v)
                      /\ r.got.ok /\ Match(r.p, r.got.vals, r.v) /\ r.got.off = Len(r.w)
    [] r.k = "wr"  -> ~Writable(r.p, r.v)
    [] r.k = "mut" -> LET o == Outcome(Run(r.p, r.s)) IN
                      /\ r.got.ok = o.ok
                      /\ (o.ok => Match(r.p, r.got.vals, o.vals) /\ r.got.off = o.off)
                      /\ (~o.ok => r.got.err \in o.errs)
                      /\ r.got.off <= Len(r.s)
                      /\ r.alloc <= AllocBound(r.p, Len(r.s))
                      /\ r.iters <= Len(r.s) + 1

Report(k) == PrintT(<<"BAD", ToJson([l |-> k, want |-> WantOf(Log[k])])>>)

TInit == l = 1 /\ prog = 0 /\ vals = 0 /\ src = 0 /\ pc = 0 /\ st = 0
TNext == /\ l <= Len(Log)
         /\ (IF Good(Log[l]) THEN TRUE ELSE Report(l))
         /\ l' = l + 1
         /\ UNCHANGED vars
Accepted == LET d == TLCGet("stats").diameter IN
            PrintT(<<"DEPTH", ToString(d)>>) /\ d = Len(Log) + 1
===============================================================================
