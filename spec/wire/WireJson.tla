-------------------------------- MODULE WireJson -------------------------------
(* The JSON / map form of serix (MapEncode/JSONEncode <-> MapDecode/JSONDecode), properties C01 and C02,
   work id W2.

   JSON DOCUMENTS are trees:  [j |-> "null"] | [j |-> "bool", b] | [j |-> "num", n (negative?), d (integer
   digits), f (fraction digits)] | [j |-> "str", s (byte codes)] | [j |-> "arr", a (sequence)] |
   [j |-> "obj", o (function key -> document)].
   GO VALUES are trees too: booleans; integers [n |-> negative?, d |-> decimal digits]; strings, byte
   strings and floats (their canonical text) as code sequences; slices/arrays as sequences; maps and
   structs as functions key -> value; optional fields as <<>> / <<v>>; interfaces as [code, v].
   (TLC integers are 32 bit and TLC strings are atomic: hence digits and code sequences.)

   SCHEMAS describe the JSON shape of a Go type ("what the documentation says"):
     <=32-bit integers -> JSON numbers, 64-bit -> decimal strings, floats -> strings, strings -> strings,
     []byte / [N]byte -> "0x" + hex ("" when empty), *big.Int -> "0x" + hex quantity, time.Time ->
     decimal nanoseconds string, slices/arrays -> arrays, maps -> objects, structs -> objects keyed by
     the field key, the object type under "type", optional nil pointers and omitempty zero values
     absent, embedded/inlined structs flattened, interfaces -> the object of the implementation
     (selected by "type"), byte arrays with an object type -> {"type": code, <key>: hex}.

   JEnc(schema, value) / JDec(schema, doc) are total recursive operators.  TLC checks (WireJsonMC):
     RoundTrip    JDec(S, JEnc(S, v)) = Ok(v)          for every catalogue type and catalogue value
     DecTotal     JDec(S, d) is defined (ok or error) for every document of the C02 family substituted
                  at every position of the type's base document
   JDec reports WHERE it refuses: at = <<schema kind, JSON type>>, which names the class of a panic.   *)
EXTENDS StreamBytes, TLC

-------------------------------------------------------------------------------
(* documents *)
JNull == [j |-> "null"]
JBool(b) == [j |-> "bool", b |-> b]
JNum(n, d, f) == [j |-> "num", n |-> n, d |-> d, f |-> f]
JStr(s) == [j |-> "str", s |-> s]
JArr(a) == [j |-> "arr", a |-> a]
JObj(o) == [j |-> "obj", o |-> o]
NoKeys == [k \in {} |-> JNull]

(* integers as sign + decimal digits *)
N(neg, digits) == [n |-> neg, d |-> digits]
RECURSIVE Digits10(_)
Digits10(c) == IF c < 10 THEN <<c>> ELSE Digits10(c \div 10) \o <<c % 10>>      \* small natural -> digits
NatV(c) == N(FALSE, Digits10(c))
Canonical(v) == /\ v.d # <<>> /\ \A i \in 1..Len(v.d) : v.d[i] \in 0..9
                /\ (Len(v.d) > 1 => v.d[1] # 0) /\ ~(v.n /\ v.d = <<0>>)
MagLeq(a, b) == Len(a) < Len(b) \/ (Len(a) = Len(b) /\ DigitsLeq(a, b))

Num32 == {"u8", "u16", "u32", "i8", "i16", "i32"}
Num64 == {"u64", "i64"}
Floats == {"f32", "f64"}
MaxMag(k) == CASE k = "u8" -> <<2,5,5>> [] k = "u16" -> <<6,5,5,3,5>> [] k = "u32" -> <<4,2,9,4,9,6,7,2,9,5>>
               [] k = "u64" -> <<1,8,4,4,6,7,4,4,0,7,3,7,0,9,5,5,1,6,1,5>>
               [] k = "i8" -> <<1,2,7>> [] k = "i16" -> <<3,2,7,6,7>> [] k = "i32" -> <<2,1,4,7,4,8,3,6,4,7>>
               [] k \in {"i64", "time"} -> <<9,2,2,3,3,7,2,0,3,6,8,5,4,7,7,5,8,0,7>>
MinMag(k) == CASE k = "i8" -> <<1,2,8>> [] k = "i16" -> <<3,2,7,6,8>> [] k = "i32" -> <<2,1,4,7,4,8,3,6,4,8>>
               [] k = "i64" -> <<9,2,2,3,3,7,2,0,3,6,8,5,4,7,7,5,8,0,8>> [] OTHER -> <<0>>
InRange(k, v) == Canonical(v) /\ (IF v.n THEN MagLeq(v.d, MinMag(k)) ELSE MagLeq(v.d, MaxMag(k)))

(* text forms *)
DecCodes(v) == (IF v.n THEN <<45>> ELSE <<>>) \o [i \in 1..Len(v.d) |-> 48 + v.d[i]]
IsDec(s) == LET body == IF s # <<>> /\ s[1] = 45 THEN Tail(s) ELSE s
            IN  body # <<>> /\ \A i \in 1..Len(body) : body[i] \in 48..57
ParseDec(s) == IF s[1] = 45 THEN N(TRUE, [i \in 1..(Len(s) - 1) |-> s[i + 1] - 48]) ELSE N(FALSE, [i \in 1..Len(s) |-> s[i] - 48])
Nib(x) == IF x < 10 THEN 48 + x ELSE 87 + x
IsNib(c) == c \in 48..57 \/ c \in 97..102 \/ c \in 65..70
UnNib(c) == IF c <= 57 THEN c - 48 ELSE IF c >= 97 THEN c - 87 ELSE c - 55
Nibbles(b) == Flat([i \in 1..Len(b) |-> <<b[i] \div 16, b[i] % 16>>])
HexCodes(b) == IF b = <<>> THEN <<>> ELSE <<48, 120>> \o [i \in 1..(2 * Len(b)) |-> Nib(Nibbles(b)[i])]
IsHex(s) == s = <<>> \/ (Len(s) >= 2 /\ s[1] = 48 /\ s[2] = 120 /\ (Len(s) % 2 = 0) /\ \A i \in 3..Len(s) : IsNib(s[i]))
ParseHex(s) == IF s = <<>> THEN <<>> ELSE [i \in 1..((Len(s) - 2) \div 2) |-> 16 * UnNib(s[2 * i + 1]) + UnNib(s[2 * i + 2])]
\* *big.Int: value = big-endian bytes without leading zero bytes; text = 0x + hex digits without leading zero
BigCodes(b) == IF b = <<>> THEN <<48, 120, 48>>
               ELSE LET nb == Nibbles(b) cut == IF nb[1] = 0 THEN Tail(nb) ELSE nb
                    IN  <<48, 120>> \o [i \in 1..Len(cut) |-> Nib(cut[i])]
IsBig(s) == /\ Len(s) >= 3 /\ s[1] = 48 /\ s[2] = 120 /\ \A i \in 3..Len(s) : IsNib(s[i])
            /\ (s[3] = 48 => Len(s) = 3) /\ Len(s) <= 66
ParseBig(s) == IF s = <<48, 120, 48>> THEN <<>>
               ELSE LET nb == [i \in 1..(Len(s) - 2) |-> UnNib(s[i + 2])]
                        ev == IF Len(nb) % 2 = 1 THEN <<0>> \o nb ELSE nb
                    IN  [i \in 1..(Len(ev) \div 2) |-> 16 * ev[2 * i - 1] + ev[2 * i]]
FloatAlphabet == (48..57) \cup {43, 45, 46, 101, 69}
IsFloatText(s) == s # <<>> /\ \A i \in 1..Len(s) : s[i] \in FloatAlphabet

-------------------------------------------------------------------------------
(* schemas *)
S(t) == [t |-> t]
SBArr(n) == [t |-> "barray", n |-> n]
SSlice(e) == [t |-> "slice", e |-> e]
SArr(n, e) == [t |-> "array", n |-> n, e |-> e]
SMap(e) == [t |-> "map", e |-> e]
SPtr(e) == [t |-> "ptr", e |-> e]
SStruct(go, code, fields) == [t |-> "struct", go |-> go, code |-> code, fields |-> fields]
STArr(go, code, key, n) == [t |-> "tbarray", go |-> go, code |-> code, key |-> key, n |-> n]
SIface(alts) == [t |-> "iface", alts |-> alts]          \* alts: sequence of schemas with a code (struct / tbarray), reached through a pointer
\* struct field: key = JSON key, go = Go field name
F(key, go, s) == [key |-> key, go |-> go, s |-> s, opt |-> FALSE, omit |-> FALSE, emb |-> FALSE]
Opt(f) == [f EXCEPT !.opt = TRUE]
Omit(f) == [f EXCEPT !.omit = TRUE]
Emb(f) == [f EXCEPT !.emb = TRUE]       \* embedded or inlined struct: its keys are merged into the parent object

Keys(fs) == {fs[i].key : i \in 1..Len(fs)}
FieldOf(fs, k) == fs[CHOOSE i \in 1..Len(fs) : fs[i].key = k]
AltOf(s, c) == s.alts[CHOOSE i \in 1..Len(s.alts) : s.alts[i].code = <<c>>]
HasAlt(s, c) == \E i \in 1..Len(s.alts) : s.alts[i].code = <<c>>

IsEmpty(s, v) == CASE s.t = "bool" -> v = FALSE
                   [] s.t \in Num32 \cup Num64 -> v.d = <<0>>
                   [] s.t \in Floats -> v = <<48>>
                   [] s.t \in {"string", "bytes", "slice"} -> v = <<>>
                   [] OTHER -> FALSE
Zero(s) == CASE s.t = "bool" -> FALSE
             [] s.t \in Num32 \cup Num64 -> N(FALSE, <<0>>)
             [] s.t \in Floats -> <<48>>
             [] OTHER -> <<>>

-------------------------------------------------------------------------------
(* encoder *)
RECURSIVE JEnc(_, _), EncFields(_, _)
EncFields(fs, v) ==
  IF fs = <<>> THEN NoKeys
  ELSE LET f == Head(fs)  rest == EncFields(Tail(fs), v)
       IN  IF f.emb THEN EncFields(f.s.fields, v[f.key]) @@ rest
           ELSE IF f.opt /\ v[f.key] = <<>> THEN rest
           ELSE IF f.omit /\ IsEmpty(f.s, v[f.key]) THEN rest
           ELSE (f.key :> JEnc(f.s, IF f.opt THEN v[f.key][1] ELSE v[f.key])) @@ rest
TypeKey(s) == IF s.code = <<>> THEN NoKeys ELSE ("type" :> JNum(FALSE, Digits10(s.code[1]), <<>>))
JEnc(s, v) ==
  CASE s.t = "bool" -> JBool(v)
    [] s.t \in Num32 -> JNum(v.n, v.d, <<>>)
    [] s.t \in Num64 \cup {"time"} -> JStr(DecCodes(v))
    [] s.t \in Floats \cup {"string"} -> JStr(v)
    [] s.t \in {"bytes", "barray"} -> JStr(HexCodes(v))
    [] s.t = "bigint" -> JStr(BigCodes(v))
    [] s.t \in {"slice", "array"} -> JArr([i \in 1..Len(v) |-> JEnc(s.e, v[i])])
    [] s.t = "map" -> JObj([k \in DOMAIN v |-> JEnc(s.e, v[k])])
    [] s.t = "struct" -> JObj(TypeKey(s) @@ EncFields(s.fields, v))
    [] s.t = "ptr" -> JEnc(s.e, v)
    [] s.t = "iface" -> JEnc(AltOf(s, v.code), v.v)
    [] s.t = "tbarray" -> JObj(TypeKey(s) @@ (s.key :> JStr(HexCodes(v))))

-------------------------------------------------------------------------------
(* decoder *)
Ok(v) == [ok |-> TRUE, v |-> v]
Bad(s, d) == [ok |-> FALSE, at |-> <<s.t, d.j>>]
Missing(f) == [ok |-> FALSE, at |-> <<f.s.t, "missing">>]
IsNumDoc(d, c) == d.j = "num" /\ d.f = <<>> /\ ~d.n /\ d.d = Digits10(c)
\* a small canonical natural number document and its value
IsCode(d) == d.j = "num" /\ d.f = <<>> /\ ~d.n /\ Len(d.d) \in 1..3 /\ (Len(d.d) > 1 => d.d[1] # 0)
CodeOf(d) == CASE Len(d.d) = 1 -> d.d[1] [] Len(d.d) = 2 -> 10 * d.d[1] + d.d[2] [] OTHER -> 100 * d.d[1] + 10 * d.d[2] + d.d[3]
TypeOK(s, d) == s.code = <<>> \/ ("type" \in DOMAIN d.o /\ IsNumDoc(d.o["type"], s.code[1]))

RECURSIVE JDec(_, _), DecFields(_, _), DecSeq(_, _, _)
\* decode the documents a[i..] with element schema e: Ok(sequence) or the first refusal
DecSeq(e, a, i) == IF i > Len(a) THEN Ok(<<>>)
                   ELSE LET x == JDec(e, a[i]) IN
                        IF ~x.ok THEN x
                        ELSE LET r == DecSeq(e, a, i + 1) IN IF r.ok THEN Ok(<<x.v>> \o r.v) ELSE r
\* decode the fields fs from object o: Ok(function key -> value) or the first refusal
DecFields(fs, o) ==
  IF fs = <<>> THEN Ok(NoKeys)
  ELSE LET f == Head(fs)
           x == IF f.emb THEN DecFields(f.s.fields, o)
                ELSE IF f.key \in DOMAIN o
                       THEN (LET y == JDec(f.s, o[f.key]) IN IF y.ok /\ f.opt THEN Ok(<<y.v>>) ELSE y)
                ELSE IF f.opt THEN Ok(<<>>)
                ELSE IF f.omit THEN Ok(Zero(f.s))
                ELSE Missing(f)
       IN  IF ~x.ok THEN x
           ELSE LET r == DecFields(Tail(fs), o) IN IF r.ok THEN Ok((f.key :> x.v) @@ r.v) ELSE r
JDec(s, d) ==
  CASE s.t = "bool" -> IF d.j = "bool" THEN Ok(d.b) ELSE Bad(s, d)
    [] s.t \in Num32 -> IF d.j = "num" /\ d.f = <<>> /\ InRange(s.t, N(d.n, d.d)) THEN Ok(N(d.n, d.d)) ELSE Bad(s, d)
    [] s.t \in Num64 \cup {"time"} ->
         IF d.j = "str" /\ IsDec(d.s) /\ InRange(s.t, ParseDec(d.s)) THEN Ok(ParseDec(d.s)) ELSE Bad(s, d)
    [] s.t \in Floats -> IF d.j = "str" /\ IsFloatText(d.s) THEN Ok(d.s) ELSE Bad(s, d)
    [] s.t = "string" -> IF d.j = "str" THEN Ok(d.s) ELSE Bad(s, d)
    [] s.t = "bytes" -> IF d.j = "str" /\ IsHex(d.s) THEN Ok(ParseHex(d.s)) ELSE Bad(s, d)
    [] s.t = "barray" -> IF d.j = "str" /\ IsHex(d.s) /\ Len(ParseHex(d.s)) = s.n THEN Ok(ParseHex(d.s)) ELSE Bad(s, d)
    [] s.t = "bigint" -> IF d.j = "str" /\ IsBig(d.s) THEN Ok(ParseBig(d.s)) ELSE Bad(s, d)
    [] s.t = "slice" -> IF d.j = "arr" THEN DecSeq(s.e, d.a, 1) ELSE Bad(s, d)
    [] s.t = "array" -> IF d.j = "arr" /\ Len(d.a) = s.n THEN DecSeq(s.e, d.a, 1) ELSE Bad(s, d)
    [] s.t = "map" ->
         IF d.j # "obj" THEN Bad(s, d)
         ELSE LET ks == DOMAIN d.o
                  bad == {k \in ks : ~JDec(s.e, d.o[k]).ok}
              IN  IF bad = {} THEN Ok([k \in ks |-> JDec(s.e, d.o[k]).v]) ELSE JDec(s.e, d.o[CHOOSE k \in bad : TRUE])
    [] s.t = "struct" -> IF d.j = "obj" /\ TypeOK(s, d) THEN DecFields(s.fields, d.o) ELSE Bad(s, d)
    [] s.t = "ptr" -> JDec(s.e, d)
    [] s.t = "iface" ->
         IF d.j = "obj" /\ "type" \in DOMAIN d.o /\ IsCode(d.o["type"]) /\ HasAlt(s, CodeOf(d.o["type"]))
           THEN LET c == CodeOf(d.o["type"])
                    x == JDec(AltOf(s, c), d)
                IN  IF x.ok THEN Ok([code |-> c, v |-> x.v]) ELSE x
           ELSE Bad(s, d)
    [] s.t = "tbarray" ->
         IF d.j = "obj" /\ TypeOK(s, d) /\ s.key \in DOMAIN d.o /\ d.o[s.key].j = "str" /\ IsHex(d.o[s.key].s)
            /\ Len(ParseHex(d.o[s.key].s)) = s.n
           THEN Ok(ParseHex(d.o[s.key].s)) ELSE Bad(s, d)

-------------------------------------------------------------------------------
(* value catalogue: an ordered list per schema, first = base value; structs vary one field at a time *)
Leaf(t) ==
  CASE t = "bool" -> <<TRUE, FALSE>>
    [] t = "u8"  -> <<NatV(8), NatV(0), NatV(255)>>
    [] t = "u16" -> <<NatV(16), NatV(0), N(FALSE, MaxMag("u16"))>>
    [] t = "u32" -> <<NatV(32), NatV(0), N(FALSE, MaxMag("u32"))>>
    [] t = "u64" -> <<NatV(64), NatV(0), N(FALSE, MaxMag("u64"))>>
    [] t = "i8"  -> <<N(TRUE, <<8>>), NatV(0), N(TRUE, MinMag("i8")), N(FALSE, MaxMag("i8"))>>
    [] t = "i16" -> <<N(TRUE, <<1, 6>>), NatV(0), N(TRUE, MinMag("i16")), N(FALSE, MaxMag("i16"))>>
    [] t = "i32" -> <<N(TRUE, <<3, 2>>), NatV(0), N(TRUE, MinMag("i32")), N(FALSE, MaxMag("i32"))>>
    [] t = "i64" -> <<N(TRUE, <<6, 4>>), NatV(0), N(TRUE, MinMag("i64")), N(FALSE, MaxMag("i64"))>>
    [] t = "f32" -> <<<<48, 46, 53>>, <<48>>, <<45, 48, 46, 50, 53>>, <<49, 101, 43, 48, 54>>>>           \* 0.5  0  -0.25  1e+06
    [] t = "f64" -> <<<<48, 46, 50, 53>>, <<48>>, <<45, 49, 46, 53>>, <<49, 101, 43, 51, 48>>>>           \* 0.25 0  -1.5   1e+30
    [] t = "string" -> <<<<97, 98>>, <<>>, <<97>>, <<34, 92, 195, 164>>>>                                   \* ab  ""  a  "\ä
    [] t = "bytes" -> <<<<1, 255>>, <<>>, <<0>>>>
    [] t = "bigint" -> <<<<5, 57>>, <<>>, <<1>>, [i \in 1..32 |-> 255]>>                                   \* 1337, 0, 1, 2^256-1
    [] t = "time" -> <<N(FALSE, <<1,6,6,0,3,0,1,4,7,8,1,2,0,0,7,2,0,0,0>>), NatV(0), N(FALSE, MaxMag("time"))>>

RECURSIVE ValSeq(_), StructVars(_, _, _), BaseOf(_, _)
\* the values of field f (optional: present base, absent, then the other present values)
FieldVals(f) == LET vs == ValSeq(f.s) IN
                IF f.opt /\ ~f.emb THEN <<<<vs[1]>>, <<>>>> \o [i \in 1..(Len(vs) - 1) |-> <<vs[i + 1]>>] ELSE vs
\* fvs[i] = FieldVals(fs[i]); the struct value taking the first value of every field
BaseOf(fs, fvs) == IF fs = <<>> THEN NoKeys ELSE (Head(fs).key :> Head(fvs)[1]) @@ BaseOf(Tail(fs), Tail(fvs))
\* base with field i replaced by each of its other values
StructVars(fs, fvs, base) ==
  IF fs = <<>> THEN <<>>
  ELSE LET vs == Head(fvs) key == Head(fs).key
       IN  [j \in 1..(Len(vs) - 1) |-> [base EXCEPT ![key] = vs[j + 1]]] \o StructVars(Tail(fs), Tail(fvs), base)
ValSeq(s) ==
  CASE s.t \in {"bool", "string", "bytes", "bigint", "time"} \cup Num32 \cup Num64 \cup Floats -> Leaf(s.t)
    [] s.t \in {"barray", "tbarray"} -> <<[i \in 1..s.n |-> i], [i \in 1..s.n |-> 0], [i \in 1..s.n |-> 255]>>
    [] s.t = "slice" -> LET vs == ValSeq(s.e) IN
                        <<<<vs[1], vs[Len(vs)]>>, <<>>>> \o [i \in 1..Len(vs) |-> <<vs[i]>>]
    [] s.t = "array" -> LET vs == ValSeq(s.e) IN [j \in 1..Len(vs) |-> [i \in 1..s.n |-> vs[((j + i - 2) % Len(vs)) + 1]]]
    [] s.t = "map" -> LET vs == ValSeq(s.e) IN
                      <<("a" :> vs[1]) @@ ("b" :> vs[Len(vs)]), NoKeys>> \o [i \in 1..Len(vs) |-> ("k" :> vs[i])]
    [] s.t = "struct" -> LET fvs  == [i \in 1..Len(s.fields) |-> FieldVals(s.fields[i])]
                             base == BaseOf(s.fields, fvs)
                         IN  <<base>> \o StructVars(s.fields, fvs, base)
    [] s.t = "ptr" -> ValSeq(s.e)
    [] s.t = "iface" -> LET avs == [a \in 1..Len(s.alts) |-> ValSeq(s.alts[a])] IN
                        Flat([a \in 1..Len(s.alts) |-> [i \in 1..Len(avs[a]) |-> [code |-> s.alts[a].code[1], v |-> avs[a][i]]]])
Base(s) == ValSeq(s)[1]

-------------------------------------------------------------------------------
(* the C02 document family and substitution at a position (a path of keys / indices) *)
Leaves == <<JNull, JBool(TRUE), JNum(FALSE, <<0>>, <<>>), JNum(FALSE, <<1>>, <<5>>), JStr(<<>>), JStr(<<97>>),
            JStr(<<48, 120, 48, 48>>), JArr(<<>>), JObj(NoKeys)>>
LeafSet == {Leaves[i] : i \in 1..Len(Leaves)}
\* strings at the edges of the hex / number texts: "0" (a lone digit: a decimal number, not a hex string), "0x" (a prefix
\* without digits: the empty byte string, not a quantity), "0x0" (an odd number of digits: a quantity, not a byte string)
EdgeStrs == {JStr(<<48>>), JStr(<<48, 120>>), JStr(<<48, 120, 48>>)}
LeafSet2 == LeafSet \cup EdgeStrs
Family == LeafSet2 \cup {JArr(<<x>>) : x \in LeafSet2} \cup {JArr(<<x, y>>) : x \in LeafSet, y \in LeafSet}
          \cup {JObj(k :> x) : k \in {"type", "data", "a"}, x \in LeafSet2}

\* a path is a sequence of steps [k |-> key, i |-> 0] (object member) / [k |-> "", i |-> index] (array element)
KStep(k) == [k |-> k, i |-> 0]
IStep(i) == [k |-> "", i |-> i]
RECURSIVE Positions(_)
Positions(d) ==
  {<<>>} \cup
  (CASE d.j = "arr" -> UNION {{<<IStep(i)>> \o p : p \in Positions(d.a[i])} : i \in 1..Len(d.a)}
     [] d.j = "obj" -> UNION {{<<KStep(k)>> \o p : p \in Positions(d.o[k])} : k \in DOMAIN d.o}
     [] OTHER -> {})
RECURSIVE Replace(_, _, _)
Replace(d, p, x) ==
  IF p = <<>> THEN x
  ELSE IF Head(p).i > 0 THEN JArr([d.a EXCEPT ![Head(p).i] = Replace(d.a[Head(p).i], Tail(p), x)])
  ELSE JObj([d.o EXCEPT ![Head(p).k] = Replace(d.o[Head(p).k], Tail(p), x)])
RECURSIVE DropMember(_, _)
\* the document without the object member at p (p ends with a key step)
DropMember(d, p) ==
  IF Len(p) = 1 THEN JObj([k \in (DOMAIN d.o) \ {p[1].k} |-> d.o[k]])
  ELSE IF Head(p).i > 0 THEN JArr([d.a EXCEPT ![Head(p).i] = DropMember(d.a[Head(p).i], Tail(p))])
  ELSE JObj([d.o EXCEPT ![Head(p).k] = DropMember(d.o[Head(p).k], Tail(p))])
===============================================================================
