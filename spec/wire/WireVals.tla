------------------------------ MODULE WireVals ------------------------------
(* Small-scope value enumerator for Wire schemas: Vals(s, d) is a finite sequence of values of schema s with
   boundary leaves (0, 1, -1, min, max, a number whose bytes all differ; empty / one / several elements;
   strings with multi-byte and invalid UTF-8; absent / present optionals; every interface alternative).
   d bounds how far the rich leaf sets reach down; structs take the full product of their fields' sets
   while it is small and otherwise vary one field at a time around a base value.                        *)
EXTENDS Wire

Take(xs, k) == SubSeq(xs, 1, IF k < Len(xs) THEN k ELSE Len(xs))
Abs(x) == IF x < 0 THEN -x ELSE x
\* number value of a small integer (|x| < 2^31)
Num(w, x) == [n |-> x < 0, m |-> [i \in 1..NLimbs(w) |->
                 IF i = 1 THEN Abs(x) % 32768 ELSE IF i = 2 THEN (Abs(x) \div 32768) % 32768
                 ELSE IF i = 3 THEN Abs(x) \div 1073741824 ELSE 0]]
MaxU(w)  == [n |-> FALSE, m |-> [i \in 1..NLimbs(w) |-> IF i < NLimbs(w) THEN 32767 ELSE 2 ^ TopBits(w) - 1]]
MaxS(w)  == [n |-> FALSE, m |-> [i \in 1..NLimbs(w) |-> IF i < NLimbs(w) THEN 32767 ELSE 2 ^ (TopBits(w) - 1) - 1]]
MinS(w)  == [n |-> TRUE,  m |-> [i \in 1..NLimbs(w) |-> IF i < NLimbs(w) THEN 0 ELSE 2 ^ (TopBits(w) - 1)]]
\* every byte of its encoding differs (catches byte-order mistakes)
Mixed(w, sg) == [n |-> FALSE, m |-> CASE w = 1 -> <<1>>
                                        [] w = 2 -> IF sg THEN <<513, 0>> ELSE <<1, 1>>
                                        [] w = 4 -> IF sg THEN <<1, 2, 1>> ELSE <<1, 2, 3>>
                                        [] w = 8 -> <<1, 2, 3, 4, 5>>]
\* the bit patterns of a signalling NaN (0x7f800001, 0x7ff0000000000001): float fields carry their IEEE bits as an unsigned number and
\* every bit must survive (a detour through another float width quiets the NaN)
SNaN32 == [n |-> FALSE, m |-> <<1, 32512, 1>>]
SNaN64 == [n |-> FALSE, m |-> <<1, 0, 0, 32640, 7>>]
\* Value sets are SEQUENCES (TLC cannot hold values of different shapes in one set).
NumVals(s, d) ==
  IF d <= 0 THEN <<Mixed(s.w, s.s), IF s.s THEN MinS(s.w) ELSE MaxU(s.w)>>
  ELSE IF s.s THEN <<Num(s.w, 0), Num(s.w, 1), Num(s.w, -1), Num(s.w, -2), MaxS(s.w), MinS(s.w), Mixed(s.w, TRUE)>>
  ELSE <<Num(s.w, 0), Num(s.w, 1), Num(s.w, 2), MaxU(s.w), Mixed(s.w, FALSE)>>
       \o (IF s.w = 4 THEN <<SNaN32>> ELSE IF s.w = 8 THEN <<SNaN64>> ELSE <<>>)

RECURSIVE Prod(_, _)     \* F: sequence of sequences -> sequence of all choices
Prod(F, i) == IF i > Len(F) THEN <<<<>>>>
              ELSE LET T == Prod(F, i + 1)
                   IN  Flatten([a \in 1..Len(F[i]) |-> [t \in 1..Len(T) |-> <<F[i][a]>> \o T[t]]])
RECURSIVE Card(_, _)
Card(F, i) == IF i > Len(F) THEN 1 ELSE LET c == Card(F, i + 1) IN IF c > 1000 THEN c ELSE Len(F[i]) * c

RECURSIVE Vals(_, _)
Vals(s, d) ==
  CASE s.k = "bool"  -> IF d <= 0 THEN <<TRUE>> ELSE <<TRUE, FALSE>>
    [] s.k = "num"   -> NumVals(s, d)
    [] s.k = "str"   -> IF d <= 0 THEN <<<<97>>>>
                        ELSE <<<<>>, <<97>>, <<98, 97>>, <<195, 164, 98>>, <<255>>, <<97, 98, 99, 100, 101>>, <<226, 130, 172, 240, 159, 152, 128>>>>
    [] s.k = "bytes" -> IF d <= 0 THEN <<<<1, 255>>>> ELSE <<<<>>, <<0>>, <<1, 255>>, <<2, 2, 2, 7, 9>>>>
    [] s.k \in {"barr", "custom"} ->
         IF d <= 0 THEN <<[i \in 1..s.n |-> i]>>
         ELSE <<[i \in 1..s.n |-> 0], [i \in 1..s.n |-> i], [i \in 1..s.n |-> 255]>>
    [] s.k = "slice" ->
         LET E == Take(Vals(s.e, d - 1), 3)
             N == 1..Len(E) IN
         IF d <= 0 THEN <<<<>>, <<E[1]>>>>
         ELSE <<<<>>>> \o [i \in N |-> <<E[i]>>] \o Flatten([i \in N |-> [j \in N |-> <<E[i], E[j]>>]])
              \o [j \in N |-> <<E[1], E[j], E[1]>>]
    [] s.k = "arr" ->
         LET E == Take(Vals(s.e, d - 1), 3)
             N == 1..Len(E) IN
         [x \in N |-> [i \in 1..s.n |-> E[x]]]
           \o Flatten([x \in N |-> Flatten([y \in N |-> [j \in 1..s.n |-> [i \in 1..s.n |-> IF i = j THEN E[x] ELSE E[y]]]])])
    [] s.k = "map" ->
         LET K == Take(Vals(s.key, d - 1), 3)
             X == Take(Vals(s.val, d - 1), 2)
             NK == 1..Len(K)  NX == 1..Len(X) IN
         <<<<>>>> \o Flatten([a \in NK |-> [c \in NX |-> <<<<K[a], X[c]>>>>]])
                \o Flatten([a \in NK |-> Flatten([b \in NK |-> IF a = b THEN <<>> ELSE [c \in NX |-> <<<<K[a], X[1]>>, <<K[b], X[c]>>>>]])])
                \o (IF Len(K) < 3 THEN <<>>
                    ELSE <<<<<<K[3], X[1]>>, <<K[1], X[1]>>, <<K[2], X[1]>>>>, <<<<K[2], X[1]>>, <<K[3], X[1]>>, <<K[1], X[1]>>>>>>)
    [] s.k = "struct" ->
         LET F == M([i \in 1..Len(s.f) |-> Vals(s.f[i], d - 1)]) IN
         IF Card(F, 1) <= 200 THEN Prod(F, 1)
         ELSE LET base == M([i \in 1..Len(F) |-> F[i][1]])
              IN  <<base>> \o Flatten([i \in 1..Len(F) |-> M([a \in 1..Len(F[i]) |-> [base EXCEPT ![i] = F[i][a]]])])
    [] s.k \in {"opt", "eptr"} -> LET X == Vals(s.t, d - 1) IN <<[some |-> FALSE]>> \o [i \in 1..Len(X) |-> [some |-> TRUE, v |-> X[i]]]
    [] s.k = "iface" -> Flatten([j \in 1..Len(s.alts) |->
                           LET X == Vals(s.alts[j].t, d - 1) IN [i \in 1..Len(X) |-> [c |-> s.alts[j].c, v |-> X[i]]]])
    [] s.k = "u256"  -> <<Num(32, 0), Num(32, 1), Num(32, 256), MaxU(32),      \* (1 and 256: their little-endian and big-endian byte orders disagree) [n |-> FALSE, m |-> [i \in 1..18 |-> IF i < 18 THEN i ELSE 1]],
                          Num(32, -1), [n |-> FALSE, m |-> [i \in 1..18 |-> IF i < 18 THEN 0 ELSE 2]]>>
    [] s.k = "time"  -> <<Num(8, 0), Num(8, 1), Mixed(8, TRUE), MaxS(8)>>

\* v with the entries of every map (and the elements of every encoder-sorted slice) in reverse order
RECURSIVE Rev(_, _)
Reverse(x) == M([i \in 1..Len(x) |-> x[Len(x) + 1 - i]])
Rev(s, v) ==
  CASE s.k \in {"slice", "arr"} -> LET c == M([i \in 1..Len(v) |-> Rev(s.e, v[i])]) IN IF s.sort THEN Reverse(c) ELSE c
    [] s.k = "map"    -> Reverse(M([i \in 1..Len(v) |-> <<Rev(s.key, v[i][1]), Rev(s.val, v[i][2])>>]))
    [] s.k = "struct" -> M([i \in 1..Len(v) |-> Rev(s.f[i], v[i])])
    [] s.k \in {"opt", "eptr"} -> IF v.some THEN [some |-> TRUE, v |-> Rev(s.t, v.v)] ELSE v
    [] s.k = "iface"  -> LET A == {j \in 1..Len(s.alts) : s.alts[j].c = v.c}
                         IN  IF A = {} THEN v ELSE [c |-> v.c, v |-> Rev(s.alts[MinOf(A)].t, v.v)]
    [] OTHER -> v
=============================================================================
