------------------------------ MODULE WireTrace ------------------------------
(* code -> model: the harness wrote one record per call of the REAL serix Encode / Decode into
   records.ndjson (random values of the catalogue types, their encodings, mutated encodings); TLC consumes
   them one per step and judges each with Enc / Dec of Wire.tla.  A record the properties do not allow is
   printed (line number, the failed clause, what the model demands) and the run goes on, so one pass lists
   every disagreement.  Accepted (POSTCONDITION) makes sure every line was consumed.

   enc record: [k |-> "enc", s, m (0 | 1 = validation), v, ok, b, panic, same, rt |-> [ok, v, n, panic]]
   dec record: [k |-> "dec", s, m, b, ok, v, n, panic, alloc, re |-> [ok, b]]                           *)
EXTENDS Wire, Json

Cat == JsonDeserialize("catalogue.json")
Names == {Cat[i].name : i \in 1..Len(Cat)}
ByName == [nm \in Names |-> Cat[CHOOSE i \in 1..Len(Cat) : Cat[i].name = nm].s]

VARIABLE l
Log == ndJsonDeserialize("records.ndjson")

AllocBound(b) == 65536 + 16 * Len(b)

\* the first clause of the statement a record breaks ("" = none) - the order is the order of blame
EncWhy(r) ==
  LET s  == ByName[r.s]
      V  == r.m = 1
      e  == Enc(s, r.v, V)
      ev == Enc(s, r.v, TRUE) IN
  IF r.panic THEN "panic"
  ELSE IF r.ok /\ ~e.ok THEN "accepts-invalid"
  \* without validation the real encoder may already enforce a rule that validation would enforce
  ELSE IF ~r.ok /\ e.ok /\ (V \/ ev.ok) THEN "rejects-valid"
  ELSE IF ~r.ok THEN ""
  ELSE IF r.b # e.b THEN "wrong-bytes"                                          \* C03 forward
  ELSE IF ~r.same THEN "order-dependent"                                        \* C01 twice-encode
  ELSE IF r.rt.panic THEN "roundtrip-panic"
  ELSE IF ~r.rt.ok THEN "roundtrip-rejected"                                    \* C01
  ELSE IF r.rt.n # Len(r.b) THEN "roundtrip-length"
  ELSE IF Canon(s, r.rt.v, FALSE) # Canon(s, r.v, TRUE) THEN "roundtrip-value"
  ELSE ""
EncWant(r) == Enc(ByName[r.s], r.v, r.m = 1)

DecWhy(r) ==
  LET s  == ByName[r.s]
      V  == r.m = 1
      d  == Dec(s, r.b, V)
      dv == Dec(s, r.b, TRUE) IN
  IF r.panic THEN "panic"                                                       \* C02
  ELSE IF r.ok /\ r.n > Len(r.b) THEN "over-consumed"                           \* C02
  ELSE IF r.alloc > AllocBound(r.b) THEN "alloc"                                \* C02
  ELSE IF r.ok /\ ~d.ok THEN "accepts-invalid"
  ELSE IF ~r.ok /\ d.ok /\ (V \/ dv.ok) THEN "rejects-valid"
  ELSE IF ~r.ok \/ ~d.ok THEN ""
  ELSE IF r.n # d.n THEN "wrong-length"
  ELSE IF Oos(s, d.v) THEN ""                                                   \* saturated stamp: outside C03
  ELSE IF Canon(s, r.v, FALSE) # Canon(s, d.v, FALSE) THEN "wrong-value"
  ELSE IF V /\ (~r.re.ok \/ r.re.b # SubSeq(r.b, 1, r.n)) THEN "noncanonical-accepted"   \* C03 reverse
  ELSE ""
DecWant(r) == Dec(ByName[r.s], r.b, r.m = 1)

Why(r) == IF r.k = "enc" THEN EncWhy(r) ELSE DecWhy(r)
Report(k, why) == PrintT(<<"BAD", ToJson([l |-> k, why |-> why,
                            want |-> IF Log[k].k = "enc" THEN EncWant(Log[k]) ELSE DecWant(Log[k])])>>)

TInit == l = 1
TNext == /\ l <= Len(Log)
         /\ LET why == Why(Log[l]) IN (IF why = "" THEN TRUE ELSE Report(l, why))
         /\ l' = l + 1
TSpec == TInit /\ [][TNext]_l

Accepted == LET d == TLCGet("stats").diameter IN
            PrintT(<<"DEPTH", ToString(d)>>) /\ d = Len(Log) + 1
==============================================================================
