------------------------------- MODULE StreamGen ------------------------------
(* model -> code: TLC exports from the specification
     RT     one row per (helper, value) of the round-trip catalogue: the bytes a writer must produce,
            the value a reader must return and the number of bytes it must consume
     CHUNKS for every length n <= GenMaxLen every way to cut n bytes into read chunks (<= MaxChunk)
     TOT    one row per (helper, byte string) of the totality bound: the outcome Parse demands
   The harness replays them through the real stream helpers (RT rows through a reader that returns
   exactly the chunks of every CHUNKS entry of the matching length, and through the iotest readers).  *)
EXTENDS Stream, Json, SequencesExt

CONSTANTS GenWhat,      \* "rt" or "tot"
          GenKinds, GenA, \* helper kinds / first parameters this TLC process generates
          GenMaxLen

ASSUME GenWhat = "rt" =>
         /\ \A hh \in {x \in RTHelpers : x.h \in GenKinds /\ x.a \in GenA} : \A x \in ValsOf(hh) :
              PrintT(<<"RT", ToJson([h |-> hh, v |-> x, bytes |-> Enc(hh, x), res |-> Result(hh, x), used |-> Used(hh, x)])>>)
         /\ \A n \in 0..GenMaxLen :
              PrintT(<<"CHUNKS", ToJson([n |-> n, c |-> SetToSeq(Compositions(n, MaxChunk))])>>)
ASSUME GenWhat = "tot" =>
         \A hh \in {x \in TotalHelpers : x.h \in GenKinds /\ x.a \in GenA} : \A s \in Strs(L, Alphabet) :
              PrintT(<<"TOT", ToJson([h |-> hh, s |-> s, w |-> Parse(hh, s)])>>)

GInit == h = 0 /\ v = 0 /\ src = 0 /\ pos = 0 /\ fields = 0 /\ buf = 0 /\ st = 0
GNext == UNCHANGED vars
===============================================================================
