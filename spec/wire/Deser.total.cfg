CONSTANTS
  Mode = "total"
  L = 6
  Alphabet = {0, 1, 2, 255}
  Discipline = "checked"
INVARIANTS InBounds AllocBounded ItersBounded Agree
