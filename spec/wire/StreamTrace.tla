------------------------------ MODULE StreamTrace -----------------------------
(* code -> model: one record per call of a REAL stream helper (records.ndjson), judged by TLC.

   {"k":"rt",  "h":helper, "v":value written, "w":bytes the real writer produced, "tail":extra bytes
               in the reader, "chunks":the read sizes the reader delivered, "got":{ok,v,used}, "alloc":n}
   {"k":"mut", "h":helper, "s":input bytes (a mutated encoding), "chunks":..., "got":{ok,v,used}, "alloc":n}

   Good: rt  - the writer produced Enc(h,v) and the reader, fed these chunks, returned the value and
               consumed exactly Used(h,v) bytes;
         mut - the outcome equals Parse(h,s) (error or value, consumed <= supplied) and the measured
               allocation respects the bound 64 KiB + 16 * |input|.
   A rejected record is printed with what the model demands; the run continues.                     *)
EXTENDS Stream, Json

VARIABLE l
Log == ndJsonDeserialize("records.ndjson")

Sum(c) == LET RECURSIVE S(_) S(x) == IF x = <<>> THEN 0 ELSE Head(x) + S(Tail(x)) IN S(c)
ChunksOK(c, n) == (\A i \in 1..Len(c) : c[i] > 0) /\ Sum(c) = n
AllocBound(n) == 65536 + 16 * n

WantOf(r) == IF r.k = "rt" THEN [w |-> Enc(r.h, r.v), got |-> Ok(Result(r.h, r.v), Used(r.h, r.v))]
             ELSE [w |-> r.s, got |-> Parse(r.h, r.s)]
Good(r) == IF r.k = "rt"
             THEN /\ r.w = Enc(r.h, r.v)
                  /\ r.got = Ok(Result(r.h, r.v), Used(r.h, r.v))
                  /\ ChunksOK(r.chunks, Len(r.w) + Len(r.tail))
             ELSE /\ r.got = Parse(r.h, r.s)
                  /\ r.got.used <= Len(r.s)
                  /\ r.alloc <= AllocBound(Len(r.s))
                  /\ ChunksOK(r.chunks, Len(r.s))

Report(k) == PrintT(<<"BAD", ToJson([l |-> k, want |-> WantOf(Log[k])])>>)

TInit == l = 1 /\ h = 0 /\ v = 0 /\ src = 0 /\ pos = 0 /\ fields = 0 /\ buf = 0 /\ st = 0
TNext == /\ l <= Len(Log)
         /\ (IF Good(Log[l]) THEN TRUE ELSE Report(l))
         /\ l' = l + 1
         /\ UNCHANGED vars
Accepted == LET d == TLCGet("stats").diameter IN
            PrintT(<<"DEPTH", ToString(d)>>) /\ d = Len(Log) + 1
===============================================================================
