CONSTANTS
  Mode = "rt"
  MaxChunk = 6
  L = 0
  Alphabet = {0}
  Discipline = "full"
INVARIANTS RoundTrip Bounded Agree NotStuck
