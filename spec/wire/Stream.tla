-------------------------------- MODULE Stream --------------------------------
(* serializer/stream: the Write*/Read* helper pairs (properties C01 and C02, work id W2).

   A helper is [h |-> kind, a |-> int, b |-> int]:
     Num     a = width in bytes (1,2,4,8 integers; 32 = [32]byte)   stream.Write[T] / stream.Read[T]
     Bool                                                           stream.Write[bool] / Read[bool]
     Bytes   a = n                                                  WriteBytes / ReadBytes(n)
     BytesSz a = width of the length prefix (1,2,4,8)               WriteBytesWithSize / ReadBytesWithSize
     Obj     a = fixed length n                                     WriteObject / ReadObject(n, fromBytes)
     ObjSz   a = prefix width                                       WriteObjectWithSize / ReadObjectWithSize
     Coll    a = prefix width, b = element width                    WriteCollection / ReadCollection of uints
     Peek    a = prefix width                                       PeekSize (reads the prefix, seeks back)
   Values: numbers = BE digits (see StreamBytes), byte strings = sequences of bytes, collections =
   sequences of numbers.

   WHAT THE PROPERTY SAYS.  Enc(h,v) is the byte sequence a writer produces.  The reader obtains bytes
   from an io.Reader that may return, on every Read call, ANY positive number of the bytes that are
   left (at most what was asked for) - this is the nondeterministic ReadStep below, which covers every
   way a reader can split its reads.  A helper asks for a known number of bytes at a time ("need") and
   must keep reading until it has them (io.ReadFull discipline) or the reader is exhausted.  TLC checks:

     RoundTrip  (Mode "rt")     on EVERY splitting the helper finishes ok, returns the value written and
                                has taken exactly Used(h,v) bytes from the reader (never touches the tail)
     Bounded    (both modes)    the bytes taken and buffered never exceed the bytes supplied - the
                                specification's reader buffers only what has arrived, whatever a length
                                prefix claims (C02: no allocation in proportion to a hostile prefix)
     Agree      (both modes)    the outcome is independent of the splitting: it equals Parse(h, src),
                                the functional reading of the same bytes (so the expectation table that
                                StreamGen exports from Parse is valid for all splittings)
     NotStuck                   a running helper can always take a step (totality on arbitrary input)   *)
EXTENDS StreamBytes, TLC

CONSTANTS Mode,        \* "rt": src = Enc(h,v) \o tail for the value catalogue; "total": src = any string
          MaxChunk,    \* largest number of bytes one Read call returns
          L, Alphabet, \* "total": all strings over Alphabet of length <= L
          Discipline   \* "full": keep reading until the request is complete (what the property needs);
                       \* "single": byte-string bodies are fetched with ONE Read call and a short count is
                       \* an error (the negative control Stream.single.cfg: TLC must refute RoundTrip)

H(k, a, b) == [h |-> k, a |-> a, b |-> b]
PrefixWidths == {1, 2, 4, 8}

-------------------------------------------------------------------------------
(* writer *)
Enc(h, v) ==
  CASE h.h = "Num"  -> Rev(v)
    [] h.h = "Bool" -> v
    [] h.h \in {"Bytes", "Obj"} -> v
    [] h.h \in {"BytesSz", "ObjSz", "Peek"} -> ToLE(Len(v), h.a) \o v
    [] h.h = "Coll" -> ToLE(Len(v), h.a) \o Flat([k \in 1..Len(v) |-> Rev(v[k])])

\* what the reader hands back for a written v, and how many bytes it must have consumed
Result(h, v) == IF h.h = "Peek" THEN Rev(ToLE(Len(v), h.a)) ELSE v
Used(h, v)   == IF h.h = "Peek" THEN 0 ELSE Len(Enc(h, v))

-------------------------------------------------------------------------------
(* functional reading of a byte sequence (splitting-independent meaning) *)
Short == [ok |-> FALSE, v |-> <<>>, used |-> 0]
Ok(v, used) == [ok |-> TRUE, v |-> v, used |-> used]
Avail(s, off, n) == off + n <= Len(s)
Cut(s, off, n) == SubSeq(s, off + 1, off + n)

\* a length the result type (a non-negative Go int) cannot represent: an 8-byte prefix >= 2^63
TooBig(le) == Len(le) = 8 /\ le[8] >= 128
Parse(h, s) ==
  CASE h.h = "Num"  -> IF Avail(s, 0, h.a) THEN Ok(Rev(Cut(s, 0, h.a)), h.a) ELSE Short
    [] h.h = "Bool" -> IF Avail(s, 0, 1) THEN Ok(<<IF s[1] = 0 THEN 0 ELSE 1>>, 1) ELSE Short
    [] h.h \in {"Bytes", "Obj"} -> IF Avail(s, 0, h.a) THEN Ok(Cut(s, 0, h.a), h.a) ELSE Short
    [] h.h \in {"BytesSz", "ObjSz"} ->
         IF ~Avail(s, 0, h.a) THEN Short
         ELSE LET n == LEValCap(Cut(s, 0, h.a), Len(s))
              IN  IF Avail(s, h.a, n) THEN Ok(Cut(s, h.a, n), h.a + n) ELSE Short
    [] h.h = "Coll" ->
         IF ~Avail(s, 0, h.a) THEN Short
         ELSE LET n == LEValCap(Cut(s, 0, h.a), Len(s))
              IN  IF Avail(s, h.a, n * h.b)
                    THEN Ok([k \in 1..n |-> Rev(Cut(s, h.a + (k - 1) * h.b, h.b))], h.a + n * h.b)
                    ELSE Short
    [] h.h = "Peek" -> IF Avail(s, 0, h.a) /\ ~TooBig(Cut(s, 0, h.a)) THEN Ok(Rev(Cut(s, 0, h.a)), 0) ELSE Short

-------------------------------------------------------------------------------
(* the reading helper as a step machine over a reader that splits arbitrarily *)
VARIABLES h, v, src, pos, fields, buf, st
vars == <<h, v, src, pos, fields, buf, st>>

HasPrefix(hh) == hh.h \in {"BytesSz", "ObjSz", "Coll", "Peek"}
Count(hh, fs, cap) == LEValCap(fs[1], cap)
\* number of bytes the helper asks for next, given the completed requests fs; -1 = finished
NextNeed(hh, fs, cap) ==
  CASE hh.h = "Num"  -> IF fs = <<>> THEN hh.a ELSE -1
    [] hh.h = "Bool" -> IF fs = <<>> THEN 1 ELSE -1
    [] hh.h \in {"Bytes", "Obj"} -> IF fs = <<>> THEN hh.a ELSE -1
    [] hh.h = "Peek" -> IF fs = <<>> THEN hh.a ELSE -1
    [] hh.h \in {"BytesSz", "ObjSz"} ->
         IF fs = <<>> THEN hh.a
         ELSE IF Len(fs) = 1 /\ Count(hh, fs, cap) > 0 THEN Count(hh, fs, cap) ELSE -1
    [] hh.h = "Coll" ->
         IF fs = <<>> THEN hh.a
         ELSE IF Len(fs) - 1 < Count(hh, fs, cap) THEN hh.b ELSE -1

ValueOf(hh, fs, cap) ==
  CASE hh.h \in {"Num", "Peek"} -> Rev(fs[1])
    [] hh.h = "Bool" -> <<IF fs[1][1] = 0 THEN 0 ELSE 1>>
    [] hh.h \in {"Bytes", "Obj"} -> fs[1]
    [] hh.h \in {"BytesSz", "ObjSz"} -> IF Len(fs) = 1 THEN <<>> ELSE fs[2]
    [] hh.h = "Coll" -> [k \in 1..(Len(fs) - 1) |-> Rev(fs[k + 1])]

need == NextNeed(h, fields, Len(src))
Consumed == IF h.h = "Peek" /\ st = "ok" THEN 0 ELSE pos     \* PeekSize seeks back to where it started

ReadStep == /\ st = "run" /\ need >= 0 /\ Len(buf) < need /\ pos < Len(src)
            /\ \E m \in 1..Min(MaxChunk, Min(need - Len(buf), Len(src) - pos)) :
                 /\ buf' = buf \o SubSeq(src, pos + 1, pos + m)
                 /\ pos' = pos + m
            /\ UNCHANGED <<h, v, src, fields, st>>
HitEOF   == /\ st = "run" /\ need >= 0 /\ Len(buf) < need /\ pos = Len(src)
            /\ st' = "err"
            /\ UNCHANGED <<h, v, src, pos, fields, buf>>
Complete == /\ st = "run" /\ need >= 0 /\ Len(buf) = need
            /\ fields' = Append(fields, buf) /\ buf' = <<>>
            /\ UNCHANGED <<h, v, src, pos, st>>
GiveUp   == /\ Discipline = "single" /\ st = "run" /\ need >= 0
            /\ h.h \in {"Bytes", "BytesSz", "Obj", "ObjSz"} /\ (HasPrefix(h) => fields # <<>>)
            /\ 0 < Len(buf) /\ Len(buf) < need
            /\ st' = "err"
            /\ UNCHANGED <<h, v, src, pos, fields, buf>>
Finish   == /\ st = "run" /\ need = -1
            /\ st' = IF h.h = "Peek" /\ TooBig(fields[1]) THEN "err" ELSE "ok"
            /\ UNCHANGED <<h, v, src, pos, fields, buf>>
Next == ReadStep \/ HitEOF \/ Complete \/ Finish \/ GiveUp

-------------------------------------------------------------------------------
(* value catalogue of the round-trip mode *)
NumVals(w) == IF w <= 2 THEN [1..w -> {0, 1, 255}]
              ELSE {Zeros(w), [i \in 1..w |-> 255], [i \in 1..w |-> i], [i \in 1..w |-> IF i = 1 THEN 128 ELSE 0],
                    [i \in 1..w |-> IF i = w THEN 1 ELSE 0]}
Contents == Strs(2, {0, 255}) \cup {<<1, 2, 3, 4, 5>>}
Elems(w) == {[i \in 1..w |-> i], [i \in 1..w |-> IF i = 1 THEN 255 ELSE 0]}
Tails == {<<>>, <<255>>, <<0, 1>>}
RTHelpers == {H("Num", w, 0) : w \in {1, 2, 4, 8, 32}} \cup {H("Bool", 0, 0)}
             \cup {H("Bytes", n, 0) : n \in {0, 1, 2, 5}} \cup {H("Obj", n, 0) : n \in {2, 8, 32}}
             \cup {H(k, w, 0) : k \in {"BytesSz", "ObjSz", "Peek"}, w \in PrefixWidths}
             \cup {H("Coll", w, e) : w \in PrefixWidths, e \in {1, 2}}
ValsOf(hh) ==
  CASE hh.h = "Num"     -> NumVals(hh.a)
    [] hh.h = "Bool"    -> {<<0>>, <<1>>}
    [] hh.h = "Bytes"   -> {[i \in 1..hh.a |-> i], [i \in 1..hh.a |-> 255]}
    [] hh.h = "BytesSz" -> Contents
    [] hh.h = "Obj"     -> NumVals(hh.a)
    [] hh.h = "ObjSz"   -> {<<>>, <<7>>, <<1, 2, 3>>}
    [] hh.h = "Coll"    -> Strs(2, Elems(hh.b))
    [] hh.h = "Peek"    -> {<<>>, <<9>>, <<1, 2, 3>>}
\* (values of different helpers have different shapes, so the catalogue is never built as ONE set)
IsCase(hh, x) == hh \in RTHelpers /\ x \in ValsOf(hh)

TotalHelpers == {H("Num", w, 0) : w \in {1, 2, 4, 8}} \cup {H("Bool", 0, 0)}
                \cup {H("Bytes", n, 0) : n \in {0, 1, 3}} \cup {H("Obj", 2, 0)}
                \cup {H(k, w, 0) : k \in {"BytesSz", "ObjSz", "Peek"}, w \in PrefixWidths}
                \cup {H("Coll", w, e) : w \in PrefixWidths, e \in {1, 2}}

\* the step machine is explored for one representative of helpers with the same request sequence
\* (ObjSz = BytesSz, Obj = Bytes; an 8-byte prefix never completes within L <= 6): the table still
\* carries every helper of TotalHelpers
MCHelpers == {x \in TotalHelpers : x.h \notin {"ObjSz", "Obj"} /\ (x.a = 8 => x.h = "BytesSz")}
None == <<"none">>
Init == /\ pos = 0 /\ fields = <<>> /\ buf = <<>> /\ st = "run"
        /\ IF Mode = "rt"
             THEN IsCase(h, v) /\ \E t \in Tails : src = Enc(h, v) \o t
             ELSE h \in MCHelpers /\ v = None /\ src \in Strs(L, Alphabet)
Spec == Init /\ [][Next]_vars

-------------------------------------------------------------------------------
Outcome == IF st = "ok" THEN Ok(ValueOf(h, fields, Len(src)), Consumed) ELSE Short

RoundTrip == (Mode = "rt" /\ st # "run") => Outcome = Ok(Result(h, v), Used(h, v))
Bounded   == pos <= Len(src) /\ Len(Flat(fields)) + Len(buf) <= pos
Agree     == st # "run" => Outcome = Parse(h, src)
NotStuck  == st = "run" => (ENABLED Next)
===============================================================================
