CONSTANTS
  Mode = "total"
  L = 4
  Alphabet = {0, 1, 2, 255}
  Discipline = "alloc-first"
INVARIANTS InBounds AllocBounded ItersBounded
