------------------------------- MODULE WireJsonTrace ---------------------------
(* code -> model: one record per real MapEncode/JSONEncode + MapDecode/JSONDecode (records.ndjson).

   {"k":"rt",  "id":type, "v":value, "enc":"ok", "doc":document the REAL encoder produced,
               "dec":{ok,v} MapDecode of it, "jdec":{ok,v} JSONDecode of it}
   {"k":"mut", "id":type, "doc":a mutated document, "dec":..., "jdec":...}

   Good: rt  - the encoder accepted the value, doc = JEnc(S,v), and both decoders returned Ok(v)
         mut - neither decoder panicked; where the model accepts the document and the decoder does too,
               the value is the model's.                                                               *)
EXTENDS WireJsonCat, Json, SequencesExt

VARIABLE l
Log == ndJsonDeserialize("records.ndjson")
Sch(id) == Types[CHOOSE t \in 1..Len(Types) : Types[t].id = id].s

Panicked(d) == "panic" \in DOMAIN d
Verdict(x) == IF x.ok THEN [ok |-> TRUE, v |-> x.v, at |-> <<>>] ELSE [ok |-> FALSE, v |-> <<>>, at |-> x.at]
WantOf(r) == IF r.k = "rt" THEN [doc |-> JEnc(Sch(r.id), r.v), w |-> [ok |-> TRUE, v |-> r.v, at |-> <<>>]]
             ELSE [doc |-> r.doc, w |-> Verdict(JDec(Sch(r.id), r.doc))]
\* equality of values along the schema, except that float leaves are not compared (the model carries a
\* float as the text it was given; the code re-formats what it parsed)
RECURSIVE Eqv(_, _, _)
Eqv(s, a, b) ==
  CASE s.t \in Floats -> TRUE
    [] s.t \in {"slice", "array"} -> Len(a) = Len(b) /\ \A i \in 1..Len(a) : Eqv(s.e, a[i], b[i])
    [] s.t = "map" -> DOMAIN a = DOMAIN b /\ \A k \in DOMAIN a : Eqv(s.e, a[k], b[k])
    [] s.t = "struct" -> \A i \in 1..Len(s.fields) :
                           LET f == s.fields[i] x == a[f.key] y == b[f.key] IN
                           IF f.opt /\ ~f.emb THEN Len(x) = Len(y) /\ (x # <<>> => Eqv(f.s, x[1], y[1])) ELSE Eqv(f.s, x, y)
    [] s.t = "ptr" -> Eqv(s.e, a, b)
    [] s.t = "iface" -> a.code = b.code /\ Eqv(AltOf(s, a.code), a.v, b.v)
    [] OTHER -> a = b
DecGood(s, d, x) == ~Panicked(d) /\ ((d.ok /\ x.ok) => Eqv(s, d.v, x.v))
Good(r) ==
  IF r.k = "rt"
    THEN /\ r.enc = "ok"
         /\ r.doc = JEnc(Sch(r.id), r.v)
         /\ ~Panicked(r.dec) /\ r.dec.ok /\ r.dec.v = r.v
         /\ ~Panicked(r.jdec) /\ r.jdec.ok /\ r.jdec.v = r.v
    ELSE LET x == JDec(Sch(r.id), r.doc) IN DecGood(Sch(r.id), r.dec, x) /\ DecGood(Sch(r.id), r.jdec, x)

Report(k) == PrintT(<<"BAD", ToJson([l |-> k, want |-> WantOf(Log[k])])>>)
TInit == l = 1
TNext == /\ l <= Len(Log)
         /\ (IF Good(Log[l]) THEN TRUE ELSE Report(l))
         /\ l' = l + 1
Accepted == LET d == TLCGet("stats").diameter IN
            PrintT(<<"DEPTH", ToString(d)>>) /\ d = Len(Log) + 1
===============================================================================
