------------------------------- MODULE WireJsonTrace ---------------------------
(* code -> model: one record per real MapEncode/JSONEncode + MapDecode/JSONDecode (records.ndjson).

   {"k":"rt",  "id":type, "v":value, "enc":"ok", "doc":document the REAL encoder produced,
               "dec":{ok,v} MapDecode of it, "jdec":{ok,v} JSONDecode of it}
   {"k":"mut", "id":type, "doc":a mutated document, "dec":..., "jdec":...}

   Good: rt  - the encoder accepted the value, doc = JEnc(S,v), and both decoders returned Ok(v)
         mut - neither decoder panicked; where the model accepts the document and the decoder does too,
               the value is the model's.                                                               *)
EXTENDS WireJsonCat, Json, SequencesExt

VARIABLE l
Log == ndJsonDeserialize("records.ndjson")
Sch(id) == Types[CHOOSE t \in 1..Len(Types) : Types[t].id = id].s

Panicked(d) == "panic" \in DOMAIN d
Verdict(x) == IF x.ok THEN [ok |-> TRUE, v |-> x.v, at |-> <<>>] ELSE [ok |-> FALSE, v |-> <<>>, at |-> x.at]
WantOf(r) == IF r.k = "rt" THEN [doc |-> JEnc(Sch(r.id), r.v), w |-> [ok |-> TRUE, v |-> r.v, at |-> <<>>]]
             ELSE [doc |-> r.doc, w |-> Verdict(JDec(Sch(r.id), r.doc))]
DecGood(d, x) == ~Panicked(d) /\ ((d.ok /\ x.ok) => d.v = x.v)
Good(r) ==
  IF r.k = "rt"
    THEN /\ r.enc = "ok"
         /\ r.doc = JEnc(Sch(r.id), r.v)
         /\ ~Panicked(r.dec) /\ r.dec.ok /\ r.dec.v = r.v
         /\ ~Panicked(r.jdec) /\ r.jdec.ok /\ r.jdec.v = r.v
    ELSE LET x == JDec(Sch(r.id), r.doc) IN DecGood(r.dec, x) /\ DecGood(r.jdec, x)

Report(k) == PrintT(<<"BAD", ToJson([l |-> k, want |-> WantOf(Log[k])])>>)
TInit == l = 1
TNext == /\ l <= Len(Log)
         /\ (IF Good(Log[l]) THEN TRUE ELSE Report(l))
         /\ l' = l + 1
Accepted == LET d == TLCGet("stats").diameter IN
            PrintT(<<"DEPTH", ToString(d)>>) /\ d = Len(Log) + 1
===============================================================================
