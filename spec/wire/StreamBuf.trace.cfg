CONSTANTS
  Inits = {0, 1, 2, 3}
  MaxLen = 64
INVARIANTS TypeOK
