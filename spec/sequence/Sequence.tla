---------------------------- MODULE Sequence ----------------------------
(* kvstore.Sequence (property C07): numbers handed out by Next for one key are never reused over *)
(* the whole life of the backing store - across crashes at every store-operation boundary,      *)
(* restarts with any interval and Release calls; a crash wastes at most one interval, a clean   *)
(* Release wastes none.                                                                         *)
(*                                                                                              *)
(* Sequential convention (spec/README.md).  Written from the property text and the documented   *)
(* contract:                                                                                    *)
(*   - the store holds one persistent high-water mark per key = first number not yet leased     *)
(*     (absent = nothing leased yet);                                                           *)
(*   - an object serves Next from its lease [nxt, rsv) without touching the store; when the     *)
(*     lease is empty it READS the mark (store operation 1), WRITES mark+interval (store        *)
(*     operation 2) and only then hands numbers out;                                            *)
(*   - Release gives the unissued rest of the lease back (one store write: mark := nxt); with   *)
(*     nothing leased there is nothing to give back and the stored mark must not move.          *)
(*                                                                                              *)
(* Stimuli (records {op, k, mode} / {op, interval}):                                            *)
(*   Next / Release with mode = "none"                  the plain call                          *)
(*   ... with k >= 1 and mode = "before" | "after"      CRASH PLAN: the process stops at the    *)
(*        k-th store operation of this call, before it executes / after it executed but before  *)
(*        the call returns.  The object is then dead (abandoned); only Restart is possible.     *)
(*        A plan whose k exceeds the number of store operations of the call never fires: the    *)
(*        call completes normally (this is how "served from memory" is observed).               *)
(*   ... with mode = "fail"    the k-th store operation returns an error instead of executing;  *)
(*        the call reports the error, has no effect, and the object stays usable.               *)
(*   Restart(interval)         abandon the current object (dead or alive) and open a new one    *)
(*                             over the same store.                                             *)
(* res = [val |-> <<n>> or <<>>, err |-> "ok" | "crashed" | "error" | "dead"]                   *)
(* st  = [mark |-> <<m>> or <<>> (raw stored mark, read from the underlying store),             *)
(*        intact |-> the rest of the store is untouched]                                        *)
EXTENDS Integers, Sequences, FiniteSets, TLC

CONSTANTS Intervals,   \* intervals an object may be opened with
          MaxInc,      \* exploration bound: incarnations over the life of the store
          MaxIssued    \* exploration bound: numbers handed out over the life of the store

VARIABLES cfg,         \* [interval |-> interval of the first incarnation]
          mark,        \* persistent high-water mark, NoMark = absent
          alive,       \* the live incarnation has not crashed
          ival,        \* its interval
          nxt, rsv,    \* its lease [nxt, rsv); empty lease is normalised to nxt = rsv = 0
          rel,         \* it holds no reservation it has not given back (fresh, or after Release)
          m0, cnt0,    \* history: base mark when it was opened / how many numbers it handed out
          issued,      \* history: every number ever returned for the key
          last, count, \* history: most recently returned number (-1 = none) / how many were returned
          inc,         \* history: incarnations so far
          allow,       \* history: numbers wasted by incarnations abandoned since the last returned number
          lastGap, lastAllow, \* history: at the last returned number n: n - (previous + 1) / allow
          ev
vars == <<cfg, mark, alive, ival, nxt, rsv, rel, m0, cnt0, issued, last, count, inc, allow, lastGap, lastAllow, ev>>
(* FullView (everything but ev) is the VIEW of the exhaustive run, so that the invariants over the  *)
(* history variables are checked on every distinct history.  View is the state identity of the     *)
(* exported transition system: exactly the variables that results, stored state and guards depend  *)
(* on (the history variables are functions of the path and never influence an observation).        *)
FullView == <<cfg, mark, alive, ival, nxt, rsv, rel, m0, cnt0, issued, last, count, inc, allow, lastGap, lastAllow>>
View == <<cfg, mark, alive, ival, nxt, rsv, count, inc>>

NoMark == -1
Base(m) == IF m = NoMark THEN 0 ELSE m
Opt(m) == IF m = NoMark THEN <<>> ELSE <<m>>
St(m) == [mark |-> Opt(m), intact |-> TRUE]
R(v, e) == [val |-> v, err |-> e]
Modes == {"before", "after", "fail"}

(* numbers below the stored mark that this incarnation reserved and has not handed out (yet):   *)
(* what is wasted if it is abandoned now                                                        *)
W == Base(mark) - m0 - cnt0

Cfgs == [interval : Intervals]

Fresh(i) == /\ alive = TRUE /\ ival = i /\ nxt = 0 /\ rsv = 0 /\ rel = TRUE
InitState(c) == /\ mark = NoMark /\ Fresh(c.interval) /\ m0 = 0 /\ cnt0 = 0
                /\ issued = {} /\ last = -1 /\ count = 0 /\ inc = 1 /\ allow = 0
                /\ lastGap = 0 /\ lastAllow = 0

Init == /\ cfg \in Cfgs
        /\ InitState(cfg)
        /\ ev = [op |-> "reset", cfg |-> cfg]

Out(s, r, m) == ev' = [op |-> s.op, k |-> s.k, mode |-> s.mode, res |-> r, st |-> St(m)]

Issue(n) == /\ issued' = issued \cup {n}
            /\ last' = n
            /\ count' = count + 1
            /\ cnt0' = cnt0 + 1
            /\ lastGap' = n - (last + 1)
            /\ lastAllow' = allow
            /\ allow' = 0
NoIssue == UNCHANGED <<issued, last, count, cnt0, lastGap, lastAllow, allow>>

DoNext(s) ==
  LET nops  == IF nxt < rsv THEN 0 ELSE 2          \* store operations of this call: read, write
      fires == s.mode \in Modes /\ s.k >= 1 /\ s.k <= nops
      b     == Base(mark)
  IN
  /\ UNCHANGED <<cfg, ival, inc, m0>>
  /\ IF ~alive THEN
        /\ UNCHANGED <<mark, alive, nxt, rsv, rel>> /\ NoIssue
        /\ Out(s, R(<<>>, "dead"), mark)
     ELSE IF ~fires THEN
        (IF nxt < rsv
           THEN \* served from the lease: no store access
                /\ Issue(nxt)
                /\ (IF nxt + 1 = rsv THEN nxt' = 0 /\ rsv' = 0 ELSE nxt' = nxt + 1 /\ rsv' = rsv)
                /\ UNCHANGED <<mark, alive, rel>>
                /\ Out(s, R(<<nxt>>, "ok"), mark)
           ELSE \* lease a new interval: the store is advanced BEFORE the first number is handed out
                /\ mark' = b + ival
                /\ Issue(b)
                /\ (IF ival = 1 THEN nxt' = 0 /\ rsv' = 0 ELSE nxt' = b + 1 /\ rsv' = b + ival)
                /\ rel' = FALSE
                /\ UNCHANGED alive
                /\ Out(s, R(<<b>>, "ok"), mark'))
     ELSE IF s.mode = "fail" THEN
        /\ UNCHANGED <<mark, alive, nxt, rsv, rel>> /\ NoIssue
        /\ Out(s, R(<<>>, "error"), mark)
     ELSE \* crash: only a write that executed (k = 2, "after") is visible afterwards
        /\ alive' = FALSE /\ nxt' = 0 /\ rsv' = 0
        /\ (IF s.mode = "after" /\ s.k = 2 THEN mark' = b + ival /\ rel' = FALSE ELSE UNCHANGED <<mark, rel>>)
        /\ NoIssue
        /\ Out(s, R(<<>>, "crashed"), mark')

DoRelease(s) ==
  LET fire1 == s.mode \in Modes /\ s.k = 1 IN
  /\ UNCHANGED <<cfg, ival, inc, m0>> /\ NoIssue
  /\ IF ~alive THEN
        /\ UNCHANGED <<mark, alive, nxt, rsv, rel>>
        /\ Out(s, R(<<>>, "dead"), mark)
     ELSE IF nxt < rsv THEN       \* one store operation: write nxt as the new mark
        (IF ~fire1 THEN
            /\ mark' = nxt /\ nxt' = 0 /\ rsv' = 0 /\ rel' = TRUE /\ UNCHANGED alive
            /\ Out(s, R(<<>>, "ok"), mark')
         ELSE IF s.mode = "fail" THEN
            /\ UNCHANGED <<mark, alive, nxt, rsv, rel>>
            /\ Out(s, R(<<>>, "error"), mark)
         ELSE IF s.mode = "before" THEN
            /\ alive' = FALSE /\ nxt' = 0 /\ rsv' = 0 /\ UNCHANGED <<mark, rel>>
            /\ Out(s, R(<<>>, "crashed"), mark)
         ELSE
            /\ alive' = FALSE /\ mark' = nxt /\ nxt' = 0 /\ rsv' = 0 /\ rel' = TRUE
            /\ Out(s, R(<<>>, "crashed"), mark'))
     ELSE \* nothing leased: nothing to give back, the stored mark must not move.  Whether the
          \* implementation still performs a (value-preserving) store write is not prescribed, so a
          \* plan for operation 1 may or may not fire (these plans are not part of Stimuli-for-LTS).
        /\ UNCHANGED <<mark, nxt, rsv, rel>>
        /\ \/ UNCHANGED alive /\ Out(s, R(<<>>, "ok"), mark)
           \/ fire1 /\ s.mode = "fail" /\ UNCHANGED alive /\ Out(s, R(<<>>, "error"), mark)
           \/ fire1 /\ s.mode # "fail" /\ alive' = FALSE /\ Out(s, R(<<>>, "crashed"), mark)

DoRestart(s) ==
  /\ UNCHANGED <<cfg, mark, issued, last, count, lastGap, lastAllow>>
  /\ inc' = inc + 1
  /\ allow' = allow + W
  /\ alive' = TRUE /\ ival' = s.interval /\ nxt' = 0 /\ rsv' = 0 /\ rel' = TRUE
  /\ m0' = Base(mark) /\ cnt0' = 0
  /\ ev' = [op |-> "Restart", interval |-> s.interval, res |-> R(<<>>, "ok"), st |-> St(mark)]

Do(s) ==
  CASE s.op = "reset"   -> /\ cfg' = s.cfg
                           /\ mark' = NoMark /\ alive' = TRUE /\ ival' = s.cfg.interval /\ nxt' = 0 /\ rsv' = 0
                           /\ rel' = TRUE /\ m0' = 0 /\ cnt0' = 0 /\ issued' = {} /\ last' = -1 /\ count' = 0
                           /\ inc' = 1 /\ allow' = 0 /\ lastGap' = 0 /\ lastAllow' = 0
                           /\ ev' = s
    [] s.op = "Next"    -> DoNext(s)
    [] s.op = "Release" -> DoRelease(s)
    [] s.op = "Restart" -> DoRestart(s)

Plain == [op : {"Next", "Release"}, k : {0}, mode : {"none"}]
Stimuli == Plain
           \cup [op : {"Next"}, k : 1..2, mode : Modes]          \* every boundary of read, write
           \cup [op : {"Release"}, k : {1}, mode : Modes]        \* every boundary of the write
           \cup [op : {"Next"}, k : {3}, mode : {"before"}]      \* beyond the last operation: never fires
           \cup [op : {"Release"}, k : {2}, mode : {"before"}]
           \cup [op : {"Restart"}, interval : Intervals]

(* exploration bounds and the stimuli that make sense (a dead object can only be restarted) *)
Guard(s) == CASE s.op = "Restart" -> inc < MaxInc
              [] s.op = "Next"    -> alive /\ count < MaxIssued
              [] s.op = "Release" -> alive /\ (s.mode = "none" \/ nxt < rsv)

Next == \E s \in Stimuli : Guard(s) /\ Do(s)
Spec == Init /\ [][Next]_vars

(* ----------------------------- the property, on the model ----------------------------- *)
TypeOK == /\ mark \in (Nat \cup {NoMark}) /\ alive \in BOOLEAN /\ ival \in Intervals
          /\ nxt \in Nat /\ rsv \in Nat /\ rel \in BOOLEAN /\ issued \subseteq Nat
          /\ last \in (Nat \cup {-1}) /\ count \in Nat /\ inc \in Nat
(* no number is returned twice over the whole life of the store *)
NoReuse == Cardinality(issued) = count
(* numbers are strictly increasing (with NoReuse: the latest is above every earlier one) *)
Increasing == \A n \in issued : n <= last
(* every number handed out lies below the stored mark: a new incarnation cannot lease it again *)
BelowMark == \A n \in issued : n < Base(mark)
(* a non-empty lease is reserved in the store, above everything issued, shorter than the interval *)
LeaseOK == /\ (nxt < rsv => alive /\ rsv = Base(mark) /\ last < nxt /\ rsv - nxt < ival)
           /\ (nxt >= rsv => nxt = 0 /\ rsv = 0)
(* a crash (or any abandonment) wastes at most one interval; after a clean Release it wastes none *)
Waste == W >= 0 /\ W <= ival /\ (rel => W = 0)
(* ...and nothing else is ever wasted: the gap before each returned number is exactly what the    *)
(* incarnations abandoned in between wasted (so after Release+Restart the next number = last+1)   *)
GapExact == lastGap = lastAllow /\ lastGap >= 0
=========================================================================
