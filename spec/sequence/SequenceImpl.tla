---------------------------- MODULE SequenceImpl ----------------------------
(* Implementation-level model of kvstore.Sequence (property C07): the steps of Next / update() /   *)
(* Release as the code performs them, the object's mutex, several concurrent callers on ONE       *)
(* object, a crash (process stops, the object's memory is lost, the store survives) enabled        *)
(* between any two steps of any caller, a store write that may fail, and restarts with any         *)
(* interval.  Checked by TLC only (all interleavings for small constants); it is not bound to      *)
(* the code - the binding of the sequential behaviour is done by Sequence.tla.                     *)
(*                                                                                                 *)
(* Variant = "ok" is the code (after the Release guard fix).  The other variants are designs that  *)
(* look plausible and are wrong; TLC must find the reuse in each (negative controls):              *)
(*   "nomutex"           callers do not take the object's mutex                                    *)
(*   "reservedFirst"     update() sets seq.reserved before the store write (a failed write leaves  *)
(*                       a lease in memory that the store never recorded)                          *)
(*   "handFirst"         the number is handed out before update() writes the store                 *)
(*   "releaseUnguarded"  Release writes next also when nothing is leased (the defect fixed in      *)
(*                       hive.go by the C07 fix: commit "Sequence.Release must not roll ...")      *)
EXTENDS Integers, FiniteSets, TLC

CONSTANTS Procs, Intervals, MaxInc, MaxIssued, MaxFails, Variant

VARIABLES mark,       \* store: high-water mark, -1 = absent
          alive,      \* the process (and the object) is alive
          ival, next, reserved,   \* fields of the live object
          lock,       \* holder of the object's mutex, 0 = free
          pc, op,     \* per caller: program counter, current call
          issued, count, last, mono,  \* history: numbers returned, how many, latest, returned in increasing order
          m0, cnt0,   \* history: base mark at open / numbers handed out by this incarnation
          inc, fails
vars == <<mark, alive, ival, next, reserved, lock, pc, op, issued, count, last, mono, m0, cnt0, inc, fails>>

Base(m) == IF m = -1 THEN 0 ELSE m
Mutex == Variant # "nomutex"

Init == /\ mark = -1 /\ alive = TRUE /\ ival \in Intervals /\ next = 0 /\ reserved = 0 /\ lock = 0
        /\ pc = [p \in Procs |-> "idle"] /\ op = [p \in Procs |-> "none"]
        /\ issued = {} /\ count = 0 /\ last = -1 /\ mono = TRUE /\ m0 = 0 /\ cnt0 = 0 /\ inc = 1 /\ fails = 0

Goto(p, l) == pc' = [pc EXCEPT ![p] = l]
Hist == <<issued, count, last, mono, cnt0>>
Obj == <<ival, next, reserved>>

Call(p, o) == /\ alive /\ pc[p] = "idle"
              /\ (o = "Next" => count < MaxIssued)
              /\ op' = [op EXCEPT ![p] = o] /\ Goto(p, "lock")
              /\ UNCHANGED <<mark, alive, Obj, lock, Hist, m0, inc, fails>>

Lock(p) == /\ alive /\ pc[p] = "lock"
           /\ (IF Mutex THEN lock = 0 /\ lock' = p ELSE UNCHANGED lock)
           /\ Goto(p, IF op[p] = "Next" THEN "check" ELSE "rel")
           /\ UNCHANGED <<mark, alive, Obj, op, Hist, m0, inc, fails>>

(* Next: if seq.next >= seq.reserved { update() } *)
Check(p) == /\ alive /\ pc[p] = "check"
            /\ Goto(p, IF next >= reserved THEN "read" ELSE "hand")
            /\ UNCHANGED <<mark, alive, Obj, lock, op, Hist, m0, inc, fails>>

(* update(): value := store.Get(key); seq.next = value (0 when absent) *)
Read(p) == /\ alive /\ pc[p] = "read"
           /\ next' = Base(mark)
           /\ Goto(p, CASE Variant = "reservedFirst" -> "setres"
                        [] Variant = "handFirst" -> "hand1"
                        [] OTHER -> "write")
           /\ UNCHANGED <<mark, alive, ival, reserved, lock, op, Hist, m0, inc, fails>>

(* first number of the interval being leased ("handFirst" has already incremented next) *)
LeaseBase == IF Variant = "handFirst" THEN next - 1 ELSE next

(* update(): store.Set(key, next + interval) - may fail: update returns the error *)
Write(p) == /\ alive /\ pc[p] = "write"
            /\ \/ /\ mark' = LeaseBase + ival
                  /\ Goto(p, IF Variant = "reservedFirst" THEN "hand" ELSE "setres")
                  /\ UNCHANGED fails
               \/ /\ fails < MaxFails /\ fails' = fails + 1
                  /\ UNCHANGED mark /\ Goto(p, "unlock")
            /\ UNCHANGED <<alive, Obj, lock, op, Hist, m0, inc>>

(* update(): seq.reserved = next + interval *)
SetRes(p) == /\ alive /\ pc[p] = "setres"
             /\ reserved' = LeaseBase + ival
             /\ Goto(p, CASE Variant = "reservedFirst" -> "write"
                          [] Variant = "handFirst" -> "unlock"
                          [] OTHER -> "hand")
             /\ UNCHANGED <<mark, alive, ival, next, lock, op, Hist, m0, inc, fails>>

(* val := seq.next; seq.next++ ; the number counts as returned from here on *)
Hand(p) == /\ alive /\ pc[p] \in {"hand", "hand1"}
           /\ issued' = issued \cup {next} /\ count' = count + 1 /\ last' = next
           /\ mono' = (mono /\ next > last) /\ cnt0' = cnt0 + 1
           /\ next' = next + 1
           /\ Goto(p, IF pc[p] = "hand1" THEN "write" ELSE "unlock")
           /\ UNCHANGED <<mark, alive, ival, reserved, lock, op, m0, inc, fails>>

(* Release: (guard) ; store.Set(key, next) - may fail ; seq.reserved = next *)
Rel(p) == /\ alive /\ pc[p] = "rel"
          /\ IF Variant # "releaseUnguarded" /\ next >= reserved
               THEN Goto(p, "unlock") /\ UNCHANGED <<mark, fails>>
               ELSE \/ mark' = next /\ Goto(p, "relset") /\ UNCHANGED fails
                    \/ fails < MaxFails /\ fails' = fails + 1 /\ UNCHANGED mark /\ Goto(p, "unlock")
          /\ UNCHANGED <<alive, Obj, lock, op, Hist, m0, inc>>

RelSet(p) == /\ alive /\ pc[p] = "relset"
             /\ reserved' = next
             /\ Goto(p, "unlock")
             /\ UNCHANGED <<mark, alive, ival, next, lock, op, Hist, m0, inc, fails>>

Unlock(p) == /\ alive /\ pc[p] = "unlock"
             /\ (IF Mutex THEN lock' = 0 ELSE UNCHANGED lock)
             /\ Goto(p, "idle") /\ op' = [op EXCEPT ![p] = "none"]
             /\ UNCHANGED <<mark, alive, Obj, Hist, m0, inc, fails>>

(* the process stops at an arbitrary point: between any two steps above *)
Crash == /\ alive /\ alive' = FALSE
         /\ UNCHANGED <<mark, Obj, lock, pc, op, Hist, m0, inc, fails>>

(* a new process opens a new object over the same store *)
Restart(i) == /\ ~alive /\ inc < MaxInc
              /\ alive' = TRUE /\ ival' = i /\ next' = 0 /\ reserved' = 0 /\ lock' = 0
              /\ pc' = [p \in Procs |-> "idle"] /\ op' = [p \in Procs |-> "none"]
              /\ m0' = Base(mark) /\ cnt0' = 0 /\ inc' = inc + 1
              /\ UNCHANGED <<mark, issued, count, last, mono, fails>>

Next == \/ \E p \in Procs : \/ Call(p, "Next") \/ Call(p, "Release")
                            \/ Lock(p) \/ Check(p) \/ Read(p) \/ Write(p) \/ SetRes(p) \/ Hand(p)
                            \/ Rel(p) \/ RelSet(p) \/ Unlock(p)
        \/ Crash
        \/ \E i \in Intervals : Restart(i)
Spec == Init /\ [][Next]_vars

Critical == {"check", "read", "write", "setres", "hand", "hand1", "rel", "relset", "unlock"}

TypeOK == /\ mark \in (Nat \cup {-1}) /\ next \in Nat /\ reserved \in Nat /\ lock \in (Procs \cup {0})
          /\ count \in 0..(MaxIssued + Cardinality(Procs)) /\ inc \in 1..MaxInc
NoReuse == Cardinality(issued) = count
Increasing == mono
MutualExclusion == Mutex => Cardinality({p \in Procs : pc[p] \in Critical}) <= 1
BelowMark == \A n \in issued : n < Base(mark)
(* what the incarnation would waste if it stopped now never exceeds one interval *)
WasteBound == LET w == Base(mark) - m0 - cnt0 IN w >= 0 /\ w <= ival
(* a lease in memory is covered by the store whenever a caller can look at it (Release lowers the mark *)
(* one step before it empties the lease, inside its critical section)                                 *)
LeaseCovered == (alive /\ \A p \in Procs : pc[p] # "relset") => (next < reserved => reserved <= Base(mark))
=============================================================================
