CONSTANTS
  Intervals = {1, 2, 3}
  MaxInc = 4
  MaxIssued = 8
INVARIANTS TypeOK NoReuse Increasing BelowMark LeaseOK Waste GapExact
VIEW FullView
