CONSTANTS
  Procs = {1, 2}
  Intervals = {1, 2, 3}
  MaxInc = 4
  MaxIssued = 5
  MaxFails = 1
  Variant = "ok"
INVARIANTS TypeOK NoReuse Increasing MutualExclusion BelowMark WasteBound LeaseCovered
