CONSTANTS
  Intervals = {1, 2, 3}
  MaxInc = 5
  MaxIssued = 10
INVARIANTS TypeOK NoReuse Increasing BelowMark LeaseOK Waste GapExact
VIEW FullView
