CONSTANTS
  Intervals = {1, 2, 3}
  MaxInc = 4
  MaxIssued = 8
