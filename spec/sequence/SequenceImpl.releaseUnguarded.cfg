CONSTANTS
  Procs = {1, 2}
  Intervals = {1, 2}
  MaxInc = 3
  MaxIssued = 4
  MaxFails = 1
  Variant = "releaseUnguarded"
INVARIANTS NoReuse
