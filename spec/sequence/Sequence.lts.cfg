CONSTANTS
  Intervals = {1, 2, 3}
  MaxInc = 3
  MaxIssued = 5
