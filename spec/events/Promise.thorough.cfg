CONSTANTS
  Scope = "thorough"
INVARIANTS TypeOK AtMostOnce ExactlyOnce NothingEarly
PROPERTIES ValueOK
VIEW MCView
