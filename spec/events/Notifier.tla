------------------------------ MODULE Notifier ------------------------------
(* runtime/valuenotifier at the level of its API, observed at quiescent points (property C15, last        *)
(* sentence: "a value-notifier listener's Wait returns success only if Notify for its value was called     *)
(* after the listener was created and before it was deregistered").  Listeners get the ids 1,2,.. in the    *)
(* order they are created (several per value, also again for a value that was already notified).           *)
(* Wait blocks a harness thread; Notify / Deregister / cancelling the Wait's context wake it.               *)
(* Documented contract used for the results: Wait on a deregistered listener fails with                    *)
(* ErrListenerDeregistered; a Wait that returns (for whatever reason) deregisters its listener; a waiting   *)
(* listener fails when it is deregistered.                                                                 *)
EXTENDS Integers, Sequences, FiniteSets, SequencesExt, TLC

CONSTANTS Scope     \* "lts" | "mc" | "thorough" | "trace"
VARIABLES cfg,
          ls,       \* sequence of <<value, notified, deregistered>> per listener
          w,        \* thread -> listener it is blocked on in Wait (0 = idle)
          ev
vars == <<cfg, ls, w, ev>>
View == <<cfg, ls, w>>

Threads == {1, 2}
SSeq(S) == SetToSortSeq(S, <)
Bd(nl, nv) == [nl |-> nl, nv |-> nv]
B == CASE Scope \in {"lts", "lts2"} -> Bd(3, 2) [] Scope = "mc" -> Bd(4, 2) [] Scope = "thorough" -> Bd(5, 2) [] Scope = "trace" -> Bd(8, 3)
Cfgs == IF Scope = "lts" THEN {Bd(3, 1), Bd(2, 2)} ELSE {B}
Vals == 1..cfg.nv

Init == /\ cfg \in Cfgs /\ ls = <<>> /\ w = [t \in Threads |-> 0] /\ ev = [op |-> "reset", cfg |-> cfg]

V(l) == ls[l][1]
Notified(l) == ls[l][2]
Dereg(l) == ls[l][3]
Obs(ww) == [blocked |-> SSeq({t \in Threads : ww[t] # 0}), on |-> <<ww[1], ww[2]>>]
(* the threads in T return r; rets = sorted <<thread, result>> *)
Rets(T, r) == [i \in 1..Cardinality(T) |-> <<SSeq(T)[i], r>>]
LowIdle == CHOOSE x \in Threads : w[x] = 0 /\ \A y \in Threads : w[y] = 0 => x <= y

Do(s) ==
  CASE s.op = "reset" -> /\ cfg' = s.cfg /\ ls' = <<>> /\ w' = [t \in Threads |-> 0] /\ ev' = s
    [] s.op = "Listener" ->      \* Listener(s.v): a new listener
         /\ Len(ls) < cfg.nl /\ UNCHANGED <<cfg, w>>
         /\ ls' = Append(ls, <<s.v, FALSE, FALSE>>)
         /\ ev' = [res |-> [id |-> Len(ls) + 1, rets |-> <<>>], st |-> Obs(w)] @@ s
    [] s.op = "Notify" ->        \* Notify(s.v): the listeners of s.v that exist and are not deregistered are notified
         /\ UNCHANGED cfg
         /\ LET hit == {l \in DOMAIN ls : V(l) = s.v /\ ~Dereg(l)}
                woken == {t \in Threads : w[t] \in hit} IN
            /\ ls' = [l \in DOMAIN ls |-> IF l \in hit THEN <<V(l), TRUE, \E t \in woken : w[t] = l>> ELSE ls[l]]
            /\ w' = [t \in Threads |-> IF t \in woken THEN 0 ELSE w[t]]
            /\ ev' = [res |-> [id |-> 0, rets |-> Rets(woken, "ok")], st |-> Obs(w')] @@ s
    [] s.op = "Deregister" ->    \* listener s.l .Deregister() (any number of times)
         /\ s.l \in DOMAIN ls /\ UNCHANGED cfg
         /\ LET woken == IF Dereg(s.l) THEN {} ELSE {t \in Threads : w[t] = s.l} IN
            /\ ls' = [ls EXCEPT ![s.l] = <<@[1], @[2], TRUE>>]
            /\ w' = [t \in Threads |-> IF t \in woken THEN 0 ELSE w[t]]
            /\ ev' = [res |-> [id |-> 0, rets |-> Rets(woken, "deregistered")], st |-> Obs(w')] @@ s
    [] s.op = "Wait" ->          \* the lowest idle thread calls listener s.l .Wait(ctx)
         /\ s.l \in DOMAIN ls /\ \E t \in Threads : w[t] = 0 /\ UNCHANGED cfg
         /\ LET t == LowIdle IN
            IF Dereg(s.l) THEN /\ UNCHANGED <<ls, w>>
                               /\ ev' = [res |-> [id |-> 0, rets |-> <<<<t, "deregistered">>>>], st |-> Obs(w)] @@ s
            ELSE IF Notified(s.l) THEN /\ UNCHANGED w /\ ls' = [ls EXCEPT ![s.l] = <<@[1], @[2], TRUE>>]
                                       /\ ev' = [res |-> [id |-> 0, rets |-> <<<<t, "ok">>>>], st |-> Obs(w)] @@ s
            ELSE /\ UNCHANGED ls /\ w' = [w EXCEPT ![t] = s.l]
                 /\ ev' = [res |-> [id |-> 0, rets |-> <<>>], st |-> Obs(w')] @@ s
    [] s.op = "Cancel" ->        \* the context of the Wait of thread s.t is cancelled: it returns the context's error and its
                                 \* listener is deregistered (which fails the other thread if it waits on the same listener)
         /\ w[s.t] # 0 /\ UNCHANGED cfg
         /\ LET l == w[s.t]
                others == {t \in Threads : t # s.t /\ w[t] = l} IN
            /\ ls' = [ls EXCEPT ![l] = <<@[1], @[2], TRUE>>]
            /\ w' = [t \in Threads |-> IF w[t] = l THEN 0 ELSE w[t]]
            /\ ev' = [res |-> [id |-> 0, rets |-> SetToSortSeq({<<s.t, "canceled">>} \cup {<<t, "deregistered">> : t \in others},
                                                              LAMBDA x, y : x[1] < y[1])],
                      st |-> Obs(w')] @@ s

Stimuli == [op : {"Listener", "Notify"}, v : Vals] \cup [op : {"Deregister", "Wait"}, l : 1..cfg.nl] \cup [op : {"Cancel"}, t : Threads]
Next == \E s \in Stimuli : Do(s)
Spec == Init /\ [][Next]_vars

(* ---------------- the property, stated on the model ---------------- *)
TypeOK == /\ Len(ls) <= cfg.nl /\ \A t \in Threads : w[t] \in 0..Len(ls)
          /\ \A t \in Threads : w[t] # 0 => ~Dereg(w[t]) /\ ~Notified(w[t])      \* nobody stays blocked on a notified / deregistered listener
(* Wait = ok only with a Notify of the listener's value inside its window: the notified flag is set by exactly those Notify calls *)
NotifiedInWindow == [][ev'.op # "reset" => \A l \in DOMAIN ls : (Notified(l)' /\ ~Notified(l)) => (ev'.op = "Notify" /\ ev'.v = V(l) /\ ~Dereg(l))]_vars
OkOnlyIfNotified == [][ev'.op # "reset" => \A i \in DOMAIN ev'.res.rets : ev'.res.rets[i][2] = "ok" =>
                          \E l \in DOMAIN ls' : Notified(l)' /\ (ev'.op = "Wait" => l = ev'.l)]_vars
=============================================================================
