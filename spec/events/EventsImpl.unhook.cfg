SPECIFICATION Spec
CONSTANTS
  NT = 2
  NH = 3
  EMs = {0}
  HMs = {0, 1}
  Scripts = {"none", "12", "21", "2", "23", "123"}
  Variant = "code"
INVARIANTS MaxCount NoCallAfterUnhook ExactCount
PROPERTIES Terminates
