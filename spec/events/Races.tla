------------------------------- MODULE Races -------------------------------
(* Trace specification for FREE-RUNNING concurrent executions of runtime/event, runtime/promise and       *)
(* runtime/valuenotifier (property C15 "under any concurrency").  The driver (harness/sut/events/race.go)  *)
(* runs real goroutines against the real objects and appends events to one log under a mutex: "begin"     *)
(* before a call, "end" after it returned, callback events inside the callback.  Each arm's GUARD is the    *)
(* property: TLC rejects the trace at the first event that is not allowed.  Soundness of the log order: a   *)
(* "begin" that is logged was logged before the call started, an "end" after it returned, so              *)
(* "x.end before y.begin in the log" implies x returned before y was called (never the other way round).   *)
(*                                                                                                         *)
(* cfg.kind:                                                                                               *)
(*  "evmax"    one event per ROUND: k goroutines released together call Trigger(1..k) once each on an event  *)
(*             with WithMaxTriggerCount(em) carrying hooks with WithMaxTriggerCount(hm[h]); cnt[h][a] =    *)
(*             how often hook h was invoked with argument a.                                               *)
(*  "evchurn"  Hook / Unhook / Trigger from several goroutines, calls logged inside the hooks.              *)
(*  "promise"  OnTrigger / unsubscribe / Trigger from several goroutines on one promise event.              *)
(*  "notifier" Listener / Notify / Deregister / Wait from several goroutines on a few values.              *)
(*  "poolq"    forced schedule: hooks that run on a one-worker pool; the worker is held inside the first     *)
(*             call while further Triggers queue their calls; then hooks are unhooked (explicitly or by      *)
(*             using up a max trigger count); the worker is released and the pool drains. Every call that    *)
(*             a Trigger owed when it was called is delivered exactly once, however late it runs.            *)
EXTENDS Integers, Sequences, FiniteSets, TLC

VARIABLES cfg, S, ev
vars == <<cfg, S, ev>>
View == <<cfg, S>>
Cfgs == [kind : {"evmax", "evchurn", "promise", "notifier", "poolq"}]

Start(c) ==
  CASE c.kind = "evmax"    -> [rounds |-> 0]
    [] c.kind = "evchurn"  -> [HB |-> {}, HE |-> {}, UB |-> {}, UE |-> {}, TB |-> {}, TE |-> {}, must |-> {}, forb |-> {}, called |-> {}]
    [] c.kind = "promise"  -> [RB |-> {}, RE |-> {}, UB |-> {}, early |-> {}, ntb |-> 0, TV |-> {}, trues |-> 0, win |-> {}, ran |-> {}, vals |-> {}]
    [] c.kind = "poolq"    -> [H |-> {}, mx |-> <<>>, UB |-> {}, nt |-> 0, owed |-> {}, called |-> {}]
    [] c.kind = "notifier" -> [LV |-> {}, LE |-> {}, NF |-> {}, okn |-> {}, DB |-> {}, DE |-> {}, fq |-> {}, fin |-> {}, W |-> {}, CN |-> {}, FC |-> {}]
Init == /\ cfg \in Cfgs /\ S = Start(cfg) /\ ev = [op |-> "reset", cfg |-> cfg]

Min2(a, b) == IF a < b THEN a ELSE b
Count(seq, x) == Cardinality({i \in DOMAIN seq : seq[i] = x})

(* ---------------- evmax: exactly min(n, #triggers) ---------------- *)
RoundOK(s) ==
  LET K == 1..s.k
      Hs == DOMAIN s.hm
      D == {a \in K : \E h \in Hs : s.cnt[h][a] > 0}                 \* triggers that were delivered to some hook
      nd == IF s.em = 0 THEN s.k ELSE Min2(s.em, s.k) IN
  /\ DOMAIN s.cnt = Hs /\ \A h \in Hs : DOMAIN s.cnt[h] = K
  /\ \A h \in Hs : \A a \in K : s.cnt[h][a] <= 1                      \* exactly once per trigger
  /\ (Hs # {} /\ \E h \in Hs : s.hm[h] = 0) => Cardinality(D) = nd   \* the event fires for exactly min(em, k) triggers
  /\ Cardinality(D) <= nd
  /\ \A h \in Hs : Cardinality({a \in K : s.cnt[h][a] = 1}) = (IF s.hm[h] = 0 THEN nd ELSE Min2(s.hm[h], nd))
  /\ s.tc = s.k                                                        \* TriggerCount() = number of Trigger calls

(* ---------------- evchurn ---------------- *)
Pairs(Hs, As) == {<<h, a>> : h \in Hs, a \in As}
InFlight == S.TB \ S.TE

(* ---------------- notifier helpers ---------------- *)
ValOf(l) == (CHOOSE p \in S.LV : p[1] = l)[2]

Do(s) ==
  CASE s.op = "reset" -> cfg' = s.cfg /\ S' = Start(s.cfg) /\ ev' = s
    [] s.op = "panic" -> FALSE /\ UNCHANGED vars        \* the code under test panicked: never allowed
    (* ===== evmax ===== *)
    [] s.op = "round" -> /\ cfg.kind = "evmax" /\ RoundOK(s) /\ UNCHANGED cfg /\ S' = [S EXCEPT !.rounds = 1 - @] /\ ev' = s
    (* ===== evchurn ===== *)
    [] s.op = "hb" -> /\ cfg.kind = "evchurn" /\ UNCHANGED cfg /\ S' = [S EXCEPT !.HB = @ \cup {s.h}] /\ ev' = s
    [] s.op = "he" -> /\ s.h \in S.HB /\ UNCHANGED cfg /\ S' = [S EXCEPT !.HE = @ \cup {s.h}] /\ ev' = s
    [] s.op = "ub" -> \* Unhook(h) is about to be called: triggers in flight are no longer obliged to reach h
                      /\ s.h \in S.HE /\ UNCHANGED cfg
                      /\ S' = [S EXCEPT !.UB = @ \cup {s.h}, !.must = @ \ Pairs({s.h}, InFlight)] /\ ev' = s
    [] s.op = "ue" -> /\ s.h \in S.UB /\ UNCHANGED cfg /\ S' = [S EXCEPT !.UE = @ \cup {s.h}] /\ ev' = s
    [] s.op = "tb" -> \* Trigger(a) is about to be called: it must invoke every hook whose Hook() has returned and whose
                      \* Unhook() has not been called, and must not invoke a hook whose Unhook() has returned
                      /\ cfg.kind = "evchurn" /\ s.a \notin S.TB /\ UNCHANGED cfg
                      /\ S' = [S EXCEPT !.TB = @ \cup {s.a}, !.must = @ \cup Pairs(S.HE \ S.UB, {s.a}), !.forb = @ \cup Pairs(S.UE, {s.a})]
                      /\ ev' = s
    [] s.op = "call" -> \* hook h invoked with argument a (logged inside the callback)
                      /\ cfg.kind = "evchurn" /\ UNCHANGED cfg
                      /\ s.a \in InFlight                          \* only while that Trigger is running
                      /\ s.h \in S.HB                              \* only hooks that are (being) attached
                      /\ <<s.h, s.a>> \notin S.called              \* exactly once
                      /\ <<s.h, s.a>> \notin S.forb                \* not after it was unhooked
                      /\ S' = [S EXCEPT !.called = @ \cup {<<s.h, s.a>>}] /\ ev' = s
    [] s.op = "te" -> \* Trigger(a) returned: every obligation is met
                      /\ s.a \in InFlight /\ UNCHANGED cfg
                      /\ \A p \in S.must : p[2] = s.a => p \in S.called
                      /\ S' = [S EXCEPT !.TE = @ \cup {s.a}] /\ ev' = s
    (* ===== poolq ===== *)
    [] s.op = "qhook" -> \* pooled hook h is attached (Hook returned), with max trigger count s.m (0 = none)
                      /\ cfg.kind = "poolq" /\ s.h \notin S.H /\ UNCHANGED cfg
                      /\ S' = [S EXCEPT !.H = @ \cup {s.h}, !.mx = @ @@ (s.h :> s.m)] /\ ev' = s
    [] s.op = "qtrig" -> \* Trigger(a) was called and has returned: it owes a call to every hook that is attached, not unhooked,
                      \* and whose max trigger count is not used up by the triggers before it
                      /\ cfg.kind = "poolq" /\ UNCHANGED cfg
                      /\ LET live == {h \in S.H \ S.UB : S.mx[h] = 0 \/ S.nt < S.mx[h]} IN
                         S' = [S EXCEPT !.nt = @ + 1, !.owed = @ \cup Pairs(live, {s.a})]
                      /\ ev' = s
    [] s.op = "qunhook" -> \* Unhook(h) was called and has returned (no Trigger is running): later triggers owe it nothing
                      /\ cfg.kind = "poolq" /\ s.h \in S.H /\ UNCHANGED cfg
                      /\ S' = [S EXCEPT !.UB = @ \cup {s.h}] /\ ev' = s
    [] s.op = "qcall" -> \* hook h runs with argument a on the pool (logged inside the callback)
                      /\ cfg.kind = "poolq" /\ UNCHANGED cfg
                      /\ <<s.h, s.a>> \in S.owed /\ <<s.h, s.a>> \notin S.called       \* only what is owed, exactly once
                      /\ S' = [S EXCEPT !.called = @ \cup {<<s.h, s.a>>}] /\ ev' = s
    [] s.op = "qdrained" -> \* the pool has no pending task and every goroutine is parked: everything owed was delivered
                      /\ cfg.kind = "poolq" /\ UNCHANGED <<cfg, S>> /\ s.hung = FALSE
                      /\ S.owed = S.called
                      /\ ev' = s
    (* ===== promise ===== *)
    [] s.op = "rb" -> /\ cfg.kind = "promise" /\ UNCHANGED cfg /\ S' = [S EXCEPT !.RB = @ \cup {s.c}] /\ ev' = s
    [] s.op = "re" -> /\ s.c \in S.RB /\ UNCHANGED cfg /\ S' = [S EXCEPT !.RE = @ \cup {s.c}] /\ ev' = s
    [] s.op = "pub" -> /\ s.c \in S.RE /\ UNCHANGED cfg /\ S' = [S EXCEPT !.UB = @ \cup {s.c}] /\ ev' = s
    [] s.op = "pue" -> \* unsubscribe returned; "early" = before any Trigger was called: the callback must never run
                      /\ s.c \in S.UB /\ UNCHANGED cfg
                      /\ S' = [S EXCEPT !.early = IF S.ntb = 0 THEN @ \cup {s.c} ELSE @] /\ ev' = s
    [] s.op = "ptb" -> /\ cfg.kind = "promise" /\ UNCHANGED cfg
                      /\ S' = [S EXCEPT !.ntb = @ + 1, !.TV = @ \cup {<<s.t, s.v>>}] /\ ev' = s
    [] s.op = "pte" -> \* Trigger returned s.r: only one Trigger call wins
                      /\ \E p \in S.TV : p[1] = s.t
                      /\ UNCHANGED cfg /\ (s.r => S.trues = 0)
                      /\ S' = [S EXCEPT !.trues = IF s.r THEN @ + 1 ELSE @,
                                        !.win = IF s.r THEN {p[2] : p \in {q \in S.TV : q[1] = s.t}} ELSE @] /\ ev' = s
    [] s.op = "run" -> \* callback c runs with value v (logged inside the callback)
                      /\ cfg.kind = "promise" /\ UNCHANGED cfg
                      /\ s.c \in S.RB /\ s.c \notin S.ran            \* at most once
                      /\ S.ntb > 0                                   \* not before Trigger was called
                      /\ s.c \notin S.early                          \* not when unsubscribed before Trigger
                      /\ S' = [S EXCEPT !.ran = @ \cup {s.c}, !.vals = @ \cup {s.v}] /\ ev' = s
    [] s.op = "pfinal" -> \* everything has returned (s.hung = threads that did not)
                      /\ cfg.kind = "promise" /\ UNCHANGED <<cfg, S>> /\ s.hung = <<>>
                      /\ (S.ntb > 0 => S.trues = 1) /\ S.vals \subseteq S.win
                      /\ \A c \in S.RE : /\ c \in S.early => c \notin S.ran
                                         /\ (c \notin S.UB /\ S.ntb > 0) => c \in S.ran      \* exactly once
                      /\ ev' = s
    (* ===== notifier ===== *)
    [] s.op = "lb" -> \* Listener(v) is about to be called for listener l: a Notify(v) that is running now is inside its window
                      /\ cfg.kind = "notifier" /\ UNCHANGED cfg
                      /\ S' = [S EXCEPT !.LV = @ \cup {<<s.l, s.v>>}, !.okn = IF \E p \in S.NF : p[2] = s.v THEN @ \cup {s.l} ELSE @] /\ ev' = s
    [] s.op = "le" -> /\ \E p \in S.LV : p[1] = s.l /\ UNCHANGED cfg /\ S' = [S EXCEPT !.LE = @ \cup {s.l}] /\ ev' = s
    [] s.op = "nb" -> \* Notify(v) is about to be called: it is inside the window of the listeners of v that exist and whose
                      \* de-registration has not completed; it MUST wake those fully created with no de-registration begun
                      /\ cfg.kind = "notifier" /\ UNCHANGED cfg
                      /\ LET mine == {p[1] : p \in {q \in S.LV : q[2] = s.v}} IN
                         S' = [S EXCEPT !.NF = @ \cup {<<s.n, s.v>>}, !.okn = @ \cup (mine \ S.DE),
                                        !.fq = @ \cup {<<s.n, l>> : l \in (mine \cap S.LE) \ S.DB}]
                      /\ ev' = s
    [] s.op = "ne" -> /\ \E p \in S.NF : p[1] = s.n /\ UNCHANGED cfg
                      /\ S' = [S EXCEPT !.NF = {p \in @ : p[1] # s.n}, !.fin = @ \cup {p[2] : p \in {q \in S.fq : q[1] = s.n}}] /\ ev' = s
    [] s.op = "db" -> /\ s.l \in S.LE /\ UNCHANGED cfg /\ S' = [S EXCEPT !.DB = @ \cup {s.l}] /\ ev' = s
    [] s.op = "de" -> /\ s.l \in S.DB /\ UNCHANGED cfg /\ S' = [S EXCEPT !.DE = @ \cup {s.l}] /\ ev' = s
    [] s.op = "wb" -> /\ s.l \in S.LE /\ UNCHANGED cfg /\ S' = [S EXCEPT !.W = @ \cup {<<s.t, s.l>>}] /\ ev' = s
    [] s.op = "cancel" -> \* the context of thread t's Wait is cancelled (the driver does that only at the very end)
                      /\ cfg.kind = "notifier" /\ UNCHANGED cfg
                      /\ S' = [S EXCEPT !.CN = @ \cup {s.t}, !.FC = IF \E p \in S.W : p[1] = s.t /\ p[2] \in S.fin THEN @ \cup {s.t} ELSE @] /\ ev' = s
    [] s.op = "we" -> \* Wait of thread t on listener l returned r
                      /\ <<s.t, s.l>> \in S.W /\ UNCHANGED cfg
                      /\ s.r \in {"ok", "deregistered", "canceled"}
                      /\ s.r = "ok" => s.l \in S.okn                     \* THE PROPERTY: success only with a Notify inside the window
                      /\ s.r = "deregistered" => (s.l \in S.DB \/ \E p \in S.W : p[2] = s.l /\ p[1] # s.t)   \* no spurious failure
                      /\ s.r = "canceled" => (s.t \in S.CN /\ s.t \notin S.FC)                             \* no lost wake-up
                      /\ S' = [S EXCEPT !.W = @ \ {<<s.t, s.l>>}, !.DB = @ \cup {s.l}, !.DE = @ \cup {s.l}] /\ ev' = s
    [] s.op = "nfinal" -> /\ cfg.kind = "notifier" /\ UNCHANGED <<cfg, S>> /\ s.hung = <<>> /\ S.W = {} /\ ev' = s

(* the module is only used to validate recorded traces (INIT TInit / NEXT TNext are generated); a closed system is not needed *)
Next == UNCHANGED vars
Spec == Init /\ [][Next]_vars
TypeOK == cfg \in Cfgs
=============================================================================
