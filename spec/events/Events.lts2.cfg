CONSTANTS
  Scope = "lts2"
INVARIANTS TypeOK
