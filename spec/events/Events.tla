------------------------------- MODULE Events -------------------------------
(* runtime/event at the level of its API (property C15, first sentence), observed at quiescent points.   *)
(* Three events: "a" and "b" are plain, "c" can be linked (c.LinkTo(a|b|nil)).  Hooks get the ids 1..NH   *)
(* in the order they are attached (never reused), every Trigger stimulus gets a fresh argument (its       *)
(* number), so a call is identified by <<hook, argument>>.  A hook's callback can be a GATE (it parks      *)
(* until the harness releases it: the Trigger is then in flight while other calls are made) or can itself  *)
(* unhook / hook (re-entrancy).                                                                            *)
(*                                                                                                         *)
(* What a Trigger(e, x) has to do, as the property states it:                                              *)
(*   - every hook attached to e before the call began and not unhooked when its turn comes is invoked      *)
(*     exactly once with x, synchronous hooks in attachment order;                                         *)
(*   - a hook that was unhooked before its turn came is not invoked;                                       *)
(*   - a hook attached after the call began may or may not be invoked by it (two edges);                   *)
(*   - a hook / an event limited by WithMaxTriggerCount(n) fires for the first n triggers only;            *)
(*   - the link hook of c sits in its CURRENT target's attachment order and triggers c with x;             *)
(*   - pooled hooks (WithWorkerPool on the hook or inherited from the event) have run when the pool has    *)
(*     drained = at the quiescent point; their order is not prescribed (reported sorted).                  *)
EXTENDS Integers, Sequences, FiniteSets, SequencesExt, TLC

CONSTANTS Scope      \* "lts" | "mc" | "thorough" | "trace": how much of the space is explored (bounds per scenario family, below)
VARIABLES cfg,
          att,      \* event -> sequence of hook ids in attachment order (ids > NH: the link hook of c)
          hk,       \* sequence of hook tuples <<e, k, m, p, f>>: event, kind, max trigger count (0 = none), pool option, times fired
          ecnt,     \* event -> number of times Trigger was called on it
          link,     \* current link target of c: "a" | "b" | "none"
          nlink,    \* link hooks created so far
          ntrig,    \* Trigger stimuli so far
          fl,       \* thread -> <<stk, at>>: the frames of its Trigger in flight (<<>> = idle) and the gate hook it is parked in
          called,   \* history: set of <<hook, arg>> delivered so far (for the invariants only; not part of View / st)
          ev
vars == <<cfg, att, hk, ecnt, link, nlink, ntrig, fl, called, ev>>
View == <<cfg, att, hk, ecnt, link, nlink, ntrig, fl>>
MCView == <<View, called>>       \* exhaustive runs keep the history variable apart (ev is never read by Next)

Threads == {1, 2}
Evs == {"a", "b", "c"}
SSeq(S) == SetToSortSeq(S, <)

(* ---- configurations: a scenario family (which hook kinds / events are used) + event options ---- *)
Fams == {"reent", "gate", "link", "max", "pool"}
Small == Scope \in {"lts", "lts2"}                       \* reduced hook alphabets (lts2 = the thorough tier's LTS: deeper histories)
MaxMax == IF Small THEN 1 ELSE 2                        \* largest event-level WithMaxTriggerCount
(* bounds of one history, per family: hooks attached (ids 1..nh), LinkTo(target) calls (link hook ids NH+1..), Triggers; *)
(* they are part of cfg so that the adapter knows them                                                                   *)
NH == 8                                                 \* ids above NH are link hooks
NL == 4
Bd(nh, nl, tr) == [nh |-> nh, nl |-> nl, tr |-> tr]
B(f) == CASE Scope = "trace" -> Bd(6, 4, 8)
          [] Scope = "lts" -> (CASE f = "link" -> Bd(2, 2, 1) [] f = "pool" -> Bd(2, 0, 1) [] OTHER -> Bd(2, 0, 2))
          [] Scope = "lts2" -> (CASE f = "link" -> Bd(2, 2, 2) [] f = "pool" -> Bd(2, 1, 1) [] f = "reent" -> Bd(3, 0, 2) [] OTHER -> Bd(2, 0, 3))
          [] Scope = "mc" -> (CASE f = "link" -> Bd(2, 2, 1) [] f = "pool" -> Bd(2, 1, 1) [] f = "reent" -> Bd(3, 0, 2) [] OTHER -> Bd(2, 0, 2))
          [] Scope = "thorough" -> (CASE f = "link" -> Bd(2, 2, 2) [] f = "pool" -> Bd(3, 1, 2) [] OTHER -> Bd(3, 0, 3))
Cfg(f, ma, mc, ep) == [fam |-> f, ma |-> ma, mc |-> mc, ep |-> ep, nh |-> B(f).nh, nl |-> B(f).nl, tr |-> B(f).tr]
Cfgs == {Cfg(f, 0, 0, FALSE) : f \in {"reent", "gate"}}
        \cup {Cfg("link", 0, mc, FALSE) : mc \in IF Small THEN {0} ELSE {0, 1}}
        \cup {Cfg("max", ma, 0, FALSE) : ma \in 0..MaxMax}
        \cup {Cfg("pool", 0, 0, ep) : ep \in BOOLEAN}

H(e, k, m, p) == [op |-> "Hook", e |-> e, k |-> k, m |-> m, p |-> p]
(* Hook stimuli a family uses *)
HookStimuli(c) ==
  CASE c.fam = "reent" -> {H("a", k, 0, "inherit") : k \in {"plain", "unSelf", "unNext", "unSelfNext", "unNextSelf", "hookNew"}}
                          \cup (IF Small THEN {} ELSE {H("a", "unPrev", 0, "inherit"), H("a", "plain", 1, "inherit")})
    [] c.fam = "gate"  -> {H("a", "plain", 0, "inherit")} \cup {H("a", "gate", m, "inherit") : m \in {0, 1}}
                          \cup (IF Small THEN {} ELSE {H("a", "plain", 1, "inherit")})
    [] c.fam = "link"  -> {H("a", "plain", 0, "inherit"), H("c", "plain", 0, "inherit")}
                          \cup (IF Small THEN {} ELSE {H("c", "gate", 0, "inherit"), H("a", "gate", 0, "inherit"), H("b", "plain", 0, "inherit"), H("c", "plain", 1, "inherit")})
    [] c.fam = "max"   -> {H("a", "plain", m, "inherit") : m \in 0..2} \cup (IF Small THEN {} ELSE {H("a", "gate", 0, "inherit")})
    [] c.fam = "pool"  -> {H("a", "plain", 0, p) : p \in {"inherit", "pool", "sync"}}
                          \cup (IF Small THEN {} ELSE {H("a", "plain", 1, p) : p \in {"inherit", "pool"}} \cup {H("c", "plain", 0, p) : p \in {"inherit", "pool"}})
TrigEvents(c) == IF c.fam = "link" THEN Evs ELSE IF c.fam = "pool" THEN {"a", "c"} ELSE {"a"}
LinkTargets(c) == IF c.fam = "link" THEN {"a", "b", "none"} ELSE IF c.fam = "pool" THEN {"a", "none"} ELSE {}

EMax(e) == IF e = "a" THEN cfg.ma ELSE IF e = "c" THEN cfg.mc ELSE 0
EvPool(e) == cfg.ep /\ e = "a"                    \* event a was created WithWorkerPool(pool)
Idle == <<<<>>, 0>>                               \* fl[t] = <<frames, gate hook>>
(* (tuples, not records, inside the state: the LTS export identifies states by their printed form) *)
HE(r) == r[1]
HK(r) == r[2]
HM(r) == r[3]
HP(r) == r[4]
HF(r) == r[5]
FE(fr) == fr[1]
FA(fr) == fr[2]
FT(fr) == fr[3]
FS(fr) == fr[4]
FP(fr) == fr[5]

InitState(c) == /\ cfg = c /\ att = [e \in Evs |-> <<>>] /\ hk = <<>> /\ ecnt = [e \in Evs |-> 0]
                /\ link = "none" /\ nlink = 0 /\ ntrig = 0 /\ fl = [t \in Threads |-> Idle] /\ called = {}
Init == \E c \in Cfgs : InitState(c) /\ ev = [op |-> "reset", cfg |-> c]

(* ---- the machine: S = [att, hk, ecnt]; stk = frames <<e, a, todo, seen, p>> of nested Triggers (link => nested) ---- *)
Unhk(S, h) == IF h >= 1 /\ h <= Len(S.hk)
                THEN [S EXCEPT !.att[HE(S.hk[h])] = SelectSeq(@, LAMBDA x : x # h)] ELSE S
AddHook(S, e, k, m, p) == [S EXCEPT !.hk = Append(@, <<e, k, m, p, 0>>),
                                    !.att[e] = Append(@, Len(S.hk) + 1)]
(* what the callback of hook h (attached to e) does besides being logged *)
Act(S, h, e) ==
  LET k == HK(S.hk[h]) IN
  CASE k = "unSelf"     -> Unhk(S, h)
    [] k = "unNext"     -> Unhk(S, h + 1)
    [] k = "unSelfNext" -> Unhk(Unhk(S, h), h + 1)
    [] k = "unNextSelf" -> Unhk(Unhk(S, h + 1), h)
    [] k = "unPrev"     -> Unhk(S, h - 1)
    [] k = "hookNew"    -> IF Len(S.hk) < cfg.nh THEN AddHook(S, e, "plain", 0, "inherit") ELSE S
    [] OTHER            -> S
Pooled(S, h, e) == HP(S.hk[h]) = "pool" \/ (HP(S.hk[h]) = "inherit" /\ EvPool(e))

RECURSIVE Run(_, _, _, _), Visit(_, _, _, _, _, _), Begin(_, _, _, _, _, _, _)
(* Trigger(e, a) is called (p: from a pool worker): counted; dropped when the event's limit is used up *)
Begin(S, stk, log, plog, e, a, p) ==
  LET S1 == [S EXCEPT !.ecnt[e] = @ + 1] IN
  IF EMax(e) > 0 /\ S.ecnt[e] >= EMax(e) THEN Run(S1, stk, log, plog)
  ELSE Run(S1, Append(stk, <<e, a, S.att[e], S.att[e], p>>), log, plog)
(* the turn of hook h (still attached) in frame fr *)
Visit(S, stk, log, plog, h, fr) ==
  IF h > NH THEN Begin(S, stk, log, plog, "c", FA(fr), FP(fr) \/ EvPool(FE(fr)))     \* the link hook is c.Trigger
  ELSE LET r == S.hk[h] IN
    IF HM(r) > 0 /\ HF(r) >= HM(r) THEN Run(S, stk, log, plog)                       \* the hook's limit is used up
    ELSE LET S1 == IF HM(r) > 0 THEN [S EXCEPT !.hk[h][5] = @ + 1] ELSE S
             c  == <<h, FA(fr)>> IN
         IF FP(fr) \/ Pooled(S, h, FE(fr)) THEN Run(S1, stk, log, Append(plog, c))
         ELSE IF HK(r) = "gate" THEN {[S |-> S1, stk |-> stk, at |-> h, log |-> Append(log, c), plog |-> plog]}
         ELSE Run(Act(S1, h, FE(fr)), stk, Append(log, c), plog)
(* run until all frames are done or a gate hook parks the thread; the set of possible outcomes *)
Run(S, stk, log, plog) ==
  IF stk = <<>> THEN {[S |-> S, stk |-> <<>>, at |-> 0, log |-> log, plog |-> plog]}
  ELSE LET n == Len(stk)
           fr == stk[n]
           rest == SubSeq(stk, 1, n - 1) IN
    IF FT(fr) # <<>>
      THEN LET h == Head(FT(fr))
               fr1 == [fr EXCEPT ![3] = Tail(@)]
               stk1 == Append(rest, fr1) IN
           IF h \in ToSet(S.att[FE(fr)]) THEN Visit(S, stk1, log, plog, h, fr1)
           ELSE Run(S, stk1, log, plog)                                         \* unhooked before its turn: not invoked
      ELSE LET late == SelectSeq(S.att[FE(fr)], LAMBDA x : x \notin ToSet(FS(fr))) IN
           IF late = <<>> THEN Run(S, rest, log, plog)
           ELSE LET h == Head(late)
                    fr1 == [fr EXCEPT ![4] = Append(@, h)]
                    stk1 == Append(rest, fr1) IN
                Run(S, stk1, log, plog) \cup Visit(S, stk1, log, plog, h, fr1)  \* attached after the call began: either

Cur == [att |-> att, hk |-> hk, ecnt |-> ecnt]
Obs(S, f) == [blocked |-> SSeq({t \in Threads : f[t][1] # <<>>}), at |-> <<f[1][2], f[2][2]>>,
              tc |-> <<S.ecnt["a"], S.ecnt["b"], S.ecnt["c"]>>]
CallKey(c) == c[1] * 1000 + c[2]
SortCalls(q) == SetToSortSeq(ToSet(q), LAMBDA x, y : CallKey(x) < CallKey(y))

(* thread t ran the machine and ended in outcome o *)
Outcome(s, t, o) ==
  /\ att' = o.S.att /\ hk' = o.S.hk /\ ecnt' = o.S.ecnt
  /\ fl' = [fl EXCEPT ![t] = <<o.stk, o.at>>]
  /\ called' = called \cup ToSet(o.log) \cup ToSet(o.plog)
  /\ ev' = [res |-> [t |-> t, done |-> o.stk = <<>>, calls |-> o.log, pooled |-> SortCalls(o.plog)],
            st |-> Obs(o.S, fl')] @@ s
Quiet(s, S, r) == /\ att' = S.att /\ hk' = S.hk /\ ecnt' = S.ecnt /\ UNCHANGED <<fl, called>>
                  /\ ev' = [res |-> r, st |-> Obs(S, fl)] @@ s

Do(s) ==
  CASE s.op = "reset" -> /\ cfg' = s.cfg /\ att' = [e \in Evs |-> <<>>] /\ hk' = <<>> /\ ecnt' = [e \in Evs |-> 0]
                         /\ link' = "none" /\ nlink' = 0 /\ ntrig' = 0 /\ fl' = [t \in Threads |-> Idle] /\ called' = {} /\ ev' = s
    [] s.op = "Hook" ->        \* e.Hook(callback of kind k, WithMaxTriggerCount(m), pool option p); returns hook id
         /\ Len(hk) < cfg.nh /\ UNCHANGED <<cfg, link, nlink, ntrig>>
         /\ Quiet(s, AddHook(Cur, s.e, s.k, s.m, s.p), [id |-> Len(hk) + 1])
    [] s.op = "Unhook" ->      \* hook h .Unhook() (also for hooks that are already unhooked: no effect)
         /\ s.h \in 1..Len(hk) /\ UNCHANGED <<cfg, link, nlink, ntrig>>
         /\ Quiet(s, Unhk(Cur, s.h), [id |-> 0])
    [] s.op = "LinkTo" ->      \* c.LinkTo(s.to): the previous link hook is unhooked, a new one attached to the target
         /\ UNCHANGED <<cfg, ntrig>> /\ (s.to # "none" => nlink < cfg.nl)
         /\ LET S0 == IF link = "none" THEN Cur ELSE [Cur EXCEPT !.att[link] = SelectSeq(@, LAMBDA x : x <= NH)]
                S1 == IF s.to = "none" THEN S0 ELSE [S0 EXCEPT !.att[s.to] = Append(@, NH + nlink + 1)] IN
            /\ link' = s.to /\ nlink' = IF s.to = "none" THEN nlink ELSE nlink + 1
            /\ Quiet(s, S1, [id |-> 0])
    [] s.op = "Trigger" ->     \* the lowest idle harness thread calls s.e.Trigger(ntrig + 1)
         /\ ntrig < cfg.tr /\ \E t \in Threads : fl[t] = Idle
         /\ UNCHANGED <<cfg, link, nlink>> /\ ntrig' = ntrig + 1
         /\ LET t == CHOOSE x \in Threads : fl[x] = Idle /\ \A y \in Threads : fl[y] = Idle => x <= y IN
            \E o \in Begin(Cur, <<>>, <<>>, <<>>, s.e, ntrig + 1, FALSE) : Outcome(s, t, o)
    [] s.op = "Release" ->     \* the gate hook in which thread s.t is parked returns
         /\ fl[s.t] # Idle /\ UNCHANGED <<cfg, link, nlink, ntrig>>
         /\ \E o \in Run(Cur, fl[s.t][1], <<>>, <<>>) : Outcome(s, s.t, o)

Stimuli == HookStimuli(cfg) \cup [op : {"Unhook"}, h : IF Small /\ cfg.fam \in {"link", "pool"} THEN {} ELSE 1..cfg.nh] \cup [op : {"LinkTo"}, to : LinkTargets(cfg)]
           \cup [op : {"Trigger"}, e : TrigEvents(cfg)] \cup [op : {"Release"}, t : Threads]
Next == \E s \in Stimuli : Do(s)
Spec == Init /\ [][Next]_vars

(* ---------------- the property, stated on the model ---------------- *)
Attached(h) == h \in ToSet(att[HE(hk[h])])
Budget(h) == HM(hk[h]) = 0 \/ HF(hk[h]) < HM(hk[h])
CallsOf(e) == IF e.op \in {"Trigger", "Release"} THEN ToSet(e.res.calls) \cup ToSet(e.res.pooled) ELSE {}
TypeOK == /\ \A e \in Evs : \A i \in DOMAIN att[e] : att[e][i] \in 1..(NH + NL)
          /\ \A h \in DOMAIN hk : HF(hk[h]) <= HM(hk[h])
          /\ (link # "none" <=> \E x \in ToSet(att["a"]) \cup ToSet(att["b"]) : x > NH)
(* a limited hook fires at most n times; a limited event delivers at most n distinct triggers *)
MaxCount == /\ \A h \in DOMAIN hk : HM(hk[h]) > 0 => Cardinality({c \in called : c[1] = h}) <= HM(hk[h])
            /\ \A e \in Evs : EMax(e) > 0 => Cardinality({c[2] : c \in {d \in called : HE(hk[d[1]]) = e}}) <= EMax(e)
(* exactly once: a <<hook, argument>> pair is never delivered twice.  (Hooks of c are exempt once c was re-linked:   *)
(* a link hook attached while a trigger of the target is in flight is a hook "attached after the call began".)      *)
Strict(c) == HE(hk'[c[1]]) # "c" \/ nlink' <= 1
OncePerTrigger == [][ev'.op \in {"Trigger", "Release"} =>
                       /\ \A c \in CallsOf(ev') \cap called : ~Strict(c)
                       /\ (nlink' <= 1 => Len(ev'.res.calls) + Len(ev'.res.pooled) = Cardinality(CallsOf(ev')))]_vars
(* only hooks that are attached (or were attached during this very step) are invoked *)
NoCallAfterUnhook == [][\A c \in CallsOf(ev') : c[1] > Len(hk) \/ Attached(c[1])]_vars
(* completeness: a Trigger that returned in its own step has invoked every hook that was attached when it began,  *)
(* is still attached, and had budget - with this trigger's argument - unless the event's own limit was used up    *)
Complete == [][(ev'.op = "Trigger" /\ ev'.res.done) =>
                 LET e == ev'.e IN
                 (EMax(e) = 0 \/ ecnt[e] < EMax(e)) =>
                    \A h \in DOMAIN hk : (HE(hk[h]) = e /\ Attached(h) /\ h \in ToSet(att'[e]) /\ Budget(h))
                                            => <<h, ntrig'>> \in CallsOf(ev')]_vars
(* synchronous hooks of one event are invoked in attachment order (= id order) *)
InOrder == [][ev'.op \in {"Trigger", "Release"} =>
                \A i, j \in DOMAIN ev'.res.calls :
                   (i < j /\ ev'.res.calls[i][2] = ev'.res.calls[j][2] /\ HE(hk'[ev'.res.calls[i][1]]) = HE(hk'[ev'.res.calls[j][1]])
                      /\ Strict(ev'.res.calls[i]))
                      => ev'.res.calls[i][1] < ev'.res.calls[j][1]]_vars
(* link: with nothing in flight, hooks of c fire only for triggers of c or of its CURRENT target, and then they do *)
LinkExclusive == [][(ev'.op = "Trigger" /\ \A t \in Threads : fl[t] = Idle) =>
                      /\ (ev'.e # "c" /\ link # ev'.e) => \A c \in CallsOf(ev') : HE(hk'[c[1]]) # "c"
                      /\ (ev'.res.done /\ link = ev'.e /\ EMax("c") = 0 /\ EMax(ev'.e) = 0) =>
                            \A h \in DOMAIN hk : (HE(hk[h]) = "c" /\ Attached(h) /\ h \in ToSet(att'["c"]) /\ Budget(h))
                                                    => <<h, ntrig'>> \in CallsOf(ev')]_vars
=============================================================================
