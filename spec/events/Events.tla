------------------------------- MODULE Events -------------------------------
(* runtime/event at the level of its API (property C15, first sentence), observed at quiescent points.   *)
(* Three events: "a" and "b" are plain, "c" can be linked (c.LinkTo(a|b|nil)).  Hooks get the ids 1..NH   *)
(* in the order they are attached (never reused), every Trigger stimulus gets a fresh argument (its       *)
(* number), so a call is identified by <<hook, argument>>.  A hook's callback can be a GATE (it parks      *)
(* until the harness releases it: the Trigger is then in flight while other calls are made) or can itself  *)
(* unhook / hook (re-entrancy).                                                                            *)
(*                                                                                                         *)
(* What a Trigger(e, x) has to do, as the property states it:                                              *)
(*   - every hook attached to e before the call began and not unhooked when its turn comes is invoked      *)
(*     exactly once with x, synchronous hooks in attachment order;                                         *)
(*   - a hook that was unhooked before its turn came is not invoked;                                       *)
(*   - a hook attached after the call began may or may not be invoked by it (two edges);                   *)
(*   - a hook / an event limited by WithMaxTriggerCount(n) fires for the first n triggers only;            *)
(*   - the link hook of c sits in its CURRENT target's attachment order and triggers c with x;             *)
(*   - pooled hooks (WithWorkerPool on the hook or inherited from the event) have run when the pool has    *)
(*     drained = at the quiescent point; their order is not prescribed (reported sorted).                  *)
EXTENDS Integers, Sequences, FiniteSets, SequencesExt, TLC

CONSTANTS NH,        \* hooks attached in one history
          NL,        \* LinkTo(target) calls in one history (link hooks get the ids NH+1..NH+NL)
          MaxTrig,   \* Trigger stimuli in one history
          Fams,      \* scenario families explored: subset of {"reent","gate","link","max","pool"}
          MaxMax     \* largest event-level WithMaxTriggerCount in the "max" family
VARIABLES cfg,
          att,      \* event -> sequence of hook ids in attachment order (ids > NH: the link hook of c)
          hk,       \* sequence of hook records [e, k, m, p, f]: event, kind, max trigger count (0 = none), pool option, times fired
          ecnt,     \* event -> number of times Trigger was called on it
          link,     \* current link target of c: "a" | "b" | "none"
          nlink,    \* link hooks created so far
          ntrig,    \* Trigger stimuli so far
          fl,       \* thread -> [stk, at]: the frames of its Trigger in flight (<<>> = idle) and the gate hook it is parked in
          called,   \* history: set of <<hook, arg>> delivered so far (for the invariants only; not part of View / st)
          ev
vars == <<cfg, att, hk, ecnt, link, nlink, ntrig, fl, called, ev>>
View == <<cfg, att, hk, ecnt, link, nlink, ntrig, fl>>
MCView == <<View, called>>       \* exhaustive runs keep the history variable apart (ev is never read by Next)

Threads == {1, 2}
Evs == {"a", "b", "c"}
SSeq(S) == SetToSortSeq(S, <)

(* ---- configurations: a scenario family (which hook kinds / events are used) + event options ---- *)
Cfg(f, ma, mc, ep) == [fam |-> f, ma |-> ma, mc |-> mc, ep |-> ep]
Cfgs == {Cfg(f, 0, 0, FALSE) : f \in Fams \cap {"reent", "gate"}}
        \cup {Cfg("link", 0, mc, FALSE) : mc \in IF "link" \in Fams THEN {0, 1} ELSE {}}
        \cup {Cfg("max", ma, 0, FALSE) : ma \in IF "max" \in Fams THEN 0..MaxMax ELSE {}}
        \cup {Cfg("pool", 0, 0, ep) : ep \in IF "pool" \in Fams THEN BOOLEAN ELSE {}}

H(e, k, m, p) == [op |-> "Hook", e |-> e, k |-> k, m |-> m, p |-> p]
(* Hook stimuli a family uses *)
HookStimuli(c) ==
  CASE c.fam = "reent" -> {H("a", k, 0, "inherit") : k \in {"plain", "unSelf", "unNext", "unSelfNext", "unNextSelf", "unPrev", "hookNew"}}
                          \cup {H("a", "plain", 1, "inherit")}
    [] c.fam = "gate"  -> {H("a", "plain", m, "inherit") : m \in {0, 1}} \cup {H("a", "gate", m, "inherit") : m \in {0, 1}}
    [] c.fam = "link"  -> {H("a", k, 0, "inherit") : k \in {"plain", "gate"}} \cup {H("b", "plain", 0, "inherit")}
                          \cup {H("c", "plain", m, "inherit") : m \in {0, 1}} \cup {H("c", "gate", 0, "inherit")}
    [] c.fam = "max"   -> {H("a", "plain", m, "inherit") : m \in 0..2} \cup {H("a", "gate", 0, "inherit")}
    [] c.fam = "pool"  -> {H("a", "plain", m, p) : m \in {0, 1}, p \in {"inherit", "pool", "sync"}}
                          \cup {H("c", "plain", 0, p) : p \in {"inherit", "pool"}}
TrigEvents(c) == IF c.fam = "link" THEN Evs ELSE IF c.fam = "pool" THEN {"a", "c"} ELSE {"a"}
LinkTargets(c) == IF c.fam = "link" THEN {"a", "b", "none"} ELSE IF c.fam = "pool" THEN {"a", "none"} ELSE {}

EMax(e) == IF e = "a" THEN cfg.ma ELSE IF e = "c" THEN cfg.mc ELSE 0
EvPool(e) == cfg.ep /\ e = "a"                    \* event a was created WithWorkerPool(pool)
Idle == [stk |-> <<>>, at |-> 0]

InitState(c) == /\ cfg = c /\ att = [e \in Evs |-> <<>>] /\ hk = <<>> /\ ecnt = [e \in Evs |-> 0]
                /\ link = "none" /\ nlink = 0 /\ ntrig = 0 /\ fl = [t \in Threads |-> Idle] /\ called = {}
Init == \E c \in Cfgs : InitState(c) /\ ev = [op |-> "reset", cfg |-> c]

(* ---- the machine: S = [att, hk, ecnt]; stk = frames [e, a, todo, seen, p] of nested Triggers (link => nested) ---- *)
Unhk(S, h) == IF h >= 1 /\ h <= Len(S.hk)
                THEN [S EXCEPT !.att[S.hk[h].e] = SelectSeq(@, LAMBDA x : x # h)] ELSE S
AddHook(S, e, k, m, p) == [S EXCEPT !.hk = Append(@, [e |-> e, k |-> k, m |-> m, p |-> p, f |-> 0]),
                                    !.att[e] = Append(@, Len(S.hk) + 1)]
(* what the callback of hook h (attached to e) does besides being logged *)
Act(S, h, e) ==
  LET k == S.hk[h].k IN
  CASE k = "unSelf"     -> Unhk(S, h)
    [] k = "unNext"     -> Unhk(S, h + 1)
    [] k = "unSelfNext" -> Unhk(Unhk(S, h), h + 1)
    [] k = "unNextSelf" -> Unhk(Unhk(S, h + 1), h)
    [] k = "unPrev"     -> Unhk(S, h - 1)
    [] k = "hookNew"    -> IF Len(S.hk) < NH THEN AddHook(S, e, "plain", 0, "inherit") ELSE S
    [] OTHER            -> S
Pooled(S, h, e) == S.hk[h].p = "pool" \/ (S.hk[h].p = "inherit" /\ EvPool(e))

RECURSIVE Run(_, _, _, _), Visit(_, _, _, _, _, _), Begin(_, _, _, _, _, _, _)
(* Trigger(e, a) is called (p: from a pool worker): counted; dropped when the event's limit is used up *)
Begin(S, stk, log, plog, e, a, p) ==
  LET S1 == [S EXCEPT !.ecnt[e] = @ + 1] IN
  IF EMax(e) > 0 /\ S.ecnt[e] >= EMax(e) THEN Run(S1, stk, log, plog)
  ELSE Run(S1, Append(stk, [e |-> e, a |-> a, todo |-> S.att[e], seen |-> ToSet(S.att[e]), p |-> p]), log, plog)
(* the turn of hook h (still attached) in frame fr *)
Visit(S, stk, log, plog, h, fr) ==
  IF h > NH THEN Begin(S, stk, log, plog, "c", fr.a, fr.p \/ EvPool(fr.e))     \* the link hook is c.Trigger
  ELSE LET r == S.hk[h] IN
    IF r.m > 0 /\ r.f >= r.m THEN Run(S, stk, log, plog)                       \* the hook's limit is used up
    ELSE LET S1 == IF r.m > 0 THEN [S EXCEPT !.hk[h].f = @ + 1] ELSE S
             c  == <<h, fr.a>> IN
         IF fr.p \/ Pooled(S, h, fr.e) THEN Run(S1, stk, log, Append(plog, c))
         ELSE IF r.k = "gate" THEN {[S |-> S1, stk |-> stk, at |-> h, log |-> Append(log, c), plog |-> plog]}
         ELSE Run(Act(S1, h, fr.e), stk, Append(log, c), plog)
(* run until all frames are done or a gate hook parks the thread; the set of possible outcomes *)
Run(S, stk, log, plog) ==
  IF stk = <<>> THEN {[S |-> S, stk |-> <<>>, at |-> 0, log |-> log, plog |-> plog]}
  ELSE LET n == Len(stk)
           fr == stk[n]
           rest == SubSeq(stk, 1, n - 1) IN
    IF fr.todo # <<>>
      THEN LET h == Head(fr.todo)
               fr1 == [fr EXCEPT !.todo = Tail(@)]
               stk1 == Append(rest, fr1) IN
           IF h \in ToSet(S.att[fr.e]) THEN Visit(S, stk1, log, plog, h, fr1)
           ELSE Run(S, stk1, log, plog)                                         \* unhooked before its turn: not invoked
      ELSE LET late == SelectSeq(S.att[fr.e], LAMBDA x : x \notin fr.seen) IN
           IF late = <<>> THEN Run(S, rest, log, plog)
           ELSE LET h == Head(late)
                    fr1 == [fr EXCEPT !.seen = @ \cup {h}]
                    stk1 == Append(rest, fr1) IN
                Run(S, stk1, log, plog) \cup Visit(S, stk1, log, plog, h, fr1)  \* attached after the call began: either

Cur == [att |-> att, hk |-> hk, ecnt |-> ecnt]
Obs(S, f) == [blocked |-> SSeq({t \in Threads : f[t].stk # <<>>}), at |-> <<f[1].at, f[2].at>>,
              tc |-> <<S.ecnt["a"], S.ecnt["b"], S.ecnt["c"]>>]
CallKey(c) == c[1] * 1000 + c[2]
SortCalls(q) == SetToSortSeq(ToSet(q), LAMBDA x, y : CallKey(x) < CallKey(y))

(* thread t ran the machine and ended in outcome o *)
Outcome(s, t, o) ==
  /\ att' = o.S.att /\ hk' = o.S.hk /\ ecnt' = o.S.ecnt
  /\ fl' = [fl EXCEPT ![t] = [stk |-> o.stk, at |-> o.at]]
  /\ called' = called \cup ToSet(o.log) \cup ToSet(o.plog)
  /\ ev' = [res |-> [t |-> t, done |-> o.stk = <<>>, calls |-> o.log, pooled |-> SortCalls(o.plog)],
            st |-> Obs(o.S, fl')] @@ s
Quiet(s, S, r) == /\ att' = S.att /\ hk' = S.hk /\ ecnt' = S.ecnt /\ UNCHANGED <<fl, called>>
                  /\ ev' = [res |-> r, st |-> Obs(S, fl)] @@ s

Do(s) ==
  CASE s.op = "reset" -> /\ cfg' = s.cfg /\ att' = [e \in Evs |-> <<>>] /\ hk' = <<>> /\ ecnt' = [e \in Evs |-> 0]
                         /\ link' = "none" /\ nlink' = 0 /\ ntrig' = 0 /\ fl' = [t \in Threads |-> Idle] /\ called' = {} /\ ev' = s
    [] s.op = "Hook" ->        \* e.Hook(callback of kind k, WithMaxTriggerCount(m), pool option p); returns hook id
         /\ Len(hk) < NH /\ UNCHANGED <<cfg, link, nlink, ntrig>>
         /\ Quiet(s, AddHook(Cur, s.e, s.k, s.m, s.p), [id |-> Len(hk) + 1])
    [] s.op = "Unhook" ->      \* hook h .Unhook() (also for hooks that are already unhooked: no effect)
         /\ s.h \in 1..Len(hk) /\ UNCHANGED <<cfg, link, nlink, ntrig>>
         /\ Quiet(s, Unhk(Cur, s.h), [id |-> 0])
    [] s.op = "LinkTo" ->      \* c.LinkTo(s.to): the previous link hook is unhooked, a new one attached to the target
         /\ UNCHANGED <<cfg, ntrig>> /\ (s.to # "none" => nlink < NL)
         /\ LET S0 == IF link = "none" THEN Cur ELSE [Cur EXCEPT !.att[link] = SelectSeq(@, LAMBDA x : x <= NH)]
                S1 == IF s.to = "none" THEN S0 ELSE [S0 EXCEPT !.att[s.to] = Append(@, NH + nlink + 1)] IN
            /\ link' = s.to /\ nlink' = IF s.to = "none" THEN nlink ELSE nlink + 1
            /\ Quiet(s, S1, [id |-> 0])
    [] s.op = "Trigger" ->     \* the lowest idle harness thread calls s.e.Trigger(ntrig + 1)
         /\ ntrig < MaxTrig /\ \E t \in Threads : fl[t] = Idle
         /\ UNCHANGED <<cfg, link, nlink>> /\ ntrig' = ntrig + 1
         /\ LET t == CHOOSE x \in Threads : fl[x] = Idle /\ \A y \in Threads : fl[y] = Idle => x <= y IN
            \E o \in Begin(Cur, <<>>, <<>>, <<>>, s.e, ntrig + 1, FALSE) : Outcome(s, t, o)
    [] s.op = "Release" ->     \* the gate hook in which thread s.t is parked returns
         /\ fl[s.t] # Idle /\ UNCHANGED <<cfg, link, nlink, ntrig>>
         /\ \E o \in Run(Cur, fl[s.t].stk, <<>>, <<>>) : Outcome(s, s.t, o)

Stimuli == HookStimuli(cfg) \cup [op : {"Unhook"}, h : 1..NH] \cup [op : {"LinkTo"}, to : LinkTargets(cfg)]
           \cup [op : {"Trigger"}, e : TrigEvents(cfg)] \cup [op : {"Release"}, t : Threads]
Next == \E s \in Stimuli : Do(s)
Spec == Init /\ [][Next]_vars

(* ---------------- the property, stated on the model ---------------- *)
Attached(h) == h \in ToSet(att[hk[h].e])
CallsOf(e) == IF e.op \in {"Trigger", "Release"} THEN ToSet(e.res.calls) \cup ToSet(e.res.pooled) ELSE {}
TypeOK == /\ \A e \in Evs : \A i \in DOMAIN att[e] : att[e][i] \in 1..(NH + NL)
          /\ \A h \in DOMAIN hk : hk[h].f <= hk[h].m
          /\ (link # "none" <=> \E x \in ToSet(att["a"]) \cup ToSet(att["b"]) : x > NH)
(* a limited hook fires at most n times; a limited event delivers at most n distinct triggers *)
MaxCount == /\ \A h \in DOMAIN hk : hk[h].m > 0 => Cardinality({c \in called : c[1] = h}) <= hk[h].m
            /\ \A e \in Evs : EMax(e) > 0 => Cardinality({c[2] : c \in {d \in called : hk[d[1]].e = e}}) <= EMax(e)
(* exactly once: a <<hook, argument>> pair is never delivered twice.  (Hooks of c are exempt once c was re-linked:   *)
(* a link hook attached while a trigger of the target is in flight is a hook "attached after the call began".)      *)
Strict(c) == hk'[c[1]].e # "c" \/ nlink' <= 1
OncePerTrigger == [][ev'.op \in {"Trigger", "Release"} =>
                       /\ \A c \in CallsOf(ev') \cap called : ~Strict(c)
                       /\ (nlink' <= 1 => Len(ev'.res.calls) + Len(ev'.res.pooled) = Cardinality(CallsOf(ev')))]_vars
(* only hooks that are attached (or were attached during this very step) are invoked *)
NoCallAfterUnhook == [][\A c \in CallsOf(ev') : c[1] > Len(hk) \/ Attached(c[1])]_vars
(* completeness: a Trigger that returned in its own step has invoked every hook that was attached when it began,  *)
(* is still attached, and had budget - with this trigger's argument - unless the event's own limit was used up    *)
Complete == [][(ev'.op = "Trigger" /\ ev'.res.done) =>
                 LET e == ev'.e IN
                 (EMax(e) = 0 \/ ecnt[e] < EMax(e)) =>
                    \A h \in DOMAIN hk : (hk[h].e = e /\ Attached(h) /\ h \in ToSet(att'[e]) /\ (hk[h].m = 0 \/ hk[h].f < hk[h].m))
                                            => <<h, ntrig'>> \in CallsOf(ev')]_vars
(* synchronous hooks of one event are invoked in attachment order (= id order) *)
InOrder == [][ev'.op \in {"Trigger", "Release"} =>
                \A i, j \in DOMAIN ev'.res.calls :
                   (i < j /\ ev'.res.calls[i][2] = ev'.res.calls[j][2] /\ hk'[ev'.res.calls[i][1]].e = hk'[ev'.res.calls[j][1]].e
                      /\ Strict(ev'.res.calls[i]))
                      => ev'.res.calls[i][1] < ev'.res.calls[j][1]]_vars
(* link: with nothing in flight, hooks of c fire only for triggers of c or of its CURRENT target, and then they do *)
LinkExclusive == [][(ev'.op = "Trigger" /\ \A t \in Threads : fl[t] = Idle) =>
                      /\ (ev'.e # "c" /\ link # ev'.e) => \A c \in CallsOf(ev') : hk'[c[1]].e # "c"
                      /\ (ev'.res.done /\ link = ev'.e /\ EMax("c") = 0 /\ EMax(ev'.e) = 0) =>
                            \A h \in DOMAIN hk : (hk[h].e = "c" /\ Attached(h) /\ h \in ToSet(att'["c"]) /\ (hk[h].m = 0 \/ hk[h].f < hk[h].m))
                                                    => <<h, ntrig'>> \in CallsOf(ev')]_vars
=============================================================================
