CONSTANTS
  Scope = "mc"
INVARIANTS TypeOK
PROPERTIES NotifiedInWindow OkOnlyIfNotified
VIEW View
