INVARIANTS TypeOK
