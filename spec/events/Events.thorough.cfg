CONSTANTS
  Scope = "thorough"
INVARIANTS TypeOK MaxCount
PROPERTIES OncePerTrigger NoCallAfterUnhook Complete InOrder LinkExclusive
VIEW MCView
