CONSTANTS
  Scope = "lts"
INVARIANTS TypeOK AtMostOnce ExactlyOnce NothingEarly
