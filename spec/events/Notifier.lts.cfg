CONSTANTS
  Scope = "lts"
INVARIANTS TypeOK
