SPECIFICATION Spec
CONSTANTS
  NT = 3
  NH = 1
  EMs = {0, 1, 2}
  HMs = {0, 1, 2}
  Scripts = {"none"}
  Variant = "load_then_add"
INVARIANTS MaxCount NoCallAfterUnhook ExactCount
PROPERTIES Terminates
