CONSTANTS
  Scope = "mc"
INVARIANTS TypeOK AtMostOnce ExactlyOnce NothingEarly
PROPERTIES ValueOK
VIEW MCView
