SPECIFICATION Spec
CONSTANTS
  NT = 3
  NH = 1
  EMs = {0, 1, 2}
  HMs = {0, 1, 2}
  Scripts = {"none"}
  Variant = "code"
INVARIANTS MaxCount NoCallAfterUnhook ExactCount
PROPERTIES Terminates
