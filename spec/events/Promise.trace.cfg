CONSTANTS
  Scope = "trace"
INVARIANTS TypeOK AtMostOnce ExactlyOnce NothingEarly
