SPECIFICATION Spec
CONSTANTS
  NT = 2
  NH = 3
  EMs = {0}
  HMs = {0}
  Scripts = {"12", "21", "123"}
  Variant = "code"
INVARIANTS MaxCount NoCallAfterUnhook ExactCount
PROPERTIES Terminates
