----------------------------- MODULE EventsImpl -----------------------------
(* Implementation-level model of runtime/event Trigger / Unhook (pattern 2: all interleavings, TLC only).  *)
(* The hooks live in an ordered map = doubly linked list; Trigger walks it WITHOUT holding a lock between   *)
(* two steps (orderedmap.ForEach reads "next" after the callback returned), a removed entry keeps its next   *)
(* pointer.  Trigger counting: one atomic Add per trigger, compared with the limit.  Unhook: set the hook's  *)
(* unhooked flag, delete the entry.  NT goroutines call Trigger once each, one goroutine unhooks the hooks   *)
(* of a script in order.                                                                                     *)
(* Variant = "code"            what /repo does now                                                           *)
(*           "load_then_add"   the limit is tested with Load and the counter incremented afterwards          *)
(*                             (Appendix B seeded defect) - must violate MaxCount                            *)
(*           "no_flag"         Trigger does not look at the unhooked flag (the code before fix b7f1acb)      *)
(*                             - must violate NoCallAfterUnhook                                              *)
EXTENDS Integers, Sequences, FiniteSets, TLC

CONSTANTS NT, NH, EMs, HMs, Scripts, Variant
VARIABLES em, hm, script,          \* chosen initially: event limit, hook limits, the unhooker's script (string of hook digits)
          head, nxt, prv, inl,     \* the list
          ec, hc,                  \* atomic trigger counters (event, hooks)
          uflag, uret,             \* hook -> unhooked flag set / an Unhook() of the hook has returned
          pc, cur, stale,          \* triggerers
          upc, ui,                 \* unhooker
          called, deliv, bad
vars == <<em, hm, script, head, nxt, prv, inl, ec, hc, uflag, uret, pc, cur, stale, upc, ui, called, deliv, bad>>

T == 1..NT
Hk == 1..NH
ScriptSeq(s) == CASE s = "none" -> <<>> [] s = "1" -> <<1>> [] s = "2" -> <<2>> [] s = "12" -> <<1, 2>> [] s = "21" -> <<2, 1>>
                  [] s = "23" -> <<2, 3>> [] s = "123" -> <<1, 2, 3>>
Scr == ScriptSeq(script)

Init == /\ em \in EMs /\ hm \in [Hk -> HMs] /\ script \in Scripts
        /\ head = 1 /\ nxt = [h \in Hk |-> IF h < NH THEN h + 1 ELSE 0] /\ prv = [h \in Hk |-> h - 1] /\ inl = [h \in Hk |-> TRUE]
        /\ ec = 0 /\ hc = [h \in Hk |-> 0] /\ uflag = [h \in Hk |-> FALSE] /\ uret = [h \in Hk |-> FALSE]
        /\ pc = [t \in T |-> "e1"] /\ cur = [t \in T |-> 0] /\ stale = [t \in T |-> FALSE]
        /\ upc = "u1" /\ ui = 1 /\ called = {} /\ deliv = {} /\ bad = FALSE

(* orderedmap.Delete under its lock: unlink; the removed entry keeps its own pointers *)
Delete(h) == IF ~inl[h] THEN UNCHANGED <<head, nxt, prv, inl>>
             ELSE /\ inl' = [inl EXCEPT ![h] = FALSE]
                  /\ head' = IF prv[h] = 0 THEN nxt[h] ELSE head
                  /\ nxt' = IF prv[h] # 0 THEN [nxt EXCEPT ![prv[h]] = nxt[h]] ELSE nxt
                  /\ prv' = IF nxt[h] # 0 THEN [prv EXCEPT ![nxt[h]] = prv[h]] ELSE prv

Go(t, p) == pc' = [pc EXCEPT ![t] = p]
Atomic == Variant # "load_then_add"

Trig(t) ==
  \/ /\ pc[t] = "e1" /\ Atomic                                  \* e.currentTriggerExceedsMaxTriggerCount(): Add(1) > max
     /\ ec' = ec + 1
     /\ IF em > 0 /\ ec + 1 > em THEN Go(t, "done") /\ UNCHANGED deliv ELSE Go(t, "head") /\ deliv' = deliv \cup {t}
     /\ UNCHANGED <<em, hm, script, head, nxt, prv, inl, hc, uflag, uret, cur, stale, upc, ui, called, bad>>
  \/ /\ pc[t] = "e1" /\ ~Atomic                                 \* seeded: Load() >= max ... then Add(1)
     /\ IF em > 0 /\ ec >= em THEN ec' = ec + 1 /\ Go(t, "done") ELSE UNCHANGED ec /\ Go(t, "e2")
     /\ UNCHANGED <<em, hm, script, head, nxt, prv, inl, hc, uflag, uret, cur, stale, upc, ui, called, deliv, bad>>
  \/ /\ pc[t] = "e2" /\ ec' = ec + 1 /\ Go(t, "head") /\ deliv' = deliv \cup {t}
     /\ UNCHANGED <<em, hm, script, head, nxt, prv, inl, hc, uflag, uret, cur, stale, upc, ui, called, bad>>
  \/ /\ pc[t] = "head" /\ cur' = [cur EXCEPT ![t] = head] /\ Go(t, "visit")
     /\ UNCHANGED <<em, hm, script, head, nxt, prv, inl, ec, hc, uflag, uret, stale, upc, ui, called, deliv, bad>>
  \/ /\ pc[t] = "visit"                                         \* the consumer is entered for cur (or the walk ends)
     /\ IF cur[t] = 0 THEN Go(t, "done") /\ UNCHANGED stale
        ELSE /\ stale' = [stale EXCEPT ![t] = uret[cur[t]]]      \* an Unhook() of this hook had already returned
             /\ IF Variant # "no_flag" /\ uflag[cur[t]] THEN Go(t, "adv") ELSE Go(t, "h1")
     /\ UNCHANGED <<em, hm, script, head, nxt, prv, inl, ec, hc, uflag, uret, cur, upc, ui, called, deliv, bad>>
  \/ /\ pc[t] = "h1" /\ Atomic                                  \* hook.currentTriggerExceedsMaxTriggerCount()
     /\ hc' = [hc EXCEPT ![cur[t]] = @ + 1]
     /\ IF hm[cur[t]] > 0 /\ hc[cur[t]] + 1 > hm[cur[t]] THEN Go(t, "hu1") ELSE Go(t, "call")
     /\ UNCHANGED <<em, hm, script, head, nxt, prv, inl, ec, uflag, uret, cur, stale, upc, ui, called, deliv, bad>>
  \/ /\ pc[t] = "h1" /\ ~Atomic
     /\ IF hm[cur[t]] > 0 /\ hc[cur[t]] >= hm[cur[t]] THEN hc' = [hc EXCEPT ![cur[t]] = @ + 1] /\ Go(t, "hu1")
        ELSE UNCHANGED hc /\ Go(t, "h2")
     /\ UNCHANGED <<em, hm, script, head, nxt, prv, inl, ec, uflag, uret, cur, stale, upc, ui, called, deliv, bad>>
  \/ /\ pc[t] = "h2" /\ hc' = [hc EXCEPT ![cur[t]] = @ + 1] /\ Go(t, "call")
     /\ UNCHANGED <<em, hm, script, head, nxt, prv, inl, ec, uflag, uret, cur, stale, upc, ui, called, deliv, bad>>
  \/ /\ pc[t] = "hu1" /\ uflag' = [uflag EXCEPT ![cur[t]] = TRUE] /\ Go(t, "hu2")      \* exhausted hook unhooks itself
     /\ UNCHANGED <<em, hm, script, head, nxt, prv, inl, ec, hc, uret, cur, stale, upc, ui, called, deliv, bad>>
  \/ /\ pc[t] = "hu2" /\ Delete(cur[t]) /\ Go(t, "adv")
     /\ UNCHANGED <<em, hm, script, ec, hc, uflag, uret, cur, stale, upc, ui, called, deliv, bad>>
  \/ /\ pc[t] = "call" /\ called' = called \cup {<<cur[t], t>>} /\ bad' = (bad \/ stale[t]) /\ Go(t, "adv")
     /\ UNCHANGED <<em, hm, script, head, nxt, prv, inl, ec, hc, uflag, uret, cur, stale, upc, ui, deliv>>
  \/ /\ pc[t] = "adv" /\ cur' = [cur EXCEPT ![t] = nxt[cur[t]]] /\ Go(t, "visit")      \* next pointer read after the callback
     /\ UNCHANGED <<em, hm, script, head, nxt, prv, inl, ec, hc, uflag, uret, stale, upc, ui, called, deliv, bad>>

Unhooker ==
  /\ ui <= Len(Scr)
  /\ LET h == Scr[ui] IN
     \/ /\ upc = "u1" /\ uflag' = [uflag EXCEPT ![h] = TRUE] /\ upc' = "u2"
        /\ UNCHANGED <<em, hm, script, head, nxt, prv, inl, ec, hc, uret, pc, cur, stale, ui, called, deliv, bad>>
     \/ /\ upc = "u2" /\ Delete(h) /\ upc' = "u3"
        /\ UNCHANGED <<em, hm, script, ec, hc, uflag, uret, pc, cur, stale, ui, called, deliv, bad>>
     \/ /\ upc = "u3" /\ uret' = [uret EXCEPT ![h] = TRUE] /\ upc' = "u1" /\ ui' = ui + 1
        /\ UNCHANGED <<em, hm, script, head, nxt, prv, inl, ec, hc, uflag, pc, cur, stale, called, deliv, bad>>

AllDone == (\A t \in T : pc[t] = "done") /\ ui > Len(Scr)
Next == (\E t \in T : Trig(t)) \/ Unhooker \/ (AllDone /\ UNCHANGED vars)
Spec == Init /\ [][Next]_vars /\ WF_vars(Next)

(* ---------------- the property ---------------- *)
Min2(a, b) == IF a < b THEN a ELSE b
CallsOf(h) == {c \in called : c[1] = h}
Unhooked == {Scr[i] : i \in DOMAIN Scr}
(* never more than n: hooks and the event *)
MaxCount == /\ \A h \in Hk : hm[h] > 0 => Cardinality(CallsOf(h)) <= hm[h]
            /\ em > 0 => Cardinality(deliv) <= em
(* exactly once per trigger is structural (called is a set of <<hook, trigger>>, each trigger visits a list without cycles) *)
(* a hook is not invoked by a walk that reached it after an Unhook() of it had returned *)
NoCallAfterUnhook == ~bad
(* exactly min(n, #triggers): when everything has returned *)
ExactCount == AllDone =>
   /\ Cardinality(deliv) = (IF em = 0 THEN NT ELSE Min2(em, NT))
   /\ \A h \in Hk \ Unhooked : Cardinality(CallsOf(h)) = (IF hm[h] = 0 THEN Cardinality(deliv) ELSE Min2(hm[h], Cardinality(deliv)))
   /\ \A c \in called : c[2] \in deliv
Terminates == <>AllDone
=============================================================================
