------------------------------ MODULE Promise ------------------------------
(* runtime/promise.Event / Event1 (the one-shot promise event) at the level of its API, observed at       *)
(* quiescent points (property C15: "one-shot promise events run every callback exactly once whether it     *)
(* was registered before, during or after Trigger"; an unsubscribe before Trigger prevents the call).      *)
(* Callbacks get the ids 1,2,.. in the order OnTrigger is called (also from inside a callback).  Kinds:    *)
(*   plain | gate (parks until released: Trigger / OnTrigger is then in flight while other calls are made) *)
(*   | reg (registers one more plain callback from inside: "registered during")                           *)
(*   | trig (calls Trigger again from inside: must return false and change nothing).                       *)
(* Trigger runs the registered callbacks in no particular order (they are kept in a map), so with a gate    *)
(* callback among them any subset of the others may have run when the thread parks: several edges.         *)
EXTENDS Integers, Sequences, FiniteSets, SequencesExt, TLC

CONSTANTS Scope     \* "lts" | "mc" | "thorough" | "trace"
VARIABLES cfg,
          trig,     \* Trigger was called
          val,      \* the argument of that first Trigger (Event1; 0 for the parameterless Event)
          cb,       \* sequence of <<kind, state>>; state: "reg" | "unsub" | "pend" (in the todo of a Trigger in flight) | "run" (parked) | "ran"
          ntr,      \* Trigger stimuli so far (the i-th passes the value i)
          fl,       \* thread -> <<todo, at, what>>: callbacks its Trigger still has to run, gate callback it is parked in, "T"|"O"|""
          runs,     \* history: callback -> times it ran (invariants only)
          trues,    \* history: Trigger calls that returned true
          ev
vars == <<cfg, trig, val, cb, ntr, fl, runs, trues, ev>>
View == <<cfg, trig, val, cb, ntr, fl>>
MCView == <<View, runs, trues>>

Threads == {1, 2}
SSeq(S) == SetToSortSeq(S, <)
Bd(nc, tr) == [nc |-> nc, tr |-> tr]
B == CASE Scope \in {"lts", "lts2"} -> Bd(3, 2) [] Scope = "mc" -> Bd(3, 2) [] Scope = "thorough" -> Bd(5, 3) [] Scope = "trace" -> Bd(8, 3)
Cfgs == [ar : IF Scope = "lts" THEN {1} ELSE {0, 1}, nc : {B.nc}, tr : {B.tr}]          \* ar = 0: promise.Event, 1: promise.Event1[int]
Kinds == {"plain", "gate", "reg"} \cup (IF Scope = "lts" THEN {} ELSE {"trig"})
Idle == <<<<>>, 0, "">>
MaxCb == 8

Init == /\ cfg \in Cfgs /\ trig = FALSE /\ val = 0 /\ cb = <<>> /\ ntr = 0 /\ fl = [t \in Threads |-> Idle]
        /\ runs = [c \in 1..MaxCb |-> 0] /\ trues = 0 /\ ev = [op |-> "reset", cfg |-> cfg]

(* ---- S = [cb, calls, runs]: running callbacks ---- *)
Kind(S, c) == S.cb[c][1]
Mark(S, c, st) == [S EXCEPT !.cb[c] = <<@[1], st>>]
Call(S, c) == [S EXCEPT !.calls = @ \cup {<<c, val'>>}, !.runs[c] = @ + 1]
(* callback c (not a gate) runs to completion *)
RunOne(S, c) ==
  LET S1 == Mark(Call(S, c), c, "ran") IN
  IF Kind(S, c) = "reg" /\ Len(S.cb) < cfg.nc
    THEN LET n == Len(S.cb) + 1 IN            \* OnTrigger from inside a callback, after Trigger: the new callback runs at once
         Call([S1 EXCEPT !.cb = Append(@, <<"plain", "ran">>)], n)
    ELSE S1                                      \* "trig": the inner Trigger returns false and has no effect
RECURSIVE RunSet(_, _)
RunSet(S, R) == IF R = {} THEN S ELSE LET c == CHOOSE x \in R : \A y \in R : x <= y IN RunSet(RunOne(S, c), R \ {c})
(* a Trigger that still has to run the callbacks in todo: outcomes [S, todo, at] *)
Continue(S, todo) ==
  LET gates == {c \in todo : Kind(S, c) = "gate"}
      nong == todo \ gates IN
  IF gates = {} THEN {[S |-> RunSet(S, nong), todo |-> {}, at |-> 0]}
  ELSE {[S |-> Mark(Call(RunSet(S, R), g), g, "run"), todo |-> (todo \ R) \ {g}, at |-> g] : g \in gates, R \in SUBSET nong}

Cur == [cb |-> cb, calls |-> {}, runs |-> runs]
Obs(f, tg) == [blocked |-> SSeq({t \in Threads : f[t] # Idle}), at |-> <<f[1][2], f[2][2]>>, wt |-> tg]
CallKey(c) == c[1] * 1000 + c[2]
SortCalls(q) == SetToSortSeq(q, LAMBDA x, y : CallKey(x) < CallKey(y))
LowIdle == CHOOSE x \in Threads : fl[x] = Idle /\ \A y \in Threads : fl[y] = Idle => x <= y

Finish(s, t, o, what, r) ==
  /\ cb' = o.S.cb /\ runs' = o.S.runs
  /\ fl' = [fl EXCEPT ![t] = IF o.at = 0 THEN Idle ELSE <<SSeq(o.todo), o.at, what>>]
  /\ ev' = [res |-> [t |-> t, done |-> o.at = 0, r |-> IF o.at = 0 THEN r ELSE "", calls |-> SortCalls(o.S.calls)],
            st |-> Obs(fl', trig')] @@ s

Do(s) ==
  CASE s.op = "reset" -> /\ cfg' = s.cfg /\ trig' = FALSE /\ val' = 0 /\ cb' = <<>> /\ ntr' = 0 /\ fl' = [t \in Threads |-> Idle]
                         /\ runs' = [c \in 1..MaxCb |-> 0] /\ trues' = 0 /\ ev' = s
    [] s.op = "OnTrigger" ->     \* the lowest idle thread calls OnTrigger(callback of kind s.k); the unsubscribe function is kept
         /\ Len(cb) < cfg.nc /\ \E t \in Threads : fl[t] = Idle /\ UNCHANGED <<cfg, trig, val, ntr, trues>>
         /\ LET t == LowIdle
                n == Len(cb) + 1 IN
            IF ~trig
              THEN Finish(s, t, [S |-> [Cur EXCEPT !.cb = Append(@, <<s.k, "reg">>)], todo |-> {}, at |-> 0], "O", "")
              ELSE \* already triggered: the callback is called at once, by the registering thread
                   LET S0 == [Cur EXCEPT !.cb = Append(@, <<s.k, "reg">>)] IN
                   IF s.k = "gate" THEN Finish(s, t, [S |-> Mark(Call(S0, n), n, "run"), todo |-> {}, at |-> n], "O", "")
                   ELSE Finish(s, t, [S |-> RunOne(S0, n), todo |-> {}, at |-> 0], "O", "")
    [] s.op = "Unsub" ->         \* the unsubscribe function OnTrigger returned for callback s.c (any time, also twice)
         /\ s.c \in 1..Len(cb) /\ UNCHANGED <<cfg, trig, val, ntr, runs, trues>>
         /\ ~\E t \in Threads : fl[t][3] = "O" /\ fl[t][2] = s.c        \* (its OnTrigger has returned: the function exists)
         /\ \/ /\ cb' = IF cb[s.c][2] = "reg" THEN [cb EXCEPT ![s.c] = <<@[1], "unsub">>] ELSE cb
               /\ UNCHANGED fl
            \/ \* while the Trigger is in flight and has not run the callback yet, unsubscribing may still prevent it (not prescribed)
               /\ cb[s.c][2] = "pend" /\ cb' = [cb EXCEPT ![s.c] = <<@[1], "unsub">>]
               /\ fl' = [t \in Threads |-> <<SelectSeq(fl[t][1], LAMBDA x : x # s.c), fl[t][2], fl[t][3]>>]
         /\ ev' = [res |-> [t |-> 0, done |-> TRUE, r |-> "", calls |-> <<>>], st |-> Obs(fl', trig)] @@ s
    [] s.op = "Trigger" ->       \* the lowest idle thread calls Trigger(ntr + 1)
         /\ ntr < cfg.tr /\ \E t \in Threads : fl[t] = Idle /\ UNCHANGED cfg /\ ntr' = ntr + 1
         /\ LET t == LowIdle IN
            IF trig
              THEN /\ UNCHANGED <<trig, val, trues>>
                   /\ Finish(s, t, [S |-> Cur, todo |-> {}, at |-> 0], "T", "false")
              ELSE /\ trig' = TRUE /\ val' = (IF cfg.ar = 1 THEN ntr + 1 ELSE 0) /\ trues' = trues + 1
                   /\ LET todo == {c \in DOMAIN cb : cb[c][2] = "reg"}
                          S0 == [Cur EXCEPT !.cb = [c \in DOMAIN cb |-> IF c \in todo THEN <<cb[c][1], "pend">> ELSE cb[c]]] IN
                      \E o \in Continue(S0, todo) : Finish(s, t, o, "T", "true")
    [] s.op = "Release" ->       \* the gate callback in which thread s.t is parked returns
         /\ fl[s.t] # Idle /\ UNCHANGED <<cfg, trig, val, ntr, trues>>
         /\ LET S0 == Mark(Cur, fl[s.t][2], "ran") IN
            IF fl[s.t][3] = "T" THEN \E o \in Continue(S0, ToSet(fl[s.t][1])) : Finish(s, s.t, o, "T", "true")
            ELSE Finish(s, s.t, [S |-> S0, todo |-> {}, at |-> 0], "O", "")

Stimuli == [op : {"OnTrigger"}, k : Kinds] \cup [op : {"Unsub"}, c : 1..cfg.nc] \cup [op : {"Trigger"}] \cup [op : {"Release"}, t : Threads]
Next == \E s \in Stimuli : Do(s)
Spec == Init /\ [][Next]_vars

(* ---------------- the property, stated on the model ---------------- *)
Quiet == \A t \in Threads : fl[t] = Idle
TypeOK == /\ Len(cb) <= cfg.nc /\ trues <= 1 /\ (trig <=> trues = 1)
          /\ \A c \in DOMAIN cb : cb[c][2] \in {"reg", "unsub", "pend", "run", "ran"}
          /\ \A c \in DOMAIN cb : cb[c][2] \in {"reg"} => ~trig
(* no callback ever runs twice *)
AtMostOnce == \A c \in 1..MaxCb : runs[c] <= 1
(* once the event is triggered and nothing is in flight, every callback has run exactly once - except those  *)
(* unsubscribed, which never ran                                                                            *)
ExactlyOnce == (trig /\ Quiet) => \A c \in DOMAIN cb : IF cb[c][2] = "unsub" THEN runs[c] = 0 ELSE runs[c] = 1 /\ cb[c][2] = "ran"
(* before Trigger nothing runs *)
NothingEarly == ~trig => \A c \in 1..MaxCb : runs[c] = 0
(* every callback receives the value of the one effective Trigger *)
ValueOK == [][ev'.op # "reset" => \A i \in DOMAIN ev'.res.calls : ev'.res.calls[i][2] = val']_vars
=============================================================================
