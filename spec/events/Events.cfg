CONSTANTS
  NH = 3
  NL = 2
  MaxTrig = 2
  Fams = {"reent", "gate", "link", "max", "pool"}
  MaxMax = 2
INVARIANTS TypeOK MaxCount
PROPERTIES OncePerTrigger NoCallAfterUnhook Complete InOrder LinkExclusive
VIEW MCView
