CONSTANTS
  Scope = "mc"
INVARIANTS TypeOK MaxCount
PROPERTIES OncePerTrigger NoCallAfterUnhook Complete InOrder LinkExclusive
VIEW MCView
