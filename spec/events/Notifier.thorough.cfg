CONSTANTS
  Scope = "thorough"
INVARIANTS TypeOK
PROPERTIES NotifiedInWindow OkOnlyIfNotified
VIEW View
