CONSTANTS
  NH = 2
  NL = 1
  MaxTrig = 2
  Fams = {"reent", "gate", "link", "max", "pool"}
  MaxMax = 1
INVARIANTS TypeOK
