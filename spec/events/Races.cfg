INVARIANTS TypeOK
