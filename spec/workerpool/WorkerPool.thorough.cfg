CONSTANTS
  Threads = {1, 2}
  MaxTasks = 3
  MaxGen = 2
  MaxHeld = 1
  Controllers = {1, 2}
  Submitters = {1, 2}
  Ops = {"Start", "Shutdown", "WaitShutdown", "WaitIsZero", "Submit", "SubmitBegin", "SubmitEnd", "Release"}
  WorkerCounts = {1, 2}
INVARIANTS TypeOK Conservation NoIdleWithWork WaitersJustified ShutdownCompletes
PROPERTIES ExactlyOnce
