SPECIFICATION Spec
CONSTANTS
  Submitters = {1, 2}
  NW = 1
  Cancel = FALSE
  Restart = FALSE
  Variant = "submit_unguarded"
INVARIANTS TypeOK ExactlyOnce CounterExact Conservation
PROPERTIES ShutdownTerminates
