----------------------------- MODULE PoolGroup -----------------------------
(* runtime/workerpool.Group observed at quiescent points: a root group with pool 1 and a     *)
(* sub-group holding pools 2 and 3 (pools created by the groups: cancel-on-shutdown, one     *)
(* worker each).  C16: Group.WaitChildren returns only when no pool below the group has      *)
(* pending tasks; Group.Shutdown waits for that and then shuts every pool below it down.     *)
EXTENDS Integers, Sequences, FiniteSets, SequencesExt, TLC

CONSTANTS Threads, MaxPerPool
VARIABLES cfg, pend, down, wait, ev
vars == <<cfg, pend, down, wait, ev>>
View == <<cfg, pend, down, wait>>
Cfgs == {[kind |-> "Group"]}
Pools == {1, 2, 3}
Below(g) == IF g = "root" THEN {1, 2, 3} ELSE {2, 3}
SSeq(S) == SetToSortSeq(S, <)
Busy == {t \in Threads : wait[t].kind # "none"}
None == [kind |-> "none", g |-> ""]
Idle(p, g) == \A x \in Below(g) : p[x] = 0

Init == cfg \in Cfgs /\ pend = [p \in Pools |-> 0] /\ down = [p \in Pools |-> FALSE]
        /\ wait = [t \in Threads |-> None] /\ ev = [op |-> "reset", cfg |-> cfg]

(* waiters return when their group is idle; a waiting Shutdown then shuts the pools of its group down *)
Finish(s, p, extraRet, r, w0) ==
  LET ret == {t \in Threads : w0[t].kind # "none" /\ Idle(p, w0[t].g)}
      d2 == [x \in Pools |-> down[x] \/ \E t \in ret : w0[t].kind = "shutdown" /\ x \in Below(w0[t].g)]
      w1 == [t \in Threads |-> IF t \in ret THEN None ELSE w0[t]]
  IN /\ pend' = p /\ down' = d2 /\ wait' = w1
     /\ ev' = [s EXCEPT !.res = [r |-> r, ret |-> SSeq(ret \cup extraRet)],
                        !.st = [pending |-> [x \in Pools |-> p[x]], blocked |-> SSeq({t \in Threads : w1[t].kind # "none"}),
                                rootPending |-> Cardinality({x \in {1} : p[x] > 0}) + (IF p[2] > 0 \/ p[3] > 0 THEN 1 ELSE 0),
                                subPending |-> Cardinality({x \in {2, 3} : p[x] > 0})]]
E(s) == s @@ [res |-> 0, st |-> 0]

Do(s0) ==
  LET s == IF s0.op = "reset" THEN s0 ELSE E(s0) IN
  CASE s.op = "reset" -> cfg' = s.cfg /\ pend' = [p \in Pools |-> 0] /\ down' = [p \in Pools |-> FALSE]
                         /\ wait' = [t \in Threads |-> None] /\ ev' = s
    [] s.op = "Submit" ->      \* task bodies park at a gate; one worker per pool: the first runs, the others queue
         /\ UNCHANGED cfg /\ s.t \notin Busy /\ pend[s.p] < MaxPerPool
         /\ IF down[s.p] THEN Finish(s, pend, {s.t}, "refused", wait)
            ELSE Finish(s, [pend EXCEPT ![s.p] = @ + 1], {s.t}, "accepted", wait)
    [] s.op = "Release" ->     \* the running task of pool s.p returns
         /\ UNCHANGED cfg /\ pend[s.p] > 0
         /\ Finish(s, [pend EXCEPT ![s.p] = @ - 1], {}, "", wait)
    [] s.op = "WaitChildren" ->
         /\ UNCHANGED cfg /\ s.t \notin Busy /\ Cardinality(Busy) + 1 < Cardinality(Threads)
         /\ Finish(s, pend, IF Idle(pend, s.g) THEN {s.t} ELSE {}, "", IF Idle(pend, s.g) THEN wait ELSE [wait EXCEPT ![s.t] = [kind |-> "wait", g |-> s.g]])
    [] s.op = "Shutdown" ->    \* Group.Shutdown = WaitChildren, then shut down everything below
         /\ UNCHANGED cfg /\ s.t \notin Busy /\ Cardinality(Busy) + 1 < Cardinality(Threads)
         /\ Finish(s, pend, {}, "", [wait EXCEPT ![s.t] = [kind |-> "shutdown", g |-> s.g]])

Stimuli == [op : {"Submit"}, t : Threads, p : Pools] \cup [op : {"Release"}, p : Pools]
           \cup [op : {"WaitChildren", "Shutdown"}, t : Threads, g : {"root", "sub"}]
Next == \E s \in Stimuli : Do(s)
Spec == Init /\ [][Next]_vars

WaitSound == \A t \in Threads : wait[t].kind # "none" => ~Idle(pend, wait[t].g)
============================================================================
