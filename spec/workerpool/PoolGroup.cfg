CONSTANTS
  Threads = {1, 2}
  MaxPerPool = 2
INVARIANTS WaitSound
