CONSTANTS
  MaxTasks = 400
INVARIANTS RanWasBegun
