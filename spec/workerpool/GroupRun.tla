------------------------------ MODULE GroupRun ------------------------------
(* Trace specification for controlled executions of a worker-pool GROUP tree (code -> model), property C16:      *)
(* "Group.WaitChildren returns only when no pool below the group has pending tasks".  Submitters and a waiter run  *)
(* as goroutines under a controlled scheduler whose stopping points are the acquisitions of the pending-task       *)
(* counters' locks (hook counter-lock) and the task bodies (gates); every call logs "begin" before and "end"        *)
(* after, task bodies log "run" / "done", with one global sequence.                                                *)
(*   - sb k / se k   Submit of task k called / returned (all pools are running: every Submit is accepted)           *)
(*   - run k / done k   the body of task k began / returned                                                        *)
(*   - wb / we        root.WaitChildren() called / returned                                                        *)
(* Rule: a WaitChildren that returns has seen a moment, between its call and its return, at which nothing was       *)
(* pending.  A task whose Submit returned before the wait was called and whose body returns only after the wait     *)
(* returned was pending during the whole wait: that wait must not have returned.                                   *)
EXTENDS Integers, Sequences, FiniteSets, TLC

CONSTANTS Tasks
VARIABLES cfg, sub, acc, started, fin, waiting, owed, ev
vars == <<cfg, sub, acc, started, fin, waiting, owed, ev>>
View == <<cfg, sub, acc, started, fin, waiting, owed>>
Cfgs == [pools : 1..3]

Init == cfg \in Cfgs /\ sub = {} /\ acc = {} /\ started = {} /\ fin = {} /\ waiting = FALSE /\ owed = {} /\ ev = [op |-> "reset", cfg |-> cfg]

Do(s) ==
  CASE s.op = "reset" -> cfg' = s.cfg /\ sub' = {} /\ acc' = {} /\ started' = {} /\ fin' = {} /\ waiting' = FALSE /\ owed' = {} /\ ev' = s
    [] s.op = "sb" -> /\ s.k \in Tasks \ sub /\ sub' = sub \cup {s.k} /\ UNCHANGED <<cfg, acc, started, fin, waiting, owed>> /\ ev' = s
    [] s.op = "se" -> /\ s.k \in sub \ acc /\ acc' = acc \cup {s.k} /\ UNCHANGED <<cfg, sub, started, fin, waiting, owed>> /\ ev' = s
    [] s.op = "run" -> /\ s.k \in sub \ started /\ started' = started \cup {s.k}            \* exactly once, only submitted tasks
                       /\ UNCHANGED <<cfg, sub, acc, fin, waiting, owed>> /\ ev' = s
    [] s.op = "done" -> /\ s.k \in started \ fin /\ fin' = fin \cup {s.k} /\ UNCHANGED <<cfg, sub, acc, started, waiting, owed>> /\ ev' = s
    [] s.op = "wb" ->  \* the wait is called: the tasks accepted so far and not finished are pending NOW
                       /\ ~waiting /\ waiting' = TRUE /\ owed' = acc \ fin
                       /\ UNCHANGED <<cfg, sub, acc, started, fin>> /\ ev' = s
    [] s.op = "we" ->  \* the wait returned: everything that was pending when it was called has finished
                       /\ waiting /\ waiting' = FALSE /\ owed \subseteq fin /\ owed' = {}
                       /\ UNCHANGED <<cfg, sub, acc, started, fin>> /\ ev' = s
    [] s.op = "final" -> /\ s.hung = FALSE /\ fin = sub /\ ~waiting                        \* everything ran, every call returned
                         /\ UNCHANGED <<cfg, sub, acc, started, fin, waiting, owed>> /\ ev' = s

Stimuli == [op : {"sb", "se", "run", "done"}, k : Tasks] \cup [op : {"wb", "we"}]
Next == \E s \in Stimuli : Do(s)
Spec == Init /\ [][Next]_vars
TypeOK == acc \subseteq sub /\ fin \subseteq started /\ started \subseteq sub
=============================================================================
