SPECIFICATION Spec
CONSTANTS
  Variant = "signal_without_lock"
PROPERTIES DispatcherExits
