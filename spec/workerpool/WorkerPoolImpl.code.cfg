SPECIFICATION Spec
CONSTANTS
  Submitters = {1, 2}
  NW = 1
  Cancel = FALSE
  Restart = FALSE
  Variant = "code"
INVARIANTS TypeOK ExactlyOnce CounterExact Conservation
PROPERTIES ShutdownTerminates
