CONSTANTS
  Threads = {1, 2}
  MaxTasks = 6
  MaxGen = 3
  WorkerCounts = {1, 2, 3}
INVARIANTS TypeOK Conservation NoIdleWithWork WaitersJustified ShutdownCompletes
