CONSTANTS
  Threads = {1, 2}
  MaxTasks = 6
  MaxGen = 3
  MaxHeld = 1
  Controllers = {1, 2}
  Submitters = {1, 2}
  Ops = {"Start", "Shutdown", "WaitShutdown", "WaitIsZero", "Submit", "SubmitBegin", "SubmitEnd", "Release"}
  WorkerCounts = {1, 2, 3}
INVARIANTS TypeOK Conservation NoIdleWithWork WaitersJustified ShutdownCompletes
