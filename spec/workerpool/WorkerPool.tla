---------------------------- MODULE WorkerPool ----------------------------
(* runtime/workerpool.WorkerPool at the level of its API, observed at quiescent points:     *)
(* one stimulus = one harness thread starts one call (or one parked task body is released);  *)
(* the step runs until every goroutine of the process is parked.  Task bodies park at a gate *)
(* when they start, so "running" tasks are visible and held.  Property C16: every accepted   *)
(* task is run (or, with cancel-on-shutdown, run or cancelled) exactly once, the pending     *)
(* counter equals accepted-but-unfinished, shutdown always completes once the running tasks  *)
(* return, nothing runs after completion, and a restart works.                               *)
EXTENDS Integers, Sequences, FiniteSets, SequencesExt, TLC

CONSTANTS Threads, MaxTasks, MaxGen, WorkerCounts, MaxHeld,
          Controllers, Submitters,   \* threads that issue Start/Shutdown/waits, resp. Submit calls (symmetry reduction; both = Threads by default)
          Ops       \* stimulus kinds offered by Next (a configuration may explore a sub-alphabet more deeply)
VARIABLES cfg,
          running,      \* pool accepts tasks
          alive,        \* workers of the current generation have not all exited yet
          gen,          \* number of Start calls that took effect
          nsub,         \* task ids handed out so far (Submit calls + spawned children)
          kind,         \* task id -> "plain" | "spawn" (submits one child when it starts)
          q,            \* accepted tasks not yet started, FIFO
          run,          \* tasks whose body is executing (parked at the gate)
          fin,          \* task id -> "ran" | "cancelled" for finished tasks (others: "no")
          wait,         \* thread -> "none" | "shutdown" (ShutdownComplete.Wait) | "zero" (WaitIsZero) | "start" (Start waiting for completion)
                        \*           | "sub" (a Submit held between its running check and its bookkeeping) | "sd" (Shutdown waiting for that Submit)
          psub,         \* thread -> its held Submit: [k |-> kind, id |-> task id] or NoSub
          ev
vars == <<cfg, running, alive, gen, nsub, kind, q, run, fin, wait, psub, ev>>
View == <<cfg, running, alive, gen, nsub, kind, q, run, fin, wait, psub>>

Cfgs == [workers : WorkerCounts, cancel : BOOLEAN, maxTasks : {MaxTasks}]
Tasks == 1..MaxTasks
NoSub == [k |-> "none", id |-> 0]
SSeq(S) == SetToSortSeq(S, <)
Busy == {t \in Threads : wait[t] # "none"}
Pending(qq, rr) == Len(qq) + Cardinality(rr)

InitState(c) == /\ cfg = c /\ running = FALSE /\ alive = FALSE /\ gen = 0 /\ nsub = 0
                /\ kind = [k \in Tasks |-> "plain"] /\ q = <<>> /\ run = {} /\ fin = [k \in Tasks |-> "no"]
                /\ wait = [t \in Threads |-> "none"] /\ psub = [t \in Threads |-> NoSub]
Init == \E c \in Cfgs : InitState(c) /\ ev = [op |-> "reset", cfg |-> c]

(* ---- the cascade that follows every call: start queued tasks on free workers, let spawning bodies submit their ---- *)
(* ---- child, cancel on drain, complete the shutdown.  f counts the micro-steps after which a Shutdown that was   ---- *)
(* ---- waiting for a held Submit flips the running flag (f = -1: no flip pending).                                ---- *)
(* a state of the cascade: [running, alive, nsub, kind, q, run, fin, pc]; pc = parents whose child Submit is still to come *)
RECURSIVE Settle(_, _, _)
Settle(c, s, f) ==
  IF f = 0 THEN Settle(c, [s EXCEPT !.running = FALSE], -1)
  ELSE LET g == IF f > 0 THEN f - 1 ELSE f IN
  IF s.pc # <<>>
    THEN \* the body of Head(pc) submits its child: accepted only while the pool is running
         IF s.running
           THEN Settle(c, [s EXCEPT !.pc = Tail(s.pc), !.nsub = @ + 1, !.q = Append(s.q, s.nsub + 1)], g)
           ELSE Settle(c, [s EXCEPT !.pc = Tail(s.pc), !.nsub = @ + 1], g)
  ELSE IF s.q # <<>> /\ Cardinality(s.run) < c.workers
    THEN LET k == Head(s.q) IN
         IF ~s.running /\ c.cancel
           THEN \* workers are in drain mode after Shutdown: the task is cancelled, not run
                Settle(c, [s EXCEPT !.q = Tail(s.q), !.fin[k] = "cancelled"], g)
           ELSE Settle(c, [s EXCEPT !.q = Tail(s.q), !.run = @ \cup {k},
                                    !.pc = IF s.kind[k] = "spawn" /\ s.nsub + Len(s.pc) < MaxTasks THEN Append(@, k) ELSE @], g)
  ELSE IF f > 0 THEN Settle(c, s, 0)       \* nothing left to do before the flip
  ELSE IF ~s.running /\ s.alive /\ s.q = <<>> /\ s.run = {}
    THEN [s EXCEPT !.alive = FALSE]      \* dispatcher closes the channel, workers exit
    ELSE s

Cur == [running |-> running, alive |-> alive, nsub |-> nsub, kind |-> kind, q |-> q, run |-> run, fin |-> fin, pc |-> <<>>]

(* after the cascade: waiting threads whose condition holds return; a waiting Start restarts the pool *)
ApplyF(s, t, extraRet, res0, w0, f) ==
  LET s1 == Settle(cfg, s, f)
      zeroOK == Pending(s1.q, s1.run) = 0
      starters == {x \in Threads : w0[x] = "start"}
      restart == starters # {} /\ ~s1.alive
      s2 == IF restart THEN [s1 EXCEPT !.running = TRUE, !.alive = TRUE] ELSE s1
      ret == {x \in Threads : \/ w0[x] = "zero" /\ zeroOK
                              \/ w0[x] = "shutdown" /\ ~s1.alive
                              \/ w0[x] = "start" /\ ~s1.alive}
      w1 == [x \in Threads |-> IF x \in ret THEN "none" ELSE w0[x]]
  IN /\ running' = s2.running /\ alive' = s2.alive /\ nsub' = s2.nsub /\ kind' = s2.kind
     /\ q' = s2.q /\ run' = s2.run /\ fin' = s2.fin /\ wait' = w1
     /\ gen' = IF restart THEN gen + 1 ELSE gen
     /\ ev' = [t EXCEPT !.res = [r |-> res0, ret |-> SSeq(ret \cup extraRet)],
                        !.st = [pending |-> Pending(s2.q, s2.run), started |-> SSeq(s2.run),
                                ran |-> SSeq({k \in Tasks : s2.fin[k] = "ran"}),
                                blocked |-> SSeq({x \in Threads : w1[x] # "none"})]]

Apply(s, t, extraRet, res0, w0) == ApplyF(s, t, extraRet, res0, w0, -1)

E(s) == s @@ [res |-> 0, st |-> 0]
NoStartWaiting == \A x \in Threads : wait[x] # "start"
NoneHeld == \A x \in Threads : psub[x] = NoSub

Do(s0) ==
  LET s == IF s0.op = "reset" THEN s0 ELSE E(s0) IN
  CASE s.op = "reset" -> /\ cfg' = s.cfg /\ running' = FALSE /\ alive' = FALSE /\ gen' = 0 /\ nsub' = 0
                         /\ kind' = [k \in Tasks |-> "plain"] /\ q' = <<>> /\ run' = {} /\ fin' = [k \in Tasks |-> "no"]
                         /\ wait' = [t \in Threads |-> "none"] /\ psub' = [t \in Threads |-> NoSub] /\ ev' = s
    [] s.op = "Start" ->
         /\ UNCHANGED <<cfg, psub>> /\ s.t \notin Busy /\ NoStartWaiting /\ gen < MaxGen /\ NoneHeld
         /\ \A k \in Tasks : (k \in run \/ \E i \in DOMAIN q : q[i] = k) => kind[k] = "plain"
         /\ IF running THEN Apply(Cur, s, {s.t}, "", wait)
            ELSE IF alive THEN Apply(Cur, s, {}, "", [wait EXCEPT ![s.t] = "start"])     \* waits for the previous shutdown to complete
            ELSE /\ Apply([Cur EXCEPT !.running = TRUE, !.alive = TRUE], s, {s.t}, "", wait)
    [] s.op = "Submit" ->     \* s.k = "plain" | "spawn"
         /\ UNCHANGED <<cfg, psub>> /\ s.t \notin Busy /\ NoStartWaiting /\ nsub < MaxTasks /\ NoneHeld
         /\ IF running
              THEN Apply([Cur EXCEPT !.nsub = nsub + 1, !.kind[nsub + 1] = s.k, !.q = Append(q, nsub + 1)], s, {s.t}, "accepted", wait)
              ELSE Apply([Cur EXCEPT !.nsub = nsub + 1], s, {s.t}, "refused", wait)
    [] s.op = "Release" ->    \* harness lets the body of running task s.id return
         /\ UNCHANGED <<cfg, psub>> /\ s.id \in run
         /\ Apply([Cur EXCEPT !.run = run \ {s.id}, !.fin[s.id] = "ran"], s, {}, "", wait)
    [] s.op = "Shutdown" ->
         /\ UNCHANGED <<cfg, psub>> /\ s.t \notin Busy /\ NoStartWaiting
         /\ \/ Apply([Cur EXCEPT !.running = FALSE], s, {s.t}, "", wait)
            \/ /\ ~NoneHeld        \* an implementation may make Shutdown wait for Submits that are past their running check
               /\ Apply(Cur, s, {}, "", [wait EXCEPT ![s.t] = "sd"])
    [] s.op = "SubmitBegin" ->   \* Submit held (by the harness, at the verif yield point) right after its running check
         /\ UNCHANGED cfg /\ s.t \notin Busy /\ NoStartWaiting /\ nsub < MaxTasks
         /\ Cardinality({x \in Threads : psub[x] # NoSub}) < MaxHeld /\ \A x \in Threads : wait[x] # "sd"
         /\ IF running
              THEN /\ psub' = [psub EXCEPT ![s.t] = [k |-> s.k, id |-> nsub + 1]]
                   /\ Apply([Cur EXCEPT !.nsub = nsub + 1], s, {}, "", [wait EXCEPT ![s.t] = "sub"])
              ELSE /\ UNCHANGED psub /\ Apply([Cur EXCEPT !.nsub = nsub + 1], s, {s.t}, "refused", wait)
    [] s.op = "SubmitEnd" ->     \* a held Submit goes on: accepted (then it is run or cancelled exactly once) or refused
         /\ UNCHANGED cfg /\ wait[s.t] = "sub" /\ psub' = [psub EXCEPT ![s.t] = NoSub]
         /\ LET last == \A x \in Threads \ {s.t} : psub[x] = NoSub
                SD == IF last THEN {x \in Threads : wait[x] = "sd"} ELSE {}       \* a waiting Shutdown goes on after the LAST held Submit
                w0 == [x \in Threads |-> IF x = s.t \/ x \in SD THEN "none" ELSE wait[x]]
                mine == psub[s.t]
                acc == [Cur EXCEPT !.kind[mine.id] = mine.k, !.q = Append(q, mine.id)] IN
            \/ /\ running \/ alive                    \* accepted: the pool can still process it
               /\ IF SD = {} THEN Apply(acc, s, {s.t}, "accepted", w0)
                  ELSE \E f \in 0..(MaxTasks + 2) :     \* the waiting Shutdown flips the flag somewhere during the cascade
                         ApplyF(acc, s, {s.t} \cup SD, "accepted", w0, f)
            \/ /\ ~running /\ SD = {}               \* refused: the pool was shut down meanwhile
               /\ Apply(Cur, s, {s.t}, "refused", w0)
    [] s.op = "WaitShutdown" ->   \* ShutdownComplete.Wait()
         /\ UNCHANGED <<cfg, psub>> /\ s.t \notin Busy /\ Cardinality(Busy) + 1 < Cardinality(Threads)
         /\ IF alive THEN Apply(Cur, s, {}, "", [wait EXCEPT ![s.t] = "shutdown"]) ELSE Apply(Cur, s, {s.t}, "", wait)
    [] s.op = "WaitIsZero" ->     \* PendingTasksCounter.WaitIsZero()
         /\ UNCHANGED <<cfg, psub>> /\ s.t \notin Busy /\ Cardinality(Busy) + 1 < Cardinality(Threads)
         /\ IF Pending(q, run) > 0 THEN Apply(Cur, s, {}, "", [wait EXCEPT ![s.t] = "zero"]) ELSE Apply(Cur, s, {s.t}, "", wait)

Stimuli == [op : {"Start", "Shutdown", "WaitShutdown", "WaitIsZero"}, t : Threads]
           \cup [op : {"Submit", "SubmitBegin"}, t : Threads, k : {"plain", "spawn"}] \cup [op : {"Release"}, id : Tasks]
           \cup [op : {"SubmitEnd"}, t : Threads]
Role(s) == IF s.op \in {"Start", "Shutdown", "WaitShutdown", "WaitIsZero"} THEN s.t \in Controllers
           ELSE IF s.op \in {"Submit", "SubmitBegin"} THEN s.t \in Submitters ELSE TRUE
Next == \E s \in Stimuli : s.op \in Ops /\ Role(s) /\ Do(s)
Spec == Init /\ [][Next]_vars

(* ---- the property, on the model ---- *)
TypeOK == Cardinality(run) <= cfg.workers
Accepted == {k \in Tasks : k \in run \/ fin[k] # "no" \/ \E i \in DOMAIN q : q[i] = k}
(* conservation: an accepted task is in exactly one place; only cancel-on-shutdown pools cancel *)
Conservation == /\ \A k \in Tasks : ~(k \in run /\ fin[k] # "no") /\ ~(k \in run /\ \E i \in DOMAIN q : q[i] = k)
                /\ \A k \in Tasks : fin[k] = "cancelled" => cfg.cancel
(* workers never idle while tasks are queued (unless a cancelling drain is pending on a busy worker) *)
NoIdleWithWork == (q # <<>> /\ Cardinality(run) < cfg.workers) => FALSE
(* shutdown completes as soon as nothing is running: no waiter stays blocked without reason *)
WaitersJustified == \A t \in Threads : /\ wait[t] = "zero" => Pending(q, run) > 0
                                       /\ wait[t] \in {"shutdown", "start"} => alive
                                       /\ wait[t] = "sd" => ~NoneHeld
ShutdownCompletes == (~running /\ q = <<>> /\ run = {}) => ~alive
(* finished tasks stay finished: exactly-once *)
ExactlyOnce == [][\A k \in Tasks : fin[k] # "no" => fin'[k] = fin[k] \/ ev'.op = "reset"]_vars
===========================================================================
