SPECIFICATION Spec
CONSTANTS
  Submitters = {1, 2}
  NW = 2
  Cancel = TRUE
  Restart = FALSE
  Variant = "code"
INVARIANTS TypeOK ExactlyOnce CounterExact Conservation
PROPERTIES ShutdownTerminates
