CONSTANTS
  Threads = {1, 2, 3}
  MaxTasks = 2
  MaxGen = 1
  MaxHeld = 2
  Controllers = {3}
  Submitters = {1, 2}
  Ops = {"Start", "Shutdown", "SubmitBegin", "SubmitEnd", "Release"}
  WorkerCounts = {1}
INVARIANTS TypeOK Conservation NoIdleWithWork WaitersJustified ShutdownCompletes
