------------------------------ MODULE PoolRun ------------------------------
(* Trace specification for free-running use of one WorkerPool (code -> model): submitters,  *)
(* tasks that submit tasks, Shutdown and waiters run unconstrained; every event is appended  *)
(* to one log under a mutex.  C16 on every recorded execution: a task body runs at most once *)
(* and only between its Submit's begin and the completion of the shutdown; after completion  *)
(* the pending counter is zero; without cancel-on-shutdown every accepted task ran.          *)
EXTENDS Integers, Sequences, FiniteSets, TLC

CONSTANTS MaxTasks
VARIABLES cfg, begun, accepted, refused, ran, complete, ev
vars == <<cfg, begun, accepted, refused, ran, complete, ev>>
View == <<cfg, begun, accepted, refused, ran, complete>>
Cfgs == [workers : 1..4, cancel : BOOLEAN]
Tasks == 1..MaxTasks

Init == cfg \in Cfgs /\ begun = {} /\ accepted = {} /\ refused = {} /\ ran = {} /\ complete = FALSE
        /\ ev = [op |-> "reset", cfg |-> cfg]

Do(s) ==
  CASE s.op = "reset" -> cfg' = s.cfg /\ begun' = {} /\ accepted' = {} /\ refused' = {} /\ ran' = {} /\ complete' = FALSE /\ ev' = s
    [] s.op = "begin" ->      \* Submit(k) is about to be called
         /\ s.k \in Tasks \ begun /\ begun' = begun \cup {s.k} /\ UNCHANGED <<cfg, accepted, refused, ran, complete>> /\ ev' = s
    [] s.op = "end" ->        \* Submit(k) returned; s.acc = the pending counter was increased by it
         /\ s.k \in begun \ (accepted \cup refused)
         /\ IF s.acc THEN accepted' = accepted \cup {s.k} /\ UNCHANGED refused
                     ELSE refused' = refused \cup {s.k} /\ UNCHANGED accepted
         /\ s.k \in ran => s.acc                              \* a task that ran was accepted
         /\ UNCHANGED <<cfg, begun, ran, complete>> /\ ev' = s
    [] s.op = "run" ->        \* the body of task k starts
         /\ s.k \in begun /\ s.k \notin ran /\ s.k \notin refused      \* exactly-once, never a refused task
         /\ ~complete                                                  \* nothing runs after shutdown completed
         /\ ran' = ran \cup {s.k} /\ UNCHANGED <<cfg, begun, accepted, refused, complete>> /\ ev' = s
    [] s.op = "settled" ->    \* the driver vouches: the pool is running, no Submit is in flight and it has been left alone for two
         /\ accepted \subseteq ran                                    \* seconds - every accepted task has been started by then
         /\ UNCHANGED <<cfg, begun, accepted, refused, ran, complete>> /\ ev' = s
    [] s.op = "complete" ->   \* Shutdown(); ShutdownComplete.Wait() returned; s.pending = counter value read afterwards
         /\ s.pending = 0
         /\ complete' = TRUE /\ UNCHANGED <<cfg, begun, accepted, refused, ran>> /\ ev' = s
    [] s.op = "final" ->      \* all submitters returned and the pool completed: conservation
         /\ complete /\ accepted \cup refused = begun
         /\ ran \subseteq accepted
         /\ (~cfg.cancel => ran = accepted)
         /\ s.finished = TRUE                                          \* every driver goroutine returned (no hang)
         /\ UNCHANGED <<cfg, begun, accepted, refused, ran, complete>> /\ ev' = s

Stimuli == [op : {"begin", "run"}, k : Tasks] \cup [op : {"end"}, k : Tasks, acc : BOOLEAN] \cup [op : {"complete"}, pending : {0}]
Next == \E s \in Stimuli : Do(s)
Spec == Init /\ [][Next]_vars
RanWasBegun == ran \subseteq begun
============================================================================
