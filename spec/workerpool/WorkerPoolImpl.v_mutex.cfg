SPECIFICATION Spec
CONSTANTS
  Submitters = {1, 2}
  NW = 1
  Cancel = FALSE
  Restart = TRUE
  Variant = "running_under_mutex"
INVARIANTS TypeOK ExactlyOnce CounterExact Conservation
PROPERTIES ShutdownTerminates
