SPECIFICATION Spec
CONSTANTS
  Submitters = {1, 2}
  NW = 1
  Cancel = FALSE
  Restart = FALSE
  Variant = "signal_without_lock"
INVARIANTS TypeOK ExactlyOnce CounterExact Conservation
PROPERTIES ShutdownTerminates
