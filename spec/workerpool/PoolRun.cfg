CONSTANTS
  MaxTasks = 3
INVARIANTS RanWasBegun
