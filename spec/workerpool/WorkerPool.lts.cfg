CONSTANTS
  Threads = {1, 2}
  MaxTasks = 2
  MaxGen = 1
  MaxHeld = 1
  Controllers = {1, 2}
  Submitters = {1, 2}
  Ops = {"Start", "Shutdown", "WaitShutdown", "WaitIsZero", "Submit", "SubmitBegin", "SubmitEnd", "Release"}
  WorkerCounts = {1}
INVARIANTS TypeOK Conservation NoIdleWithWork WaitersJustified ShutdownCompletes
