CONSTANTS
  Threads = {1, 2}
  MaxTasks = 2
  MaxGen = 1
  WorkerCounts = {1}
INVARIANTS TypeOK Conservation NoIdleWithWork WaitersJustified ShutdownCompletes
