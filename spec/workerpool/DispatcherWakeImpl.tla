------------------------- MODULE DispatcherWakeImpl -------------------------
(* The shutdown wake-up of the WorkerPool dispatcher, at the level of the locks involved:     *)
(* the dispatcher sits in Stack.PopOrWait(IsRunning) = under the stack mutex: queue empty?    *)
(* -> evaluate the wait condition -> condition-variable Wait (unlock + enqueue atomically);    *)
(* Shutdown = clear the running flag, then Stack.SignalShutdown = Broadcast.  TLC explores    *)
(* all interleavings and checks C16's "Shutdown followed by waiting for shutdown completion    *)
(* always terminates" for this hand-over.                                                      *)
EXTENDS Integers, TLC

CONSTANTS Variant    \* "code" (SignalShutdown passes through the stack mutex before it broadcasts)
                     \* | "signal_without_lock" (Broadcast without touching the mutex, as before the fix)
VARIABLES running, mu, waiting, dpc, spc
vars == <<running, mu, waiting, dpc, spc>>

Init == running = TRUE /\ mu = "free" /\ waiting = FALSE /\ dpc = "loop" /\ spc = "idle"

(* dispatcher: for running || size>0 { PopOrWait } ; (queue stays empty in this model) *)
DLoop == /\ dpc = "loop" /\ (IF running THEN dpc' = "lock" ELSE dpc' = "exited") /\ UNCHANGED <<running, mu, waiting, spc>>
DLock == /\ dpc = "lock" /\ mu = "free" /\ mu' = "disp" /\ dpc' = "cond" /\ UNCHANGED <<running, waiting, spc>>
DCond == /\ dpc = "cond"                    \* queue empty: evaluate waitCondition() = IsRunning()
         /\ IF running THEN dpc' = "wait" /\ UNCHANGED mu ELSE dpc' = "loop" /\ mu' = "free"
         /\ UNCHANGED <<running, waiting, spc>>
DWait == /\ dpc = "wait" /\ waiting' = TRUE /\ mu' = "free" /\ dpc' = "parked" /\ UNCHANGED <<running, spc>>   \* Cond.Wait: unlock + enqueue
DWake == /\ dpc = "parked" /\ ~waiting /\ mu = "free" /\ mu' = "disp" /\ dpc' = "cond" /\ UNCHANGED <<running, waiting, spc>>   \* re-lock, loop in PopOrWait

(* Shutdown *)
SFlip == /\ spc = "idle" /\ running' = FALSE /\ spc' = (IF Variant = "code" THEN "lock" ELSE "bcast") /\ UNCHANGED <<mu, waiting, dpc>>
SLock == /\ spc = "lock" /\ mu = "free" /\ mu' = "shut" /\ spc' = "unlock" /\ UNCHANGED <<running, waiting, dpc>>
SUnlock == /\ spc = "unlock" /\ mu' = "free" /\ spc' = "bcast" /\ UNCHANGED <<running, waiting, dpc>>
SBcast == /\ spc = "bcast" /\ waiting' = FALSE /\ spc' = "done" /\ UNCHANGED <<running, mu, dpc>>

Next == DLoop \/ DLock \/ DCond \/ DWait \/ DWake \/ SFlip \/ SLock \/ SUnlock \/ SBcast
Spec == Init /\ [][Next]_vars /\ WF_vars(Next)
(* once Shutdown has returned, the dispatcher leaves its loop (it then closes the channel and the workers exit) *)
DispatcherExits == (spc = "done") ~> (dpc = "exited")
=============================================================================
