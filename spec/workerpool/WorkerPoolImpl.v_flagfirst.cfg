SPECIFICATION Spec
CONSTANTS
  Submitters = {1, 2}
  NW = 1
  Cancel = FALSE
  Restart = FALSE
  Variant = "shutdown_flag_first"
INVARIANTS TypeOK ExactlyOnce CounterExact Conservation
PROPERTIES ShutdownTerminates
