CONSTANTS
  Threads = {1, 2}
  MaxTasks = 3
  MaxGen = 2
  WorkerCounts = {1, 2}
INVARIANTS TypeOK Conservation NoIdleWithWork WaitersJustified ShutdownCompletes
PROPERTIES ExactlyOnce
