--------------------------- MODULE WorkerPoolImpl ---------------------------
(* Implementation-level model of runtime/workerpool.WorkerPool: submitters (Submit as separate *)
(* steps: read lock, running check, counter increment, queue push), the dispatcher goroutine    *)
(* (loop test, Stack.PopOrWait with its mutex / wait condition / condition wait, channel send,   *)
(* WaitIsZero, close), worker goroutines (read loop with shutdown signal vs. task, drain mode),  *)
(* and a controller running a script of Start / Shutdown / ShutdownComplete.Wait.  TLC explores  *)
(* ALL interleavings and checks C16: every accepted task is run or (cancel-on-shutdown) cancelled *)
(* exactly once, the pending counter returns to zero, Shutdown + wait always terminates.          *)
(* Variant selects the current code or one of the defects the code had / a seeded change.         *)
EXTENDS Integers, Sequences, FiniteSets, TLC

CONSTANTS Submitters,      \* submitter s submits exactly one task, with id s
          NW,              \* number of workers
          Cancel,          \* cancel-on-shutdown option
          Restart,         \* controller script: Start; Shutdown; [Start; Shutdown;] ShutdownComplete.Wait
          Variant          \* "code" | "running_under_mutex" (before fix 341000b) | "submit_unguarded" (before bdeaf02)
                           \* | "signal_without_lock" (before a2b21a0) | "shutdown_flag_first" (seeded change C16-shutdown-cas)
Workers == 1..NW
Script == IF Restart THEN <<"Start", "Shutdown", "Start", "Shutdown", "Wait">> ELSE <<"Start", "Shutdown", "Wait">>
C == "ctl"

VARIABLES running, pmu, smR, smW, smWait, pending, queue, dchan, dclosed, sigs, alive,
          dpc, smu, dwaiting, dtask, wpc, wtask, spc, cpc, ci,
          accepted, ran, cancelled, twice
vars == <<running, pmu, smR, smW, smWait, pending, queue, dchan, dclosed, sigs, alive,
          dpc, smu, dwaiting, dtask, wpc, wtask, spc, cpc, ci, accepted, ran, cancelled, twice>>

Init == /\ running = FALSE /\ pmu = "free" /\ smR = {} /\ smW = FALSE /\ smWait = FALSE /\ pending = 0
        /\ queue = <<>> /\ dchan = <<>> /\ dclosed = FALSE /\ sigs = 0 /\ alive = 0
        /\ dpc = "none" /\ smu = "free" /\ dwaiting = FALSE /\ dtask = 0
        /\ wpc = [w \in Workers |-> "none"] /\ wtask = [w \in Workers |-> 0]
        /\ spc = [s \in Submitters |-> "idle"] /\ cpc = "next" /\ ci = 1
        /\ accepted = {} /\ ran = {} /\ cancelled = {} /\ twice = FALSE

(* IsRunning(): an atomic load in the current code; under the pool mutex (read lock) before fix 341000b *)
CanReadRunning == Variant # "running_under_mutex" \/ pmu = "free"

H == <<accepted, ran, cancelled, twice>>
(* ------------------------------- submitters ------------------------------- *)
SRLock(s) == /\ spc[s] = "idle"
             /\ IF Variant = "submit_unguarded" THEN UNCHANGED smR
                ELSE ~smW /\ ~smWait /\ smR' = smR \cup {s}
             /\ spc' = [spc EXCEPT ![s] = "check"]
             /\ UNCHANGED <<running, pmu, smW, smWait, pending, queue, dchan, dclosed, sigs, alive, dpc, smu, dwaiting, dtask, wpc, wtask, cpc, ci, H>>
SCheck(s) == /\ spc[s] = "check" /\ CanReadRunning
             /\ IF running THEN spc' = [spc EXCEPT ![s] = "inc"] /\ UNCHANGED smR
                ELSE spc' = [spc EXCEPT ![s] = "done"] /\ smR' = smR \ {s}
             /\ UNCHANGED <<running, pmu, smW, smWait, pending, queue, dchan, dclosed, sigs, alive, dpc, smu, dwaiting, dtask, wpc, wtask, cpc, ci, H>>
SInc(s) == /\ spc[s] = "inc" /\ pending' = pending + 1 /\ accepted' = accepted \cup {s}
           /\ spc' = [spc EXCEPT ![s] = "push"]
           /\ UNCHANGED <<running, pmu, smR, smW, smWait, queue, dchan, dclosed, sigs, alive, dpc, smu, dwaiting, dtask, wpc, wtask, cpc, ci, ran, cancelled, twice>>
SPush(s) == /\ spc[s] = "push" /\ smu = "free"           \* Stack.Push: under the stack mutex, then Broadcast
            /\ queue' = Append(queue, s) /\ dwaiting' = FALSE
            /\ spc' = [spc EXCEPT ![s] = "done"] /\ smR' = smR \ {s}
            /\ UNCHANGED <<running, pmu, smW, smWait, pending, dchan, dclosed, sigs, alive, dpc, smu, dtask, wpc, wtask, cpc, ci, H>>

(* ------------------------------- dispatcher ------------------------------- *)
DVars == <<running, pmu, smR, smW, smWait, sigs, alive, wpc, wtask, spc, cpc, ci, H>>
DLoop == /\ dpc = "loop" /\ CanReadRunning
         /\ dpc' = IF running \/ queue # <<>> THEN "lock" ELSE "waitzero"
         /\ UNCHANGED <<pending, queue, dchan, dclosed, smu, dwaiting, dtask>> /\ UNCHANGED DVars
DLock == /\ dpc = "lock" /\ smu = "free" /\ smu' = "disp" /\ dpc' = "cond"
         /\ UNCHANGED <<pending, queue, dchan, dclosed, dwaiting, dtask>> /\ UNCHANGED DVars
DCond == /\ dpc = "cond"
         /\ IF queue # <<>>
              THEN dtask' = Head(queue) /\ queue' = Tail(queue) /\ smu' = "free" /\ dpc' = "send"
              ELSE /\ CanReadRunning
                   /\ IF running THEN dpc' = "wait" /\ UNCHANGED smu ELSE dpc' = "loop" /\ smu' = "free"
                   /\ UNCHANGED <<queue, dtask>>
         /\ UNCHANGED <<pending, dchan, dclosed, dwaiting>> /\ UNCHANGED DVars
DWait == /\ dpc = "wait" /\ dwaiting' = TRUE /\ smu' = "free" /\ dpc' = "parked"
         /\ UNCHANGED <<pending, queue, dchan, dclosed, dtask>> /\ UNCHANGED DVars
DWake == /\ dpc = "parked" /\ ~dwaiting /\ smu = "free" /\ smu' = "disp" /\ dpc' = "cond"
         /\ UNCHANGED <<pending, queue, dchan, dclosed, dwaiting, dtask>> /\ UNCHANGED DVars
DSend == /\ dpc = "send" /\ Len(dchan) < NW /\ dchan' = Append(dchan, dtask) /\ dpc' = "loop"
         /\ UNCHANGED <<pending, queue, dclosed, smu, dwaiting, dtask>> /\ UNCHANGED DVars
DZero == /\ dpc = "waitzero" /\ pending = 0 /\ dclosed' = TRUE /\ dpc' = "closed"
         /\ UNCHANGED <<pending, queue, dchan, smu, dwaiting, dtask>> /\ UNCHANGED DVars

(* --------------------------------- workers --------------------------------- *)
WVars == <<running, pmu, smR, smW, smWait, queue, dclosed, dpc, smu, dwaiting, dtask, spc, cpc, ci, accepted>>
WSignal(w) == /\ wpc[w] = "read" /\ sigs > 0 /\ sigs' = sigs - 1 /\ wpc' = [wpc EXCEPT ![w] = "drain"]
              /\ UNCHANGED <<pending, dchan, alive, wtask, ran, cancelled, twice>> /\ UNCHANGED WVars
WTake(w) == /\ wpc[w] = "read" /\ dchan # <<>>            \* (a ready signal and a ready task: select picks either)
            /\ wtask' = [wtask EXCEPT ![w] = Head(dchan)] /\ dchan' = Tail(dchan) /\ wpc' = [wpc EXCEPT ![w] = "run"]
            /\ UNCHANGED <<pending, sigs, alive, ran, cancelled, twice>> /\ UNCHANGED WVars
WRun(w) == /\ wpc[w] \in {"run", "drainrun"}
           /\ ran' = ran \cup {wtask[w]} /\ twice' = (twice \/ wtask[w] \in ran \/ wtask[w] \in cancelled)
           /\ pending' = pending - 1
           /\ wpc' = [wpc EXCEPT ![w] = IF wpc[w] = "run" THEN "read" ELSE "drain"]
           /\ UNCHANGED <<dchan, sigs, alive, wtask, cancelled>> /\ UNCHANGED WVars
WDrain(w) == /\ wpc[w] = "drain" /\ dchan # <<>>
             /\ dchan' = Tail(dchan)
             /\ IF Cancel
                  THEN /\ cancelled' = cancelled \cup {Head(dchan)} /\ twice' = (twice \/ Head(dchan) \in ran \/ Head(dchan) \in cancelled)
                       /\ pending' = pending - 1 /\ UNCHANGED <<wpc, wtask>>
                  ELSE /\ wtask' = [wtask EXCEPT ![w] = Head(dchan)] /\ wpc' = [wpc EXCEPT ![w] = "drainrun"]
                       /\ UNCHANGED <<pending, cancelled, twice>>
             /\ UNCHANGED <<sigs, alive, ran>> /\ UNCHANGED WVars
WExit(w) == /\ wpc[w] \in {"read", "drain"} /\ dclosed /\ dchan = <<>>
            /\ wpc' = [wpc EXCEPT ![w] = "exit"] /\ alive' = alive - 1
            /\ UNCHANGED <<pending, dchan, sigs, wtask, ran, cancelled, twice>> /\ UNCHANGED WVars

(* -------------------------------- controller -------------------------------- *)
CVars == <<pending, queue, smR, dtask, wtask, spc, H>>
Op == IF ci <= Len(Script) THEN Script[ci] ELSE "end"
CNext == /\ cpc = "next" /\ Op # "end"
         /\ IF Op = "Wait" THEN cpc' = "wait" ELSE cpc' = "lock"
         /\ UNCHANGED <<running, pmu, smW, smWait, dchan, dclosed, sigs, alive, dpc, smu, dwaiting, wpc, ci>> /\ UNCHANGED CVars
CLock == /\ cpc = "lock" /\ pmu = "free" /\ pmu' = C
         /\ cpc' = IF Op = "Start" THEN (IF running THEN "unlock" ELSE "st_wait")
                   ELSE (IF running THEN (IF Variant = "shutdown_flag_first" THEN "sd_flagfirst" ELSE "sd_flip") ELSE "unlock")
         /\ UNCHANGED <<running, smW, smWait, dchan, dclosed, sigs, alive, dpc, smu, dwaiting, wpc, ci>> /\ UNCHANGED CVars
CStWait == /\ cpc = "st_wait" /\ alive = 0                 \* ShutdownComplete.Wait() while holding the pool mutex
           /\ running' = TRUE /\ dclosed' = FALSE /\ dchan' = <<>> /\ dpc' = "loop"
           /\ wpc' = [w \in Workers |-> "read"] /\ alive' = NW /\ cpc' = "unlock"
           /\ UNCHANGED <<pmu, smW, smWait, sigs, smu, dwaiting, ci>> /\ UNCHANGED CVars
(* Shutdown: flip the flag behind the submit barrier (current code) *)
CSdFlip == /\ cpc = "sd_flip"
           /\ IF Variant = "submit_unguarded" THEN UNCHANGED smWait
              ELSE IF smR = {} THEN smWait' = FALSE ELSE smWait' = TRUE       \* the write lock waits for Submits inside; new ones queue behind it
           /\ IF Variant = "submit_unguarded" \/ smR = {}
                THEN running' = FALSE /\ cpc' = "sd_sig"
                ELSE UNCHANGED <<running, cpc>>
           /\ UNCHANGED <<pmu, smW, dchan, dclosed, sigs, alive, dpc, smu, dwaiting, wpc, ci>> /\ UNCHANGED CVars
(* seeded change: the flag is flipped BEFORE the barrier *)
CSdFlagFirst == /\ cpc = "sd_flagfirst" /\ running' = FALSE /\ cpc' = "sd_barrier"
                /\ UNCHANGED <<pmu, smW, smWait, dchan, dclosed, sigs, alive, dpc, smu, dwaiting, wpc, ci>> /\ UNCHANGED CVars
CSdBarrier == /\ cpc = "sd_barrier"
              /\ IF smR = {} THEN smWait' = FALSE /\ cpc' = "sd_sig" ELSE smWait' = TRUE /\ UNCHANGED cpc
              /\ UNCHANGED <<running, pmu, smW, dchan, dclosed, sigs, alive, dpc, smu, dwaiting, wpc, ci>> /\ UNCHANGED CVars
CSdSig == /\ cpc = "sd_sig" /\ sigs' = sigs + NW /\ cpc' = "sd_bcast"
          /\ UNCHANGED <<running, pmu, smW, smWait, dchan, dclosed, alive, dpc, smu, dwaiting, wpc, ci>> /\ UNCHANGED CVars
CSdBcast == /\ cpc = "sd_bcast"
            /\ (Variant # "signal_without_lock" => smu = "free")          \* SignalShutdown passes through the stack mutex first
            /\ dwaiting' = FALSE /\ cpc' = "unlock"
            /\ UNCHANGED <<running, pmu, smW, smWait, dchan, dclosed, sigs, alive, dpc, smu, wpc, ci>> /\ UNCHANGED CVars
CUnlock == /\ cpc = "unlock" /\ pmu' = "free" /\ ci' = ci + 1 /\ cpc' = "next"
           /\ UNCHANGED <<running, smW, smWait, dchan, dclosed, sigs, alive, dpc, smu, dwaiting, wpc>> /\ UNCHANGED CVars
CWait == /\ cpc = "wait" /\ alive = 0 /\ ci' = ci + 1 /\ cpc' = "next"
         /\ UNCHANGED <<running, pmu, smW, smWait, dchan, dclosed, sigs, alive, dpc, smu, dwaiting, wpc>> /\ UNCHANGED CVars

Sub(s) == SRLock(s) \/ SCheck(s) \/ SInc(s) \/ SPush(s)
Disp == DLoop \/ DLock \/ DCond \/ DWait \/ DWake \/ DSend \/ DZero
Work(w) == WSignal(w) \/ WTake(w) \/ WRun(w) \/ WDrain(w) \/ WExit(w)
Ctl == CNext \/ CLock \/ CStWait \/ CSdFlip \/ CSdFlagFirst \/ CSdBarrier \/ CSdSig \/ CSdBcast \/ CUnlock \/ CWait
Next == (\E s \in Submitters : Sub(s)) \/ Disp \/ (\E w \in Workers : Work(w)) \/ Ctl
Spec == Init /\ [][Next]_vars /\ WF_vars(Disp) /\ WF_vars(Ctl) /\ (\A w \in Workers : WF_vars(Work(w))) /\ (\A s \in Submitters : WF_vars(Sub(s)))

(* ------------------------------- the property ------------------------------- *)
TypeOK == pending >= 0 /\ alive \in 0..NW /\ Len(dchan) <= NW
ExactlyOnce == ~twice /\ ran \cap cancelled = {} /\ (ran \cup cancelled) \subseteq accepted /\ (cancelled # {} => Cancel)
CounterExact == pending = Cardinality(accepted \ (ran \cup cancelled))
ScriptDone == ci > Len(Script) /\ \A s \in Submitters : spc[s] = "done"
(* when the script (ending with Shutdown; Wait) and all submitters are through, nothing accepted is left over *)
Conservation == ScriptDone => (accepted = ran \cup cancelled /\ pending = 0 /\ queue = <<>>)
(* nothing runs after the shutdown completed: workers are gone once Wait returned *)
ShutdownTerminates == <>(ci > Len(Script))
=============================================================================
