CONSTANTS
  Tasks = {1, 2, 3, 4, 5, 6}
INVARIANTS TypeOK
