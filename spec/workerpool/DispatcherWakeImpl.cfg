SPECIFICATION Spec
CONSTANTS
  Variant = "code"
PROPERTIES DispatcherExits
