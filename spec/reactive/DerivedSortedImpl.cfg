SPECIFICATION Spec
CONSTANTS
  Elems = {1, 2}
  Writes = 2
  Del = 1
  Variant = "code"
INVARIANTS NoCorruption Converged MutexOK
PROPERTIES Terminates
