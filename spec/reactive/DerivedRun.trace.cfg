CONSTANTS
  MaxId = 8
