CONSTANTS
  Kinds = {"var1", "var2", "inherit", "union", "subtract", "counter", "sorted", "waitgroup", "evict"}
  Vals = {0, 1, 2}
  Elems = {1, 2, 3}
  NInputs = 3
  NSorted = 4
  MaxSlot = 4
INVARIANTS Converged ObsOK
PROPERTIES Sticky
