CONSTANTS
  Kinds = {"var1", "var2", "inherit", "union", "subtract", "counter", "sorted", "waitgroup", "evict"}
  Vals = {0, 1, 2}
  Elems = {1, 2, 3}
  NInputs = 3
  NSorted = 3
  MaxSlot = 3
INVARIANTS Converged ObsOK
PROPERTIES Sticky
