SPECIFICATION Spec
CONSTANTS
  Adders = {1, 2}
  Doners = {11, 12, 13}
  Variant = "code"
INVARIANTS NoEarlyTrigger TriggeredWhenEmptied CounterOK
PROPERTIES Terminates
