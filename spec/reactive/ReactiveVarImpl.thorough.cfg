SPECIFICATION Spec
CONSTANTS
  Writers = {1, 2}
  Subs = {11, 12, 13}
  WritesPer = 2
  Unsubbers = {12}
  Variant = "code"
INVARIANTS NoOverlap NoneAfterUnsubscribe ChainOK LastIsFinal
