----------------------------- MODULE ReactiveObs -----------------------------
(* API-level meaning of property C13 as a trace specification over what subscribers observe. *)
(* One global log (events appended under one mutex inside the callbacks / around the calls):  *)
(*   subBegin/subEnd s, cb s prev new, cbEnd s, unsubBegin/unsubEnd s   (Variable, Event)      *)
(*   cbSet s added deleted                                               (Set)                  *)
(*   write t prev new (a writer's call returned: it changed prev to new)                        *)
(*   final (value or contents read when everything is quiescent, subscribers still active)      *)
(* C13: a subscriber sees the state at subscription time and then every later change exactly    *)
(* once and in order (each callback's previous value = the preceding callback's new value, the   *)
(* changes form ONE chain shared by all observers), callbacks of one subscription never overlap, *)
(* none starts after its unsubscribe returned, the last reported value is the final value, and   *)
(* folding reported set mutations reproduces the contents.                                       *)
EXTENDS Integers, Sequences, FiniteSets, TLC

CONSTANTS Subs, MaxVal
VARIABLES cfg, last, incb, gone, fold, succ, pred, ncb, ev
vars == <<cfg, last, incb, gone, fold, succ, pred, ncb, ev>>
View == <<cfg, last, incb, gone, fold, succ, pred, ncb>>
Cfgs == [kind : {"var", "event", "set"}]
None == 0 - 1
Vals == 0..MaxVal

(* last[s] = new value of the preceding callback of s (None before the first); succ/pred = the chain of changes learned so far *)
Init == /\ cfg \in Cfgs /\ last = [s \in Subs |-> None] /\ incb = [s \in Subs |-> FALSE] /\ gone = [s \in Subs |-> FALSE]
        /\ fold = [s \in Subs |-> {}] /\ succ = [v \in {} |-> 0] /\ pred = [v \in {} |-> 0] /\ ncb = [s \in Subs |-> 0]
        /\ ev = [op |-> "reset", cfg |-> cfg]

(* the change p -> n is consistent with one chain: p has no other successor, n no other predecessor *)
LinkOK(p, n) == /\ (p \in DOMAIN succ => succ[p] = n)
                /\ (n \in DOMAIN pred => pred[n] = p)
                /\ p # n
Learn(p, n) == /\ succ' = IF p \in DOMAIN succ THEN succ ELSE succ @@ (p :> n)
               /\ pred' = IF n \in DOMAIN pred THEN pred ELSE pred @@ (n :> p)
ToSet(seq) == {seq[i] : i \in DOMAIN seq}

Do(s) ==
  CASE s.op = "reset" -> /\ cfg' = s.cfg /\ last' = [x \in Subs |-> None] /\ incb' = [x \in Subs |-> FALSE] /\ gone' = [x \in Subs |-> FALSE]
                         /\ fold' = [x \in Subs |-> {}] /\ succ' = [v \in {} |-> 0] /\ pred' = [v \in {} |-> 0] /\ ncb' = [x \in Subs |-> 0] /\ ev' = s
    [] s.op \in {"subBegin", "subEnd", "unsubBegin", "note"} ->
         UNCHANGED <<cfg, last, incb, gone, fold, succ, pred, ncb>> /\ ev' = s
    [] s.op = "unsubEnd" ->
         gone' = [gone EXCEPT ![s.s] = TRUE] /\ UNCHANGED <<cfg, last, incb, fold, succ, pred, ncb>> /\ ev' = s
    [] s.op = "cb" ->           \* a Variable/Event callback starts: (prev, new)
         /\ ~incb[s.s]                                        \* never concurrently with another callback of the same subscription
         /\ ~gone[s.s]                                        \* never after unsubscribe returned
         /\ IF last[s.s] = None
              THEN /\ s.prev = 0                               \* the initial callback reports the state at subscription time
                   /\ UNCHANGED <<succ, pred>>
              ELSE /\ s.prev = last[s.s]                        \* gap-free, in order
                   /\ LinkOK(s.prev, s.new) /\ Learn(s.prev, s.new)
         /\ last' = [last EXCEPT ![s.s] = s.new] /\ incb' = [incb EXCEPT ![s.s] = TRUE] /\ ncb' = [ncb EXCEPT ![s.s] = @ + 1]
         /\ UNCHANGED <<cfg, gone, fold>> /\ ev' = s
    [] s.op = "cbSet" ->        \* a Set callback starts: applied mutations (added, deleted)
         /\ ~incb[s.s] /\ ~gone[s.s]
         \* every change exactly once: what is reported as added is new to this subscriber, what is reported as deleted is
         \* something it was told about (the first report is the contents at subscription time, from the empty view)
         \* (one Apply may add and delete the same element: then it is reported in both parts)
         /\ ToSet(s.added) \cap fold[s.s] = {} /\ ToSet(s.deleted) \subseteq fold[s.s] \cup ToSet(s.added)
         /\ fold' = [fold EXCEPT ![s.s] = (@ \cup ToSet(s.added)) \ ToSet(s.deleted)]
         /\ incb' = [incb EXCEPT ![s.s] = TRUE] /\ ncb' = [ncb EXCEPT ![s.s] = @ + 1]
         /\ UNCHANGED <<cfg, last, gone, succ, pred>> /\ ev' = s
    [] s.op = "cbEnd" ->
         /\ incb[s.s] /\ incb' = [incb EXCEPT ![s.s] = FALSE] /\ UNCHANGED <<cfg, last, gone, fold, succ, pred, ncb>> /\ ev' = s
    [] s.op = "write" ->        \* a writer's Set/Compute returned having changed prev to new: part of the same single chain
         /\ LinkOK(s.prev, s.new) /\ Learn(s.prev, s.new)
         /\ UNCHANGED <<cfg, last, incb, gone, fold, ncb>> /\ ev' = s
    [] s.op = "final" ->        \* quiescent: s.active = subscribers never unsubscribed, s.value / s.contents = what the object holds now
         /\ s.hung = <<>>
         /\ \A x \in ToSet(s.active) :
              /\ ~incb[x]
              /\ (cfg.kind = "var" => last[x] = s.value)                    \* the last reported value equals the final value
              /\ (cfg.kind = "event" => /\ ncb[x] = (IF s.value = 1 THEN 1 ELSE 0))   \* OnTrigger callbacks: exactly once iff triggered
              /\ (cfg.kind = "set" => fold[x] = ToSet(s.contents))          \* folding the mutations reproduces the contents
         /\ UNCHANGED <<cfg, last, incb, gone, fold, succ, pred, ncb>> /\ ev' = s

Stimuli == [op : {"cb"}, s : Subs, prev : Vals, new : Vals] \cup [op : {"cbEnd", "unsubEnd"}, s : Subs] \cup [op : {"write"}, prev : Vals, new : Vals]
Next == \E s \in Stimuli : Do(s)
Spec == Init /\ [][Next]_vars
(* sanity of the spec itself: whatever is accepted keeps the learned changes a partial injective function (one chain) *)
OneChain == \A p \in DOMAIN succ : pred[succ[p]] = p
Bounded == \A x \in Subs : ncb[x] <= 3
==============================================================================
