------------------------------- MODULE Derived -------------------------------
(* Property C14: derived reactive values equal their DEFINING FUNCTION of the current inputs.    *)
(* Sequential convention (spec/README.md): one stimulus = one call on an input / one structural   *)
(* change, `st` = the derived getters of the real objects after the call returned (quiescent).    *)
(* The derived value is not stored where it is a pure function of the inputs (it is computed in   *)
(* St); it is stored only where the contract makes it depend on history (a derived variable keeps *)
(* its value after Unsubscribe, an event stays triggered).                                        *)
(*   cfg.kind = "var1" | "var2"   NewDerivedVariable / NewDerivedVariable2:  d = compute(inputs)  *)
(*              "inherit"         Variable.InheritFrom: d copies the source it currently points to*)
(*              "union"           NewDerivedSet + InheritFrom: d = union of the CURRENT sources   *)
(*              "subtract"        SubtractReactive: d = source minus the others                   *)
(*              "counter"         Counter.Monitor: d = number of monitored inputs satisfying cond *)
(*              "sorted"          SortedSet: elements by current weight, Heaviest/Lightest at ends*)
(*              "waitgroup"       WaitGroup: triggers iff its last pending element is marked done *)
(*              "evict"           EvictionState: exactly the events of slots <= last are triggered*)
EXTENDS Integers, Sequences, FiniteSets, SequencesExt, TLC

CONSTANTS Kinds,      \* kinds explored
          Vals,       \* values written to input variables / weights
          Elems,      \* elements of the source sets / wait group
          NInputs,    \* inputs that a Counter can monitor
          NSorted,    \* elements 1..NSorted of the SortedSet
          MaxSlot     \* slots 0..MaxSlot of the EvictionState
VARIABLES cfg, m, ev
vars == <<cfg, m, ev>>
View == <<cfg, m>>

VarKinds == {"var1", "var2", "inherit"}
Cfgs == {c \in [kind : {"var1", "var2", "inherit", "union", "subtract"}]
               \cup [kind : {"counter"}, n : {NInputs}, cond : {"nz", "ge2"}]
               \cup [kind : {"sorted"}, n : {NSorted}, tie : BOOLEAN]
               \cup [kind : {"waitgroup"}, init : {<<>>, <<1>>, <<1, 2>>, <<1, 1>>}]
               \cup [kind : {"evict"}, slots : {MaxSlot}] : c.kind \in Kinds}

SSeq(S) == SetToSortSeq(S, LAMBDA a, b : a < b)
MaxOf(a, b) == IF a > b THEN a ELSE b

(* ------------------------------ the defining functions ------------------------------ *)
F1(a) == a + 1                      \* compute of the 1-input derived variable (harness passes the same function)
F2(a, b) == 10 * a + b + 1          \* compute of the 2-input derived variable
VarD(k, in, src, d) ==              \* src = 0: unsubscribed (the value stays)
  CASE k = "var1" -> IF src = 1 THEN F1(in[1]) ELSE d
    [] k = "var2" -> IF src = 1 THEN F2(in[1], in[2]) ELSE d
    [] k = "inherit" -> IF src = 0 THEN d ELSE in[src]
UnionD(mm) == UNION {mm.s[j] : j \in {j \in 1..2 : mm.grp[j] # 0}}
SubD(mm) == IF mm.live THEN mm.s[1] \ (mm.s[2] \cup mm.s[3]) ELSE {}
Cond(c, v) == IF c = "nz" THEN v # 0 ELSE v >= 2
Count(c, mm) == Cardinality({i \in 1..c.n : mm.mon[i] /\ Cond(c.cond, mm.in[i])})
(* x may stand directly before y in the descending list *)
Before(c, mm, x, y) == mm.w[x] > mm.w[y] \/ (mm.w[x] = mm.w[y] /\ (c.tie => x > y))
Perms(S) == {p \in [1..Cardinality(S) -> S] : \A i, j \in 1..Cardinality(S) : i # j => p[i] # p[j]}
Orders(c, mm) == {p \in Perms(mm.mem) : \A i \in 1..(Cardinality(mm.mem) - 1) : Before(c, mm, p[i], p[i + 1])}
SlotStatus(mm, s) == IF s \notin mm.held THEN 0 ELSE IF s <= mm.last THEN 2 ELSE 1

M0(c) == CASE c.kind \in {"var1", "var2"} -> [in |-> <<0, 0>>, src |-> 1, d |-> VarD(c.kind, <<0, 0>>, 1, 0)]
           [] c.kind = "inherit" -> [in |-> <<0, 0>>, src |-> 0, d |-> 0]
           [] c.kind = "union" -> [s |-> <<{}, {}>>, grp |-> <<0, 0>>]
           [] c.kind = "subtract" -> [s |-> <<{}, {}, {}>>, live |-> FALSE]
           [] c.kind = "counter" -> [in |-> [i \in 1..c.n |-> 0], mon |-> [i \in 1..c.n |-> FALSE]]
           [] c.kind = "sorted" -> [w |-> [e \in 1..c.n |-> 0], mem |-> {}]
           [] c.kind = "waitgroup" -> [pend |-> ToSet(c.init), trig |-> FALSE]
           [] c.kind = "evict" -> [last |-> 0 - 1, held |-> {}]

(* projected observable state (sorted: see SortedSt, it depends on the order the code chose among ties) *)
St(c, mm) ==
  CASE c.kind \in VarKinds -> [in |-> mm.in, d |-> mm.d]
    [] c.kind = "union" -> [s |-> <<SSeq(mm.s[1]), SSeq(mm.s[2])>>, d |-> SSeq(UnionD(mm))]
    [] c.kind = "subtract" -> [s |-> <<SSeq(mm.s[1]), SSeq(mm.s[2]), SSeq(mm.s[3])>>, d |-> SSeq(SubD(mm))]
    [] c.kind = "counter" -> [in |-> mm.in, d |-> Count(c, mm)]
    [] c.kind = "waitgroup" -> [pend |-> SSeq(mm.pend), trig |-> mm.trig]
    [] c.kind = "evict" -> [last |-> MaxOf(mm.last, 0), held |-> [i \in 1..(c.slots + 1) |-> SlotStatus(mm, i - 1)]]
SortedSt(p, mm) == [mem |-> SSeq(mm.mem), w |-> mm.w, desc |-> p, asc |-> Reverse(p),
                    hi |-> IF Len(p) = 0 THEN 0 ELSE p[1], lo |-> IF Len(p) = 0 THEN 0 ELSE p[Len(p)]]

(* one outcome [m, res, st]; for the SortedSet one per admissible order *)
One(c, m2, r) == IF c.kind = "sorted" THEN {[m |-> m2, res |-> r, st |-> SortedSt(p, m2)] : p \in Orders(c, m2)}
                 ELSE {[m |-> m2, res |-> r, st |-> St(c, m2)]}

RECURSIVE DoneFold(_, _, _)
DoneFold(pend, trig, es) ==          \* Done(es...): one element after the other; the one that empties the group triggers
  IF es = <<>> THEN [pend |-> pend, trig |-> trig]
  ELSE LET e == Head(es) IN
       IF e \in pend THEN DoneFold(pend \ {e}, trig \/ (pend = {e}), Tail(es))
       ELSE DoneFold(pend, trig, Tail(es))

SetOp(S, s) == CASE s.op = "Add" -> [set |-> S \cup {s.e}, res |-> s.e \notin S]
                 [] s.op = "Del" -> [set |-> S \ {s.e}, res |-> s.e \in S]
                 [] s.op = "Replace" -> [set |-> ToSet(s.es), res |-> SSeq(S \ ToSet(s.es))]

Outcomes(c, mm, s) ==
  CASE c.kind \in VarKinds ->
         (CASE s.op = "Set" -> LET in2 == [mm.in EXCEPT ![s.i] = s.v] IN
                               One(c, [mm EXCEPT !.in = in2, !.d = VarD(c.kind, in2, mm.src, mm.d)], mm.in[s.i])
            [] s.op = "Unsub" -> One(c, [mm EXCEPT !.src = 0], 0)
            [] s.op = "Point" -> One(c, [mm EXCEPT !.src = s.i, !.d = mm.in[s.i]], 0))      \* unsubscribe from the old source, inherit from the new
    [] c.kind = "union" ->
         (CASE s.op \in {"Add", "Del", "Replace"} -> LET r == SetOp(mm.s[s.i], s) IN One(c, [mm EXCEPT !.s[s.i] = r.set], r.res)
            [] s.op = "Sub" ->       \* i = 0: one InheritFrom call with all sources not inherited yet (group 3); else source i alone
                 One(c, [mm EXCEPT !.grp = [j \in 1..2 |-> IF mm.grp[j] = 0 /\ (s.i = 0 \/ s.i = j) THEN (IF s.i = 0 THEN 3 ELSE j) ELSE mm.grp[j]]], 0)
            [] s.op = "Unsub" ->     \* the unsubscribe function of the InheritFrom call that source i belongs to
                 One(c, [mm EXCEPT !.grp = [j \in 1..2 |-> IF mm.grp[s.i] # 0 /\ mm.grp[j] = mm.grp[s.i] THEN 0 ELSE mm.grp[j]]], 0))
    [] c.kind = "subtract" ->
         (CASE s.op \in {"Add", "Del", "Replace"} -> LET r == SetOp(mm.s[s.i], s) IN One(c, [mm EXCEPT !.s[s.i] = r.set], r.res)
            [] s.op = "Derive" -> One(c, [mm EXCEPT !.live = TRUE], 0))
    [] c.kind = "counter" ->
         (CASE s.op = "Set" -> One(c, [mm EXCEPT !.in[s.i] = s.v], mm.in[s.i])
            [] s.op = "Mon" -> One(c, [mm EXCEPT !.mon[s.i] = TRUE], 0)
            [] s.op = "Unmon" -> One(c, [mm EXCEPT !.mon[s.i] = FALSE], 0))
    [] c.kind = "sorted" ->
         (CASE s.op = "SetW" -> One(c, [mm EXCEPT !.w[s.e] = s.v], mm.w[s.e])
            [] s.op \in {"Add", "Del", "Replace"} -> LET r == SetOp(mm.mem, s) IN One(c, [mm EXCEPT !.mem = r.set], r.res))
    [] c.kind = "waitgroup" ->
         (CASE s.op = "Add" -> One(c, [mm EXCEPT !.pend = @ \cup ToSet(s.es)], 0)
            [] s.op = "Done" -> One(c, DoneFold(mm.pend, mm.trig, s.es), 0))
    [] c.kind = "evict" ->
         (CASE s.op = "Req" -> One(c, [mm EXCEPT !.held = @ \cup {s.s}], s.s <= mm.last)     \* the handle is triggered iff the slot was evicted
            [] s.op = "Evict" -> One(c, [mm EXCEPT !.last = MaxOf(@, s.s)], 0)
            [] s.op = "Probe" -> One(c, mm, [i \in 1..(c.slots + 1) |-> (i - 1) <= mm.last]))

Init == /\ cfg \in Cfgs /\ m = M0(cfg) /\ ev = [op |-> "reset", cfg |-> cfg]

Out(s, r, st) == ev' = [f \in (DOMAIN s) \cup {"res", "st"} |-> IF f = "res" THEN r ELSE IF f = "st" THEN st ELSE s[f]]
Do(s) == IF s.op = "reset" THEN cfg' = s.cfg /\ m' = M0(s.cfg) /\ ev' = s
         ELSE /\ UNCHANGED cfg
              /\ \E o \in Outcomes(cfg, m, s) : m' = o.m /\ Out(s, o.res, o.st)

SubsetSeqs(S) == {SSeq(T) : T \in SUBSET S}
Short(S) == {<<a>> : a \in S} \cup {<<a, b>> : a \in S, b \in S}
StimuliOf(c) ==
  CASE c.kind = "var1" -> [op : {"Set"}, i : {1}, v : Vals] \cup [op : {"Unsub"}]
    [] c.kind = "var2" -> [op : {"Set"}, i : {1, 2}, v : Vals] \cup [op : {"Unsub"}]
    [] c.kind = "inherit" -> [op : {"Set"}, i : {1, 2}, v : Vals] \cup [op : {"Unsub"}] \cup [op : {"Point"}, i : {1, 2}]
    [] c.kind = "union" -> [op : {"Add", "Del"}, i : {1, 2}, e : Elems] \cup [op : {"Replace"}, i : {1, 2}, es : SubsetSeqs(Elems)]
                             \cup [op : {"Sub"}, i : 0..2] \cup [op : {"Unsub"}, i : 1..2]
    [] c.kind = "subtract" -> [op : {"Add", "Del"}, i : 1..3, e : Elems] \cup [op : {"Replace"}, i : 1..3, es : SubsetSeqs(Elems)] \cup [op : {"Derive"}]
    [] c.kind = "counter" -> [op : {"Set"}, i : 1..c.n, v : Vals] \cup [op : {"Mon", "Unmon"}, i : 1..c.n]
    [] c.kind = "sorted" -> [op : {"SetW"}, e : 1..c.n, v : Vals] \cup [op : {"Add", "Del"}, e : 1..c.n] \cup [op : {"Replace"}, es : SubsetSeqs(1..c.n)]
    [] c.kind = "waitgroup" -> [op : {"Add", "Done"}, es : Short(Elems)]
    [] c.kind = "evict" -> [op : {"Req", "Evict"}, s : 0..c.slots] \cup [op : {"Probe"}]
Next == \E s \in StimuliOf(cfg) : Do(s)
Spec == Init /\ [][Next]_vars

(* ---- the property on the model (what is stored must agree with the defining function; the rest is defined by it) ---- *)
Converged == /\ (cfg.kind \in {"var1", "var2"} /\ m.src = 1 => m.d = VarD(cfg.kind, m.in, 1, 0))
             /\ (cfg.kind = "inherit" /\ m.src # 0 => m.d = m.in[m.src])
(* what the observers are told is self-consistent: ends of the sorted list, counter range, triggered handles *)
ObsOK == ev.op # "reset" =>
           /\ (cfg.kind = "sorted" => /\ Len(ev.st.desc) = Cardinality(m.mem)
                                      /\ \A i \in 1..(Len(ev.st.desc) - 1) : m.w[ev.st.desc[i]] >= m.w[ev.st.desc[i + 1]]
                                      /\ (m.mem # {} => /\ \A e \in m.mem : m.w[ev.st.hi] >= m.w[e] /\ m.w[ev.st.lo] <= m.w[e]))
           /\ (cfg.kind = "counter" => ev.st.d \in 0..cfg.n)
           /\ (cfg.kind = "evict" => \A i \in 1..(cfg.slots + 1) : ev.st.held[i] = 2 => (i - 1) <= m.last)
(* an eviction never un-triggers, a wait group never un-triggers *)
Sticky == [][(cfg.kind = "waitgroup" /\ m.trig /\ cfg' = cfg => m'.trig) /\ (cfg.kind = "evict" /\ cfg' = cfg => m'.last >= m.last)]_vars
==============================================================================
