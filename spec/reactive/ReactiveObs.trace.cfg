CONSTANTS
  Subs = {1, 2, 3, 4, 5, 6}
  MaxVal = 100000
INVARIANTS OneChain
