-------------------------- MODULE ReactiveVarImpl --------------------------
(* Implementation-level model of ds/reactive Variable: updateOrderMutex (held through the    *)
(* notification), valueMutex, per-callback execution mutex with lastUpdate / unsubscribed,    *)
(* the callback snapshot taken with the value update, OnUpdate's "take the execution lock     *)
(* before releasing the value lock", and unsubscribe = list removal + MarkUnsubscribed.       *)
(* TLC explores ALL interleavings of writers, subscribers and unsubscribers and checks C13:   *)
(* every subscriber sees the value at subscription time and then every later change exactly   *)
(* once, in order; callbacks of one subscription never overlap; none starts after its         *)
(* unsubscribe returned; the last reported value is the final value.                          *)
EXTENDS Integers, Sequences, FiniteSets, TLC

CONSTANTS Writers, Subs, WritesPer, Unsubbers,      \* Unsubbers \subseteq Subs: those that unsubscribe after subscribing
          Variant     \* "code" | "sub_unlock_before_exec" | "unsub_no_exec_lock" | "no_order_mutex"

VARIABLES value, uid, cbs,            \* current value, last update id, registered callbacks (sequence of subs)
          ordM, valM, execM,          \* mutex holders (0 = free); execM: sub -> holder
          unsub, lastUpd,             \* per callback
          wpc, wn, wsnap, wprev, wnew, wid,   \* writer: pc, writes done, remaining snapshot, prev/new/id of the update in flight
          spc, scur,                  \* subscriber: pc, value read at subscription
          hist, seen, running, unsubRet, late   \* history: value order, per-sub delivered pairs, callbacks in flight, unsubscribe returned, violation flag
vars == <<value, uid, cbs, ordM, valM, execM, unsub, lastUpd, wpc, wn, wsnap, wprev, wnew, wid, spc, scur, hist, seen, running, unsubRet, late>>

Procs == Writers \cup Subs
Val(w, n) == w * 10 + n              \* distinct values per write

Init == /\ value = 0 /\ uid = 0 /\ cbs = <<>> /\ ordM = 0 /\ valM = 0 /\ execM = [s \in Subs |-> 0]
        /\ unsub = [s \in Subs |-> FALSE] /\ lastUpd = [s \in Subs |-> 0]
        /\ wpc = [w \in Writers |-> "idle"] /\ wn = [w \in Writers |-> 0] /\ wsnap = [w \in Writers |-> <<>>]
        /\ wprev = [w \in Writers |-> 0] /\ wnew = [w \in Writers |-> 0] /\ wid = [w \in Writers |-> 0]
        /\ spc = [s \in Subs |-> "idle"] /\ scur = [s \in Subs |-> 0]
        /\ hist = <<0>> /\ seen = [s \in Subs |-> <<>>] /\ running = [s \in Subs |-> 0]
        /\ unsubRet = [s \in Subs |-> FALSE] /\ late = FALSE

WVars == <<wpc, wn, wsnap, wprev, wnew, wid>>
SVars == <<spc, scur>>
Hist == <<hist, seen, running, unsubRet, late>>

(* -------- a callback invocation (by a writer or by the subscribing goroutine itself) -------- *)
CbStart(s, p, n) == /\ seen' = [seen EXCEPT ![s] = Append(@, <<p, n>>)]
                    /\ running' = [running EXCEPT ![s] = @ + 1]
                    /\ late' = (late \/ unsubRet[s])
CbEnd(s) == running' = [running EXCEPT ![s] = @ - 1]

(* ---------------------------------------- writers ---------------------------------------- *)
WBegin(w) == /\ wpc[w] = "idle" /\ wn[w] < WritesPer
             /\ IF Variant = "no_order_mutex" THEN UNCHANGED ordM ELSE (ordM = 0 /\ ordM' = w)
             /\ wpc' = [wpc EXCEPT ![w] = "update"]
             /\ UNCHANGED <<value, uid, cbs, valM, execM, unsub, lastUpd, wn, wsnap, wprev, wnew, wid, SVars, Hist>>
WUpdate(w) == /\ wpc[w] = "update" /\ valM = 0      \* updateValue under valueMutex, atomically (no callback code inside)
              /\ value' = Val(w, wn[w] + 1) /\ uid' = uid + 1
              /\ wprev' = [wprev EXCEPT ![w] = value] /\ wnew' = [wnew EXCEPT ![w] = value'] /\ wid' = [wid EXCEPT ![w] = uid']
              /\ wsnap' = [wsnap EXCEPT ![w] = cbs]
              /\ hist' = Append(hist, value')
              /\ wpc' = [wpc EXCEPT ![w] = "deliver"]
              /\ UNCHANGED <<cbs, ordM, valM, execM, unsub, lastUpd, wn, SVars, seen, running, unsubRet, late>>
WLockExec(w) == /\ wpc[w] = "deliver" /\ wsnap[w] # <<>>
                /\ LET c == Head(wsnap[w]) IN
                   /\ execM[c] = 0
                   /\ IF unsub[c] \/ wid[w] = lastUpd[c]
                        THEN /\ wsnap' = [wsnap EXCEPT ![w] = Tail(@)] /\ UNCHANGED <<execM, lastUpd, wpc, seen, running, late>>   \* LockExecution false
                        ELSE /\ execM' = [execM EXCEPT ![c] = w] /\ lastUpd' = [lastUpd EXCEPT ![c] = wid[w]]
                             /\ wpc' = [wpc EXCEPT ![w] = "invoke"] /\ UNCHANGED <<wsnap, seen, running, late>>
                /\ UNCHANGED <<value, uid, cbs, ordM, valM, unsub, wn, wprev, wnew, wid, SVars, hist, unsubRet>>
WInvoke(w) == /\ wpc[w] = "invoke"                  \* the callback function is entered (a separate step from the check)
              /\ CbStart(Head(wsnap[w]), wprev[w], wnew[w]) /\ wpc' = [wpc EXCEPT ![w] = "incb"]
              /\ UNCHANGED <<value, uid, cbs, ordM, valM, execM, unsub, lastUpd, wn, wsnap, wprev, wnew, wid, SVars, hist, unsubRet>>
WCbEnd(w) == /\ wpc[w] = "incb"
             /\ LET c == Head(wsnap[w]) IN
                /\ CbEnd(c) /\ execM' = [execM EXCEPT ![c] = 0]
             /\ wsnap' = [wsnap EXCEPT ![w] = Tail(@)] /\ wpc' = [wpc EXCEPT ![w] = "deliver"]
             /\ UNCHANGED <<value, uid, cbs, ordM, valM, unsub, lastUpd, wn, wprev, wnew, wid, SVars, hist, seen, unsubRet, late>>
WEnd(w) == /\ wpc[w] = "deliver" /\ wsnap[w] = <<>>
           /\ ordM' = IF ordM = w THEN 0 ELSE ordM
           /\ wn' = [wn EXCEPT ![w] = @ + 1] /\ wpc' = [wpc EXCEPT ![w] = "idle"]
           /\ UNCHANGED <<value, uid, cbs, valM, execM, unsub, lastUpd, wsnap, wprev, wnew, wid, SVars, Hist>>

(* -------------------------------------- subscribers -------------------------------------- *)
SLock(s) == /\ spc[s] = "idle" /\ valM = 0          \* OnUpdate: valueMutex.Lock, read value, register
            /\ valM' = s /\ scur' = [scur EXCEPT ![s] = value] /\ cbs' = Append(cbs, s)
            /\ spc' = [spc EXCEPT ![s] = IF Variant = "sub_unlock_before_exec" THEN "unlockval" ELSE "lockexec"]
            /\ lastUpd' = IF Variant = "sub_unlock_before_exec" THEN lastUpd ELSE lastUpd
            /\ UNCHANGED <<value, uid, ordM, execM, unsub, WVars, Hist>>
SLockExec(s) == /\ spc[s] = "lockexec" /\ execM[s] = 0     \* LockExecution(current update id)
                /\ execM' = [execM EXCEPT ![s] = s] /\ lastUpd' = [lastUpd EXCEPT ![s] = uid]
                /\ spc' = [spc EXCEPT ![s] = IF Variant = "sub_unlock_before_exec" THEN "init" ELSE "unlockval"]
                /\ UNCHANGED <<value, uid, cbs, ordM, valM, unsub, WVars, scur, Hist>>
SUnlockVal(s) == /\ spc[s] = "unlockval" /\ valM = s /\ valM' = 0
                 /\ spc' = [spc EXCEPT ![s] = IF Variant = "sub_unlock_before_exec" THEN "lockexec" ELSE "init"]
                 /\ UNCHANGED <<value, uid, cbs, ordM, execM, unsub, lastUpd, WVars, scur, Hist>>
SInit(s) == /\ spc[s] = "init"                      \* initial callback (zero -> value at subscription), forced even for zero
            /\ CbStart(s, 0, scur[s]) /\ spc' = [spc EXCEPT ![s] = "incb"]
            /\ UNCHANGED <<value, uid, cbs, ordM, valM, execM, unsub, lastUpd, WVars, scur, hist, unsubRet>>
SCbEnd(s) == /\ spc[s] = "incb" /\ CbEnd(s) /\ execM' = [execM EXCEPT ![s] = 0]
             /\ spc' = [spc EXCEPT ![s] = "subscribed"]
             /\ UNCHANGED <<value, uid, cbs, ordM, valM, unsub, lastUpd, WVars, scur, hist, seen, unsubRet, late>>
SRemove(s) == /\ spc[s] = "subscribed" /\ s \in Unsubbers     \* unsubscribe: remove from the list ...
              /\ cbs' = SelectSeq(cbs, LAMBDA x : x # s)
              /\ spc' = [spc EXCEPT ![s] = "mark"]
              /\ UNCHANGED <<value, uid, ordM, valM, execM, unsub, lastUpd, WVars, scur, Hist>>
SMark(s) == /\ spc[s] = "mark"                                \* ... then MarkUnsubscribed under the execution mutex
            /\ (Variant # "unsub_no_exec_lock" => execM[s] = 0)
            /\ unsub' = [unsub EXCEPT ![s] = TRUE] /\ unsubRet' = [unsubRet EXCEPT ![s] = TRUE]
            /\ spc' = [spc EXCEPT ![s] = "gone"]
            /\ UNCHANGED <<value, uid, cbs, ordM, valM, execM, lastUpd, WVars, scur, hist, seen, running, late>>

Next == \/ \E w \in Writers : WBegin(w) \/ WUpdate(w) \/ WLockExec(w) \/ WInvoke(w) \/ WCbEnd(w) \/ WEnd(w)
        \/ \E s \in Subs : SLock(s) \/ SLockExec(s) \/ SUnlockVal(s) \/ SInit(s) \/ SCbEnd(s) \/ SRemove(s) \/ SMark(s)
Spec == Init /\ [][Next]_vars /\ WF_vars(Next)

(* ----------------------------------- the property (C13) ----------------------------------- *)
NoOverlap == \A s \in Subs : running[s] <= 1
NoneAfterUnsubscribe == ~late
PosIn(seq, x) == CHOOSE i \in DOMAIN seq : seq[i] = x
(* the pairs delivered to s are: (0 -> h[k]) for some k, then (h[k] -> h[k+1]), (h[k+1] -> h[k+2]), ... with no gap or repeat *)
ChainOK == \A s \in Subs :
             LET q == seen[s] IN
             \A i \in DOMAIN q :
               IF i = 1 THEN q[1][1] = 0 /\ \E k \in DOMAIN hist : hist[k] = q[1][2]
               ELSE /\ q[i][1] = q[i - 1][2]
                    /\ LET k == PosIn(hist, q[i][1]) IN k < Len(hist) /\ hist[k + 1] = q[i][2]
AllDone == /\ \A w \in Writers : wpc[w] = "idle" /\ wn[w] = WritesPer
           /\ \A s \in Subs : spc[s] \in {"subscribed", "gone"} /\ (s \in Unsubbers => spc[s] = "gone")
(* at quiescence a subscriber that is still subscribed has been told the final value *)
LastIsFinal == AllDone => \A s \in Subs \ Unsubbers : seen[s] # <<>> /\ seen[s][Len(seen[s])][2] = value
Terminates == <>AllDone
=============================================================================
