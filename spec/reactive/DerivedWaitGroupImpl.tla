-------------------------- MODULE DerivedWaitGroupImpl --------------------------
(* Implementation-level model of ds/reactive WaitGroup (property C14): an atomic counter next to the set of    *)
(* pending elements.                                                                                           *)
(*   Add(es):   counter += len(es)  (PRE-increment, so that a concurrent Done cannot trigger before all of es   *)
(*              are added); then per element: insert; if it was already pending: counter -= 1                   *)
(*   Done(e):   if delete(e) succeeded: counter -= 1, and if that made it 0: Trigger                            *)
(* Every load/store window is its own action; TLC explores ALL interleavings of the adders and the doners.      *)
(* Variant "code"              the correction for a duplicate also triggers when it brings the counter to 0     *)
(*         "dup_no_trigger"    (the code before the fix) the correction only decrements: a Done that removes    *)
(*                             the last pending element between the failed insertion and the correction leaves  *)
(*                             the group empty and never triggered                                              *)
(*         "inc_after_insert"  increments per element after inserting it: Done of the first element triggers    *)
(*                             while the Add call is still adding (early trigger)                               *)
EXTENDS Integers, Sequences, FiniteSets, TLC

CONSTANTS Adders,     \* adder -> sequence of elements, given as a set of adder ids and AddSeq below
          Doners,     \* doner ids; doner d marks element DoneOf[d] done
          Variant
(* adder 1: Add(1, 2) - several elements in one call; adder 2: Add(1) - a duplicate of what adder 1 adds *)
AddSeq(a) == IF a = 1 THEN <<1, 2>> ELSE <<1>>
DoneOf(d) == d - 10                    \* doner 11 -> element 1, doner 12 -> element 2, doner 13 -> element 1 again (non-pending Done)

VARIABLES counter, pending, trig, apc, ai, dpc, deletedOnce, early
vars == <<counter, pending, trig, apc, ai, dpc, deletedOnce, early>>

Init == /\ counter = 0 /\ pending = {} /\ trig = FALSE
        /\ apc = [a \in Adders |-> "idle"] /\ ai = [a \in Adders |-> 1]
        /\ dpc = [d \in Doners |-> "idle"] /\ deletedOnce = FALSE /\ early = FALSE

Remaining(a) == IF apc[a] \in {"idle", "done"} THEN {} ELSE {AddSeq(a)[i] : i \in ai[a]..Len(AddSeq(a))}   \* elements a started Add call still has to add
(* the moment the event triggers: nothing is pending and no Add call that has started still has elements to add *)
TriggerNow(pend2, exceptAdder) == /\ trig' = TRUE
                                  /\ early' = (early \/ (~trig /\ (pend2 # {} \/ \E a \in Adders \ {exceptAdder} : apc[a] = "insert" /\ Remaining(a) # {})))

(* --------------------------------------------- Add --------------------------------------------- *)
ABegin(a) == /\ apc[a] = "idle"
             /\ counter' = IF Variant = "inc_after_insert" THEN counter ELSE counter + Len(AddSeq(a))
             /\ apc' = [apc EXCEPT ![a] = "insert"]
             /\ UNCHANGED <<pending, trig, ai, dpc, deletedOnce, early>>
AInsert(a) == /\ apc[a] = "insert"
              /\ LET e == AddSeq(a)[ai[a]] IN
                 IF e \in pending
                   THEN /\ apc' = [apc EXCEPT ![a] = IF Variant = "inc_after_insert" THEN "next" ELSE "dup"]
                        /\ UNCHANGED <<pending, counter>>
                   ELSE /\ pending' = pending \cup {e}
                        /\ counter' = IF Variant = "inc_after_insert" THEN counter + 1 ELSE counter     \* (variant: insert and count are one step - already too late)
                        /\ apc' = [apc EXCEPT ![a] = "next"]
              /\ UNCHANGED <<trig, ai, dpc, deletedOnce, early>>
ADup(a) == /\ apc[a] = "dup"                   \* the element was already pending: take the pre-increment back
           /\ counter' = counter - 1
           /\ IF Variant = "code" /\ counter' = 0
                THEN TriggerNow(pending, a)
                ELSE UNCHANGED <<trig, early>>
           /\ apc' = [apc EXCEPT ![a] = "next"]
           /\ UNCHANGED <<pending, ai, dpc, deletedOnce>>
ANext(a) == /\ apc[a] = "next"
            /\ IF ai[a] = Len(AddSeq(a)) THEN apc' = [apc EXCEPT ![a] = "done"] /\ UNCHANGED ai
               ELSE ai' = [ai EXCEPT ![a] = @ + 1] /\ apc' = [apc EXCEPT ![a] = "insert"]
            /\ UNCHANGED <<counter, pending, trig, dpc, deletedOnce, early>>

(* --------------------------------------------- Done -------------------------------------------- *)
DDelete(d) == /\ dpc[d] = "idle"
              /\ IF DoneOf(d) \in pending
                   THEN pending' = pending \ {DoneOf(d)} /\ dpc' = [dpc EXCEPT ![d] = "count"] /\ deletedOnce' = TRUE
                   ELSE UNCHANGED <<pending, deletedOnce>> /\ dpc' = [dpc EXCEPT ![d] = "done"]        \* not pending: nothing happens
              /\ UNCHANGED <<counter, trig, apc, ai, early>>
DCount(d) == /\ dpc[d] = "count"
             /\ counter' = counter - 1
             /\ IF counter' = 0 THEN TriggerNow(pending, 0) ELSE UNCHANGED <<trig, early>>
             /\ dpc' = [dpc EXCEPT ![d] = "done"]
             /\ UNCHANGED <<pending, apc, ai, deletedOnce>>

Next == \/ \E a \in Adders : ABegin(a) \/ AInsert(a) \/ ADup(a) \/ ANext(a)
        \/ \E d \in Doners : DDelete(d) \/ DCount(d)
Spec == Init /\ [][Next]_vars /\ WF_vars(Next)

AllDone == (\A a \in Adders : apc[a] = "done") /\ (\A d \in Doners : dpc[d] = "done")
Terminates == <>AllDone
(* "triggers ... only when its last pending element is marked done": never while something is pending or an Add call is still adding *)
NoEarlyTrigger == ~early
(* "triggers when ... its last pending element is marked done": at quiescence an emptied group has triggered *)
TriggeredWhenEmptied == AllDone /\ pending = {} /\ deletedOnce => trig
(* the counter is the number of pending elements whenever no call is in flight *)
CounterOK == AllDone => counter = Cardinality(pending)
=============================================================================
