SPECIFICATION Spec
CONSTANTS
  Elems = {1, 2, 3}
  Writes = 3
  Del = 2
  Variant = "code"
INVARIANTS NoCorruption Converged MutexOK
PROPERTIES Terminates
