SPECIFICATION Spec
CONSTANTS
  Writers = {1, 2}
  Subs = {11, 12}
  WritesPer = 2
  Unsubbers = {12}
  Variant = "unsub_no_exec_lock"
INVARIANTS NoOverlap NoneAfterUnsubscribe ChainOK LastIsFinal
