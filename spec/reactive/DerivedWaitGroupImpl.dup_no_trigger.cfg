SPECIFICATION Spec
CONSTANTS
  Adders = {1, 2}
  Doners = {11, 12, 13}
  Variant = "dup_no_trigger"
INVARIANTS NoEarlyTrigger TriggeredWhenEmptied CounterOK
PROPERTIES Terminates
