CONSTANTS
  Subs = {1, 2}
  MaxVal = 2
INVARIANTS OneChain
CONSTRAINT Bounded
