CONSTANTS
  Kinds = {"var1", "var2", "inherit", "union", "subtract", "counter", "sorted", "waitgroup", "evict"}
  Vals = {0, 1, 2, 3, 4}
  Elems = {1, 2, 3, 4}
  NInputs = 3
  NSorted = 4
  MaxSlot = 5
INVARIANTS Converged ObsOK
