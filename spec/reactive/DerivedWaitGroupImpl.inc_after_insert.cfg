SPECIFICATION Spec
CONSTANTS
  Adders = {1, 2}
  Doners = {11, 12, 13}
  Variant = "inc_after_insert"
INVARIANTS NoEarlyTrigger TriggeredWhenEmptied CounterOK
PROPERTIES Terminates
