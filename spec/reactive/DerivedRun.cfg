CONSTANTS
  MaxId = 2
INVARIANTS WellFormed
