------------------------------ MODULE DerivedRun ------------------------------
(* Property C14 under concurrency, as a trace specification over executions of the REAL objects (pattern 3 of       *)
(* spec/CONCURRENCY.md): concurrent writers on DIFFERENT inputs and structural changers run freely (or through forced *)
(* schedules), every call is logged when it returned (one global log), and when all of them have returned the driver  *)
(* reads the inputs and the derived getters: the `final` event.  Each input / structural item has ONE writing thread, *)
(* so the last logged write is the final value; the model keeps it and the guard of `final` is the property:          *)
(*        nobody hangs  /\  inputs = what was written last  /\  derived = F(inputs).                                  *)
(* events:  set i v | sadd i e | sdel i e | srep i es | flag i on | point i | note                                    *)
(*          addB t es, addE t, doneB t es, doneE t, seen e, trig            (wait group)                              *)
(*          evictB s, evict s, reqB t s, req t s trig                        (eviction state)                         *)
(*          final ...                                                                                                *)
EXTENDS Integers, Sequences, FiniteSets, SequencesExt, TLC

CONSTANTS MaxId      \* ids of inputs / sources / elements / threads are 1..MaxId
VARIABLES cfg, vals, sets, flags, x, ev
vars == <<cfg, vals, sets, flags, x, ev>>
View == <<cfg, vals, sets, flags, x>>

Ids == 1..MaxId
Cfgs == [kind : {"var2", "inherit", "subtract", "waitgroup", "evict"}]
          \cup [kind : {"union"}, n : 2..3]
          \cup [kind : {"counter"}, n : 2..3, cond : {"nz", "ge2"}]
          \cup [kind : {"sorted"}, n : 2..4, tie : BOOLEAN]

SSeq(S) == SetToSortSeq(S, LAMBDA a, b : a < b)
MaxOf(a, b) == IF a > b THEN a ELSE b
F1(a) == a + 1
F2(a, b) == 10 * a + b + 1
Cond(c, v) == IF c = "nz" THEN v # 0 ELSE v >= 2
Before(tie, x1, y1) == vals[x1] > vals[y1] \/ (vals[x1] = vals[y1] /\ (tie => x1 > y1))
IsPerm(p, S) == Len(p) = Cardinality(S) /\ ToSet(p) = S

X0(c) == CASE c.kind = "waitgroup" -> [inAdd |-> [t \in Ids |-> <<>>], inDone |-> [t \in Ids |-> <<>>], touched |-> [t \in Ids |-> {}],
                                      must |-> {}, exact |-> {}, saw |-> {}, anyDone |-> FALSE, ever |-> FALSE, trig |-> FALSE]
           [] c.kind = "evict" -> [last |-> 0 - 1, begun |-> 0 - 1, atB |-> [t \in Ids |-> 0 - 1]]
           [] c.kind = "inherit" -> [src |-> 0]
           [] OTHER -> [none |-> 0]
Init == /\ cfg \in Cfgs /\ vals = [i \in Ids |-> 0] /\ sets = [i \in Ids |-> {}] /\ flags = [i \in Ids |-> FALSE] /\ x = X0(cfg)
        /\ ev = [op |-> "reset", cfg |-> cfg]

Keep(s) == UNCHANGED <<cfg, vals, sets, flags, x>> /\ ev' = s
InFlightDone == UNION {ToSet(x.inDone[t]) : t \in Ids}
(* calls (Add or Done) in flight that have seen the group possibly empty - nothing certainly pending although a Done has begun - *)
(* at some point since they began: only such a call can have removed / accounted for the LAST pending element                    *)
Saw(must2, inAdd2, inDone2, anyDone2, saw) ==
  LET fl == {t \in Ids : inDone2[t] # <<>> \/ inAdd2[t] # <<>>} IN IF must2 = {} /\ anyDone2 THEN fl ELSE saw \cap fl

FinalOK(s) ==
  /\ s.hung = <<>>                                                                 \* no combination deadlocks
  /\ CASE cfg.kind = "var2" -> /\ s.vals = <<vals[1], vals[2]>>
                               /\ s.d = F2(vals[1], vals[2])                       \* NewDerivedVariable2
                               /\ s.d2 = F1(s.d)                                   \* a derived variable of the derived variable
       [] cfg.kind = "inherit" -> /\ s.vals = <<vals[1], vals[2]>>
                                  /\ (x.src # 0 => s.d = vals[x.src])               \* copies the source it points to
       [] cfg.kind = "union" -> /\ s.sets = [k \in 1..cfg.n |-> SSeq(sets[k])]
                                /\ s.d = SSeq(UNION {sets[k] : k \in {k \in 1..cfg.n : flags[k]}})
       [] cfg.kind = "subtract" -> /\ s.sets = [k \in 1..3 |-> SSeq(sets[k])]
                                   /\ s.d = SSeq(sets[1] \ (sets[2] \cup sets[3]))
       [] cfg.kind = "counter" -> /\ s.vals = [k \in 1..cfg.n |-> vals[k]]
                                  /\ s.d = Cardinality({k \in 1..cfg.n : flags[k] /\ Cond(cfg.cond, vals[k])})
       [] cfg.kind = "sorted" -> LET mem == {k \in 1..cfg.n : flags[k]} IN
                                 /\ s.vals = [k \in 1..cfg.n |-> vals[k]]
                                 /\ s.mem = SSeq(mem)
                                 /\ IsPerm(s.desc, mem)
                                 /\ \A i \in 1..(Len(s.desc) - 1) : Before(cfg.tie, s.desc[i], s.desc[i + 1])
                                 /\ s.asc = Reverse(s.desc)
                                 /\ s.hi = (IF mem = {} THEN 0 ELSE s.desc[1])
                                 /\ s.lo = (IF mem = {} THEN 0 ELSE s.desc[Len(s.desc)])
       [] cfg.kind = "waitgroup" -> /\ \A t \in Ids : x.inAdd[t] = <<>> /\ x.inDone[t] = <<>>
                                    /\ x.must \subseteq ToSet(s.pend)
                                    /\ (s.owned => ToSet(s.pend) = x.exact)
                                    /\ s.trig = x.trig                                   \* the OnTrigger callback ran iff the event is triggered
                                    /\ s.waited = s.trig                                 \* Wait() returned iff triggered
                                    /\ (s.pend = <<>> /\ x.ever => s.trig)              \* its last pending element was marked done => triggered
       [] cfg.kind = "evict" -> /\ s.last = MaxOf(x.last, 0)
                                /\ \A i \in DOMAIN s.handles : (s.handles[i][2] = 1) <=> (s.handles[i][1] <= x.last)

Do(s) ==
  CASE s.op = "reset" -> /\ cfg' = s.cfg /\ vals' = [i \in Ids |-> 0] /\ sets' = [i \in Ids |-> {}] /\ flags' = [i \in Ids |-> FALSE]
                         /\ x' = X0(s.cfg) /\ ev' = s
    [] s.op = "note" -> Keep(s)
    [] s.op = "set" -> vals' = [vals EXCEPT ![s.i] = s.v] /\ UNCHANGED <<cfg, sets, flags, x>> /\ ev' = s
    [] s.op = "sadd" -> sets' = [sets EXCEPT ![s.i] = @ \cup {s.e}] /\ UNCHANGED <<cfg, vals, flags, x>> /\ ev' = s
    [] s.op = "sdel" -> sets' = [sets EXCEPT ![s.i] = @ \ {s.e}] /\ UNCHANGED <<cfg, vals, flags, x>> /\ ev' = s
    [] s.op = "srep" -> sets' = [sets EXCEPT ![s.i] = ToSet(s.es)] /\ UNCHANGED <<cfg, vals, flags, x>> /\ ev' = s
    [] s.op = "flag" -> flags' = [flags EXCEPT ![s.i] = s.on] /\ UNCHANGED <<cfg, vals, sets, x>> /\ ev' = s
    [] s.op = "point" -> x' = [x EXCEPT !.src = s.i] /\ UNCHANGED <<cfg, vals, sets, flags>> /\ ev' = s
    (* ---- wait group: Add / Done calls with begin and end, `seen e` = a thread observed e pending, `trig` = inside the OnTrigger callback ---- *)
    [] s.op = "addB" -> /\ x' = [x EXCEPT !.inAdd[s.t] = s.es, !.touched[s.t] = InFlightDone,
                                          !.saw = Saw(x.must, [x.inAdd EXCEPT ![s.t] = s.es], x.inDone, x.anyDone, @)]
                        /\ UNCHANGED <<cfg, vals, sets, flags>> /\ ev' = s
    [] s.op = "addE" -> LET must2 == x.must \cup (ToSet(x.inAdd[s.t]) \ x.touched[s.t]) IN
                        /\ x' = [x EXCEPT !.inAdd[s.t] = <<>>, !.must = must2, !.exact = @ \cup ToSet(x.inAdd[s.t]),
                                          !.ever = @ \/ (x.inAdd[s.t] # <<>>),
                                          !.saw = Saw(must2, [x.inAdd EXCEPT ![s.t] = <<>>], x.inDone, x.anyDone, @)]
                        /\ UNCHANGED <<cfg, vals, sets, flags>> /\ ev' = s
    [] s.op = "seen" ->  \* Add is atomic with respect to the trigger: once one of its elements is pending, all of them count as pending
                        LET must2 == x.must \cup UNION {ToSet(x.inAdd[t]) \ x.touched[t] : t \in {t \in Ids : s.e \in ToSet(x.inAdd[t])}} IN
                        /\ x' = [x EXCEPT !.must = must2, !.saw = Saw(must2, x.inAdd, x.inDone, x.anyDone, @)]
                        /\ UNCHANGED <<cfg, vals, sets, flags>> /\ ev' = s
    [] s.op = "doneB" -> LET must2 == x.must \ ToSet(s.es)
                             inDone2 == [x.inDone EXCEPT ![s.t] = s.es] IN
                         /\ x' = [x EXCEPT !.inDone = inDone2, !.must = must2, !.anyDone = TRUE,
                                           !.touched = [t \in Ids |-> IF x.inAdd[t] # <<>> THEN x.touched[t] \cup ToSet(s.es) ELSE x.touched[t]],
                                           !.saw = Saw(must2, x.inAdd, inDone2, TRUE, @)]
                         /\ UNCHANGED <<cfg, vals, sets, flags>> /\ ev' = s
    [] s.op = "doneE" -> /\ x' = [x EXCEPT !.inDone[s.t] = <<>>, !.exact = @ \ ToSet(x.inDone[s.t]),
                                           !.saw = Saw(x.must, x.inAdd, [x.inDone EXCEPT ![s.t] = <<>>], x.anyDone, @)]
                         /\ UNCHANGED <<cfg, vals, sets, flags>> /\ ev' = s
    [] s.op = "trig" -> /\ ~x.trig                                                 \* at most once
                        /\ x.saw # {}                                              \* only when a call in flight can have seen the LAST pending element marked done
                        /\ x' = [x EXCEPT !.trig = TRUE]
                        /\ UNCHANGED <<cfg, vals, sets, flags>> /\ ev' = s
    (* ---- eviction state ---- *)
    [] s.op = "evictB" -> x' = [x EXCEPT !.begun = MaxOf(@, s.s)] /\ UNCHANGED <<cfg, vals, sets, flags>> /\ ev' = s
    [] s.op = "evict" -> x' = [x EXCEPT !.last = MaxOf(@, s.s)] /\ UNCHANGED <<cfg, vals, sets, flags>> /\ ev' = s
    [] s.op = "reqB" -> x' = [x EXCEPT !.atB[s.t] = x.last] /\ UNCHANGED <<cfg, vals, sets, flags>> /\ ev' = s
    [] s.op = "req" -> /\ (s.s <= x.atB[s.t] => s.trig = 1)                         \* requested after the eviction returned: already triggered
                       /\ (s.trig = 1 => s.s <= x.begun)                            \* triggered only if an eviction reaching the slot has begun
                       /\ Keep(s)
    [] s.op = "final" -> FinalOK(s) /\ Keep(s)

(* sanity run of the spec itself (TLC, tiny alphabet): whatever is accepted keeps the bookkeeping well-formed *)
Stimuli == [op : {"set"}, i : 1..2, v : 0..1] \cup [op : {"flag"}, i : 1..2, on : BOOLEAN]
             \cup [op : {"addB", "doneB"}, t : 1..2, es : {<<1>>, <<1, 2>>}] \cup [op : {"addE", "doneE"}, t : 1..2] \cup [op : {"trig"}]
             \cup [op : {"evictB", "evict"}, s : 0..1] \cup [op : {"reqB"}, t : {1}, s : 0..1] \cup [op : {"req"}, t : {1}, s : 0..1, trig : 0..1]
Applicable(s) == CASE cfg.kind = "waitgroup" -> /\ s.op \in {"addB", "addE", "doneB", "doneE", "trig"}
                                                /\ (s.op \in {"addB", "doneB"} => x.inAdd[s.t] = <<>> /\ x.inDone[s.t] = <<>>)
                                                /\ (s.op = "addE" => x.inAdd[s.t] # <<>>) /\ (s.op = "doneE" => x.inDone[s.t] # <<>>)
                   [] cfg.kind = "evict" -> s.op \in {"evictB", "evict", "reqB", "req"}
                   [] OTHER -> s.op \in {"set", "flag"}
Next == \E s \in Stimuli : Applicable(s) /\ Do(s)
Spec == Init /\ [][Next]_vars
(* a trigger is accepted only while a call is in flight; certainly-pending elements have a finished Add *)
WellFormed == /\ (cfg.kind = "waitgroup" => x.saw \subseteq {t \in Ids : x.inDone[t] # <<>> \/ x.inAdd[t] # <<>>} /\ x.must \subseteq x.exact)
              /\ (cfg.kind = "evict" => x.last >= 0 - 1)
==============================================================================
