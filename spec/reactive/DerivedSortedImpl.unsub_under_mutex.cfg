SPECIFICATION Spec
CONSTANTS
  Elems = {1, 2}
  Writes = 2
  Del = 1
  Variant = "unsub_under_mutex"
INVARIANTS NoCorruption Converged MutexOK
PROPERTIES Terminates
