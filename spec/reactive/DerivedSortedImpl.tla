--------------------------- MODULE DerivedSortedImpl ---------------------------
(* Implementation-level model of the hazard DESIGN.md names for ds/reactive SortedSet (property C14):     *)
(* the set's own mutex versus the execution lock of the weight callback.                                  *)
(*   weight writer:  Variable.Set -> LockExecution(callback of e) -> callback: set mutex -> cache the     *)
(*                   weight, move the element -> unlock both                                              *)
(*   Delete(e):      (inner Set callback) deleteSorted: set mutex -> drop e from the map and the slice    *)
(*                   -> unsubscribe from the weight variable = remove the callback from the list +        *)
(*                   MarkUnsubscribed (takes the execution lock)                                          *)
(* Variant "code"               unsubscribe AFTER the set mutex was released; the element is flagged      *)
(*                              deleted under the mutex and a late callback returns without touching it   *)
(*         "unsub_under_mutex"  (the code before the fix) unsubscribe while holding the set mutex:        *)
(*                              lock-order cycle with a running weight callback -> deadlock               *)
(*         "no_deleted_flag"    unsubscribe after the mutex but without the flag: a late callback moves   *)
(*                              an element that is no longer in the slice                                 *)
(* TLC explores ALL interleavings of the writers (one per element: different inputs) and the deleter.     *)
EXTENDS Integers, Sequences, FiniteSets, TLC

CONSTANTS Elems,      \* elements in the set at the start, one weight writer each
          Writes,     \* writes per writer
          Del,        \* the element that the deleter removes
          Variant

VARIABLES setM, execM, unsub, registered, wval, cached, present, deleted, wpc, wn, dpc, corrupt
vars == <<setM, execM, unsub, registered, wval, cached, present, deleted, wpc, wn, dpc, corrupt>>
Deleter == 99

Init == /\ setM = 0 /\ execM = [e \in Elems |-> 0] /\ unsub = [e \in Elems |-> FALSE] /\ registered = [e \in Elems |-> TRUE]
        /\ wval = [e \in Elems |-> 0] /\ cached = [e \in Elems |-> 0] /\ present = Elems /\ deleted = [e \in Elems |-> FALSE]
        /\ wpc = [e \in Elems |-> "idle"] /\ wn = [e \in Elems |-> 0] /\ dpc = "idle" /\ corrupt = FALSE

(* ------------------------------- weight writer of element e ------------------------------- *)
WUpdate(e) == /\ wpc[e] = "idle" /\ wn[e] < Writes
              /\ wval' = [wval EXCEPT ![e] = @ + 1] /\ wn' = [wn EXCEPT ![e] = @ + 1]
              /\ wpc' = [wpc EXCEPT ![e] = IF registered[e] THEN "lockexec" ELSE "idle"]     \* callback list snapshot taken with the update
              /\ UNCHANGED <<setM, execM, unsub, registered, cached, present, deleted, dpc, corrupt>>
WLockExec(e) == /\ wpc[e] = "lockexec" /\ execM[e] = 0
                /\ IF unsub[e] THEN wpc' = [wpc EXCEPT ![e] = "idle"] /\ UNCHANGED execM          \* LockExecution returns false
                   ELSE execM' = [execM EXCEPT ![e] = e] /\ wpc' = [wpc EXCEPT ![e] = "cblock"]
                /\ UNCHANGED <<setM, unsub, registered, wval, cached, present, deleted, wn, dpc, corrupt>>
WCbLock(e) == /\ wpc[e] = "cblock" /\ setM = 0 /\ setM' = e                                     \* the weight callback takes the set mutex
              /\ wpc' = [wpc EXCEPT ![e] = "cbbody"]
              /\ UNCHANGED <<execM, unsub, registered, wval, cached, present, deleted, wn, dpc, corrupt>>
WCbBody(e) == /\ wpc[e] = "cbbody"
              /\ IF Variant = "code" /\ deleted[e] THEN UNCHANGED <<cached, corrupt>>
                 ELSE cached' = [cached EXCEPT ![e] = wval[e]] /\ corrupt' = (corrupt \/ e \notin present)   \* updatePosition of an element that left the slice
              /\ setM' = 0 /\ wpc' = [wpc EXCEPT ![e] = "unlockexec"]
              /\ UNCHANGED <<execM, unsub, registered, wval, present, deleted, wn, dpc>>
WUnlockExec(e) == /\ wpc[e] = "unlockexec" /\ execM' = [execM EXCEPT ![e] = 0] /\ wpc' = [wpc EXCEPT ![e] = "idle"]
                  /\ UNCHANGED <<setM, unsub, registered, wval, cached, present, deleted, wn, dpc, corrupt>>

(* ---------------------------------------- Delete(Del) ---------------------------------------- *)
DLock == /\ dpc = "idle" /\ setM = 0 /\ setM' = Deleter /\ dpc' = "remove"
         /\ UNCHANGED <<execM, unsub, registered, wval, cached, present, deleted, wpc, wn, corrupt>>
DRemove == /\ dpc = "remove"
           /\ IF Variant = "unsub_under_mutex"
                THEN dpc' = "unreg" /\ UNCHANGED <<present, deleted, setM>>                    \* unsubscribe first, still under the mutex
                ELSE /\ present' = present \ {Del}
                     /\ deleted' = [deleted EXCEPT ![Del] = (Variant = "code")]
                     /\ setM' = 0 /\ dpc' = "unreg"                                            \* mutex released before unsubscribing
           /\ UNCHANGED <<execM, unsub, registered, wval, cached, wpc, wn, corrupt>>
DUnreg == /\ dpc = "unreg" /\ registered' = [registered EXCEPT ![Del] = FALSE] /\ dpc' = "mark"
          /\ UNCHANGED <<setM, execM, unsub, wval, cached, present, deleted, wpc, wn, corrupt>>
DMark == /\ dpc = "mark" /\ execM[Del] = 0                                                    \* MarkUnsubscribed needs the execution lock
         /\ unsub' = [unsub EXCEPT ![Del] = TRUE]
         /\ IF Variant = "unsub_under_mutex"
              THEN present' = present \ {Del} /\ setM' = 0 /\ dpc' = "done"
              ELSE UNCHANGED <<present, setM>> /\ dpc' = "done"
         /\ UNCHANGED <<execM, registered, wval, cached, deleted, wpc, wn, corrupt>>

Next == \/ \E e \in Elems : WUpdate(e) \/ WLockExec(e) \/ WCbLock(e) \/ WCbBody(e) \/ WUnlockExec(e)
        \/ DLock \/ DRemove \/ DUnreg \/ DMark
Spec == Init /\ [][Next]_vars /\ WF_vars(Next)

AllDone == dpc = "done" /\ \A e \in Elems : wpc[e] = "idle" /\ wn[e] = Writes
(* no such combination deadlocks *)
Terminates == <>AllDone
(* a position update never touches an element that is no longer in the sorted slice *)
NoCorruption == ~corrupt
(* at quiescence the set holds the remaining elements ordered by their CURRENT weights (the cached weight of every member is the weight variable's value) *)
Converged == AllDone => present = Elems \ {Del} /\ \A e \in present : cached[e] = wval[e]
MutexOK == setM \in {0, Deleter} \cup Elems
=============================================================================
