CONSTANTS
  MapNK = 3
  SetNK = 4
  Vals = {"", "a"}
  Flavours = {"map", "set"}
  EmptyEncs = {"empty", "nil"}
  Modes = {"full", "lazy"}
  KeyAlphabets = {"trie", "nested"}
INVARIANTS TypeOK ObsOK
