CONSTANTS
  MapNK = 3
  SetNK = 4
  Vals = {"", "a"}
  Flavours = {"map", "set"}
  NilEnc = {FALSE, TRUE}
  Modes = {"full", "lazy"}
INVARIANTS TypeOK ObsOK
