---------------------------- MODULE AuthMap ----------------------------
(* ads.Map / ads.Set (property C09): an authenticated map/set behaves like a plain map,     *)
(* its Root is a function of the current contents alone (and an injective one on everything *)
(* explored), and a new instance opened over the same store after a Commit is the same map. *)
(*                                                                                          *)
(* Convention of spec/README.md: cfg (constant per behaviour), ev (last event: stimulus +   *)
(* res + st), Do(s).  Written from the property text and the interface comments of          *)
(* ads/map.go, ads/set.go - not from map_impl.go.                                           *)
(*                                                                                          *)
(* Abstract state                                                                           *)
(*   cur   contents: key id -> optional value (<<>> absent, <<v>> present; "" is a value)   *)
(*   com   contents at the last Commit (what a reopen sees); empty before the first Commit  *)
(*   ever  a Commit happened                                                                *)
(*   fresh the instance in use was opened by the previous call (Reopen) and nothing was     *)
(*         called on it yet - not observable; it makes TLC's transition system offer every *)
(*         stimulus as the FIRST call on a reopened (not yet loaded) instance              *)
(* Roots.  The model cannot compute hashes.  The binding interns root bytes in a table that *)
(* lives for the whole harness process: the *root id* of a 32-byte root is the canonical    *)
(* contents (key/value list) at which these bytes were first seen - in any history, on any  *)
(* instance.  "Root depends on contents alone and differs for different contents" is then   *)
(*     root id = Items(cur)   and   rootOK (the table stayed a bijection)                   *)
(* after every call, on every path TLC's transition system offers to the contents.          *)
(* Key ids are mapped to key bytes by the adapter: 1,2 share >= 24 leading bits of the      *)
(* sha256 trie path, 4 shares >= 16 bits with both, 3 differs from 1 in the first path bit. *)
(*                                                                                          *)
(* cfg.obs = "full": st carries every observer (Has/Get of every key, Stream, Size, Root,   *)
(* WasRestoredFromStorage) after every call.  cfg.obs = "lazy": st carries only the ones    *)
(* that do not walk the trie (Size, Root, WasRestoredFromStorage) and Has/Get/Stream are    *)
(* stimuli of their own, so that mutations also run on a partially loaded (reopened) trie.  *)
(* Set's enc field: the map flavour is built with V = []byte and the identity serializer    *)
(* (like the repo's own test value type); the empty value "" is handed over either as an    *)
(* empty non-nil slice (enc "empty") or as a nil slice (enc "nil").  Both are the empty     *)
(* value - the model ignores enc, the map must not care either.  enc "refused": a value the  *)
(* value serializer returns an error for; that Set fails and leaves the map as it was.       *)
EXTENDS Integers, Sequences, FiniteSets, TLC

CONSTANTS MapNK, SetNK,   \* number of keys of the map / set flavour
          Vals,           \* values of the map flavour (strings, "" included)
          Flavours,       \* subset of {"map", "set"}
          EmptyEncs,      \* how the empty value is handed to Set: subset of {"empty", "nil"}
          Modes,          \* subset of {"full", "lazy"}
          KeyAlphabets    \* subset of {"trie", "nested"}
VARIABLES cfg, cur, com, ever, fresh, ev
vars == <<cfg, cur, com, ever, fresh, ev>>
View == <<cfg, cur, com, ever, fresh>>

\* ka = the real keys the adapter uses for key ids 1..4: "trie" = two-byte keys whose hashed paths share long prefixes (extension
\* nodes of the trie), "nested" = "a", "ab", "" (the empty key), "abc" - raw keys that are byte prefixes of one another (the
\* contents must not depend on how the keys relate as byte strings; the model does not look at ka at all)
MapCfgs == IF "map" \in Flavours
             THEN {[flavour |-> "map", nk |-> MapNK, obs |-> o, ka |-> a] : o \in Modes, a \in KeyAlphabets}
             ELSE {}
SetCfgs == IF "set" \in Flavours
             THEN {[flavour |-> "set", nk |-> SetNK, obs |-> o, ka |-> a] : o \in Modes, a \in KeyAlphabets}
             ELSE {}
Cfgs == MapCfgs \cup SetCfgs

Keys(c)  == 1..c.nk
Empty(c) == [k \in Keys(c) |-> <<>>]
Card(m)  == Cardinality({k \in DOMAIN m : m[k] # <<>>})

RECURSIVE ItemsFrom(_, _)
ItemsFrom(m, k) == IF k > Len(m) THEN <<>>
                   ELSE (IF m[k] = <<>> THEN <<>> ELSE <<[k |-> k, v |-> m[k][1]]>>) \o ItemsFrom(m, k + 1)
Items(m) == ItemsFrom(m, 1)          \* the contents as a key-ordered list = the root id
HasSeq(m) == [k \in DOMAIN m |-> m[k] # <<>>]
StopObs(m) == IF Card(m) = 0 THEN [n |-> 0, err |-> "ok"] ELSE [n |-> 1, err |-> "stop"]

(* projected state after a call on contents m, e = a Commit happened *)
St(c, m, e) ==
  LET base == [size |-> Card(m), root |-> Items(m), rootOK |-> TRUE, restored |-> e] IN
  IF c.obs = "lazy" THEN base
  ELSE IF c.flavour = "map"
         THEN [size |-> base.size, root |-> base.root, rootOK |-> TRUE, restored |-> e,
               has |-> HasSeq(m), get |-> m, items |-> Items(m), stop |-> StopObs(m), errs |-> <<>>]
         ELSE [size |-> base.size, root |-> base.root, rootOK |-> TRUE, restored |-> e,
               has |-> HasSeq(m), items |-> Items(m), stop |-> StopObs(m), errs |-> <<>>]

Ok == [err |-> "ok"]
Clean == ever /\ cur = com          \* nothing changed since the last Commit

Init == /\ cfg \in Cfgs
        /\ cur = Empty(cfg) /\ com = Empty(cfg) /\ ever = FALSE /\ fresh = FALSE
        /\ ev = [op |-> "reset", cfg |-> cfg]

Write(s, o) ==   \* Set / Add / Delete : contents change now, the committed snapshot does not
  /\ UNCHANGED <<cfg, com, ever>> /\ fresh' = FALSE
  /\ cur' = [cur EXCEPT ![s.k] = o]

Same == UNCHANGED <<cfg, cur, com, ever>>
Read == Same /\ fresh' = FALSE

Do(s) ==
  CASE s.op = "reset" ->
         /\ cfg' = s.cfg /\ cur' = Empty(s.cfg) /\ com' = Empty(s.cfg) /\ ever' = FALSE /\ fresh' = FALSE /\ ev' = s
    [] s.op = "Set" /\ s.enc # "refused" ->
         /\ Write(s, <<s.v>>)
         /\ ev' = [op |-> "Set", k |-> s.k, v |-> s.v, enc |-> s.enc, res |-> Ok, st |-> St(cfg, cur', ever)]
    [] s.op = "Set" /\ s.enc = "refused" ->   \* the value serializer the map was built with refuses the value:
         /\ Read                               \* the call fails and has changed nothing (not the size, not the key mirror)
         /\ ev' = [op |-> "Set", k |-> s.k, v |-> s.v, enc |-> s.enc, res |-> [err |-> "refused"], st |-> St(cfg, cur, ever)]
    [] s.op = "Add" ->              \* set flavour: the element's value is the empty value
         /\ Write(s, <<"">>)
         /\ ev' = [op |-> "Add", k |-> s.k, res |-> Ok, st |-> St(cfg, cur', ever)]
    [] s.op = "Delete" ->           \* reports whether the key was present
         /\ Write(s, <<>>)
         /\ ev' = [op |-> "Delete", k |-> s.k, res |-> [deleted |-> cur[s.k] # <<>>, err |-> "ok"],
                   st |-> St(cfg, cur', ever)]
    [] s.op = "Get" ->
         /\ Read
         /\ ev' = [op |-> "Get", k |-> s.k, res |-> [v |-> cur[s.k], err |-> "ok"], st |-> St(cfg, cur, ever)]
    [] s.op = "Has" ->
         /\ Read
         /\ ev' = [op |-> "Has", k |-> s.k, res |-> [has |-> cur[s.k] # <<>>, err |-> "ok"], st |-> St(cfg, cur, ever)]
    [] s.op = "Stream" ->           \* order is not part of the contract: the adapter sorts by key id
         /\ Read
         /\ ev' = [op |-> "Stream", res |-> [items |-> Items(cur), err |-> "ok"], st |-> St(cfg, cur, ever)]
    [] s.op = "StreamStop" ->       \* consumer fails on the first element: exactly one visited, its error returned
         /\ Read
         /\ ev' = [op |-> "StreamStop", res |-> StopObs(cur), st |-> St(cfg, cur, ever)]
    [] s.op = "Commit" ->
         /\ UNCHANGED <<cfg, cur>> /\ fresh' = FALSE
         /\ com' = cur /\ ever' = TRUE
         /\ ev' = [op |-> "Commit", res |-> Ok, st |-> St(cfg, cur, TRUE)]
    [] s.op = "Reopen" ->           \* new instance over the same store, nothing changed since a Commit:
         /\ Clean                   \* it IS the same map (same Root, Size, contents), and is used from now on
         /\ Same /\ fresh' = TRUE
         /\ ev' = [op |-> "Reopen", res |-> Ok, st |-> St(cfg, com, TRUE)]
    [] s.op = "ProbeReopen" ->      \* new instance over a store with uncommitted changes (or no Commit at all):
         /\ ~Clean                  \* only required not to panic and to know whether a Commit happened; the
         /\ Read                    \* probe instance is thrown away, the original one stays in use
         /\ ev' = [op |-> "ProbeReopen", res |-> [restored |-> ever, err |-> "ok"], st |-> St(cfg, cur, ever)]

Encs(v) == (IF v = "" THEN EmptyEncs ELSE {"bytes"}) \cup {"refused"}
Mutators(c) == IF c.flavour = "map"
                 THEN UNION {{[op |-> "Set", k |-> k, v |-> v, enc |-> e] : k \in Keys(c), e \in Encs(v)} : v \in Vals}
                 ELSE [op : {"Add"}, k : Keys(c)]
Readers(c) == IF c.obs = "lazy"
                THEN [op : (IF c.flavour = "map" THEN {"Get", "Has"} ELSE {"Has"}), k : Keys(c)]
                     \cup [op : {"Stream", "StreamStop"}]
                ELSE {}
Stimuli(c) == Mutators(c) \cup [op : {"Delete"}, k : Keys(c)] \cup [op : {"Commit", "Reopen", "ProbeReopen"}]
              \cup Readers(c)
Next == \E s \in Stimuli(cfg) : Do(s)
Spec == Init /\ [][Next]_vars

-----------------------------------------------------------------------------
(* The property, stated on the model (TLC checks these on every full state / step).        *)
Opts == {<<>>} \cup {<<v>> : v \in Vals \cup {""}}
TypeOK == /\ cfg \in Cfgs
          /\ cur \in [Keys(cfg) -> Opts] /\ com \in [Keys(cfg) -> Opts]
          /\ ever \in BOOLEAN /\ fresh \in BOOLEAN /\ (fresh => Clean)
          /\ (~ever => com = Empty(cfg))
          /\ (cfg.flavour = "set" => \A k \in Keys(cfg) : cur[k] \in {<<>>, <<"">>})

(* every call reports the size, root id and restored flag of the contents it leaves behind *)
ObsOK == ev.op # "reset" =>
           /\ ev.st.size = Card(cur)
           /\ ev.st.root = Items(cur) /\ ev.st.rootOK
           /\ ev.st.restored = ever
           /\ (cfg.obs = "full" => ev.st.items = Items(cur) /\ ev.st.has = HasSeq(cur) /\ ev.st.errs = <<>>)

(* the root id is injective on contents: different contents have different root ids        *)
ASSUME RootIdInjective ==
  \A n \in {MapNK, SetNK} : \A m1, m2 \in [1..n -> {<<>>} \cup {<<v>> : v \in Vals \cup {""}}] :
     Items(m1) = Items(m2) => m1 = m2

(* step properties: what each call may change and what it reports *)
StepOK ==
  LET e == ev' IN
  /\ cfg' = cfg
  /\ (e.op \in {"Get", "Has", "Stream", "StreamStop", "Reopen", "ProbeReopen"} => <<cur, com, ever>>' = <<cur, com, ever>>)
  /\ (e.op \in {"Set", "Add", "Delete"} =>
        /\ <<com, ever>>' = <<com, ever>>
        /\ \A k \in Keys(cfg) : k # e.k => cur'[k] = cur[k])
  /\ (e.op = "Set" => cur'[e.k] = (IF e.enc = "refused" THEN cur[e.k] ELSE <<e.v>>))
  /\ (e.op = "Add" => cur'[e.k] # <<>>)
  /\ (e.op = "Delete" => cur'[e.k] = <<>> /\ e.res.deleted = (cur[e.k] # <<>>))
  /\ (e.op = "Get" => e.res.v = cur[e.k])
  /\ (e.op = "Has" => e.res.has = (cur[e.k] # <<>>))
  /\ (e.op = "Stream" => e.res.items = Items(cur))
  /\ (e.op = "Commit" => cur' = cur /\ com' = cur /\ ever')
  /\ (e.op = "Reopen" => ever /\ cur = com /\ e.st = St(cfg, com, TRUE))      \* faithful reopen
  /\ (e.op = "ProbeReopen" => e.res.restored = ever)
  /\ (e.op # "reset" => e.st.restored = ever')                                   \* restored <=> a Commit happened
Steps == [][StepOK]_vars
=======================================================================
