CONSTANTS
  MapNK = 3
  SetNK = 4
  Vals = {"", "a", "b"}
  Flavours = {"map", "set"}
  NilEnc = {FALSE, TRUE}
  Modes = {"full", "lazy"}
INVARIANTS TypeOK ObsOK
