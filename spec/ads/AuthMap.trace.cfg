CONSTANTS
  MapNK = 4
  SetNK = 4
  Vals = {"", "a", "b"}
  Flavours = {"map", "set"}
  NilEnc = {FALSE, TRUE}
  Modes = {"full", "lazy"}
INVARIANTS ObsOK
