\* exhaustive run with one more key (quick: 3 keys x 3 values)
CONSTANTS
  MapNK = 4
  SetNK = 4
  Vals = {"", "a"}
  Flavours = {"map", "set"}
  EmptyEncs = {"empty", "nil"}
  Modes = {"full", "lazy"}
  KeyAlphabets = {"trie", "nested"}
INVARIANTS TypeOK ObsOK
PROPERTIES Steps
