\* exhaustive run of the next size up (the model does not depend on nilEmpty; "lazy" has every stimulus)
CONSTANTS
  MapNK = 4
  SetNK = 4
  Vals = {"", "a", "b"}
  Flavours = {"map", "set"}
  NilEnc = {TRUE}
  Modes = {"lazy"}
INVARIANTS TypeOK ObsOK
PROPERTIES Steps
