\* STRICT reading (known finding C05-flushkv-close): a flushkv mutation is ONE atomic step, like every other call
INIT TInit
NEXT TNext
VIEW TView
CONSTANTS
  FlushWraps = {}
  Threads = {1, 2, 3, 4, 5, 6, 7, 8, 9, 10, 11, 12, 13, 14, 15, 16}
  Explain = FALSE
  Bytes = {0, 1, 255}
  KeyLen = 2
  RealmIds = {1, 2, 3, 4, 5}
  NVals = 3
  Wraps = {"none", "flush"}
  MaxLive = 64
  MaxBatches = 0
  MaxBatchOps = 0
  Stops = {0, 1, 2, 3}
  Muts = {FALSE}
  Ops = {}
POSTCONDITION HighWater
