\* LTS 2 (model -> code): nested / overlapping realms, empty and 0xff keys and prefixes, 2 live keys, both
\* directions, early stop, aliasing steps, Close - on the bare mapdb
CONSTANTS
  Bytes = {0, 255}
  KeyLen = 1
  RealmIds = {1, 2, 4}
  NVals = 2
  Wraps = {"none"}
  MaxLive = 2
  MaxBatches = 0
  MaxBatchOps = 0
  Stops = {0, 1}
  Muts = {TRUE}
  Ops = {"Get", "Has", "Set", "Delete", "DeletePrefix", "Clear", "Flush", "Close", "Realm", "Batched", "Iterate", "IterMut", "IterateKeys", "WithRealm", "WithExtendedRealm"}
