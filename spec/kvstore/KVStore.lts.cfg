\* LTS 1 (model -> code): every wrapper stack x every method (incl. batches, Close) on a minimal key space
CONSTANTS
  Bytes = {0}
  KeyLen = 0
  RealmIds = {1, 2}
  NVals = 2
  Wraps = {"none", "flush", "debug", "flushdebug", "debugflush"}
  MaxLive = 1
  MaxBatches = 1
  MaxBatchOps = 1
  Stops = {0}
  Muts = {TRUE}
  Ops = {"Get", "Has", "Set", "Delete", "DeletePrefix", "Clear", "Flush", "Close", "Realm", "Batched", "Iterate", "IterMut", "IterateKeys", "WithRealm", "WithExtendedRealm", "BSet", "BDelete", "Cancel", "Commit"}
