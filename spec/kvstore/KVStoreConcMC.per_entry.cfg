\* negative control: an iteration that reads one entry per atomic step is NOT a snapshot (IterSnapshot must fail)
SPECIFICATION MCSpec
CONSTANTS
  FlushWraps = {"flush"}
  Threads = {t1, t2}
  CallsPerThread = 2
  MaxCommitOps = 0
  CommitViews = {1}
  IterDirs = {"fwd"}
  Variant = "per_entry"
  Bytes = {0}
  KeyLen = 1
  RealmIds = {1}
  NVals = 2
  Wraps = {"none"}
  MaxLive = 9
  MaxBatches = 0
  MaxBatchOps = 0
  Stops = {0}
  Muts = {FALSE}
  Ops = {"Set", "Delete", "Iterate"}
VIEW MCView
INVARIANTS IterSnapshot
