\* closed composition, every operation (incl. Close, early-stopping iterations in both directions, batches on
\* both views): 2 threads x 1 call - every pair of overlapping calls; LinPossible: a pending call can always
\* take effect and return
SPECIFICATION MCSpec
CONSTANTS
  FlushWraps = {"flush"}
  Threads = {t1, t2}
  CallsPerThread = 1
  MaxCommitOps = 2
  CommitViews = {1, 2}
  IterDirs = {"fwd", "bwd"}
  Variant = "code"
  Bytes = {0}
  KeyLen = 1
  RealmIds = {1, 2}
  NVals = 2
  Wraps = {"none", "flush"}
  MaxLive = 9
  MaxBatches = 0
  MaxBatchOps = 0
  Stops = {0, 1}
  Muts = {FALSE}
  Ops = {"Get", "Has", "Set", "Delete", "DeletePrefix", "Clear", "Flush", "Close", "Iterate", "IterateKeys", "Commit"}
SYMMETRY ThreadSym
VIEW MCView
INVARIANTS ConcTypeOK LinPossible IterSnapshot ReadExplained CommitComplete
PROPERTIES OnlyLinWrites ReadResAgrees
