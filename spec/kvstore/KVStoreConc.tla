--------------------------- MODULE KVStoreConc ---------------------------
(* Property C05: KVStore operations are linearizable under concurrent use.                    *)
(*                                                                                         *)
(* Concurrent callers (Threads) use any views of ONE store.  A call of thread t is           *)
(*     Invoke(t, s)   the call starts (s = stimulus record of the sequential contract)       *)
(*     Lin(t)         SILENT: the call takes effect - the sequential C04 action Do(s) of       *)
(*                    module KVStore is applied atomically to the single map; the result it  *)
(*                    produces is remembered in res[t]                                       *)
(*     Return(t)      the call returns res[t]                                                *)
(* so every call takes effect at one instant between its invocation and its return, and an   *)
(* Iterate / IterateKeys reads the whole map in its Lin step (its result is a snapshot).     *)
(* The only call with several instants is the Commit of a batch: ONE Lin step PER INDIVIDUAL  *)
(* WRITE (the last operation per key of the batch, C04's BatchLastOp), in any order, all      *)
(* between the Commit's invocation and its return; other calls may take effect in between    *)
(* (the statement asks for per-write atomicity only).                                        *)
(*                                                                                         *)
(* A batch is built by one thread (Batched/Set/Delete on the batch handle touch nothing      *)
(* shared), so the Commit call carries the sequence of its Set/Delete calls:                 *)
(*     [op |-> "Commit", v |-> view, ops |-> << [k |-> key, del |-> BOOLEAN, val |-> value], ... >>] *)
(* Everything sequential (realms, listing order, results, closed store) is REUSED from       *)
(* KVStore.tla: Do, ApplyOne, R, Err.  Nothing here depends on cfg (wrappers are transparent).*)
(*                                                                                         *)
(* Closed store: a Commit tests `closed` when it starts (first Lin step); writes of a Commit *)
(* that take effect after a concurrent Close are unobservable (KVStore forgets the contents). *)
(*                                                                                         *)
(* The flushkv wrapper ("flushes changes immediately") is the one place where cfg matters:   *)
(* its mutating calls are, by its documentation, the mutation FOLLOWED BY a Flush of the     *)
(* store, i.e. two calls of the sequential contract; the wrapper returns the first error.    *)
(* Sequentially that is the same as the bare call (C04: wrappers are transparent).  With a   *)
(* concurrent Close the two steps can fall on both sides of it: the mutation takes effect,   *)
(* the store is closed, the Flush - and so the call - reports ErrStoreClosed.  LinFlush is    *)
(* that second step.  Under the letter of C05 (a completed call that reports ErrStoreClosed    *)
(* had no effect) this is a defect of flushkv, recorded as a KNOWN finding: the free-running   *)
(* histories are judged with FlushWraps = {"flush"} (a chance occurrence never alarms), the    *)
(* forced schedule that demonstrates it is judged with FlushWraps = {} (KVStoreConcTrace.strict.cfg). *)
EXTENDS KVStore

CONSTANTS Threads,
          FlushWraps    \* wrapper stacks whose mutating calls are "mutation, then Flush" (two steps): {"flush"};
                        \* {} = the STRICT reading: every call of every wrapper stack is one atomic step

VARIABLES pc,     \* thread -> "idle" | "invoked" | "writing" (Commit, some writes done) |
                  \*           "flushing" (flushkv: mutation done, Flush pending) | "lin"
          call,   \* thread -> stimulus of the pending call
          res,    \* thread -> result produced at the linearization point
          todo    \* thread -> writes of a pending Commit that have not taken effect yet
cvars   == <<pc, call, res, todo>>
allvars == <<cfg, store, closed, batches, ev, pc, call, res, todo>>
(* state identity: ev (the last sequential event) is a redundant log *)
ConcView == <<cfg, store, closed, pc, call, res, todo>>

NoCall == [op |-> "none"]
NoRes  == [err |-> "none"]
ThreadsInit == /\ pc   = [t \in Threads |-> "idle"]
               /\ call = [t \in Threads |-> NoCall]
               /\ res  = [t \in Threads |-> NoRes]
               /\ todo = [t \in Threads |-> {}]
ThreadsReset == /\ pc'   = [t \in Threads |-> "idle"]
                /\ call' = [t \in Threads |-> NoCall]
                /\ res'  = [t \in Threads |-> NoRes]
                /\ todo' = [t \in Threads |-> {}]
ConcInit == Init /\ ThreadsInit

MutOps     == {"Set", "Delete", "DeletePrefix", "Clear", "Commit"}
(* the call of t has taken effect with result r *)
Finish(t, r) == IF cfg.wrap \in FlushWraps /\ call[t].op \in MutOps /\ r = Err("ok")
                  THEN pc' = [pc EXCEPT ![t] = "flushing"] /\ UNCHANGED res
                  ELSE pc' = [pc EXCEPT ![t] = "lin"] /\ res' = [res EXCEPT ![t] = r]

(* the individual writes of a batch: the last Set/Delete call per key *)
LastWrites(ops) == {ops[i] : i \in {j \in 1..Len(ops) : \A m \in (j + 1)..Len(ops) : ops[m].k # ops[j].k}}

Invoke(t, s) ==
  /\ pc[t] = "idle"
  /\ pc'   = [pc EXCEPT ![t] = "invoked"]
  /\ call' = [call EXCEPT ![t] = s]
  /\ todo' = [todo EXCEPT ![t] = IF s.op = "Commit" THEN LastWrites(s.ops) ELSE {}]
  /\ UNCHANGED <<vars, res>>

(* every call but Commit: the sequential action, atomically *)
LinCall(t) ==
  /\ pc[t] = "invoked" /\ call[t].op # "Commit"
  /\ Do(call[t])
  /\ Finish(t, ev'.res)
  /\ UNCHANGED <<call, todo>>

CommitDone(t, r) == Finish(t, r)

LinCommit(t) ==
  /\ call[t].op = "Commit"
  /\ \/ /\ pc[t] = "invoked" /\ closed                      \* refused: nothing is written
        /\ CommitDone(t, Err("ErrStoreClosed"))
        /\ todo' = [todo EXCEPT ![t] = {}]
        /\ UNCHANGED <<vars, call>>
     \/ /\ pc[t] = "invoked" /\ ~closed /\ todo[t] = {}     \* the empty batch
        /\ CommitDone(t, Err("ok"))
        /\ UNCHANGED <<vars, call, todo>>
     \/ /\ pc[t] \in {"invoked", "writing"} /\ todo[t] # {}
        /\ pc[t] = "invoked" => ~closed
        /\ \E w \in todo[t] :                               \* ONE write takes effect
             /\ store' = IF closed THEN store ELSE ApplyOne(store, R(call[t]), w)
             /\ todo'  = [todo EXCEPT ![t] = @ \ {w}]
             /\ IF todo[t] = {w} THEN CommitDone(t, Err("ok"))
                                 ELSE pc' = [pc EXCEPT ![t] = "writing"] /\ UNCHANGED res
        /\ UNCHANGED <<cfg, closed, batches, ev, call>>

(* flushkv: the Flush that follows a mutation *)
LinFlush(t) ==
  /\ pc[t] = "flushing"
  /\ Do([op |-> "Flush", v |-> call[t].v])
  /\ res' = [res EXCEPT ![t] = ev'.res]
  /\ pc'  = [pc EXCEPT ![t] = "lin"]
  /\ UNCHANGED <<call, todo>>

Lin(t) == LinCall(t) \/ LinCommit(t) \/ LinFlush(t)

Return(t) ==
  /\ pc[t] = "lin"
  /\ pc'   = [pc EXCEPT ![t] = "idle"]
  /\ call' = [call EXCEPT ![t] = NoCall]
  /\ res'  = [res EXCEPT ![t] = NoRes]
  /\ UNCHANGED <<vars, todo>>

(* What a call that changes nothing returns when it takes effect now - the read arms of KVStore!Do restated as *)
(* a state function (KVStoreConcMC checks ReadResAgrees: every Lin step of such a call produces exactly this). *)
(* Used by the trace specification to decide cheaply WHEN such a step is worth taking.                         *)
ReadOnlyOps == {"Get", "Has", "Iterate", "IterateKeys", "Flush"}
ReadRes(s) ==
  CASE s.op = "Get" -> IF closed THEN [err |-> "ErrStoreClosed", val |-> <<>>]
                       ELSE IF (R(s) \o s.k) \in DOMAIN store THEN [err |-> "ok", val |-> store[R(s) \o s.k]]
                       ELSE [err |-> "ErrKeyNotFound", val |-> <<>>]
    [] s.op = "Has" -> IF closed THEN [err |-> "ErrStoreClosed", has |-> FALSE]
                       ELSE [err |-> "ok", has |-> (R(s) \o s.k) \in DOMAIN store]
    [] s.op = "Iterate" -> IF closed THEN [err |-> "ErrStoreClosed", kv |-> <<>>]
                           ELSE [err |-> "ok", kv |-> Take(Listing(store, R(s), s.k, s.dir), s.n)]
    [] s.op = "IterateKeys" -> IF closed THEN [err |-> "ErrStoreClosed", keys |-> <<>>]
                               ELSE [err |-> "ok", keys |-> KeysOf(Take(Listing(store, R(s), s.k, s.dir), s.n))]
    [] s.op = "Flush" -> IF closed THEN Err("ErrStoreClosed") ELSE Err("ok")
(* the result thread t's pending step would produce now, if that step changes nothing (else NoRes) *)
QuietRes(t) == IF pc[t] = "flushing" THEN ReadRes([op |-> "Flush"])
               ELSE IF pc[t] = "invoked" /\ call[t].op \in ReadOnlyOps THEN ReadRes(call[t])
               ELSE NoRes

ConcTypeOK == /\ \A t \in Threads : pc[t] \in {"idle", "invoked", "writing", "flushing", "lin"}
              /\ \A t \in Threads : pc[t] = "idle" <=> call[t] = NoCall
              /\ \A t \in Threads : pc[t] = "lin" <=> res[t] # NoRes
              /\ \A t \in Threads : todo[t] # {} => (pc[t] \in {"invoked", "writing"} /\ call[t].op = "Commit")
              /\ \A t \in Threads : pc[t] = "writing" => todo[t] # {}
              /\ \A t \in Threads : pc[t] = "flushing" => (cfg.wrap \in FlushWraps /\ call[t].op \in MutOps)
=======================================================================
