-------------------------- MODULE KVStoreConcMC --------------------------
(* Closed composition of KVStoreConc for TLC: every thread issues CallsPerThread calls taken *)
(* from the sequential stimulus alphabet (plus Commit calls carrying a batch), in every        *)
(* interleaving of Invoke / Lin / Return steps.  Checked:                                     *)
(*   - the specification itself cannot get stuck (TLC's deadlock check + LinPossible: a        *)
(*     pending call can always take effect / return);                                         *)
(*   - IterSnapshot: what an Iterate / IterateKeys returns is a set of entries that all        *)
(*     existed together at one instant between its invocation and its return (the ghost       *)
(*     variable `seen` collects every value the map had in that interval), complete up to     *)
(*     the consumer's stop; ReadExplained: the same for Get / Has.                            *)
(* Variant = "per_entry" is the negative control: an iteration that reads the key set first   *)
(* and then every entry in its own atomic step (the map lock taken per entry, DESIGN.md       *)
(* Appendix B) - TLC must refute IterSnapshot for it.                                         *)
EXTENDS KVStoreConc

CONSTANTS CallsPerThread,   \* calls per thread
          MaxCommitOps,     \* a batch holds <= MaxCommitOps Set/Delete calls (distinct keys, ascending: the order of
                            \* calls on distinct keys is irrelevant, repeated keys are C04's BatchLastOp)
          CommitViews,      \* views on which batches are committed
          IterDirs,         \* directions of iterations
          Variant           \* "code" | "per_entry" (negative control)

VARIABLES left,   \* thread -> calls it may still issue
          seen,   \* ghost: thread with a pending read -> the maps that existed since its invocation
          iter    \* per_entry variant: thread -> [keys |-> full keys still to read, acc |-> entries read]
mcvars == <<cfg, store, closed, batches, ev, pc, call, res, todo, left, seen, iter>>
MCView == <<cfg, store, closed, pc, call, res, todo, left, seen, iter>>

IterOps  == {"Iterate", "IterateKeys"}
Reads    == {"Get", "Has", "Iterate", "IterateKeys"}
CallOps  == {"Get", "Has", "Set", "Delete", "DeletePrefix", "Clear", "Flush", "Close", "Iterate", "IterateKeys"}
BatchOp  == [k : Keys, del : {FALSE}, val : Vals] \cup [k : Keys, del : {TRUE}, val : {<<>>}]
BatchSeqs == {q \in UNION {[1..n -> BatchOp] : n \in 0..MaxCommitOps} :
                \A i \in 1..(Len(q) - 1) : LexLess(q[i].k, q[i + 1].k)}
MCStimuli == {s \in Stimuli : s.op \in CallOps /\ (s.op \in IterOps => s.dir \in IterDirs)}
             \cup (IF "Commit" \in Ops THEN [op : {"Commit"}, v : CommitViews, ops : BatchSeqs] ELSE {})
NoIter == [keys |-> <<>>, acc |-> <<>>]

MCInit == /\ ConcInit
          /\ left = [t \in Threads |-> CallsPerThread]
          /\ seen = [t \in Threads |-> {}]
          /\ iter = [t \in Threads |-> NoIter]

(* every map value that exists while a read is pending (not yet linearized) is remembered *)
Remember(t) == seen' = [u \in Threads |-> IF u # t /\ seen[u] # {} /\ pc[u] \in {"invoked", "reading"}
                                            THEN seen[u] \cup {store'} ELSE seen[u]]

MCInvoke(t, s) == /\ left[t] > 0
                  /\ Invoke(t, s)
                  /\ left' = [left EXCEPT ![t] = @ - 1]
                  /\ seen' = [seen EXCEPT ![t] = IF s.op \in Reads THEN {store} ELSE {}]
                  /\ UNCHANGED iter

(* ---- negative control: the iteration reads the matching keys, then one entry per step ---- *)
TornStart(t) ==
  /\ pc[t] = "invoked"
  /\ pc' = [pc EXCEPT ![t] = "reading"]
  /\ LET s == call[t]
         L == Listing(store, R(s), s.k, s.dir)
     IN iter' = [iter EXCEPT ![t] = [keys |-> [i \in 1..Len(L) |-> R(s) \o L[i].k], acc |-> <<>>]]
  /\ UNCHANGED <<vars, call, res, todo, left, seen>>
TornRead(t) ==
  /\ pc[t] = "reading"
  /\ LET s == call[t] IN
     IF iter[t].keys = <<>>
       THEN /\ pc'  = [pc EXCEPT ![t] = "lin"]
            /\ res' = [res EXCEPT ![t] = IF s.op = "Iterate"
                                           THEN [err |-> "ok", kv |-> Take(iter[t].acc, s.n)]
                                           ELSE [err |-> "ok", keys |-> KeysOf(Take(iter[t].acc, s.n))]]
            /\ iter' = [iter EXCEPT ![t] = NoIter]
       ELSE LET fk == Head(iter[t].keys) IN
            /\ iter' = [iter EXCEPT ![t] = [keys |-> Tail(@.keys),
                                            acc  |-> IF fk \in DOMAIN store
                                                       THEN Append(@.acc, [k |-> Strip(fk, Len(R(s))), v |-> store[fk]])
                                                       ELSE @.acc]]
            /\ UNCHANGED <<pc, res>>
  /\ UNCHANGED <<vars, call, todo, left, seen>>

MCLin(t) ==
  IF Variant = "per_entry" /\ call[t].op \in IterOps /\ ~closed
    THEN TornStart(t) \/ TornRead(t)
    ELSE Lin(t) /\ Remember(t) /\ UNCHANGED <<left, iter>>

MCReturn(t) == /\ Return(t)
               /\ seen' = [seen EXCEPT ![t] = {}]
               /\ UNCHANGED <<left, iter>>

Finished == (\A t \in Threads : pc[t] = "idle" /\ left[t] = 0) /\ UNCHANGED mcvars

MCNext == \/ \E t \in Threads : \/ \E s \in MCStimuli : MCInvoke(t, s)
                                \/ MCLin(t)
                                \/ MCReturn(t)
          \/ Finished
MCSpec == MCInit /\ [][MCNext]_mcvars

ThreadSym == Permutations(Threads)

(* ------------------------------------------------------------------ checked ------------- *)
(* a pending call can always take effect, a linearized call can always return *)
LinPossible == \A t \in Threads : /\ pc[t] \in {"invoked", "writing", "flushing", "reading"} => ENABLED MCLin(t)
                                  /\ pc[t] = "lin" => ENABLED MCReturn(t)

(* stated pointwise on the reported entries, without the sorting used by Do *)
IterSnapshot ==
  \A t \in Threads :
    (pc[t] = "lin" /\ call[t].op \in IterOps /\ res[t].err = "ok") =>
      LET s  == call[t]
          r  == R(s)
          ks == IF s.op = "Iterate" THEN [i \in 1..Len(res[t].kv) |-> res[t].kv[i].k] ELSE res[t].keys
      IN \E f \in seen[t] :
           LET M == {fk \in DOMAIN f : HasPrefix(fk, r \o s.k)} IN
           /\ \A i \in 1..Len(ks) : /\ (r \o ks[i]) \in M
                                    /\ s.op = "Iterate" => f[r \o ks[i]] = res[t].kv[i].v
           /\ \A i, j \in 1..Len(ks) : i # j => ks[i] # ks[j]
           /\ Len(ks) = (IF s.n = 0 \/ s.n > Cardinality(M) THEN Cardinality(M) ELSE s.n)

ReadExplained ==
  \A t \in Threads :
    (pc[t] = "lin" /\ call[t].op \in {"Get", "Has"} /\ res[t].err # "ErrStoreClosed") =>
      LET s == call[t]  fk == R(s) \o s.k IN
      \E f \in seen[t] :
        IF s.op = "Has" THEN res[t].has = (fk \in DOMAIN f)
        ELSE IF fk \in DOMAIN f THEN res[t] = [err |-> "ok", val |-> f[fk]]
                                ELSE res[t] = [err |-> "ErrKeyNotFound", val |-> <<>>]

(* the restated read results (KVStoreConc!ReadRes) are what Do produces: checked on every Lin step of a read *)
ReadResAgreesA == \A t \in Threads : (QuietRes(t) # NoRes /\ pc'[t] = "lin" /\ Variant = "code") => res'[t] = QuietRes(t)
ReadResAgrees == [][ReadResAgreesA]_mcvars

(* a Commit that returned ok has applied every one of its writes *)
CommitComplete == \A t \in Threads : (pc[t] \in {"flushing", "lin"} /\ call[t].op = "Commit") => todo[t] = {}

(* only Lin steps change the map, and a read never does *)
OnlyLinWritesA == store' # store => \E t \in Threads : /\ pc[t] \in {"invoked", "writing"}
                                                       /\ pc'[t] \in {"writing", "flushing", "lin"}
                                                       /\ call[t].op \notin Reads \cup {"Flush"}
OnlyLinWrites == [][OnlyLinWritesA]_mcvars
=======================================================================
