\* exhaustive check of the contract model: the whole view tree, keys/prefixes of length <= 2 over {0,255}
\* (incl. empty and 0xff-terminated), 2 live keys; batches are explored by KVStore.batch.cfg
CONSTANTS
  Bytes = {0, 255}
  KeyLen = 2
  RealmIds = {1, 2, 3, 4, 5}
  NVals = 2
  Wraps = {"none"}
  MaxLive = 2
  MaxBatches = 0
  MaxBatchOps = 0
  Stops = {0, 1}
  Muts = {TRUE}
  Ops = {"Get", "Has", "Set", "Delete", "DeletePrefix", "Clear", "Flush", "Close", "Realm", "Batched", "Iterate", "IterMut", "IterateKeys", "WithRealm", "WithExtendedRealm", "BSet", "BDelete", "Cancel", "Commit"}
VIEW View
INVARIANTS TypeOK ClosedOK NotClosedOK GetOK HasOK SetOK IterOK StOK
PROPERTIES Isolation ReadOnly DeleteExact SetDelete BatchLastOp CancelNothing IterMutSnapshot
