\* closed composition, quick: 2 threads x 2 calls; writes, batches of <= 2 writes, reads and iterations on
\* 2 views (realms <<>> and <<0>>) over 3 full keys with 2 values
SPECIFICATION MCSpec
CONSTANTS
  FlushWraps = {"flush"}
  Threads = {t1, t2}
  CallsPerThread = 2
  MaxCommitOps = 2
  CommitViews = {1}
  IterDirs = {"fwd"}
  Variant = "code"
  Bytes = {0}
  KeyLen = 1
  RealmIds = {1, 2}
  NVals = 2
  Wraps = {"none"}
  MaxLive = 9
  MaxBatches = 0
  MaxBatchOps = 0
  Stops = {0}
  Muts = {FALSE}
  Ops = {"Set", "Delete", "Iterate", "Commit"}
SYMMETRY ThreadSym
VIEW MCView
INVARIANTS ConcTypeOK IterSnapshot ReadExplained CommitComplete
PROPERTIES OnlyLinWrites ReadResAgrees
