\* constants for validating recorded histories of the real store (nothing is enumerated here)
CONSTANTS
  Bytes = {0, 1, 255}
  KeyLen = 2
  RealmIds = {1, 2, 3, 4, 5}
  NVals = 3
  Wraps = {"none", "flush", "debug", "flushdebug", "debugflush"}
  MaxLive = 16
  MaxBatches = 2
  MaxBatchOps = 8
  Stops = {0, 1, 2, 3}
  Muts = {FALSE, TRUE}
  Ops = {"Get", "Has", "Set", "Delete", "DeletePrefix", "Clear", "Flush", "Close", "Realm", "Batched", "Iterate", "IterMut", "IterateKeys", "WithRealm", "WithExtendedRealm", "BSet", "BDelete", "Cancel", "Commit"}
INVARIANTS TypeOK ClosedOK NotClosedOK GetOK HasOK SetOK IterOK StOK
