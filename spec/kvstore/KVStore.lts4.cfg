\* LTS 4 (thorough tier): batches over nested realms and 0xff keys on the bare mapdb and under both wrappers
CONSTANTS
  Bytes = {0, 255}
  KeyLen = 1
  RealmIds = {1, 2, 4}
  NVals = 2
  Wraps = {"none", "flushdebug"}
  MaxLive = 1
  MaxBatches = 1
  MaxBatchOps = 1
  Stops = {0}
  Muts = {TRUE}
  Ops = {"Get", "Set", "Delete", "DeletePrefix", "Clear", "Close", "Batched", "Iterate", "IterMut", "BSet", "BDelete", "Cancel", "Commit"}
