\* thorough tier: the full alphabet {0,1,255}, keys/prefixes of length <= 2 (13), 5 views, 2 live keys
CONSTANTS
  Bytes = {0, 1, 255}
  KeyLen = 2
  RealmIds = {1, 2, 3, 4, 5}
  NVals = 2
  Wraps = {"none"}
  MaxLive = 2
  MaxBatches = 0
  MaxBatchOps = 0
  Stops = {0, 1, 2}
  Muts = {TRUE}
  Ops = {"Get", "Has", "Set", "Delete", "DeletePrefix", "Clear", "Flush", "Close", "Realm", "Batched", "Iterate", "IterMut", "IterateKeys", "WithRealm", "WithExtendedRealm", "BSet", "BDelete", "Cancel", "Commit"}
VIEW View
INVARIANTS TypeOK ClosedOK NotClosedOK GetOK HasOK SetOK IterOK StOK
PROPERTIES Isolation ReadOnly DeleteExact SetDelete BatchLastOp CancelNothing IterMutSnapshot
