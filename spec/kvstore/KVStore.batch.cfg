\* exhaustive check of the batch part of the contract: 2 open batches on overlapping views,
\* Set/Delete of one key mixed across realms, Cancel, Commit, Close with pending batches
CONSTANTS
  Bytes = {0}
  KeyLen = 1
  RealmIds = {1, 2}
  NVals = 2
  Wraps = {"none"}
  MaxLive = 3
  MaxBatches = 2
  MaxBatchOps = 2
  Stops = {0}
  Muts = {TRUE}
  Ops = {"Get", "Set", "Delete", "DeletePrefix", "Clear", "Close", "Batched", "Iterate", "BSet", "BDelete", "Cancel", "Commit"}
VIEW View
INVARIANTS TypeOK ClosedOK NotClosedOK GetOK HasOK SetOK IterOK StOK
PROPERTIES Isolation ReadOnly DeleteExact SetDelete BatchLastOp CancelNothing IterMutSnapshot
