\* LTS 3 (thorough tier): as LTS 2 with four nested views
CONSTANTS
  Bytes = {0, 255}
  KeyLen = 1
  RealmIds = {1, 2, 3, 4}
  NVals = 2
  Wraps = {"none"}
  MaxLive = 2
  MaxBatches = 0
  MaxBatchOps = 0
  Stops = {0, 1}
  Muts = {TRUE}
  Ops = {"Get", "Has", "Set", "Delete", "DeletePrefix", "Clear", "Flush", "Close", "Realm", "Batched", "Iterate", "IterMut", "IterateKeys", "WithRealm", "WithExtendedRealm"}
