------------------------- MODULE KVStoreConcTrace -------------------------
(* Trace validation WITH SILENT STEPS (code -> model) for KVStoreConc.                       *)
(*                                                                                         *)
(* trace.ndjson = histories recorded from the real store, concatenated.  Lines, in the order *)
(* of a global sequence number drawn right BEFORE a call (inv) / right AFTER it (ret):        *)
(*    {"op":"reset","cfg":{"wrap":...}}             a new store, a new history                *)
(*    {"op":"inv","t":T,"call":{"op":"Set","v":V,"k":[..],"val":[..]}}   thread T calls       *)
(*    {"op":"ret","t":T,"res":{...}}                the call returned res                      *)
(*    {"op":"final","finished":B}                   every goroutine of the history returned     *)
(*                                                  within the watchdog's bound (B = false: hang)*)
(* The linearization points are not in the log: TLC searches for a placement,                *)
(*    TNext == (consume the next line: inv, or ret matching the result of Lin) \/ (\E t : Lin(t)) *)
(* with at most one pending call per thread.                                                 *)
(* A history is accepted iff some behaviour consumes all of its lines; the whole file is      *)
(* accepted iff l reaches Len(Trace) + 1 (TLC is then stopped).  If no behaviour gets there   *)
(* the search space is exhausted and the high-water mark HW = the largest line index reached  *)
(* names the first line that NO placement of the silent steps explains.                       *)
(*                                                                                         *)
(* Search reductions (each sound and complete for "some placement exists"):                  *)
(*  R1 look-ahead: the result a call will return is in the log (its ret line), so a Lin step  *)
(*     whose result differs from it is never taken (want[t], found when the inv is consumed). *)
(*  R2 read-only steps (Get, Has, Iterate, IterateKeys, Flush; the Flush step of flushkv)      *)
(*     change nothing, so any instant between inv and ret at which the map yields the logged   *)
(*     result is as good as any other: their Lin step is taken at the FIRST such instant,      *)
(*     deterministically, before anything else happens (no branching on reads; a read whose    *)
(*     result never shows up blocks its ret line).                                            *)
(*  R3 the other (mutating) Lin steps are moved as far to the right as their order and "before *)
(*     the thread's own ret line" allow (a Lin step commutes with inv lines and with ret lines *)
(*     of other threads to its right; the reads between them move along, seeing the same map). *)
(*     Then every mutating Lin step is followed by another one, or by the ret line of its own  *)
(*     thread, or by the (eager) Lin step and the ret line of a read that needed it.  So they  *)
(*     are only tried when the next line is the ret of a thread that has not taken effect yet. *)
(*  R4 once some behaviour has consumed a reset line the earlier histories are accepted, so    *)
(*     states that still sit inside them (alternatives left on the depth-first queue) are not  *)
(*     expanded any more (TLCGet(2) = line after the last reset line consumed).               *)
(* The disjuncts are ordered so that the depth-first queue tries the shortest chain first.    *)
(* Run with -workers 1 and the depth-first state queue.                                       *)
EXTENDS KVStoreConc, Json

CONSTANTS Explain       \* TRUE: print what the model allows where a ret line does not match (second pass)

VARIABLES l,            \* index of the next line
          want          \* thread -> the result its pending call returns later in the log (look-ahead)
tvars == <<cfg, store, closed, batches, ev, pc, call, res, todo, l, want>>
TView == <<cfg, store, closed, pc, call, res, todo, l>>

Trace == ndJsonDeserialize("trace.ndjson")
N     == Len(Trace)

(* the result of the call invoked by thread t at line i: its next ret line inside the history *)
RECURSIVE WantOf(_, _)
WantOf(t, i) == IF i > N \/ Trace[i].op \in {"reset", "final"} THEN NoRes
                ELSE IF Trace[i].op = "ret" /\ Trace[i].t = t THEN Trace[i].res
                ELSE WantOf(t, i + 1)

Mark(n) == /\ (TLCGet(1) < n => TLCSet(1, n))
           /\ (Trace[n - 1].op = "reset" /\ TLCGet(2) < n => TLCSet(2, n))
           /\ (n > N => PrintT(<<"ACCEPTED", n>>) /\ TLCSet("exit", TRUE))

TInit == /\ l = 2
         /\ TLCSet(1, 2) /\ TLCSet(2, 2)
         /\ ConcInit
         /\ cfg = Trace[1].cfg
         /\ want = [t \in Threads |-> NoRes]

Consume ==
  /\ l <= N
  /\ l' = l + 1
  /\ LET e == Trace[l] IN
     CASE e.op = "reset" -> Do(e) /\ ThreadsReset /\ want' = [t \in Threads |-> NoRes]
       [] e.op = "inv"   -> Invoke(e.t, e.call) /\ want' = [want EXCEPT ![e.t] = WantOf(e.t, l + 1)]
       [] e.op = "ret"   -> /\ pc[e.t] = "lin"
                            /\ res[e.t] = e.res
                            /\ Return(e.t)
                            /\ UNCHANGED want
       [] e.op = "final" -> /\ e.finished = TRUE                      \* no call hangs
                            /\ \A t \in Threads : pc[t] = "idle"
                            /\ UNCHANGED <<vars, cvars, want>>
  /\ Mark(l')

(* a Lin step of t that produces the logged result (for a Commit: its last step does) *)
WantedLin(t) == /\ Lin(t)
                /\ pc'[t] = "lin" => res'[t] = want[t]
                /\ UNCHANGED <<l, want>>

Eager(t)    == (pc[t] = "invoked" /\ call[t].op \in ReadOnlyOps) \/ pc[t] = "flushing"    \* steps that change nothing
EagerLin(t) == Eager(t) /\ WantedLin(t)
EagerSet    == {t \in Threads : Eager(t) /\ QuietRes(t) = want[t]}      \* = ENABLED EagerLin(t), by ReadResAgrees

Silent == /\ l <= N
          /\ Trace[l].op = "ret"
          /\ pc[Trace[l].t] # "lin"
          /\ \/ \E t \in Threads \ {Trace[l].t} : ~Eager(t) /\ WantedLin(t)
             \/ (~Eager(Trace[l].t) /\ WantedLin(Trace[l].t))

(* second pass on a rejected history: what the model could return where the log says otherwise *)
ExplainStep == /\ Explain /\ l <= N /\ Trace[l].op = "ret"
               /\ LET t == Trace[l].t IN
                  /\ pc[t] = "invoked" /\ call[t].op # "Commit"
                  /\ Do(call[t])
                  /\ PrintT(<<"EXPECTED", ToJson([l |-> l, t |-> t, res |-> ev'.res])>>)
               /\ FALSE /\ UNCHANGED <<cvars, l, want>>

TNext == LET E == EagerSet IN
         /\ l >= TLCGet(2)
         /\ IF E # {} THEN EagerLin(CHOOSE t \in E : \A u \in E : t <= u)
                      ELSE ExplainStep \/ Silent \/ Consume
TSpec == TInit /\ [][TNext]_tvars

HighWater == PrintT(<<"HW", TLCGet(1)>>)
=======================================================================
