------------------------- MODULE KVStoreConcTrace -------------------------
(* Trace validation WITH SILENT STEPS (code -> model) for KVStoreConc.                       *)
(*                                                                                         *)
(* trace.ndjson = histories recorded from the real store, concatenated.  Lines, in the order *)
(* of a global sequence number drawn right BEFORE a call (inv) / right AFTER it (ret):        *)
(*    {"op":"reset","cfg":{"wrap":...}}             a new store, a new history                *)
(*    {"op":"inv","t":T,"call":{"op":"Set","v":V,"k":[..],"val":[..]}}   thread T calls       *)
(*    {"op":"ret","t":T,"res":{...}}                the call returned res                      *)
(*    {"op":"final","finished":B}                   every goroutine of the history returned     *)
(*                                                  within the watchdog's bound (B = false: hang)*)
(* The linearization points are not in the log: TLC searches for a placement,                *)
(*    TNext == (consume the next line) \/ (\E t : Lin(t))                                    *)
(* A history is accepted iff some behaviour consumes all of its lines; the whole file is      *)
(* accepted iff l reaches Len(Trace) + 1 (TLC is then stopped).  If no behaviour gets there   *)
(* the search space is exhausted and the high-water mark HW = the largest line index reached  *)
(* names the first line that NO placement of the silent steps explains.                       *)
(* Reduction (sound and complete).  Take any placement and move every Lin step as far to the  *)
(* right as the order of the Lin steps and "before the thread's own ret line" allow (a Lin     *)
(* step commutes with inv lines and with ret lines of other threads to its right).  Then every *)
(* Lin step is followed by another Lin step or by its own thread's ret line.  So silent steps   *)
(* are only tried when the next line is the ret of a thread T that has not taken effect yet,   *)
(* in a chain that ends with T's (last) Lin step.  The disjuncts are ordered so that the      *)
(* depth-first queue tries the shortest chain first.                                          *)
(* Run with -workers 1 and the depth-first state queue.                                       *)
EXTENDS KVStoreConc, Json

CONSTANTS Explain       \* TRUE: print what the model allows where a ret line does not match (second pass)

VARIABLE l
tvars == <<cfg, store, closed, batches, ev, pc, call, res, todo, l>>
TView == <<cfg, store, closed, pc, call, res, todo, l>>

Trace == ndJsonDeserialize("trace.ndjson")
N     == Len(Trace)

Mark(n) == /\ (TLCGet(1) < n => TLCSet(1, n))
           /\ (n > N => PrintT(<<"ACCEPTED", n>>) /\ TLCSet("exit", TRUE))
Expected(t) == Explain => PrintT(<<"EXPECTED", ToJson([l |-> l, t |-> t, res |-> res[t]])>>)

TInit == /\ l = 2
         /\ TLCSet(1, 2)
         /\ ConcInit
         /\ cfg = Trace[1].cfg

Consume ==
  /\ l <= N
  /\ l' = l + 1
  /\ LET e == Trace[l] IN
     CASE e.op = "reset" -> Do(e) /\ ThreadsReset
       [] e.op = "inv"   -> Invoke(e.t, e.call)
       [] e.op = "ret"   -> /\ pc[e.t] = "lin"
                            /\ (res[e.t] = e.res \/ (Expected(e.t) /\ FALSE))
                            /\ Return(e.t)
       [] e.op = "final" -> /\ e.finished = TRUE                      \* no call hangs
                            /\ \A t \in Threads : pc[t] = "idle"
                            /\ UNCHANGED <<vars, cvars>>
  /\ Mark(l')

Silent == /\ l <= N
          /\ Trace[l].op = "ret"
          /\ pc[Trace[l].t] # "lin"
          /\ UNCHANGED l
          /\ \/ \E t \in Threads \ {Trace[l].t} : Lin(t)
             \/ Lin(Trace[l].t)

TNext == Silent \/ Consume
TSpec == TInit /\ [][TNext]_tvars

HighWater == PrintT(<<"HW", TLCGet(1)>>)
=======================================================================
