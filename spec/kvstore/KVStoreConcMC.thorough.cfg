\* closed composition, thorough: 3 threads x 2 calls on a small alphabet (1 view, 2 keys, 1 value): Set, Delete,
\* Iterate and batches of <= 2 writes
SPECIFICATION MCSpec
CONSTANTS
  FlushWraps = {"flush"}
  Threads = {t1, t2, t3}
  CallsPerThread = 2
  MaxCommitOps = 2
  CommitViews = {1}
  IterDirs = {"fwd"}
  Variant = "code"
  Bytes = {0}
  KeyLen = 1
  RealmIds = {1}
  NVals = 1
  Wraps = {"none"}
  MaxLive = 9
  MaxBatches = 0
  MaxBatchOps = 0
  Stops = {0}
  Muts = {FALSE}
  Ops = {"Set", "Delete", "Iterate", "Commit"}
SYMMETRY ThreadSym
VIEW MCView
INVARIANTS ConcTypeOK IterSnapshot ReadExplained CommitComplete
PROPERTIES OnlyLinWrites ReadResAgrees
