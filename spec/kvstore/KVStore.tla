---------------------------- MODULE KVStore ----------------------------
(* kvstore.KVStore over mapdb, seen through a tree of realm views and wrapper stacks       *)
(* (flushkv, debug): ONE ordered map  fullkey -> value  with fullkey = realm \o key.       *)
(*                                                                                         *)
(* The module is written from the contract (property C04), not from the code:              *)
(*   - a view is nothing but a realm; every call on view v acts on the single map `store`  *)
(*     with realm(v) prepended to its key/prefix and stripped from what it reports;        *)
(*   - wrappers (cfg.wrap) are transparent: no action depends on cfg;                      *)
(*   - a batch is the SEQUENCE of its Set/Delete calls, applied in call order on Commit    *)
(*     (the property's "last operation per key" is then checked as BatchLastOp);           *)
(*   - after Close every listed call fails with ErrStoreClosed; nothing else is observable *)
(*     any more, so the closed state forgets the contents (keeps the state space small).   *)
(* "mut" stimuli (Set/Commit followed by scribbling over the caller's buffers, Get followed *)
(* by scribbling over the returned value) are, by the contract, the same transitions as    *)
(* their plain versions.                                                                   *)
(* Convention (spec/README.md): cfg, ev, Do(s), View, Cfgs, Init, Stimuli.                 *)
EXTENDS Integers, Sequences, FiniteSets, TLC, SequencesExt

CONSTANTS Bytes,        \* alphabet of keys and prefixes, e.g. {0, 1, 255}
          KeyLen,       \* maximal length of a key / prefix
          RealmIds,     \* views of the fixed tree that are used (subset of 1..5)
          NVals,        \* values = the first NVals of <<>>, <<1>>, <<2>>
          Wraps,        \* wrapper stacks (strings)
          MaxLive,      \* Set/Commit are only issued while the map keeps <= MaxLive keys
          MaxBatches,   \* batch slots
          MaxBatchOps,  \* total number of pending Set/Delete calls over all open batches
          Stops,        \* stop-after-n values of iterations (0 = never stop)
          Muts,         \* subset of BOOLEAN: with / without the aliasing step
          Ops           \* stimulus filter (set of op names)

VARIABLES cfg, store, closed, batches, ev
vars == <<cfg, store, closed, batches, ev>>

(* ---------------------------------------------------------------- universe ------------- *)
RealmOf  == << <<>>, <<0>>, <<0, 0>>, <<0, 255>>, <<1>> >>   \* the view tree: view id -> realm
AllVals  == << <<>>, <<1>>, <<2>> >>
Vals     == {AllVals[i] : i \in 1..NVals}
Keys     == UNION {[1..m -> Bytes] : m \in 0..KeyLen}        \* keys and prefixes, incl. <<>>
FreeSlot == [open |-> FALSE, v |-> 0, ops |-> <<>>]
Empty    == [x \in {} |-> <<>>]                               \* the empty map

HasPrefix(s, p) == Len(p) <= Len(s) /\ SubSeq(s, 1, Len(p)) = p
Strip(s, n)     == SubSeq(s, n + 1, Len(s))
(* byte-wise lexicographic order (a proper prefix sorts first) *)
LexLess(a, b) == \E i \in 1..(Len(a) + 1) :
                   /\ i <= Len(b)
                   /\ \A j \in 1..(i - 1) : a[j] = b[j]
                   /\ (i = Len(a) + 1 \/ a[i] < b[i])

Put(f, fk, val) == [x \in DOMAIN f \cup {fk} |-> IF x = fk THEN val ELSE f[x]]
Del(f, fk)      == [x \in DOMAIN f \ {fk} |-> f[x]]
DelPrefix(f, p) == [x \in {y \in DOMAIN f : ~HasPrefix(y, p)} |-> f[x]]

Tup(q) == IF Len(q) = 0 THEN <<>> ELSE q
NoVals(L) == Tup([i \in 1..Len(L) |-> [k |-> L[i].k, v |-> <<>>]])
(* what an iteration of view-realm r with prefix p in direction d delivers, realm stripped *)
Listing(f, r, p, d) ==
  LET M   == {fk \in DOMAIN f : HasPrefix(fk, r \o p)}
      asc == SetToSortSeq(M, LexLess)
      ord == IF d = "fwd" THEN asc ELSE Reverse(asc)
  IN  Tup([i \in 1..Len(ord) |-> [k |-> Strip(ord[i], Len(r)), v |-> f[ord[i]]]])
Take(q, n)   == IF n = 0 \/ n >= Len(q) THEN q ELSE SubSeq(q, 1, n)
KeysOf(q)    == Tup([i \in 1..Len(q) |-> q[i].k])

(* projected state: what the root view shows (both directions); nothing once closed *)
St(f, c) == IF c THEN [closed |-> TRUE,  fwd |-> <<>>, bwd |-> <<>>]
                 ELSE [closed |-> FALSE, fwd |-> Listing(f, <<>>, <<>>, "fwd"), bwd |-> Listing(f, <<>>, <<>>, "bwd")]

(* a batch applied in call order *)
ApplyOne(f, r, o) == IF o.del THEN Del(f, r \o o.k) ELSE Put(f, r \o o.k, o.val)
RECURSIVE ApplyOps(_, _, _)
ApplyOps(f, r, ops) == IF ops = <<>> THEN f ELSE ApplyOps(ApplyOne(f, r, Head(ops)), r, Tail(ops))
Pending == LET RECURSIVE Sum(_)
               Sum(i) == IF i = 0 THEN 0 ELSE Len(batches[i].ops) + Sum(i - 1)
           IN Sum(MaxBatches)

(* ---------------------------------------------------------------- behaviour ------------ *)
Cfgs == [wrap : Wraps]
Init == /\ cfg \in Cfgs
        /\ store = Empty /\ closed = FALSE
        /\ batches = [i \in 1..MaxBatches |-> FreeSlot]
        /\ ev = [op |-> "reset", cfg |-> cfg]

(* ev' = the stimulus fields of s + res + st (of the new state) *)
Out(s, r) == ev' = [f \in (DOMAIN s) \cup {"res", "st"} |->
                      IF f = "res" THEN r ELSE IF f = "st" THEN St(store', closed') ELSE s[f]]
Err(e)  == [err |-> e]
Same    == UNCHANGED <<cfg, store, closed, batches>>
Write(s, f) == /\ UNCHANGED <<cfg, closed, batches>>       \* a successful write to the map
               /\ store' = f
               /\ Out(s, Err("ok"))
Fail(s, r)  == Same /\ Out(s, r)                            \* ErrStoreClosed (or any read result)
R(s)        == RealmOf[s.v]
BOpen(s)    == s.b \in 1..MaxBatches /\ batches[s.b].open
BAdd(s, o)  == IF closed
                 THEN Same /\ (Out(s, Err("ok")) \/ Out(s, Err("ErrStoreClosed")))   \* not in the contract's list
                 ELSE /\ Pending < MaxBatchOps
                      /\ UNCHANGED <<cfg, store, closed>>
                      /\ batches' = [batches EXCEPT ![s.b].ops = Append(@, o)]
                      /\ Out(s, Err("ok"))

Do(s) ==
  CASE s.op = "reset" ->
         /\ cfg' = s.cfg /\ store' = Empty /\ closed' = FALSE
         /\ batches' = [i \in 1..MaxBatches |-> FreeSlot]
         /\ ev' = s
    [] s.op = "Get" ->
         IF closed THEN Fail(s, [err |-> "ErrStoreClosed", val |-> <<>>])
         ELSE IF (R(s) \o s.k) \in DOMAIN store
                THEN Fail(s, [err |-> "ok", val |-> store[R(s) \o s.k]])
                ELSE Fail(s, [err |-> "ErrKeyNotFound", val |-> <<>>])
    [] s.op = "Has" ->
         IF closed THEN Fail(s, [err |-> "ErrStoreClosed", has |-> FALSE])
         ELSE Fail(s, [err |-> "ok", has |-> (R(s) \o s.k) \in DOMAIN store])
    [] s.op = "Set" ->
         IF closed THEN Fail(s, Err("ErrStoreClosed"))
         ELSE /\ Cardinality(DOMAIN store \cup {R(s) \o s.k}) <= MaxLive
              /\ Write(s, Put(store, R(s) \o s.k, s.val))
    [] s.op = "Delete" ->
         IF closed THEN Fail(s, Err("ErrStoreClosed")) ELSE Write(s, Del(store, R(s) \o s.k))
    [] s.op = "DeletePrefix" ->
         IF closed THEN Fail(s, Err("ErrStoreClosed")) ELSE Write(s, DelPrefix(store, R(s) \o s.k))
    [] s.op = "Clear" ->
         IF closed THEN Fail(s, Err("ErrStoreClosed")) ELSE Write(s, DelPrefix(store, R(s)))
    [] s.op = "Flush" ->
         IF closed THEN Fail(s, Err("ErrStoreClosed")) ELSE Fail(s, Err("ok"))
    [] s.op = "Iterate" ->
         IF closed THEN Fail(s, [err |-> "ErrStoreClosed", kv |-> <<>>])
         ELSE Fail(s, [err |-> "ok", kv |-> Take(Listing(store, R(s), s.k, s.dir), s.n)])
    [] s.op = "IterateKeys" ->
         IF closed THEN Fail(s, [err |-> "ErrStoreClosed", keys |-> <<>>])
         ELSE Fail(s, [err |-> "ok", keys |-> KeysOf(Take(Listing(store, R(s), s.k, s.dir), s.n))])
    [] s.op = "IterMut" ->             \* Iterate (keys = FALSE) or IterateKeys (keys = TRUE, values reported as <<>>) with prefix k of view v whose consumer, at its FIRST entry, writes through view mv:
         \* Set(mk, val) or Delete(mk). The iteration delivers the entries the map held when the call began (a snapshot:
         \* what the consumer does to the store meanwhile neither adds, drops nor changes a delivered entry), the nested write
         \* takes effect like any other write.
         IF closed THEN Fail(s, [err |-> "ErrStoreClosed", kv |-> <<>>, inner |-> "none"])
         ELSE LET L   == Listing(store, R(s), s.k, s.dir)
                  fk  == RealmOf[s.mv] \o s.mk
                  new == IF s.del THEN Del(store, fk) ELSE Put(store, fk, s.val)
              IN  IF L = <<>> THEN Fail(s, [err |-> "ok", kv |-> <<>>, inner |-> "none"])
                  ELSE /\ Cardinality(DOMAIN new) <= MaxLive
                       /\ UNCHANGED <<cfg, closed, batches>>
                       /\ store' = new
                       /\ Out(s, [err |-> "ok", kv |-> IF s.keys THEN NoVals(L) ELSE L, inner |-> "ok"])
    [] s.op = "Realm" -> Fail(s, [err |-> "ok", realm |-> R(s)])
    [] s.op = "WithRealm" ->           \* a new handle for view s.to, made from view s.v
         IF closed THEN Fail(s, [err |-> "ErrStoreClosed", realm |-> <<>>])
         ELSE Fail(s, [err |-> "ok", realm |-> RealmOf[s.to]])
    [] s.op = "WithExtendedRealm" ->   \* same, the argument is RealmOf[s.to] minus RealmOf[s.v]
         /\ HasPrefix(RealmOf[s.to], R(s))
         /\ IF closed THEN Fail(s, [err |-> "ErrStoreClosed", realm |-> <<>>])
            ELSE Fail(s, [err |-> "ok", realm |-> RealmOf[s.to]])
    [] s.op = "Close" ->
         IF closed THEN Same /\ (Out(s, Err("ok")) \/ Out(s, Err("ErrStoreClosed")))   \* not in the list
         ELSE /\ UNCHANGED cfg
              /\ closed' = TRUE
              /\ store' = Empty                                                 \* unobservable from now on
              /\ batches' = [i \in 1..MaxBatches |-> [batches[i] EXCEPT !.ops = <<>>]]
              /\ Out(s, Err("ok"))
    [] s.op = "Batched" ->             \* takes the lowest free slot
         IF closed THEN Fail(s, [err |-> "ErrStoreClosed", b |-> 0])
         ELSE LET free == {i \in 1..MaxBatches : ~batches[i].open} IN
              /\ free # {}
              /\ LET b == CHOOSE i \in free : \A j \in free : i <= j IN
                 /\ UNCHANGED <<cfg, store, closed>>
                 /\ batches' = [batches EXCEPT ![b] = [open |-> TRUE, v |-> s.v, ops |-> <<>>]]
                 /\ Out(s, [err |-> "ok", b |-> b])
    [] s.op = "BSet" ->
         BOpen(s) /\ BAdd(s, [k |-> s.k, del |-> FALSE, val |-> s.val])
    [] s.op = "BDelete" ->
         BOpen(s) /\ BAdd(s, [k |-> s.k, del |-> TRUE, val |-> <<>>])
    [] s.op = "Cancel" ->              \* forgets the pending calls; the handle stays usable
         /\ BOpen(s)
         /\ UNCHANGED <<cfg, store, closed>>
         /\ batches' = [batches EXCEPT ![s.b].ops = <<>>]
         /\ Out(s, Err("ok"))
    [] s.op = "Commit" ->              \* applies the pending calls in order and releases the slot
         /\ BOpen(s)
         /\ IF closed THEN Fail(s, Err("ErrStoreClosed"))
            ELSE LET new == ApplyOps(store, RealmOf[batches[s.b].v], batches[s.b].ops) IN
                 /\ Cardinality(DOMAIN new) <= MaxLive
                 /\ UNCHANGED <<cfg, closed>>
                 /\ store' = new
                 /\ batches' = [batches EXCEPT ![s.b] = FreeSlot]
                 /\ Out(s, Err("ok"))

ShortKeys == {k \in Keys : Len(k) <= 1}     \* prefixes and written keys of IterMut (keeps the stimulus set small; nested views supply longer full keys)
AllStimuli ==
       [op : {"Get"}, v : RealmIds, k : Keys, mut : Muts]
  \cup [op : {"Has", "Delete", "DeletePrefix"}, v : RealmIds, k : Keys]
  \cup [op : {"Set"}, v : RealmIds, k : Keys, val : Vals, mut : Muts]
  \cup [op : {"Clear", "Flush", "Close", "Realm", "Batched"}, v : RealmIds]
  \cup [op : {"Iterate", "IterateKeys"}, v : RealmIds, k : Keys, dir : {"fwd", "bwd"}, n : Stops]
  \cup [op : {"IterMut"}, keys : BOOLEAN, v : RealmIds, k : ShortKeys, dir : {"fwd", "bwd"}, mv : RealmIds, mk : ShortKeys, del : {TRUE}, val : {<<>>}]
  \cup [op : {"IterMut"}, keys : BOOLEAN, v : RealmIds, k : ShortKeys, dir : {"fwd", "bwd"}, mv : RealmIds, mk : ShortKeys, del : {FALSE}, val : {AllVals[NVals]}]
  \cup [op : {"WithRealm", "WithExtendedRealm"}, v : RealmIds, to : RealmIds]
  \cup [op : {"BSet"}, b : 1..MaxBatches, k : Keys, val : Vals]
  \cup [op : {"BDelete"}, b : 1..MaxBatches, k : Keys]
  \cup [op : {"Cancel"}, b : 1..MaxBatches]
  \cup [op : {"Commit"}, b : 1..MaxBatches, mut : Muts]
Stimuli == {s \in AllStimuli : s.op \in Ops}
Next == \E s \in Stimuli : Do(s)
Spec == Init /\ [][Next]_vars

(* state id: canonical and printed the same way however the state was built (the map as its *)
(* sorted listing, tuples instead of records)                                               *)
View == LET L == Listing(store, <<>>, <<>>, "fwd") IN
        << cfg.wrap,
           [i \in 1..Len(L) |-> <<L[i].k, L[i].v>>],
           closed,
           [i \in 1..MaxBatches |-> <<batches[i].open, batches[i].v,
                                      [j \in 1..Len(batches[i].ops) |->
                                         <<batches[i].ops[j].k, batches[i].ops[j].del, batches[i].ops[j].val>>]>>] >>

(* ---------------------------------------------------------------- the property --------- *)
ListedOps == {"Get", "Has", "Set", "Delete", "DeletePrefix", "Clear", "Flush", "Iterate", "IterateKeys", "IterMut",
              "WithRealm", "WithExtendedRealm", "Batched", "Commit"}
ReadOps   == {"Get", "Has", "Flush", "Iterate", "IterateKeys", "Realm", "WithRealm", "WithExtendedRealm",
              "Batched", "BSet", "BDelete", "Cancel"}

TypeOK == /\ closed \in BOOLEAN
          /\ Cardinality(DOMAIN store) <= MaxLive
          /\ \A fk \in DOMAIN store : store[fk] \in Vals
          /\ Pending <= MaxBatchOps
          /\ closed => store = Empty

(* closed => ErrStoreClosed on every listed call on every view *)
ClosedOK == (closed /\ ev.op \in ListedOps) => ev.res.err = "ErrStoreClosed"
NotClosedOK == (~closed /\ ev.op # "reset") => ev.res.err \in {"ok", "ErrKeyNotFound"}

(* Get/Has see the map at realm||key *)
GetOK == (~closed /\ ev.op = "Get") =>
            LET fk == RealmOf[ev.v] \o ev.k IN
            IF fk \in DOMAIN store THEN ev.res = [err |-> "ok", val |-> store[fk]]
                                   ELSE ev.res = [err |-> "ErrKeyNotFound", val |-> <<>>]
HasOK == (~closed /\ ev.op = "Has") => ev.res.has = ((RealmOf[ev.v] \o ev.k) \in DOMAIN store)
SetOK == (~closed /\ ev.op = "Set") => ((RealmOf[ev.v] \o ev.k) \in DOMAIN store /\ store[RealmOf[ev.v] \o ev.k] = ev.val)

(* iteration = exactly the keys with the prefix inside the realm, realm stripped, strictly   *)
(* ascending / descending, cut after n; stated pointwise, without the sorting used in Do     *)
IterOK == (~closed /\ ev.op \in {"Iterate", "IterateKeys"}) =>
   LET r    == RealmOf[ev.v]
       ks   == IF ev.op = "Iterate" THEN [i \in 1..Len(ev.res.kv) |-> ev.res.kv[i].k] ELSE ev.res.keys
       M    == {Strip(fk, Len(r)) : fk \in {x \in DOMAIN store : HasPrefix(x, r \o ev.k)}}
       seen == {ks[i] : i \in 1..Len(ks)}
       Before(a, b) == IF ev.dir = "fwd" THEN LexLess(a, b) ELSE LexLess(b, a)
   IN /\ seen \subseteq M
      /\ \A i \in 1..(Len(ks) - 1) : Before(ks[i], ks[i + 1])
      /\ \A m \in M \ seen : \A x \in seen : Before(x, m)                 \* only a tail is missing
      /\ Len(ks) = (IF ev.n = 0 \/ ev.n > Cardinality(M) THEN Cardinality(M) ELSE ev.n)
      /\ ev.op = "Iterate" => \A i \in 1..Len(ks) : ev.res.kv[i].v = store[r \o ks[i]]
      /\ \A i \in 1..Len(ks) : HasPrefix(ks[i], ev.k)

(* st really is the whole map *)
StOK == (~closed /\ ev.op # "reset") =>
          /\ Len(ev.st.fwd) = Cardinality(DOMAIN store)
          /\ ev.st.bwd = Reverse(ev.st.fwd)
          /\ \A i \in 1..Len(ev.st.fwd) : store[ev.st.fwd[i].k] = ev.st.fwd[i].v

Changed(fk) == (fk \in DOMAIN store) # (fk \in DOMAIN store') \/ (fk \in DOMAIN store /\ store[fk] # store'[fk])
Touched     == {fk \in DOMAIN store \cup DOMAIN store' : Changed(fk)}
RealmOfEv   == IF ev'.op \in {"Commit"} THEN RealmOf[batches[ev'.b].v] ELSE IF ev'.op = "IterMut" THEN RealmOf[ev'.mv] ELSE RealmOf[ev'.v]

(* realm isolation: a call on view v only changes keys that carry realm(v) *)
IsolationA == (ev'.op \in {"Set", "Delete", "DeletePrefix", "Clear", "Commit", "IterMut"} /\ ~closed')
                 => \A fk \in Touched : HasPrefix(fk, RealmOfEv)
(* reads, view/batch creation, batch Set/Delete/Cancel and the aliasing steps change nothing *)
ReadOnlyA  == (ev'.op \in ReadOps) => store' = store
(* DeletePrefix / Clear remove exactly the keys with the prefix, keep every other entry *)
DeleteExactA == (ev'.op \in {"DeletePrefix", "Clear"} /\ ~closed) =>
                  LET p == RealmOfEv \o (IF ev'.op = "Clear" THEN <<>> ELSE ev'.k) IN
                  /\ DOMAIN store' = {fk \in DOMAIN store : ~HasPrefix(fk, p)}
                  /\ \A fk \in DOMAIN store' : store'[fk] = store[fk]
\* an iteration whose consumer writes: the delivered entries are those of the map BEFORE the call, the only key touched is the consumer's
IterMutA == (ev'.op = "IterMut" /\ ~closed) =>
              /\ ev'.res.kv = (IF ev'.keys THEN NoVals(Listing(store, RealmOf[ev'.v], ev'.k, ev'.dir)) ELSE Listing(store, RealmOf[ev'.v], ev'.k, ev'.dir))
              /\ Touched \subseteq {RealmOfEv \o ev'.mk}
              /\ (ev'.res.kv = <<>>) = (ev'.res.inner = "none")
SetDeleteA == /\ (ev'.op = "Set" /\ ~closed) => Touched \subseteq {RealmOfEv \o ev'.k}
              /\ (ev'.op = "Delete" /\ ~closed) => (Touched \subseteq {RealmOfEv \o ev'.k} /\ (RealmOfEv \o ev'.k) \notin DOMAIN store')
(* Commit = the last operation per key; Cancel = nothing (the cancelled calls never apply) *)
BatchLastOpA ==
  (ev'.op = "Commit" /\ ~closed) =>
     LET ops == batches[ev'.b].ops
         r   == RealmOfEv
         LastIx(k) == CHOOSE i \in 1..Len(ops) : ops[i].k = k /\ \A j \in (i + 1)..Len(ops) : ops[j].k # k
         ks  == {ops[i].k : i \in 1..Len(ops)}
     IN /\ \A k \in ks : IF ops[LastIx(k)].del THEN (r \o k) \notin DOMAIN store'
                         ELSE (r \o k) \in DOMAIN store' /\ store'[r \o k] = ops[LastIx(k)].val
        /\ Touched \subseteq {r \o k : k \in ks}
CancelA == (ev'.op = "Cancel") => (batches'[ev'.b].ops = <<>> /\ batches'[ev'.b].open)

Isolation    == [][IsolationA]_vars
ReadOnly     == [][ReadOnlyA]_vars
DeleteExact  == [][DeleteExactA]_vars
SetDelete    == [][SetDeleteA]_vars
IterMutSnapshot == [][IterMutA]_vars
BatchLastOp  == [][BatchLastOpA]_vars
CancelNothing == [][CancelA]_vars
=======================================================================
