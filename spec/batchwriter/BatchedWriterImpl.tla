------------------------- MODULE BatchedWriterImpl -------------------------
(* Implementation-level model of kvstore.BatchedWriter: producers (Enqueue as separate      *)
(* steps: running check, scheduled test-and-set, count++, channel send), the writer          *)
(* goroutine (wg.Add, loop test, receive/flush/time-out, collector Add, Commit, Done          *)
(* callbacks, wg.Done), Flush and StopBatchWriter (flag flip, wg.Wait).  TLC explores ALL     *)
(* interleavings and checks C08: every object whose Enqueue returned before Stop was invoked  *)
(* is written, committed and done before Stop returns; a racing Enqueue is all-or-nothing;    *)
(* nobody blocks for ever.                                                                    *)
EXTENDS Integers, Sequences, FiniteSets, TLC

CONSTANTS Producers, Objects, QSize, BSize, MaxEnq,
          Variant   \* "code" (current tree), "wg_in_goroutine" (writeWg.Add inside the goroutine, as before the fix),
                    \* "unguarded_enqueue" (Enqueue not serialised against Stop, as before the fix), "loop_running_only", "done_before_commit"

Stopper == "stopper"
Writer == "writer"

VARIABLES pc,          \* producer -> pc
          cur,         \* producer -> object being enqueued
          nenq,        \* producer -> enqueues done
          started,     \* autoStartOnce fired
          running, count, queue, flushSig,
          sched,       \* object -> scheduled flag
          wpc,         \* writer pc: "none" | "add" | "loop" | "collect" | "flushdrain" | "commit" | "done" | "exited"
          batch,       \* objects collected in the current batch (written, not committed)
          doneq,       \* objects whose Done callback is still to be called after a commit
          shouldFlush,
          wg,          \* WaitGroup counter
          readers,     \* producers inside the Enqueue critical section (fixed variant: RLock of startStopMutex)
          spc,         \* stopper pc: "idle" | "lock" | "wait" | "returned"
          \* ---- history (for the properties) ----
          ver,         \* object -> number of Enqueue calls that returned before Stop was invoked (obligations)
          written,     \* object -> TRUE if BatchWrite ran since the last obligation... (see Obligation)
          oblig,       \* objects that MUST be committed+done before Stop returns
          fresh,       \* objects written (BatchWrite) but not yet committed
          pendDone     \* objects committed whose Done has not run
vars == <<pc, cur, nenq, started, running, count, queue, flushSig, sched, wpc, batch, doneq, shouldFlush, wg, readers, spc,
          ver, written, oblig, fresh, pendDone>>

Guarded == Variant \notin {"unguarded_enqueue"}

Init == /\ pc = [p \in Producers |-> "idle"] /\ cur = [p \in Producers |-> CHOOSE o \in Objects : TRUE]
        /\ nenq = [p \in Producers |-> 0]
        /\ started = FALSE /\ running = FALSE /\ count = 0 /\ queue = <<>> /\ flushSig = FALSE
        /\ sched = [o \in Objects |-> FALSE]
        /\ wpc = "none" /\ batch = <<>> /\ doneq = <<>> /\ shouldFlush = FALSE /\ wg = 0 /\ readers = {}
        /\ spc = "idle"
        /\ ver = [o \in Objects |-> 0] /\ written = [o \in Objects |-> FALSE] /\ oblig = {} /\ fresh = {} /\ pendDone = {}

H == <<ver, written, oblig, fresh, pendDone>>

(* ------------------------------ producers ------------------------------ *)
EnqBegin(p, o) == /\ pc[p] = "idle" /\ nenq[p] < MaxEnq
                  /\ cur' = [cur EXCEPT ![p] = o]
                  /\ IF ~started
                       THEN \* autoStartOnce: startBatchWriter under the start/stop mutex (stopper not inside)
                            /\ spc \in {"idle", "returned"}
                            /\ started' = TRUE /\ running' = TRUE
                            /\ wpc' = "add"
                            /\ wg' = IF Variant = "wg_in_goroutine" THEN wg ELSE wg + 1
                       ELSE UNCHANGED <<started, running, wpc, wg>>
                  /\ pc' = [pc EXCEPT ![p] = "check"]
                  /\ UNCHANGED <<nenq, count, queue, flushSig, sched, batch, doneq, shouldFlush, readers, spc, H>>
EnqCheck(p) == /\ pc[p] = "check"
               /\ (Guarded => spc # "lock")                   \* fixed variant: RLock is not granted while Stop holds/awaits the lock
               /\ IF ~running THEN pc' = [pc EXCEPT ![p] = "ret"] /\ UNCHANGED readers
                  ELSE /\ pc' = [pc EXCEPT ![p] = "tas"]
                       /\ readers' = IF Guarded THEN readers \cup {p} ELSE readers
               /\ UNCHANGED <<cur, nenq, started, running, count, queue, flushSig, sched, wpc, batch, doneq, shouldFlush, wg, spc, H>>
EnqTAS(p) == /\ pc[p] = "tas"
             /\ IF sched[cur[p]] THEN pc' = [pc EXCEPT ![p] = "ret"] /\ UNCHANGED <<sched, count>>
                ELSE /\ sched' = [sched EXCEPT ![cur[p]] = TRUE] /\ count' = count + 1 /\ pc' = [pc EXCEPT ![p] = "send"]
             /\ UNCHANGED <<cur, nenq, started, running, queue, flushSig, wpc, batch, doneq, shouldFlush, wg, readers, spc, H>>
(* channel send: into the buffer, or (unbuffered / full) directly to a writer that is ready to receive *)
EnqSend(p) == /\ pc[p] = "send" /\ Len(queue) < QSize
              /\ queue' = Append(queue, cur[p]) /\ pc' = [pc EXCEPT ![p] = "ret"]
              /\ UNCHANGED <<cur, nenq, started, running, count, flushSig, sched, wpc, batch, doneq, shouldFlush, wg, readers, spc, H>>
(* Enqueue returns: if Stop has not been invoked yet, the object becomes an obligation, unless it was already written after this call began *)
EnqRet(p) == /\ pc[p] = "ret"
             /\ pc' = [pc EXCEPT ![p] = "idle"] /\ nenq' = [nenq EXCEPT ![p] = @ + 1]
             /\ readers' = readers \ {p}
             /\ oblig' = IF spc = "idle" /\ (sched[cur[p]] \/ cur[p] \in fresh \/ cur[p] \in pendDone) THEN oblig \cup {cur[p]} ELSE oblig
             /\ UNCHANGED <<cur, started, running, count, queue, flushSig, sched, wpc, batch, doneq, shouldFlush, wg, spc, ver, written, fresh, pendDone>>
Flush(p) == /\ pc[p] = "idle" /\ running /\ ~flushSig /\ flushSig' = TRUE
            /\ UNCHANGED <<pc, cur, nenq, started, running, count, queue, sched, wpc, batch, doneq, shouldFlush, wg, readers, spc, H>>

(* ------------------------------- writer ------------------------------- *)
WAdd == /\ wpc = "add" /\ wpc' = "loop"
        /\ wg' = IF Variant = "wg_in_goroutine" THEN wg + 1 ELSE wg
        /\ UNCHANGED <<pc, cur, nenq, started, running, count, queue, flushSig, sched, batch, doneq, shouldFlush, readers, spc, H>>
WLoop == /\ wpc = "loop"
         /\ IF running \/ (Variant # "loop_running_only" /\ count # 0)
              THEN wpc' = "collect" /\ shouldFlush' = FALSE /\ UNCHANGED wg
              ELSE wpc' = "exited" /\ wg' = wg - 1 /\ UNCHANGED shouldFlush
         /\ UNCHANGED <<pc, cur, nenq, started, running, count, queue, flushSig, sched, batch, doneq, readers, spc, H>>
(* collector.Add(o): reset scheduled, count--, BatchWrite *)
AddObj(o) == /\ sched' = [sched EXCEPT ![o] = FALSE] /\ count' = count - 1
             /\ batch' = Append(batch, o) /\ fresh' = fresh \cup {o}
Recv(o, drain) == /\ AddObj(o)
                  /\ wpc' = IF Len(batch') >= BSize THEN "commit" ELSE (IF drain THEN "flushdrain" ELSE "collect")
WRecvBuf == /\ wpc \in {"collect", "flushdrain"} /\ queue # <<>>
            /\ Recv(Head(queue), wpc = "flushdrain") /\ queue' = Tail(queue)
            /\ UNCHANGED <<pc, cur, nenq, started, running, flushSig, doneq, shouldFlush, wg, readers, spc, ver, written, oblig, pendDone>>
WRecvDirect(p) == /\ wpc \in {"collect", "flushdrain"} /\ queue = <<>> /\ pc[p] = "send" /\ Len(queue) >= QSize   \* rendezvous / full buffer
                  /\ Recv(cur[p], wpc = "flushdrain") /\ pc' = [pc EXCEPT ![p] = "ret"]
                  /\ UNCHANGED <<cur, nenq, started, running, queue, flushSig, doneq, shouldFlush, wg, readers, spc, ver, written, oblig, pendDone>>
WFlushSig == /\ wpc = "collect" /\ flushSig /\ flushSig' = FALSE /\ shouldFlush' = TRUE /\ wpc' = "flushdrain"
             /\ UNCHANGED <<pc, cur, nenq, started, running, count, queue, sched, batch, doneq, wg, readers, spc, H>>
WTimeout == /\ wpc = "collect" /\ wpc' = "commit"         \* the batch time-out may fire at any moment
            /\ UNCHANGED <<pc, cur, nenq, started, running, count, queue, flushSig, sched, batch, doneq, shouldFlush, wg, readers, spc, H>>
WDrainEmpty == /\ wpc = "flushdrain" /\ queue = <<>> /\ \A p \in Producers : pc[p] # "send" \/ Len(queue) < QSize
               /\ wpc' = "commit" /\ shouldFlush' = FALSE
               /\ UNCHANGED <<pc, cur, nenq, started, running, count, queue, flushSig, sched, batch, doneq, wg, readers, spc, H>>
(* Commit: the store batch is committed, then the Done callbacks run one by one *)
WCommit == /\ wpc = "commit"
           /\ IF Variant = "done_before_commit"
                THEN /\ doneq' = batch /\ batch' = <<>> /\ UNCHANGED <<fresh, pendDone>>      \* (mutation) callbacks first, commit lost from the order
                ELSE /\ doneq' = batch /\ batch' = <<>>
                     /\ pendDone' = pendDone \cup {batch[i] : i \in DOMAIN batch}
                     /\ fresh' = fresh \ {batch[i] : i \in DOMAIN batch}
           /\ wpc' = "done"
           /\ UNCHANGED <<pc, cur, nenq, started, running, count, queue, flushSig, sched, shouldFlush, wg, readers, spc, ver, written, oblig>>
WDone == /\ wpc = "done"
         /\ IF doneq = <<>>
              THEN wpc' = (IF shouldFlush THEN "flushdrain" ELSE "loop") /\ UNCHANGED <<doneq, pendDone, oblig>>
              ELSE /\ doneq' = Tail(doneq)
                   /\ pendDone' = IF \E i \in DOMAIN Tail(doneq) : Tail(doneq)[i] = Head(doneq) THEN pendDone ELSE pendDone \ {Head(doneq)}
                   /\ oblig' = IF Head(doneq) \in fresh \/ sched[Head(doneq)] THEN oblig ELSE oblig \ {Head(doneq)}
                   /\ UNCHANGED wpc
         /\ UNCHANGED <<pc, cur, nenq, started, running, count, queue, flushSig, sched, batch, shouldFlush, wg, readers, spc, ver, written, fresh>>

(* ------------------------------- stopper ------------------------------- *)
StopLock == /\ spc = "idle" /\ started          \* StopBatchWriter invoked: takes the start/stop mutex
            /\ spc' = "lock"
            /\ UNCHANGED <<pc, cur, nenq, started, running, count, queue, flushSig, sched, wpc, batch, doneq, shouldFlush, wg, readers, H>>
StopFlip == /\ spc = "lock" /\ (Guarded => readers = {})     \* fixed variant: the write lock waits for Enqueue calls inside their critical section
            /\ running' = FALSE /\ spc' = "wait"
            /\ UNCHANGED <<pc, cur, nenq, started, count, queue, flushSig, sched, wpc, batch, doneq, shouldFlush, wg, readers, H>>
StopWait == /\ spc = "wait" /\ wg = 0 /\ spc' = "returned"
            /\ UNCHANGED <<pc, cur, nenq, started, running, count, queue, flushSig, sched, wpc, batch, doneq, shouldFlush, wg, readers, H>>

Next == \/ \E p \in Producers : (\E o \in Objects : EnqBegin(p, o)) \/ EnqCheck(p) \/ EnqTAS(p) \/ EnqSend(p) \/ EnqRet(p) \/ Flush(p) \/ WRecvDirect(p)
        \/ WAdd \/ WLoop \/ WRecvBuf \/ WFlushSig \/ WTimeout \/ WDrainEmpty \/ WCommit \/ WDone
        \/ StopLock \/ StopFlip \/ StopWait
(* Go's select chooses fairly among ready cases: a receive that is enabled again and again is eventually taken (strong fairness) *)
Fair == /\ WF_vars(WAdd) /\ WF_vars(WLoop) /\ SF_vars(WRecvBuf) /\ WF_vars(WTimeout) /\ WF_vars(WDrainEmpty) /\ WF_vars(WCommit) /\ WF_vars(WDone)
        /\ WF_vars(StopFlip) /\ WF_vars(StopWait)
        /\ \A p \in Producers : WF_vars(EnqCheck(p)) /\ WF_vars(EnqTAS(p)) /\ SF_vars(EnqSend(p)) /\ WF_vars(EnqRet(p)) /\ SF_vars(WRecvDirect(p))
Spec == Init /\ [][Next]_vars /\ Fair

TypeOK == count \in 0..(Cardinality(Objects)) /\ wg \in 0..1 /\ Len(queue) <= QSize
(* Stop returns only after every obligation is written, committed and its Done callback ran *)
StopWaits == spc = "returned" => oblig = {}
(* Done only after Commit *)
DoneAfterCommit == \A i \in DOMAIN doneq : doneq[i] \in pendDone
(* all-or-nothing at the end of every behaviour in which everybody is finished *)
Quiet == /\ \A p \in Producers : pc[p] = "idle" /\ nenq[p] = MaxEnq
         /\ spc = "returned" /\ wpc = "exited"
AllOrNothing == Quiet => (fresh = {} /\ pendDone = {})
(* nobody blocks for ever: Stop returns, every Enqueue returns *)
NoStuck == /\ \A p \in Producers : (pc[p] # "idle") ~> (pc[p] = "idle")
           /\ (spc = "lock") ~> (spc = "returned")
=============================================================================
