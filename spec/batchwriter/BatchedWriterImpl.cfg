SPECIFICATION Spec
CONSTANTS
  Producers = {1, 2}
  Objects = {1, 2}
  QSize = 1
  BSize = 2
  MaxEnq = 2
  Variant = "code"
INVARIANTS TypeOK StopWaits DoneAfterCommit AllOrNothing
PROPERTIES NoStuck
