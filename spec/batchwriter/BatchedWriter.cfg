CONSTANTS
  Objects = {1, 2}
  Threads = {1}
  MaxVal = 1
INVARIANTS StopMeansDone
CONSTRAINT Bounded
