SPECIFICATION Spec
CONSTANTS
  Producers = {1, 2}
  Objects = {1, 2}
  QSize = 0
  BSize = 2
  MaxEnq = 2
  Variant = "unguarded_enqueue"
INVARIANTS TypeOK StopWaits DoneAfterCommit AllOrNothing
PROPERTIES NoStuck
