--------------------------- MODULE BatchedWriter ---------------------------
(* API-level meaning of property C08 as a trace specification: the events are what the       *)
(* BatchedWriter's environment can observe - calls (Enqueue/Stop begin and end), the          *)
(* callbacks it makes on objects (BatchWrite with the value written, BatchWriteDone) and on   *)
(* the store (batch Commit with its contents) - in one global order (each event is logged     *)
(* inside the callback / around the call, under one log mutex).                               *)
(*   - every object whose Enqueue returned before Stop was invoked is BatchWritten, its batch  *)
(*     committed, and only then Done - once per BatchWrite - all before Stop returns          *)
(*   - committed store contents = last BatchWrite of each object                              *)
(*   - a racing Enqueue is all-or-nothing; nobody hangs (final event)                          *)
EXTENDS Integers, Sequences, FiniteSets, TLC

CONSTANTS Objects, Threads, MaxVal
VARIABLES cfg, inflight, must, batch, pendDone, store, lastW, stopBegun, ev
vars == <<cfg, inflight, must, batch, pendDone, store, lastW, stopBegun, ev>>
View == <<cfg, inflight, must, batch, pendDone, store, lastW, stopBegun>>
Cfgs == [qsize : 0..4, bsize : 1..4]

(* inflight[t] = [o, w]: thread t is inside Enqueue(o); w = a BatchWrite(o) happened since the call began   *)
(* must  = objects that have to be BatchWritten (their Enqueue returned before Stop was invoked)              *)
(* batch = sequence of [o, v] written since the last Commit; pendDone = bag (sequence) of objects committed  *)
(*         whose Done callback is still due                                                                   *)
NoCall == [o |-> 0, w |-> FALSE]
Init == /\ cfg \in Cfgs /\ inflight = [t \in Threads |-> NoCall] /\ must = {} /\ batch = <<>> /\ pendDone = <<>>
        /\ store = [o \in Objects |-> 0] /\ lastW = [o \in Objects |-> 0] /\ stopBegun = FALSE
        /\ ev = [op |-> "reset", cfg |-> cfg]

RemoveOne(seq, x) == LET i == CHOOSE j \in DOMAIN seq : seq[j] = x IN SubSeq(seq, 1, i - 1) \o SubSeq(seq, i + 1, Len(seq))
InSeq(seq, x) == \E j \in DOMAIN seq : seq[j] = x
Scheduled(o) == o \in must        \* (an obligation not yet written)

Do(s) ==
  CASE s.op = "reset" -> /\ cfg' = s.cfg /\ inflight' = [t \in Threads |-> NoCall] /\ must' = {} /\ batch' = <<>> /\ pendDone' = <<>>
                         /\ store' = [o \in Objects |-> 0] /\ lastW' = [o \in Objects |-> 0] /\ stopBegun' = FALSE /\ ev' = s
    [] s.op = "enqBegin" ->
         /\ inflight[s.t] = NoCall /\ inflight' = [inflight EXCEPT ![s.t] = [o |-> s.o, w |-> FALSE]]
         /\ UNCHANGED <<cfg, must, batch, pendDone, store, lastW, stopBegun>> /\ ev' = s
    [] s.op = "enqEnd" ->
         /\ inflight[s.t].o = s.o /\ inflight' = [inflight EXCEPT ![s.t] = NoCall]
         \* returned before Stop was invoked and not yet written since the call began: it must still be written
         /\ must' = IF ~stopBegun /\ ~inflight[s.t].w THEN must \cup {s.o} ELSE must
         /\ UNCHANGED <<cfg, batch, pendDone, store, lastW, stopBegun>> /\ ev' = s
    [] s.op = "bwrite" ->       \* BatchWrite(o) called; the object marshals its current value v into the open batch
         /\ batch' = Append(batch, [o |-> s.o, v |-> s.v])
         /\ must' = must \ {s.o}
         /\ inflight' = [t \in Threads |-> IF inflight[t].o = s.o THEN [inflight[t] EXCEPT !.w = TRUE] ELSE inflight[t]]
         /\ lastW' = [lastW EXCEPT ![s.o] = s.v]
         /\ UNCHANGED <<cfg, pendDone, store, stopBegun>> /\ ev' = s
    [] s.op = "commit" ->       \* the store batch was committed; s.items = what the batch held (in BatchWrite order)
         /\ s.items = batch                                   \* exactly what was written since the last commit
         /\ batch # <<>>
         /\ store' = [o \in Objects |-> LET idx == {i \in DOMAIN batch : batch[i].o = o} IN
                                         IF idx = {} THEN store[o] ELSE batch[CHOOSE i \in idx : \A j \in idx : j <= i].v]
         /\ pendDone' = pendDone \o [i \in DOMAIN batch |-> batch[i].o]
         /\ batch' = <<>>
         /\ UNCHANGED <<cfg, inflight, must, lastW, stopBegun>> /\ ev' = s
    [] s.op = "done" ->         \* BatchWriteDone(o): only after the commit of its batch, once per BatchWrite
         /\ InSeq(pendDone, s.o) /\ pendDone' = RemoveOne(pendDone, s.o)
         /\ UNCHANGED <<cfg, inflight, must, batch, store, lastW, stopBegun>> /\ ev' = s
    [] s.op = "stopBegin" ->
         /\ stopBegun' = TRUE /\ UNCHANGED <<cfg, inflight, must, batch, pendDone, store, lastW>> /\ ev' = s
    [] s.op = "stopEnd" ->      \* StopBatchWriter returned: everything enqueued before it was invoked is written, committed, done
         /\ stopBegun /\ must = {} /\ batch = <<>> /\ pendDone = <<>>
         /\ UNCHANGED <<cfg, inflight, must, batch, pendDone, store, lastW, stopBegun>> /\ ev' = s
    [] s.op = "final" ->        \* the run is over and quiescent: nobody hangs, nothing half-written, store = last BatchWrite
         /\ s.hung = <<>>
         /\ batch = <<>> /\ pendDone = <<>>
         /\ s.store = [o \in Objects |-> lastW[o]] /\ \A o \in Objects : store[o] = lastW[o]
         /\ (~stopBegun => TRUE)
         /\ UNCHANGED <<cfg, inflight, must, batch, pendDone, store, lastW, stopBegun>> /\ ev' = s

(* a small closed system for an exhaustive sanity run of the spec itself (TLC): any order of the events *)
Stimuli == [op : {"enqBegin", "enqEnd"}, t : Threads, o : Objects] \cup [op : {"bwrite"}, o : Objects, v : 1..MaxVal]
           \cup [op : {"done"}, o : Objects] \cup [op : {"stopBegin", "stopEnd"}, t : Threads]
           \cup {[op |-> "commit", items |-> batch]}
Next == \E s \in Stimuli : Do(s)
Spec == Init /\ [][Next]_vars
(* sanity: after an accepted stopEnd nothing is owed *)
StopMeansDone == ev.op = "stopEnd" => (must = {} /\ batch = <<>> /\ pendDone = <<>>)
Bounded == Len(batch) <= 2 /\ Len(pendDone) <= 2
=============================================================================
