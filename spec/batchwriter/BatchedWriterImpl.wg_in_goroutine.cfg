SPECIFICATION Spec
CONSTANTS
  Producers = {1, 2}
  Objects = {1, 2}
  QSize = 1
  BSize = 2
  MaxEnq = 2
  Variant = "wg_in_goroutine"
INVARIANTS TypeOK StopWaits DoneAfterCommit AllOrNothing
PROPERTIES NoStuck
