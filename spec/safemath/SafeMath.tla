------------------------------- MODULE SafeMath -------------------------------
(* Property C19: SafeAdd/SafeSub/SafeMul/SafeDiv/SafeLeftShift (all eight integer types) and
   SafeMulUint64/SafeMulInt64/Safe64MulDiv return the EXACT mathematical result whenever it is
   representable in the type and otherwise the overflow (or division-by-zero) error: never a wrapped
   value, never a spurious error.

   This module is the mathematical meaning only (no variables).  It is written from the property text:
   nothing here looks at how the Go code detects overflow.

     narrow types (8/16 bit): operands are TLA+ integers.  TLC integers are 32-bit, so a product that
         may exceed 2^31 is never formed: "does a*b fit" is decided by a division bound (MulFits).
         Lemmas in SafeMathMC check the bound against the directly formed product where that is safe.
     wide types (32/64 bit):  operands are sign + magnitude, the magnitude a little-endian sequence of
         base-2^15 limbs (limb products stay below 2^30).  Schoolbook add / sub / mul / compare.
         Quotients (SafeDiv, Safe64MulDiv) are specified by their characteristic inequality
         |q|*|b| <= |a| < (|q|+1)*|b|  instead of a division algorithm.

   A record of one call (written by the harness / generated from this module):
     [op, t, a, b, (c), ok, r, err]    op \in Ops, t a type name, ok = (error = nil),
                                       err \in {"", "overflow", "divzero", "other"}
     narrow: a, b, r integers.  wide: a, b, c, r = [n |-> negative?, m |-> limbs]; for op "Shl" b is
     the shift count (an integer 0..255) in both encodings.                                        *)
EXTENDS Integers, Sequences

Ops      == {"Add", "Sub", "Mul", "Div", "Shl"}          \* generic functions
WideOnly == {"MulUint64", "MulInt64", "MulDiv64"}        \* 64-bit only functions

Signed(t) == t \in {"int8", "int16", "int32", "int64"}
Bits(t)   == CASE t \in {"int8", "uint8"}   -> 8
               [] t \in {"int16", "uint16"} -> 16
               [] t \in {"int32", "uint32"} -> 32
               [] t \in {"int64", "uint64"} -> 64
Narrow(t) == Bits(t) <= 16

Abs(x) == IF x < 0 THEN -x ELSE x

-------------------------------------------------------------------------------
(* narrow types: plain integers *)

Pow2(k) == 2^k                                           \* k <= 30
MinOf(t) == IF Signed(t) THEN -Pow2(Bits(t) - 1) ELSE 0
MaxOf(t) == IF Signed(t) THEN Pow2(Bits(t) - 1) - 1 ELSE Pow2(Bits(t)) - 1
RangeOf(t) == MinOf(t)..MaxOf(t)
Fits(t, x) == MinOf(t) <= x /\ x <= MaxOf(t)

\* Go's integer division truncates toward zero (TLA+'s \div floors)
TruncDiv(a, b) == IF (a < 0) = (b < 0) THEN Abs(a) \div Abs(b) ELSE -(Abs(a) \div Abs(b))

\* outcomes demanded by the property
Ok(x)   == [ok |-> TRUE,  r |-> x, err |-> ""]
Ovf     == [ok |-> FALSE, r |-> 0, err |-> "overflow"]
DivZero == [ok |-> FALSE, r |-> 0, err |-> "divzero"]
Val(t, x) == IF Fits(t, x) THEN Ok(x) ELSE Ovf

\* does the exact product a*b fit in t?  decided without forming a*b:
\*   |a|*|b| <= lim  <=>  |a| <= lim \div |b|        (b # 0)
MulFits(t, a, b) ==
    IF a = 0 \/ b = 0 THEN TRUE
    ELSE LET lim == IF (a < 0) # (b < 0) THEN -MinOf(t) ELSE MaxOf(t)
         IN  Abs(a) <= lim \div Abs(b)

\* the exact mathematical result (only used where it can be formed in 32 bits)
Exact(op, a, b) == CASE op = "Add" -> a + b
                     [] op = "Sub" -> a - b
                     [] op = "Mul" -> a * b
                     [] op = "Div" -> TruncDiv(a, b)     \* b # 0
                     [] op = "Shl" -> a * Pow2(b)        \* b <= 22 for 8-bit a

\* Want(op,t,a,b): the one outcome the property allows for the call op[t](a, b)
Want(op, t, a, b) ==
    CASE op \in {"Add", "Sub"} -> Val(t, Exact(op, a, b))
      [] op = "Mul" -> IF MulFits(t, a, b) THEN Ok(a * b) ELSE Ovf
      [] op = "Div" -> IF b = 0 THEN DivZero ELSE Val(t, TruncDiv(a, b))
      [] op = "Shl" -> IF a = 0 THEN Ok(0)                         \* 0 * 2^s = 0 for every s
                       ELSE IF b >= Bits(t) THEN Ovf               \* |a * 2^s| >= 2^Bits
                       ELSE IF MulFits(t, a, Pow2(b)) THEN Ok(a * Pow2(b)) ELSE Ovf

Matches(rec, w) == IF w.ok THEN rec.ok /\ rec.r = w.r /\ rec.err = ""
                   ELSE ~rec.ok /\ rec.err = w.err

GoodN(rec) == Matches(rec, Want(rec.op, rec.t, rec.a, rec.b))

-------------------------------------------------------------------------------
(* wide types: sign + little-endian base-2^15 limbs *)

B == 32768

RECURSIVE Norm(_)
Norm(m) == IF m = <<>> THEN <<>>
           ELSE IF m[Len(m)] = 0 THEN Norm(SubSeq(m, 1, Len(m) - 1)) ELSE m

WellFormed(v) == /\ v.n \in BOOLEAN
                 /\ \A i \in 1..Len(v.m) : v.m[i] \in 0..(B - 1)

RECURSIVE CmpTop(_, _, _)
CmpTop(x, y, i) == IF i = 0 THEN 0
                   ELSE IF x[i] < y[i] THEN -1
                   ELSE IF x[i] > y[i] THEN 1
                   ELSE CmpTop(x, y, i - 1)
\* compare two normalised magnitudes: -1, 0, 1
CmpM(x, y) == IF Len(x) < Len(y) THEN -1
              ELSE IF Len(x) > Len(y) THEN 1
              ELSE CmpTop(x, y, Len(x))

RECURSIVE AddC(_, _, _)
AddC(x, y, c) ==
    IF x = <<>> /\ y = <<>> THEN (IF c = 0 THEN <<>> ELSE <<c>>)
    ELSE LET xa == IF x = <<>> THEN 0 ELSE Head(x)
             ya == IF y = <<>> THEN 0 ELSE Head(y)
             s  == xa + ya + c
         IN  <<s % B>> \o AddC(IF x = <<>> THEN x ELSE Tail(x), IF y = <<>> THEN y ELSE Tail(y), s \div B)
AddM(x, y) == AddC(x, y, 0)

RECURSIVE SubC(_, _, _)
SubC(x, y, c) ==                                          \* x >= y ; c = borrow
    IF x = <<>> THEN <<>>
    ELSE LET ya == IF y = <<>> THEN 0 ELSE Head(y)
             d  == Head(x) - ya - c
         IN  <<IF d < 0 THEN d + B ELSE d>> \o
             SubC(Tail(x), IF y = <<>> THEN y ELSE Tail(y), IF d < 0 THEN 1 ELSE 0)
SubM(x, y) == Norm(SubC(x, y, 0))

RECURSIVE MulSmall(_, _, _)
MulSmall(x, d, c) ==                                      \* x*d + c, 0 <= d, c < B
    IF x = <<>> THEN (IF c = 0 THEN <<>> ELSE <<c>>)
    ELSE LET p == Head(x) * d + c                         \* <= (B-1)^2 + (B-1) < 2^30
         IN  <<p % B>> \o MulSmall(Tail(x), d, p \div B)

RECURSIVE MulR(_, _)
MulR(x, y) == IF y = <<>> THEN <<>>
              ELSE AddM(MulSmall(x, Head(y), 0), <<0>> \o MulR(x, Tail(y)))
MulM(x, y) == Norm(MulR(x, y))

Pow2M(k) == [i \in 1..(k \div 15) |-> 0] \o <<2^(k % 15)>>
OneM == <<1>>

\* signed values
Z(v)    == LET m == Norm(v.m) IN [n |-> v.n /\ m # <<>>, m |-> m]
ZeroW   == [n |-> FALSE, m |-> <<>>]
IsZero(v) == Norm(v.m) = <<>>
NegW(v) == Z([n |-> ~v.n, m |-> v.m])
AddW(u0, v0) == LET u == Z(u0)  v == Z(v0) IN
    IF u.n = v.n THEN Z([n |-> u.n, m |-> AddM(u.m, v.m)])
    ELSE IF CmpM(u.m, v.m) >= 0 THEN Z([n |-> u.n, m |-> SubM(u.m, v.m)])
    ELSE Z([n |-> v.n, m |-> SubM(v.m, u.m)])
SubW(u, v) == AddW(u, NegW(v))
MulW(u0, v0) == LET u == Z(u0)  v == Z(v0) IN Z([n |-> u.n # v.n, m |-> MulM(u.m, v.m)])
CmpW(u0, v0) == LET u == Z(u0)  v == Z(v0) IN
    IF u.n /\ ~v.n THEN -1
    ELSE IF ~u.n /\ v.n THEN 1
    ELSE IF u.n THEN CmpM(v.m, u.m) ELSE CmpM(u.m, v.m)
LeW(u, v) == CmpW(u, v) <= 0
EqW(u, v) == Z(u) = Z(v)

MinW(t) == IF Signed(t) THEN [n |-> TRUE, m |-> Pow2M(Bits(t) - 1)] ELSE ZeroW
MaxW(t) == [n |-> FALSE, m |-> SubM(Pow2M(IF Signed(t) THEN Bits(t) - 1 ELSE Bits(t)), OneM)]
FitsW(t, v) == LeW(MinW(t), v) /\ LeW(v, MaxW(t))

\* small integers <-> limb values (|x| < 2^31), used by the lemmas and for shift counts
RECURSIVE LimbsOf(_)
LimbsOf(x) == IF x = 0 THEN <<>> ELSE <<x % B>> \o LimbsOf(x \div B)
ToW(x) == [n |-> x < 0, m |-> LimbsOf(Abs(x))]
RECURSIVE MagOf(_)
MagOf(m) == IF m = <<>> THEN 0 ELSE Head(m) + B * MagOf(Tail(m))
FromW(v) == IF v.n THEN -MagOf(v.m) ELSE MagOf(v.m)

OkW(v) == [ok |-> TRUE, r |-> Z(v), err |-> ""]
OvfW   == [ok |-> FALSE, r |-> ZeroW, err |-> "overflow"]
DivZeroW == [ok |-> FALSE, r |-> ZeroW, err |-> "divzero"]
ValW(t, v) == IF FitsW(t, v) THEN OkW(v) ELSE OvfW

\* q = a / b truncated toward zero  <=>  |q|*|b| <= |a| < (|q|+1)*|b|  and q has the sign of a*b (or is 0)
IsQuot(q0, a0, b0) == LET q == Z(q0)  a == Z(a0)  b == Z(b0) IN
    /\ CmpM(MulM(q.m, b.m), a.m) <= 0
    /\ CmpM(a.m, MulM(AddM(q.m, OneM), b.m)) < 0
    /\ (q.m # <<>> => q.n = (a.n # b.n))
\* does a / b (b # 0) fit in t?   |q| <= lim  <=>  |a| < (lim+1)*|b|
QuotFits(t, a0, b0) == LET a == Z(a0)  b == Z(b0)
                           lim == IF a.n # b.n THEN MinW(t).m ELSE MaxW(t).m
                       IN  CmpM(a.m, MulM(AddM(lim, OneM), b.m)) < 0

\* the type a 64-bit-only function works on
TypeOf(rec) == CASE rec.op = "MulUint64" -> "uint64"
                 [] rec.op = "MulInt64"  -> "int64"
                 [] rec.op = "MulDiv64"  -> "uint64"
                 [] OTHER -> rec.t

\* kind "val": the result is the given value or the error; kind "quot": a quotient num/den
WantW(rec) == LET t == TypeOf(rec) IN
    CASE rec.op = "Add" -> ValW(t, AddW(rec.a, rec.b))
      [] rec.op = "Sub" -> ValW(t, SubW(rec.a, rec.b))
      [] rec.op \in {"Mul", "MulUint64", "MulInt64"} -> ValW(t, MulW(rec.a, rec.b))
      [] rec.op = "Shl" -> ValW(t, MulW(rec.a, [n |-> FALSE, m |-> Pow2M(rec.b)]))
      [] rec.op = "Div" -> IF IsZero(rec.b) THEN DivZeroW
                           ELSE IF QuotFits(t, rec.a, rec.b) THEN [ok |-> TRUE, err |-> "", quot |-> TRUE] ELSE OvfW
      [] rec.op = "MulDiv64" -> IF IsZero(rec.c) THEN DivZeroW
                           ELSE IF QuotFits(t, MulW(rec.a, rec.b), rec.c) THEN [ok |-> TRUE, err |-> "", quot |-> TRUE] ELSE OvfW

GoodW(rec) == LET t == TypeOf(rec)  w == WantW(rec) IN
    IF ~w.ok THEN ~rec.ok /\ rec.err = w.err
    ELSE /\ rec.ok /\ rec.err = ""
         /\ WellFormed(rec.r) /\ FitsW(t, rec.r)
         /\ CASE rec.op = "Div"      -> IsQuot(rec.r, rec.a, rec.b)
              [] rec.op = "MulDiv64" -> IsQuot(rec.r, MulW(rec.a, rec.b), rec.c)
              [] OTHER               -> EqW(rec.r, w.r)

-------------------------------------------------------------------------------
IsWideRec(rec) == rec.op \in WideOnly \/ ~Narrow(rec.t)

\* THE PROPERTY, per recorded call
Good(rec) == IF IsWideRec(rec) THEN GoodW(rec) ELSE GoodN(rec)

\* what the model wanted (for reports)
WantOf(rec) == IF IsWideRec(rec) THEN WantW(rec) ELSE Want(rec.op, rec.t, rec.a, rec.b)

\* a narrow record re-encoded in limbs (lemma: both encodings judge alike)
Widen(rec) == [op |-> rec.op, t |-> rec.t, a |-> ToW(rec.a),
               b |-> IF rec.op = "Shl" THEN rec.b ELSE ToW(rec.b),
               ok |-> rec.ok, r |-> ToW(rec.r), err |-> rec.err]
===============================================================================
