SPECIFICATION Spec
CONSTANTS K = 1
          FullLimbs = FALSE
          Stride = 64
INVARIANTS DirectAgrees OneOutcome LimbsAgree MulBound16
