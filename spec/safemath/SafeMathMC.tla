------------------------------ MODULE SafeMathMC ------------------------------
(* Design-level check of the SafeMath definitions: TLC enumerates every call row (op, type, a) of the
   8-bit types and of a boundary lattice of the 16-bit types and checks, for every second operand,
   lemmas that tie the independent formulations of "exact result / fits" to each other:

     DirectAgrees   8-bit, all pairs: Want (division-bound formulation) = Val(t, directly formed exact result)
     OneOutcome     8-bit, all pairs: of the candidate outcomes {exact value, wrapped value, overflow,
                    divzero} exactly the demanded one is accepted by Good - in particular a wrapped
                    value is rejected whenever the exact result does not fit (NEVER WRAPS) and an error
                    is rejected whenever it fits (NO SPURIOUS ERROR)
     LimbsAgree     the limb formulation (GoodW) judges the re-encoded record like the integer one,
                    and also rejects the wrapped candidate
     MulBound16     16-bit lattice: MulFits (division bound) <=> the limb product fits
   plus ASSUMEd arithmetic lemmas (limb add/sub/mul/compare = integer arithmetic on a 30-bit lattice,
   truncated division law).                                                                          *)
EXTENDS SafeMath, FiniteSets, SequencesExt, TLC

CONSTANTS K,           \* lattice radius around the anchors (0, min, max, +-2^j)
          FullLimbs,   \* TRUE: LimbsAgree over every 8-bit pair, FALSE: over the lattice only
          Stride       \* number of parallel chains through the rows

Anchors(t) == {0, MinOf(t), MaxOf(t)} \cup {Pow2(j) : j \in 0..(Bits(t) - 1)}
              \cup (IF Signed(t) THEN {-Pow2(j) : j \in 0..(Bits(t) - 1)} ELSE {})
Lattice(t) == (UNION {{p + d : d \in (-K)..K} : p \in Anchors(t)}) \cap RangeOf(t)
ShiftLattice == (0..18) \cup {30, 31, 32, 33, 63, 64, 65, 127, 128, 129, 254, 255}

T8  == {"int8", "uint8"}
T16 == {"int16", "uint16"}
Rows == UNION {{[op |-> o, t |-> t, a |-> a] : o \in Ops, a \in RangeOf(t)} : t \in T8}
        \cup UNION {{[op |-> o, t |-> t, a |-> a] : o \in Ops, a \in Lattice(t)} : t \in T16}
RowSeq == SetToSeq(Rows)

VARIABLE i
row == RowSeq[i]
Init == i \in 1..Stride
Next == i + Stride <= Len(RowSeq) /\ i' = i + Stride
Spec == Init /\ [][Next]_i

Dom(op, t)    == IF op = "Shl" THEN 0..255 ELSE RangeOf(t)
LatDom(op, t) == IF op = "Shl" THEN ShiftLattice ELSE Lattice(t)

Rec(op, t, a, b, w) == [op |-> op, t |-> t, a |-> a, b |-> b, ok |-> w.ok, r |-> w.r, err |-> w.err]
Wrap(t, x) == ((x - MinOf(t)) % Pow2(Bits(t))) + MinOf(t)
\* the exact result formed directly (8-bit: every value below is < 2^31)
Direct(op, t, a, b) == IF op = "Div" /\ b = 0 THEN DivZero
                       ELSE IF op = "Shl" /\ b > 22 THEN (IF a = 0 THEN Ok(0) ELSE Ovf)   \* |a*2^b| >= 2^23
                       ELSE Val(t, Exact(op, a, b))
WrappedOutcome(op, t, a, b) ==              \* what two's-complement hardware would hand back
    IF op = "Div" /\ b = 0 THEN Ok(0)
    ELSE IF op = "Shl" /\ b > 22 THEN Ok(0)
    ELSE Ok(Wrap(t, Exact(op, a, b)))

DirectAgrees == row.t \in T8 =>
    \A b \in Dom(row.op, row.t) : Want(row.op, row.t, row.a, b) = Direct(row.op, row.t, row.a, b)

OneOutcome == row.t \in T8 =>
    \A b \in Dom(row.op, row.t) :
        LET w == Want(row.op, row.t, row.a, b)
            cands == {w, WrappedOutcome(row.op, row.t, row.a, b), Ovf, DivZero}
        IN  \A c \in cands : GoodN(Rec(row.op, row.t, row.a, b, c)) <=> (c = w)

LimbsAgree ==
    \A b \in (IF FullLimbs /\ row.t \in T8 THEN Dom(row.op, row.t) ELSE LatDom(row.op, row.t)) :
        LET w == Want(row.op, row.t, row.a, b)
            good == Rec(row.op, row.t, row.a, b, w)
        IN  /\ GoodW(Widen(good))
            /\ (w.ok => ~GoodW(Widen(Rec(row.op, row.t, row.a, b, Ovf))))           \* spurious error rejected
            /\ (row.t \in T8 /\ ~w.ok /\ w.err = "overflow" =>
                    ~GoodW(Widen(Rec(row.op, row.t, row.a, b, WrappedOutcome(row.op, row.t, row.a, b)))))

MulBound16 == row.t \in T16 /\ row.op = "Mul" =>
    \A b \in Lattice(row.t) :
        MulFits(row.t, row.a, b) <=> FitsW(row.t, MulW(ToW(row.a), ToW(b)))

\* arithmetic lemmas, evaluated once
L30 == {0, 1, 2, 3, 32767, 32768, 32769, 65535, 65536, 1073741823 \div 2, 536870912, 536870911,
        123456789, 99999, 1000000} 
S30 == L30 \cup {-x : x \in L30}
L15 == {x \in S30 : Abs(x) <= 32768}
ASSUME \A x \in S30, y \in S30 :
        /\ FromW(AddW(ToW(x), ToW(y))) = x + y
        /\ FromW(SubW(ToW(x), ToW(y))) = x - y
        /\ (CmpW(ToW(x), ToW(y)) = -1) = (x < y)
        /\ (CmpW(ToW(x), ToW(y)) = 0) = (x = y)
ASSUME \A x \in L15, y \in S30 : Abs(y) <= 32767 => FromW(MulW(ToW(x), ToW(y))) = x * y
ASSUME \A x \in S30, y \in S30 \ {0} :
        LET q == TruncDiv(x, y) IN
        /\ Abs(x - q * y) < Abs(y) /\ (x - q * y = 0 \/ (x - q * y < 0) = (x < 0))
        /\ IsQuot(ToW(q), ToW(x), ToW(y))
        /\ ~IsQuot(ToW(q + 1), ToW(x), ToW(y)) /\ ~IsQuot(ToW(q - 1), ToW(x), ToW(y))
\* 2^64 - 1 and -2^63 as limb values
ASSUME MaxW("uint64").m = <<32767, 32767, 32767, 32767, 15>>
ASSUME MinW("int64") = [n |-> TRUE, m |-> <<0, 0, 0, 0, 8>>]
ASSUME MaxW("int32").m = <<32767, 32767, 1>> /\ MaxW("uint32").m = <<32767, 32767, 3>>
===============================================================================
