----------------------------- MODULE SafeMathGen ------------------------------
(* model -> code: TLC writes the expectation table of the narrow types from the specification: one
   row per (op, type, a) listing, for every second operand b, the demanded outcome.  The harness
   then calls the real functions for every entry and compares.

   Bs(op,t) is the list of second operands of a row: every value of the type (8-bit), the values of
   GenB (16-bit lattice, given by the cfg), or the shift counts 0..255.                            *)
EXTENDS SafeMath, Json, TLC, SequencesExt

CONSTANTS GenOps, GenTypes,      \* which rows this TLC process generates
          GenA                   \* first operands: {} = every value of the type, else this set (cut to the type)

As(t)     == IF GenA = {} THEN RangeOf(t) ELSE GenA \cap RangeOf(t)
Bs(op, t) == IF op = "Shl" THEN [k \in 1..256 |-> k - 1] ELSE SetToSortSeq(As(t), <)

Row(op, t, a) == LET bs == Bs(op, t)
                     w  == [k \in 1..Len(bs) |-> Want(op, t, a, bs[k])]
                 IN  [op |-> op, t |-> t, a |-> a, b |-> bs,
                      r |-> [k \in 1..Len(bs) |-> w[k].r],
                      e |-> [k \in 1..Len(bs) |-> w[k].err]]

ASSUME \A op \in GenOps, t \in GenTypes : \A a \in As(t) : PrintT(<<"ROW", ToJson(Row(op, t, a))>>)

VARIABLE x
GInit == x = 0
GNext == UNCHANGED x
===============================================================================
