---------------------------- MODULE SafeMathTrace -----------------------------
(* code -> model: the harness wrote one record per call of the REAL safemath functions into
   records.ndjson; TLC consumes them one per step and judges each with SafeMath!Good.  A record the
   property does not allow is printed (line number + what the model demands) and the run goes on, so
   one pass lists every disagreement.  Accepted (POSTCONDITION) makes sure every line was consumed. *)
EXTENDS SafeMath, Json, TLC

VARIABLE l
Log == ndJsonDeserialize("records.ndjson")

Report(k) == PrintT(<<"BAD", ToJson([l |-> k, want |-> WantOf(Log[k])])>>)

TInit == l = 1
TNext == /\ l <= Len(Log)
         /\ (IF Good(Log[l]) THEN TRUE ELSE Report(l))
         /\ l' = l + 1
TSpec == TInit /\ [][TNext]_l

Accepted == LET d == TLCGet("stats").diameter IN
            PrintT(<<"DEPTH", ToString(d)>>) /\ d = Len(Log) + 1
===============================================================================
