SPECIFICATION Spec
CONSTANTS K = 3
          FullLimbs = TRUE
          Stride = 64
INVARIANTS DirectAgrees OneOutcome LimbsAgree MulBound16
