------------------------------ MODULE DaemonRun ------------------------------
(* Trace specification for free-running use of one OrderedDaemon (code -> model, property C20).     *)
(* Registering threads, a Start/Run thread, several Shutdown / ShutdownAndWait callers and the        *)
(* worker handlers run unconstrained; every event is appended to ONE log under a mutex:               *)
(*   addBegin(k, n, o) / addEnd(k, r)  around BackgroundWorker (k = request id, n = name, o = order)  *)
(*   started(k), seen(k), ret(k)       inside the handler: first statement / after it observed        *)
(*                                     ctx.Done() / last statement before it returns                  *)
(*   sdBegin(t) / sdEnd(t)             around Shutdown (no end: asynchronous) and ShutdownAndWait      *)
(*   startBegin/startEnd, runBegin/runEnd around Start and Run;  panic(t) if a call panicked           *)
(*   final(hung, alive)                after a bounded wait for every driver thread                   *)
(* The guard of each arm is the property; an event that is not allowed makes TLC reject the trace.    *)
(* Log-order soundness: "ret" is logged before the handler returns (so before its WaitGroup is left    *)
(* and before anything that waits for it goes on), "seen" after the cancellation was observed, "end"   *)
(* events after the call returned - a late log entry can only weaken a check.                         *)
(* cfg.anchor = TRUE: the driver keeps one worker alive until a shutdown began and registers nothing   *)
(* that could start between Run's decision to return and the runEnd entry, so runEnd is checked.       *)
EXTENDS Integers, Sequences, FiniteSets, TLC

CONSTANTS MaxK
VARIABLES cfg, name, ord, ist, res, lateBegin, sdBegun, sdEnded, ev
vars == <<cfg, name, ord, ist, res, lateBegin, sdBegun, sdEnded, ev>>
View == <<cfg, name, ord, ist, res, lateBegin, sdBegun, sdEnded>>
Cfgs == [anchor : BOOLEAN, scenario : {"mixed", "reuse", "forced"}]
K == 1..MaxK

InitState == /\ name = [k \in K |-> 0] /\ ord = [k \in K |-> 0] /\ ist = [k \in K |-> "none"] /\ res = [k \in K |-> ""]
             /\ lateBegin = [k \in K |-> FALSE] /\ sdBegun = FALSE /\ sdEnded = FALSE
Init == cfg \in Cfgs /\ InitState /\ ev = [op |-> "reset", cfg |-> cfg]

Alive == {k \in K : ist[k] \in {"started", "seen"}}
Keep == UNCHANGED <<cfg, name, ord, ist, res, lateBegin, sdBegun, sdEnded>>

Do(s) ==
  CASE s.op = "reset" -> /\ cfg' = s.cfg /\ name' = [k \in K |-> 0] /\ ord' = [k \in K |-> 0] /\ ist' = [k \in K |-> "none"]
                         /\ res' = [k \in K |-> ""] /\ lateBegin' = [k \in K |-> FALSE] /\ sdBegun' = FALSE /\ sdEnded' = FALSE /\ ev' = s
    [] s.op = "addBegin" ->
         /\ s.k \in K /\ ist[s.k] = "none"
         /\ name' = [name EXCEPT ![s.k] = s.n] /\ ord' = [ord EXCEPT ![s.k] = s.o] /\ ist' = [ist EXCEPT ![s.k] = "begun"]
         /\ lateBegin' = [lateBegin EXCEPT ![s.k] = sdEnded]
         /\ UNCHANGED <<cfg, res, sdBegun, sdEnded>> /\ ev' = s
    [] s.op = "addEnd" ->
         /\ ist[s.k] # "none" /\ res[s.k] = ""
         /\ s.r = "ok" => ~lateBegin[s.k]                                   \* after shutdown no worker can be added
         /\ s.r = "stopped" => (sdBegun /\ ist[s.k] = "begun")               \* refused: never started
         /\ s.r \in {"duplicate", "stillRunning"} =>                         \* refused because of another registration of the name
               (ist[s.k] = "begun" /\ \E j \in K : j # s.k /\ name[j] = name[s.k] /\ ist[j] # "none")
         /\ s.r \in {"ok", "stopped", "duplicate", "stillRunning"}
         /\ res' = [res EXCEPT ![s.k] = s.r]
         /\ UNCHANGED <<cfg, name, ord, ist, lateBegin, sdBegun, sdEnded>> /\ ev' = s
    [] s.op = "started" ->       \* the handler of request k begins
         /\ ist[s.k] = "begun" /\ res[s.k] \in {"", "ok"}
         /\ ~sdEnded                                                         \* after shutdown no worker can be started
         /\ \A j \in Alive : name[j] # name[s.k]                             \* a name that is still running is never started again
         /\ ist' = [ist EXCEPT ![s.k] = "started"]
         /\ UNCHANGED <<cfg, name, ord, res, lateBegin, sdBegun, sdEnded>> /\ ev' = s
    [] s.op = "seen" ->          \* the handler of k observed the cancellation of its context
         /\ ist[s.k] = "started" /\ sdBegun
         /\ \A j \in Alive : ord[j] <= ord[s.k]                              \* every started worker of a higher order has returned
         /\ ist' = [ist EXCEPT ![s.k] = "seen"]
         /\ UNCHANGED <<cfg, name, ord, res, lateBegin, sdBegun, sdEnded>> /\ ev' = s
    [] s.op = "ret" ->
         /\ ist[s.k] \in {"started", "seen"} /\ ist' = [ist EXCEPT ![s.k] = "ret"]
         /\ UNCHANGED <<cfg, name, ord, res, lateBegin, sdBegun, sdEnded>> /\ ev' = s
    [] s.op = "sdBegin" -> /\ sdBegun' = TRUE /\ UNCHANGED <<cfg, name, ord, ist, res, lateBegin, sdEnded>> /\ ev' = s
    [] s.op = "sdEnd" ->         \* ShutdownAndWait returned: every started worker has returned
         /\ sdBegun /\ Alive = {} /\ sdEnded' = TRUE
         /\ UNCHANGED <<cfg, name, ord, ist, res, lateBegin, sdBegun>> /\ ev' = s
    [] s.op \in {"startBegin", "startEnd", "runBegin"} -> Keep /\ ev' = s
    [] s.op = "runEnd" ->        \* Run returned: every started worker has returned
         /\ (cfg.anchor => Alive = {}) /\ Keep /\ ev' = s
    [] s.op = "panic" -> FALSE   \* no call may panic
    [] s.op = "final" ->         \* nobody hangs; after a completed shutdown nothing is left running
         /\ s.hung = <<>> /\ (sdEnded => (s.alive = <<>> /\ Alive = {}))
         /\ Keep /\ ev' = s

(* closed system for a sanity run of the spec itself *)
Stimuli == [op : {"addBegin"}, k : K, n : 1..2, o : {-1, 5}] \cup [op : {"addEnd"}, k : K, r : {"ok", "stopped", "stillRunning"}]
           \cup [op : {"started", "seen", "ret"}, k : K] \cup [op : {"sdBegin", "sdEnd", "runEnd"}, t : {1}]
Next == \E s \in Stimuli : Do(s)
Spec == Init /\ [][Next]_vars
(* what the guards establish *)
NoTwins == \A k \in Alive, j \in Alive : (k # j) => name[k] # name[j]
ShutdownWaited == (ev.op = "sdEnd") => Alive = {}
=============================================================================
