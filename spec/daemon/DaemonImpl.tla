----------------------------- MODULE DaemonImpl -----------------------------
(* Implementation-level model of app/daemon.OrderedDaemon (property C20): all interleavings of    *)
(*   - BackgroundWorker callers (IsStopped check | lock, [re-check], duplicate rules, map/list      *)
(*     insert | IsRunning test, wg.Add, go handler, unlock),                                       *)
(*   - one Start / Run caller (check | locked section | snapshot of the WaitGroups, Wait one by     *)
(*     one, [repeat while a worker is running]),                                                   *)
(*   - Shutdown / ShutdownAndWait callers through the sync.Once (stopped flag, IsRunning test,      *)
(*     snapshot, walk over the sorted names with Wait on the previous order's group, running=false, *)
(*     clear),                                                                                     *)
(*   - the worker goroutines (handler returns early or after cancellation | wg.Done | cleanup       *)
(*     under the lock, skipped when stopped).                                                      *)
(* Variant selects the current tree ("code") or a seeded defect (negative controls):               *)
(*   "unlocked_check" = the tree before fix 35117c3 (stopped flag set and tested without the lock)  *)
(*   "run_snapshot"   = the tree before fix f6bc026 (Run waits once for the groups it saw)          *)
(*   "sync_waitgroup" = the tree before fix 0c7154d (Run's Wait on a sync.WaitGroup that is re-used) *)
(*   "cmp_gt", "wait_current", "wrong_index" = the three Appendix-B mutations                       *)
(* Approximations: every name has a fixed order (OrdOf); the per-worker flags are keyed by name    *)
(* (exact for "code", where nothing is registered after the shutdown's snapshot); cleanup and the   *)
(* final running=false of a worker goroutine are one step; RLock sections are single steps.        *)
EXTENDS Integers, Sequences, FiniteSets, TLC

CONSTANTS Names, Adders, Callers, MaxAdds, UseRun, EarlyReturn, Variant

OrdOf(n) == CASE n = "a" -> 5 [] n = "b" -> 0 [] n = "c" -> 0 [] n = "d" -> -1
Orders == {OrdOf(n) : n \in Names}
Fixed == Variant # "unlocked_check"

VARIABLES stopped, running, lock, inmap, wrunning, cancelled, list, wgx, wg, cleared, phase,
          apc, aname, nadd,
          rpc, rsnap, rcur, runBad,
          cpc, once, snapMap, snapList, idx, prev, tgt,
          panicked
vars == <<stopped, running, lock, inmap, wrunning, cancelled, list, wgx, wg, cleared, phase, apc, aname, nadd,
          rpc, rsnap, rcur, runBad, cpc, once, snapMap, snapList, idx, prev, tgt, panicked>>

dvars == <<stopped, running, lock, inmap, wrunning, cancelled, list, wgx, wg, cleared, phase>>
avars == <<apc, aname, nadd>>
rvars == <<rpc, rsnap, rcur, runBad>>
cvars == <<cpc, once, snapMap, snapList, idx, prev, tgt>>

Init == /\ stopped = FALSE /\ running = FALSE /\ lock = "free"
        /\ inmap = [n \in Names |-> FALSE] /\ wrunning = [n \in Names |-> FALSE] /\ cancelled = [n \in Names |-> FALSE]
        /\ list = <<>> /\ wgx = {} /\ wg = [o \in Orders |-> 0] /\ cleared = FALSE
        /\ phase = [n \in Names |-> "none"]
        /\ apc = [p \in Adders |-> "idle"] /\ aname = [p \in Adders |-> CHOOSE n \in Names : TRUE] /\ nadd = 0
        /\ rpc = "idle" /\ rsnap = {} /\ rcur = 99 /\ runBad = FALSE
        /\ cpc = [c \in Callers |-> "idle"] /\ once = "no" /\ snapMap = {} /\ snapList = <<>> /\ idx = 1 /\ prev = 0 /\ tgt = 0
        /\ panicked = FALSE

AliveH == {n \in Names : phase[n] = "handler"}
(* sorted insert: descending order, after the entries of the same order *)
Insert(l, n) == LET k == Cardinality({i \in DOMAIN l : OrdOf(l[i]) >= OrdOf(n)})
                IN SubSeq(l, 1, k) \o <<n>> \o SubSeq(l, k + 1, Len(l))
RemoveAt(l, i) == SubSeq(l, 1, i - 1) \o SubSeq(l, i + 1, Len(l))
IndexOf(l, n) == CHOOSE i \in DOMAIN l : l[i] = n
Remove(l, n) == IF \E i \in DOMAIN l : l[i] = n
                  THEN LET i == IndexOf(l, n)
                           j == IF Variant = "wrong_index" /\ i < Len(l) THEN i + 1 ELSE i
                       IN RemoveAt(l, j)
                  ELSE l
StartWorker(n) == /\ wg' = [wg EXCEPT ![OrdOf(n)] = @ + 1] /\ wrunning' = [wrunning EXCEPT ![n] = TRUE]
                  /\ phase' = [phase EXCEPT ![n] = "handler"]

(* ------------------------------ BackgroundWorker ------------------------------ *)
AddCall(p, n) == /\ apc[p] = "idle" /\ nadd < MaxAdds /\ ~stopped             \* passes the unlocked IsStopped check
                 /\ apc' = [apc EXCEPT ![p] = "checked"] /\ aname' = [aname EXCEPT ![p] = n] /\ nadd' = nadd + 1
                 /\ UNCHANGED <<dvars, rvars, cvars, panicked>>
AddLocked(p) ==
  LET n == aname[p] IN
  /\ apc[p] = "checked" /\ lock = "free"
  /\ IF Fixed /\ stopped THEN /\ apc' = [apc EXCEPT ![p] = "idle"] /\ UNCHANGED <<dvars, panicked>>       \* re-check under the lock
     ELSE IF inmap[n] /\ ~running THEN /\ apc' = [apc EXCEPT ![p] = "idle"] /\ UNCHANGED <<dvars, panicked>>       \* ErrDuplicate
     ELSE IF inmap[n] /\ wrunning[n] THEN /\ apc' = [apc EXCEPT ![p] = "idle"] /\ UNCHANGED <<dvars, panicked>>    \* still running
     ELSE IF cleared THEN /\ panicked' = TRUE /\ apc' = [apc EXCEPT ![p] = "dead"] /\ UNCHANGED dvars                \* assignment to entry in nil map
     ELSE /\ lock' = p /\ apc' = [apc EXCEPT ![p] = "inserted"]
          /\ inmap' = [inmap EXCEPT ![n] = TRUE] /\ cancelled' = [cancelled EXCEPT ![n] = FALSE]
          /\ wrunning' = [wrunning EXCEPT ![n] = FALSE]
          /\ list' = Insert(Remove(list, n), n) /\ wgx' = wgx \cup {OrdOf(n)}
          /\ UNCHANGED <<stopped, running, wg, cleared, phase, panicked>>
  /\ UNCHANGED <<aname, nadd, rvars, cvars>>
AddStart(p) == /\ apc[p] = "inserted" /\ lock = p
               /\ IF running THEN StartWorker(aname[p]) ELSE UNCHANGED <<wg, wrunning, phase>>
               /\ lock' = "free" /\ apc' = [apc EXCEPT ![p] = "idle"]
               /\ UNCHANGED <<stopped, running, inmap, cancelled, list, wgx, cleared, aname, nadd, rvars, cvars, panicked>>

(* --------------------------------- Start / Run --------------------------------- *)
StartCall == /\ rpc = "idle"
             /\ rpc' = IF stopped THEN (IF UseRun THEN "snap" ELSE "ret") ELSE "checked"
             /\ UNCHANGED <<dvars, avars, rsnap, rcur, runBad, cvars, panicked>>
StartLocked == /\ rpc = "checked" /\ lock = "free"
               /\ IF (Fixed /\ stopped) \/ running THEN UNCHANGED <<running, wg, wrunning, phase>>
                  ELSE /\ running' = TRUE
                       /\ wg' = [o \in Orders |-> wg[o] + Cardinality({n \in Names : inmap[n] /\ OrdOf(n) = o})]
                       /\ wrunning' = [n \in Names |-> inmap[n] \/ wrunning[n]]
                       /\ phase' = [n \in Names |-> IF inmap[n] THEN "handler" ELSE phase[n]]
               /\ rpc' = IF UseRun THEN "snap" ELSE "ret"
               /\ UNCHANGED <<stopped, lock, inmap, cancelled, list, wgx, cleared, avars, rsnap, rcur, runBad, cvars, panicked>>
RunSnap == /\ rpc = "snap" /\ lock = "free" /\ rsnap' = wgx /\ rpc' = "wait"
           /\ UNCHANGED <<dvars, avars, rcur, runBad, cvars, panicked>>
RunPick == /\ rpc = "wait" /\ rcur = 99 /\ rsnap # {} /\ rcur' \in rsnap            \* map iteration order: any
           /\ UNCHANGED <<dvars, avars, rpc, rsnap, runBad, cvars, panicked>>
RunWaited == /\ rpc = "wait" /\ rcur # 99 /\ wg[rcur] = 0
             /\ IF Variant = "sync_waitgroup" THEN rpc' = "woken" /\ UNCHANGED <<rsnap, rcur>>      \* the semaphore was released ...
                ELSE rsnap' = rsnap \ {rcur} /\ rcur' = 99 /\ UNCHANGED rpc
             /\ UNCHANGED <<dvars, avars, runBad, cvars, panicked>>
(* ... and when the waiter runs again, sync.WaitGroup.Wait panics if the counter was incremented meanwhile ("reused before previous Wait has returned") *)
RunWoken == /\ rpc = "woken"
            /\ IF wg[rcur] # 0 THEN panicked' = TRUE /\ rpc' = "dead" /\ UNCHANGED <<rsnap, rcur>>
               ELSE rsnap' = rsnap \ {rcur} /\ rcur' = 99 /\ rpc' = "wait" /\ UNCHANGED panicked
            /\ UNCHANGED <<dvars, avars, runBad, cvars>>
RunCheck == /\ rpc = "wait" /\ rcur = 99 /\ rsnap = {}
            /\ IF Variant = "run_snapshot" THEN rpc' = "ret" /\ runBad' = (AliveH # {})
               ELSE /\ lock = "free"                                                     \* GetRunningBackgroundWorkers (RLock)
                    /\ IF \E i \in DOMAIN list : wrunning[list[i]] THEN rpc' = "snap" /\ UNCHANGED runBad
                       ELSE rpc' = "ret" /\ runBad' = (AliveH # {})
            /\ UNCHANGED <<dvars, avars, rsnap, rcur, cvars, panicked>>

(* ------------------------- Shutdown / ShutdownAndWait ------------------------- *)
CallOnce(c) == /\ cpc[c] = "idle"
               /\ IF once = "no" THEN once' = "running" /\ cpc' = [cpc EXCEPT ![c] = "setstop"]
                  ELSE UNCHANGED once /\ cpc' = [cpc EXCEPT ![c] = "blocked"]
               /\ UNCHANGED <<dvars, avars, rvars, snapMap, snapList, idx, prev, tgt, panicked>>
Unblock(c) == /\ cpc[c] = "blocked" /\ once = "done" /\ cpc' = [cpc EXCEPT ![c] = "ret"]
              /\ UNCHANGED <<dvars, avars, rvars, once, snapMap, snapList, idx, prev, tgt, panicked>>
SetStopped(c) == /\ cpc[c] = "setstop" /\ (Fixed => lock = "free")
                 /\ stopped' = TRUE /\ cpc' = [cpc EXCEPT ![c] = "chkrun"]
                 /\ UNCHANGED <<running, lock, inmap, wrunning, cancelled, list, wgx, wg, cleared, phase, avars, rvars,
                                once, snapMap, snapList, idx, prev, tgt, panicked>>
ChkRun(c) == /\ cpc[c] = "chkrun"
             /\ IF running THEN cpc' = [cpc EXCEPT ![c] = "snapshot"] /\ UNCHANGED once
                ELSE cpc' = [cpc EXCEPT ![c] = "ret"] /\ once' = "done"
             /\ UNCHANGED <<dvars, avars, rvars, snapMap, snapList, idx, prev, tgt, panicked>>
Snapshot(c) == /\ cpc[c] = "snapshot" /\ lock = "free"
               /\ snapMap' = {n \in Names : inmap[n]} /\ snapList' = list /\ idx' = 1
               /\ prev' = IF list = <<>> THEN 0 ELSE OrdOf(list[1])
               /\ cpc' = [cpc EXCEPT ![c] = IF list = <<>> THEN "setrun" ELSE "walk"]
               /\ UNCHANGED <<dvars, avars, rvars, once, tgt, panicked>>
Lower(o, p) == IF Variant = "cmp_gt" THEN o > p ELSE o < p
Walk(c) ==
  /\ cpc[c] = "walk"
  /\ IF idx > Len(snapList) THEN /\ cpc' = [cpc EXCEPT ![c] = "waitlast"] /\ UNCHANGED <<cancelled, idx, tgt, panicked>>
     ELSE LET n == snapList[idx] IN
          IF n \notin snapMap THEN /\ panicked' = TRUE /\ cpc' = [cpc EXCEPT ![c] = "dead"] /\ UNCHANGED <<cancelled, idx, tgt>>    \* nil worker
          ELSE IF ~wrunning[n] THEN /\ cancelled' = [cancelled EXCEPT ![n] = TRUE] /\ idx' = idx + 1 /\ UNCHANGED <<cpc, tgt, panicked>>
          ELSE IF Lower(OrdOf(n), prev)
            THEN /\ cpc' = [cpc EXCEPT ![c] = "waitprev"] /\ tgt' = (IF Variant = "wait_current" THEN OrdOf(n) ELSE prev)
                 /\ UNCHANGED <<cancelled, idx, panicked>>
            ELSE /\ cancelled' = [cancelled EXCEPT ![n] = TRUE] /\ idx' = idx + 1 /\ UNCHANGED <<cpc, tgt, panicked>>
  /\ UNCHANGED <<stopped, running, lock, inmap, wrunning, list, wgx, wg, cleared, phase, avars, rvars, once, snapMap, snapList, prev>>
WaitPrev(c) == /\ cpc[c] = "waitprev" /\ wg[tgt] = 0
               /\ prev' = OrdOf(snapList[idx]) /\ cancelled' = [cancelled EXCEPT ![snapList[idx]] = TRUE] /\ idx' = idx + 1
               /\ cpc' = [cpc EXCEPT ![c] = "walk"]
               /\ UNCHANGED <<stopped, running, lock, inmap, wrunning, list, wgx, wg, cleared, phase, avars, rvars, once, snapMap, snapList, tgt, panicked>>
WaitLast(c) == /\ cpc[c] = "waitlast" /\ wg[prev] = 0 /\ cpc' = [cpc EXCEPT ![c] = "setrun"]
               /\ UNCHANGED <<dvars, avars, rvars, once, snapMap, snapList, idx, prev, tgt, panicked>>
SetRun(c) == /\ cpc[c] = "setrun" /\ running' = FALSE /\ cpc' = [cpc EXCEPT ![c] = "clear"]
             /\ UNCHANGED <<stopped, lock, inmap, wrunning, cancelled, list, wgx, wg, cleared, phase, avars, rvars, once, snapMap, snapList, idx, prev, tgt, panicked>>
Clear(c) == /\ cpc[c] = "clear" /\ lock = "free"
            /\ cleared' = TRUE /\ inmap' = [n \in Names |-> FALSE] /\ list' = <<>> /\ wgx' = {}
            /\ once' = "done" /\ cpc' = [cpc EXCEPT ![c] = "ret"]
            /\ UNCHANGED <<stopped, running, lock, wrunning, cancelled, wg, phase, avars, rvars, snapMap, snapList, idx, prev, tgt, panicked>>

(* ------------------------------ worker goroutines ------------------------------ *)
ReturnCancelled(n) == /\ phase[n] = "handler" /\ cancelled[n] /\ phase' = [phase EXCEPT ![n] = "returned"]
                      /\ UNCHANGED <<stopped, running, lock, inmap, wrunning, cancelled, list, wgx, wg, cleared, avars, rvars, cvars, panicked>>
ReturnEarly(n) == /\ EarlyReturn /\ phase[n] = "handler" /\ ~cancelled[n] /\ phase' = [phase EXCEPT ![n] = "returned"]
                  /\ UNCHANGED <<stopped, running, lock, inmap, wrunning, cancelled, list, wgx, wg, cleared, avars, rvars, cvars, panicked>>
WgDone(n) == /\ phase[n] = "returned" /\ wg' = [wg EXCEPT ![OrdOf(n)] = @ - 1] /\ phase' = [phase EXCEPT ![n] = "wgdone"]
             /\ UNCHANGED <<stopped, running, lock, inmap, wrunning, cancelled, list, wgx, cleared, avars, rvars, cvars, panicked>>
Cleanup(n) == /\ phase[n] = "wgdone" /\ lock = "free"
              /\ IF stopped THEN UNCHANGED <<inmap, list>>
                 ELSE inmap' = [inmap EXCEPT ![n] = FALSE] /\ list' = Remove(list, n)
              /\ wrunning' = [wrunning EXCEPT ![n] = FALSE] /\ phase' = [phase EXCEPT ![n] = "none"]
              /\ UNCHANGED <<stopped, running, lock, cancelled, wgx, wg, cleared, avars, rvars, cvars, panicked>>

Next == \/ \E p \in Adders : (\E n \in Names : AddCall(p, n)) \/ AddLocked(p) \/ AddStart(p)
        \/ StartCall \/ StartLocked \/ RunSnap \/ RunPick \/ RunWaited \/ RunWoken \/ RunCheck
        \/ \E c \in Callers : CallOnce(c) \/ Unblock(c) \/ SetStopped(c) \/ ChkRun(c) \/ Snapshot(c) \/ Walk(c) \/ WaitPrev(c)
                              \/ WaitLast(c) \/ SetRun(c) \/ Clear(c)
        \/ \E n \in Names : ReturnCancelled(n) \/ ReturnEarly(n) \/ WgDone(n) \/ Cleanup(n)
Fair == /\ \A p \in Adders : WF_vars(AddLocked(p)) /\ WF_vars(AddStart(p))
        /\ WF_vars(StartLocked)
        /\ \A c \in Callers : /\ WF_vars(Unblock(c)) /\ WF_vars(SetStopped(c)) /\ WF_vars(ChkRun(c)) /\ WF_vars(Snapshot(c))
                              /\ WF_vars(Walk(c)) /\ WF_vars(WaitPrev(c)) /\ WF_vars(WaitLast(c)) /\ WF_vars(SetRun(c)) /\ WF_vars(Clear(c))
        /\ \A n \in Names : WF_vars(ReturnCancelled(n)) /\ WF_vars(WgDone(n)) /\ WF_vars(Cleanup(n))
Spec == Init /\ [][Next]_vars /\ Fair

(* --------------------------------- properties --------------------------------- *)
TypeOK == /\ \A o \in Orders : wg[o] \in 0..Cardinality(Names)
          /\ lock \in {"free"} \cup Adders
NoPanic == ~panicked
(* no worker's context is cancelled while a started worker of a higher order has not returned *)
CancelOrder == \A n \in AliveH, m \in AliveH : ~(cancelled[n] /\ OrdOf(m) > OrdOf(n))
(* equal orders are cancelled together: the walk never waits in between *)
TiesTogether == \A c \in Callers : cpc[c] \in {"waitprev", "waitlast"} =>
                   \A n \in AliveH, m \in AliveH : (OrdOf(n) = OrdOf(m) /\ n \in snapMap /\ m \in snapMap) => cancelled[n] = cancelled[m]
(* ShutdownAndWait returns only after every started worker returned - and nothing is started afterwards *)
ShutdownWaits == \A c \in Callers : cpc[c] = "ret" => AliveH = {}
(* Run returns only when every started worker has returned *)
RunWaits == ~runBad
(* the shutdown always completes once the cancelled workers return *)
Terminates == (once = "running") ~> (once = "done")
=============================================================================
