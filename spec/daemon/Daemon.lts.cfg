CONSTANTS
  Names = {1, 2, 3}
  OrderIdx = {1, 4}
  Waiters = {1, 2}
  MaxAdds = 3
  LateSets = {{}, {1, 2, 3}}
  HoldNames = {3}
  HoldStart = TRUE
INVARIANTS TypeOK CancelOrder TiesTogether WalkJustified ReturnsSound WaitersJustified
