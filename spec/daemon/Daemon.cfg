CONSTANTS
  Names = {1, 2, 3}
  OrderIdx = {1, 2, 4}
  Waiters = {1, 2}
  MaxAdds = 3
  LateSets = {{}, {1, 2, 3}, {2, 3}}
  HoldNames = {3}
  HoldStart = TRUE
VIEW FullView
INVARIANTS TypeOK CancelOrder CancelOrderInStep TiesTogether WalkJustified ReturnsSound WaitersJustified NoStartAfterShutdown RunningNameRefused
