CONSTANTS
  MaxK = 3
INVARIANTS NoTwins ShutdownWaited
