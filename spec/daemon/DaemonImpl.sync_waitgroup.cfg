SPECIFICATION Spec
CONSTANTS
  Names = {"a", "b"}
  Adders = {"p1"}
  Callers = {"c1"}
  MaxAdds = 2
  UseRun = TRUE
  EarlyReturn = TRUE
  Variant = "sync_waitgroup"
INVARIANTS TypeOK NoPanic CancelOrder TiesTogether ShutdownWaits RunWaits
PROPERTIES Terminates
