SPECIFICATION Spec
CONSTANTS
  Names = {"a", "b", "c"}
  Adders = {"p1", "p2"}
  Callers = {"c1", "c2"}
  MaxAdds = 3
  UseRun = TRUE
  EarlyReturn = TRUE
  Variant = "code"
INVARIANTS TypeOK NoPanic CancelOrder TiesTogether ShutdownWaits RunWaits
PROPERTIES Terminates
