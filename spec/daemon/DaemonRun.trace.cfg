CONSTANTS
  MaxK = 64
INVARIANTS NoTwins
