CONSTANTS
  Names = {1, 2, 3, 4}
  OrderIdx = {1, 2, 3, 4}
  Waiters = {1, 2}
  MaxAdds = 8
  LateSets = {{}, {1, 2, 3, 4}, {1}, {2, 3}, {1, 3}, {4}, {2, 4}}
  HoldNames = {1, 2, 3, 4}
  HoldStart = TRUE
INVARIANTS TypeOK CancelOrder TiesTogether WalkJustified ReturnsSound WaitersJustified
