------------------------------- MODULE Daemon -------------------------------
(* app/daemon.OrderedDaemon at the level of its API, observed at quiescent points (property C20).  *)
(* One stimulus = one call is started (BackgroundWorker / Start / Shutdown on an auxiliary thread,   *)
(* the blocking calls ShutdownAndWait / Run on a harness thread t) or one parked worker handler is   *)
(* released; the step lasts until every goroutine of the process is parked.                          *)
(* Worker handlers are gates: a handler parks when it is started (select on ctx.Done() and on a      *)
(* "return now" signal).  When it observes the cancellation it records it (wseen) and either returns *)
(* at once ("prompt") or parks again until the harness releases it ("late", cfg.late); Release of a  *)
(* handler that was not cancelled = the worker returns early.                                        *)
(* C20: no worker's context is cancelled until every STARTED worker of a higher order has RETURNED;  *)
(* equal orders are cancelled together; ShutdownAndWait and Run return only after every started     *)
(* worker returned; after shutdown nothing can be added or started; a running name is refused.       *)
EXTENDS Integers, Sequences, FiniteSets, SequencesExt, TLC

CONSTANTS Names,       \* worker names 1..N (the adapter calls them w1..wN)
          OrderIdx,    \* entries of OrderTab that may be used as shutdown orders
          Waiters,     \* harness threads for blocking / held calls
          MaxAdds,     \* bound on accepted BackgroundWorker calls in one behaviour
          LateSets,    \* the sets of "late" workers to explore (cfg.late)
          HoldNames,   \* names for which BackgroundWorker may be held at its yield point (after the IsStopped check)
          HoldStart    \* TRUE: Start may be held at its yield point (after the IsStopped check)

(* cfg files cannot hold negative numbers: the orders live here (ties arise from workers choosing the same entry) *)
OrderTab == <<-1, 0, 2, 5>>
Orders == {OrderTab[i] : i \in OrderIdx}

VARIABLES cfg,
          ds,      \* "new" | "running" | "stopping" (shutdown walking down the orders) | "stopped"
          ph,      \* name -> "none" | "reg" (registered, daemon not started) | "run" (handler parked, not cancelled) | "seen" (cancelled, late, parked)
          ord,     \* name -> shutdown order (0 when ph = "none")
          wait,    \* thread -> "none" | "saw" (ShutdownAndWait) | "run" (Run) | "add" / "start" (held at the yield point)
          nadd,    \* accepted BackgroundWorker calls
          held,    \* the held call: <<"none" | "add" | "start", w, o>>
          pre,     \* history: ds / ph / ord / held name before the last step (states the step properties as invariants)
          ev
vars == <<cfg, ds, ph, ord, wait, nadd, held, pre, ev>>
FullView == vars     \* (exhaustive runs compare whole states: the invariants below read ev and pre)
View == <<cfg, ds, ph, ord, wait, nadd, held>>

SSeq(S) == SetToSortSeq(S, <)
Cfgs == {[late |-> SSeq(L), names |-> Cardinality(Names)] : L \in LateSets}
Late(c, w) == \E i \in DOMAIN c.late : c.late[i] = w
NoHeld == <<"none", 0, 0>>     \* (a tuple, not a record: TLC prints unnormalised records with another field order, which would split LTS state ids)
AliveOf(p) == {w \in Names : p[w] \in {"run", "seen"}}
Alive == AliveOf(ph)
Stopped(d) == d \in {"stopping", "stopped"}
MaxOrd(S, o) == CHOOSE m \in {o[w] : w \in S} : \A w \in S : o[w] <= m
PairSeq(P) == SetToSortSeq(P, LAMBDA p, q : p[1] < q[1] \/ (p[1] = q[1] /\ p[2] < q[2]))

Pre0 == [ds |-> "new", ph |-> [w \in Names |-> "none"], ord |-> [w \in Names |-> 0], hw |-> 0]
InitState(c) == /\ cfg = c /\ ds = "new" /\ ph = [w \in Names |-> "none"] /\ ord = [w \in Names |-> 0]
                /\ wait = [t \in Waiters |-> "none"] /\ nadd = 0 /\ held = NoHeld /\ pre = Pre0
Init == \E c \in Cfgs : InitState(c) /\ ev = [op |-> "reset", cfg |-> c]

(* ---- the shutdown walk: while nobody that was cancelled is still running, cancel ALL started workers of the ---- *)
(* ---- highest remaining order together; prompt ones return at once, late ones stay parked ("seen")           ---- *)
RECURSIVE Settle(_, _, _)
Settle(c, o, s) ==
  IF \E w \in Names : s.ph[w] = "seen" THEN s
  ELSE IF AliveOf(s.ph) = {} THEN s
  ELSE LET top == MaxOrd(AliveOf(s.ph), o)
           lvl == {w \in AliveOf(s.ph) : o[w] = top}
       IN Settle(c, o, [ph   |-> [w \in Names |-> IF w \in lvl THEN (IF Late(c, w) THEN "seen" ELSE "none") ELSE s.ph[w]],
                        seen |-> s.seen \cup lvl,
                        ret  |-> s.ret \cup {w \in lvl : ~Late(c, w)}])

St(d, p, o, wt) ==
  [isRunning |-> d \in {"running", "stopping"}, isStopped |-> Stopped(d),
   running |-> SetToSortSeq(AliveOf(p), LAMBDA a, b : o[a] < o[b] \/ (o[a] = o[b] /\ a < b)),   \* GetRunningBackgroundWorkers: ascending order (ties by name)
   w |-> [i \in 1..Cardinality(Names) |-> IF p[i] \in {"run", "seen"} THEN p[i] ELSE "-"],
   blocked |-> SSeq({t \in Waiters : wt[t] # "none"})]

(* common tail of every step: state right after the call's own effect -> cascade -> who returns *)
Finish(s, d1, p1, o1, w1, r, wret0) ==
  LET s0 == [ph |-> p1, seen |-> {}, ret |-> wret0]
      c  == IF d1 = "stopping" THEN Settle(cfg, o1, s0) ELSE s0
      d2 == IF d1 = "stopping" /\ AliveOf(c.ph) = {} THEN "stopped" ELSE d1
      p2 == IF d2 = "stopped" THEN [w \in Names |-> "none"] ELSE c.ph
      o2 == [w \in Names |-> IF p2[w] = "none" THEN 0 ELSE o1[w]]
      rets == {t \in Waiters : \/ w1[t] = "saw" /\ d2 = "stopped"
                               \/ w1[t] = "run" /\ AliveOf(p2) = {}}
      w2 == [t \in Waiters |-> IF t \in rets THEN "none" ELSE w1[t]]
  IN /\ ds' = d2 /\ ph' = p2 /\ ord' = o2 /\ wait' = w2
     /\ pre' = [ds |-> ds, ph |-> ph, ord |-> ord, hw |-> held[2]]
     /\ ev' = [s EXCEPT !.res = [r |-> r, ret |-> SSeq(rets), wseen |-> SSeq(c.seen), wret |-> SSeq(c.ret),
                                 \* "return of v was observed before cancellation of w" for every pair of different order in this step
                                 hb |-> PairSeq({<<v, w>> \in c.ret \X c.seen : o1[v] > o1[w]})],
                        !.st = St(d2, p2, o2, w2)]

E(s) == s @@ [res |-> 0, st |-> 0]
Free(t) == wait[t] = "none" /\ \A x \in Waiters : x < t => wait[x] # "none"     \* canonical: the lowest free thread is used
(* exploration is restricted to canonical uses (names are interchangeable, a refusal does not depend on the order):      *)
(* a name is registered only while all smaller names are in use; calls on a stopped daemon use the smallest order only   *)
MinOrder == CHOOSE m \in Orders : \A o \in Orders : m <= o
Calm == held = NoHeld          \* while a call is held only Shutdown / ShutdownAndWait / Release / the end of the held call are explored
Canon(w, o) == IF Stopped(ds) THEN o = MinOrder ELSE \A v \in Names : v < w => ph[v] # "none"

(* BackgroundWorker(w, o) evaluated in the current state *)
AddEffect(s, w, o, w1) ==
  IF Stopped(ds) THEN nadd' = nadd /\ Finish(s, ds, ph, ord, w1, "stopped", {})
  ELSE IF ds = "new"
    THEN IF ph[w] = "reg" THEN nadd' = nadd /\ Finish(s, ds, ph, ord, w1, "duplicate", {})
         ELSE nadd' = nadd + 1 /\ Finish(s, ds, [ph EXCEPT ![w] = "reg"], [ord EXCEPT ![w] = o], w1, "ok", {})
    ELSE IF ph[w] = "run" THEN nadd' = nadd /\ Finish(s, ds, ph, ord, w1, "stillRunning", {})
         ELSE nadd' = nadd + 1 /\ Finish(s, ds, [ph EXCEPT ![w] = "run"], [ord EXCEPT ![w] = o], w1, "ok", {})   \* started at once
StartEffect(s, w1) ==
  IF ds = "new" THEN Finish(s, "running", [w \in Names |-> IF ph[w] = "reg" THEN "run" ELSE ph[w]], ord, w1, "", {})
  ELSE Finish(s, ds, ph, ord, w1, "", {})
ShutdownEffect(s, w1) ==
  IF ds = "new" THEN Finish(s, "stopped", [w \in Names |-> "none"], ord, w1, "", {})      \* never started: nothing ever starts
  ELSE IF ds = "running" THEN Finish(s, "stopping", ph, ord, w1, "", {})
  ELSE Finish(s, ds, ph, ord, w1, "", {})

Do(s0) ==
  LET s == IF s0.op = "reset" THEN s0 ELSE E(s0) IN
  CASE s.op = "reset" -> /\ cfg' = s.cfg /\ ds' = "new" /\ ph' = [w \in Names |-> "none"] /\ ord' = [w \in Names |-> 0]
                         /\ wait' = [t \in Waiters |-> "none"] /\ nadd' = 0 /\ held' = NoHeld /\ pre' = Pre0 /\ ev' = s
    [] s.op = "Add" ->           \* BackgroundWorker(name w, order o) on the auxiliary thread
         /\ UNCHANGED <<cfg, held>> /\ (nadd < MaxAdds \/ Stopped(ds)) /\ Canon(s.w, s.o) /\ Calm /\ AddEffect(s, s.w, s.o, wait)
    [] s.op = "Start" -> /\ UNCHANGED <<cfg, held, nadd>> /\ Calm /\ StartEffect(s, wait)
    [] s.op = "Shutdown" -> /\ UNCHANGED <<cfg, held, nadd>> /\ ShutdownEffect(s, wait)      \* asynchronous
    [] s.op = "SAW" ->           \* ShutdownAndWait on thread t
         /\ UNCHANGED <<cfg, held, nadd>> /\ Free(s.t) /\ ShutdownEffect(s, [wait EXCEPT ![s.t] = "saw"])
    [] s.op = "Run" ->           \* Run on thread t = Start, then wait for every started worker
         /\ UNCHANGED <<cfg, held, nadd>> /\ Free(s.t) /\ Calm /\ StartEffect(s, [wait EXCEPT ![s.t] = "run"])
    [] s.op = "Release" ->       \* the harness lets the handler of w return (early if it was not cancelled, late otherwise)
         /\ UNCHANGED <<cfg, held, nadd>> /\ ph[s.w] \in {"run", "seen"}
         /\ Finish(s, ds, [ph EXCEPT ![s.w] = "none"], ord, wait, "", {s.w})
    [] s.op = "AddBegin" ->      \* BackgroundWorker held by the harness right after its IsStopped check
         \* (explored for a running daemon only: that is where a shutdown can overtake the call)
         /\ UNCHANGED <<cfg, nadd>> /\ Free(s.t) /\ held = NoHeld /\ nadd < MaxAdds /\ s.w \in HoldNames /\ ds = "running"
         /\ held' = <<"add", s.w, s.o>>
         /\ Finish(s, ds, ph, ord, [wait EXCEPT ![s.t] = "add"], "", {})
    [] s.op = "AddEnd" ->        \* the held call goes on: it takes effect (or is refused) NOW
         /\ UNCHANGED cfg /\ wait[s.t] = "add" /\ held' = NoHeld
         /\ AddEffect(s, held[2], held[3], [wait EXCEPT ![s.t] = "none"])
    [] s.op = "StartBegin" ->    \* Start held right after its IsStopped check
         \* (explored for a daemon that was not started yet)
         /\ UNCHANGED <<cfg, nadd>> /\ Free(s.t) /\ held = NoHeld /\ HoldStart /\ ds = "new"
         /\ held' = <<"start", 0, 0>>
         /\ Finish(s, ds, ph, ord, [wait EXCEPT ![s.t] = "start"], "", {})
    [] s.op = "StartEnd" ->
         /\ UNCHANGED <<cfg, nadd>> /\ wait[s.t] = "start" /\ held' = NoHeld
         /\ StartEffect(s, [wait EXCEPT ![s.t] = "none"])

Stimuli == [op : {"Add"}, w : Names, o : Orders] \cup [op : {"Start", "Shutdown"}]
           \cup [op : {"SAW", "Run", "AddEnd", "StartBegin", "StartEnd"}, t : Waiters]
           \cup [op : {"Release"}, w : Names] \cup [op : {"AddBegin"}, t : Waiters, w : Names, o : Orders]
Next == \E s \in Stimuli : Do(s)
Spec == Init /\ [][Next]_vars

(* ------------------------------- the property, on the model ------------------------------- *)
TypeOK == /\ ds \in {"new", "running", "stopping", "stopped"}
          /\ \A w \in Names : ph[w] \in {"none", "reg", "run", "seen"}
          /\ (ds = "new" => Alive = {}) /\ (ds # "new" => \A w \in Names : ph[w] # "reg")
          /\ (ds # "stopping" => \A w \in Names : ph[w] # "seen")
(* no worker's context is cancelled until every started worker of a higher order has returned *)
CancelOrder == \A w \in Names : ph[w] = "seen" => \A v \in Alive : ord[v] <= ord[w]
(* ... also inside one step: two workers of different order are cancelled in one step only if the higher one returned in it *)
InSeq(q, x) == \E i \in DOMAIN q : q[i] = x
CancelOrderInStep == ev.op # "reset" =>
                       \A a \in Names, b \in Names :
                          (InSeq(ev.res.wseen, a) /\ InSeq(ev.res.wseen, b) /\ pre.ord[a] > pre.ord[b]) => InSeq(ev.res.wret, a)
(* workers of equal order are cancelled together *)
TiesTogether == \A w \in Names : ph[w] = "seen" => \A v \in Alive : ord[v] = ord[w] => ph[v] = "seen"
(* a shutdown in progress is waiting for somebody that was cancelled (it never idles, never skips the wait) *)
WalkJustified == ds = "stopping" => \E w \in Names : ph[w] = "seen"
(* ShutdownAndWait / Run return only after every started worker returned, and do return then *)
ReturnsSound == ev.op # "reset" => (ev.res.ret # <<>> => Alive = {})
WaitersJustified == \A t \in Waiters : /\ wait[t] = "saw" => ds = "stopping"
                                       /\ wait[t] = "run" => Alive # {}
                                       /\ wait[t] \in {"add", "start"} => held[1] = wait[t]
(* after shutdown no worker can be added or started; a still running name is never started twice *)
NoStartAfterShutdown == (ev.op # "reset" /\ Stopped(pre.ds)) => \A w \in Names : ph[w] = "run" => pre.ph[w] = "run"
RunningNameRefused == (ev.op \in {"Add", "AddEnd"} /\ ev.res.r = "ok") =>
                        LET w == IF ev.op = "Add" THEN ev.w ELSE pre.hw IN pre.ph[w] \notin {"run", "seen"} /\ ph[w] \in {"reg", "run"}
=============================================================================
