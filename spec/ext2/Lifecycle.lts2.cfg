CONSTANTS
  Scope = "lts2"
INVARIANTS TypeOK AtMostOnce ExactlyOnce SimpleLifecycle WaitAllIff LogDetach
