CONSTANTS
  Scope = "trace"
INVARIANTS TypeOK
