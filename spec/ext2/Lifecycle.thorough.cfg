CONSTANTS
  Scope = "thorough"
INVARIANTS TypeOK AtMostOnce ExactlyOnce SimpleLifecycle WaitAllIff LogDetach
PROPERTIES Monotone TrueOnce NoPropagation
VIEW MCView
