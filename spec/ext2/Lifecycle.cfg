CONSTANTS
  Scope = "mc"
INVARIANTS TypeOK AtMostOnce ExactlyOnce SimpleLifecycle WaitAllIff LogDetach
PROPERTIES Monotone TrueOnce NoPropagation
VIEW MCView
