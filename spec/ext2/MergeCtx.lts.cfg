CONSTANTS
  Scope = "lts"
INVARIANTS TypeOK DoneIff ErrCause NoExpiryStd
