------------------------------- MODULE LifeRun -------------------------------
(* Trace specification for CONCURRENT executions of runtime/module (work id X2): a few modules (a root and its       *)
(* sub-modules); goroutines trigger lifecycle events (Trigger / TriggerAll), register and unsubscribe callbacks,      *)
(* call InitSimpleLifecycle, WaitAll (+ OnTrigger and Wait on the returned group) and read WasTriggered, free-running  *)
(* or through forced schedules (gate callbacks hold a Trigger in flight while other calls are made).                  *)
(* The driver (harness/sut/ext2/liferun.go) appends to ONE log under a mutex: "..b" before a call, "..e" after it       *)
(* returned, callback events inside the callback, reads while holding the log mutex.  Guards = the contract:          *)
(*   Trigger returns true at most once per event, and false only if something else triggers the event too;            *)
(*   a callback runs at most once, never before something began to trigger its event, never if its unsubscribe         *)
(*   function returned before that; the Trigger that returned true has run every callback whose OnTrigger had          *)
(*   returned (and whose unsubscribe was not called) before it began; OnTrigger on an event known to be triggered      *)
(*   has run the callback when it returns; WasTriggered is monotone, true only with a cause, and true once a           *)
(*   triggering call returned; the custom shutdown function runs at most once and only for a shutdown; a wait          *)
(*   group triggers (callback, Wait returning) only when all its modules have a cause; at the end (quiescent):         *)
(*   flags = causes, every live callback of a triggered event ran exactly once, default lifecycle: shutdown =>         *)
(*   stopped, custom: function ran iff shutdown, wait groups: triggered iff all flags, pending = the unflagged.        *)
EXTENDS Integers, Sequences, FiniteSets, TLC

VARIABLES cfg, S, ev
vars == <<cfg, S, ev>>
View == <<cfg, S>>
Scenarios == {"free", "free1", "shutdownHeld", "constructHeld"}
Cfgs == [sc : Scenarios]
E == 1..4

Start == [TB |-> {}, OC |-> {}, IB |-> {}, IE |-> {}, TRUES |-> {}, KNOWN |-> {},
          OB |-> {}, OE |-> {}, PRE |-> {}, RAN |-> {}, UB |-> {}, NEVER |-> {}, MUST |-> {},
          SD |-> {}, WB |-> {}, WE |-> {}, WT |-> {}]
Init == /\ cfg \in Cfgs /\ S = Start /\ ev = [op |-> "reset", cfg |-> cfg]

ToSetS(q) == {q[i] : i \in DOMAIN q}
Direct(m, e) == (\E t \in S.TB : t[2] = m /\ t[3] = e) \/ <<m, e>> \in S.OC
LifeMode(m) == IF \E p \in S.IB : p[1] = m THEN (CHOOSE p \in S.IB : p[1] = m)[2] ELSE 0
(* something has begun that triggers event e of module m (the default lifecycle derives Stopped from Shutdown) *)
Caused(m, e) == Direct(m, e) \/ (e = 4 /\ LifeMode(m) = 1 /\ Direct(m, 3))
SrcOf(c) == CHOOSE p \in S.OB : p[1] = c
Src(c) == <<SrcOf(c)[2], SrcOf(c)[3]>>
WgOf(k) == CHOOSE p \in S.WB : p[1] = k
Flag(f, m, e) == f[m][e]

Do(s) ==
  CASE s.op = "reset" -> cfg' = s.cfg /\ S' = Start /\ ev' = s
    [] s.op = "panic" -> FALSE /\ UNCHANGED vars
    [] s.op = "tb" ->           \* Trigger number s.id of event s.e of module s.m is about to be called
         /\ UNCHANGED cfg /\ ev' = s
         /\ S' = [S EXCEPT !.TB = @ \cup {<<s.id, s.m, s.e>>},
                           !.MUST = @ \cup {<<s.id, c>> : c \in {c \in S.OE : Src(c) = <<s.m, s.e>> /\ c \notin S.UB}}]
    [] s.op = "te" ->           \* it returned s.r
         /\ <<s.id, s.m, s.e>> \in S.TB /\ UNCHANGED cfg /\ ev' = s
         /\ IF s.r THEN /\ <<s.m, s.e>> \notin S.TRUES                                              \* true at most once
                        /\ \A p \in S.MUST : p[1] = s.id => (p[2] \in S.RAN \/ p[2] \in S.UB)      \* it ran what it had to run
                ELSE \/ \E t \in S.TB : t[1] # s.id /\ t[2] = s.m /\ t[3] = s.e                     \* false: somebody else triggers it
                     \/ <<s.m, s.e>> \in S.OC \/ (s.e = 4 /\ LifeMode(s.m) = 1 /\ Direct(s.m, 3))
         /\ S' = [S EXCEPT !.TRUES = IF s.r THEN @ \cup {<<s.m, s.e>>} ELSE @, !.KNOWN = @ \cup {<<s.m, s.e>>}]
    [] s.op = "xb" ->           \* some other call that triggers event s.e of module s.m begins (TriggerAll, a callback, a shutdown function)
         /\ UNCHANGED cfg /\ ev' = s /\ S' = [S EXCEPT !.OC = @ \cup {<<s.m, s.e>>}]
    [] s.op = "xe" ->           \* and has returned
         /\ <<s.m, s.e>> \in S.OC /\ UNCHANGED cfg /\ ev' = s /\ S' = [S EXCEPT !.KNOWN = @ \cup {<<s.m, s.e>>}]
    [] s.op = "ib" ->           \* InitSimpleLifecycle(module s.m) (mode 1 without, 2 with a shutdown function) is about to be called
         /\ LifeMode(s.m) = 0 /\ s.mode \in {1, 2} /\ UNCHANGED cfg /\ ev' = s
         /\ S' = [S EXCEPT !.IB = @ \cup {<<s.m, s.mode>>}, !.OC = @ \cup {<<s.m, 1>>, <<s.m, 2>>}]
    [] s.op = "ie" ->
         /\ LifeMode(s.m) # 0 /\ UNCHANGED cfg /\ ev' = s
         /\ S' = [S EXCEPT !.IE = @ \cup {s.m}, !.KNOWN = @ \cup {<<s.m, 1>>, <<s.m, 2>>}]
    [] s.op = "sd" ->           \* the shutdown function given to InitSimpleLifecycle runs (logged inside)
         /\ LifeMode(s.m) = 2 /\ s.m \notin S.SD /\ Direct(s.m, 3) /\ UNCHANGED cfg /\ ev' = s
         /\ S' = [S EXCEPT !.SD = @ \cup {s.m}]
    [] s.op = "ob" ->           \* OnTrigger(callback s.c) on event s.e of module s.m is about to be called
         /\ ~\E p \in S.OB : p[1] = s.c
         /\ UNCHANGED cfg /\ ev' = s
         /\ S' = [S EXCEPT !.OB = @ \cup {<<s.c, s.m, s.e>>}, !.PRE = IF <<s.m, s.e>> \in S.KNOWN THEN @ \cup {s.c} ELSE @]
    [] s.op = "oe" ->           \* it returned: if the event was known to be triggered when it was called, the callback has run
         /\ (\E p \in S.OB : p[1] = s.c) /\ (s.c \in S.PRE => s.c \in S.RAN)
         /\ UNCHANGED cfg /\ ev' = s /\ S' = [S EXCEPT !.OE = @ \cup {s.c}]
    [] s.op = "ub" -> /\ s.c \in S.OE /\ UNCHANGED cfg /\ ev' = s /\ S' = [S EXCEPT !.UB = @ \cup {s.c}]
    [] s.op = "ue" ->           \* unsubscribe returned: if nothing has begun to trigger the event, the callback must never run
         /\ s.c \in S.UB /\ UNCHANGED cfg /\ ev' = s
         /\ S' = [S EXCEPT !.NEVER = IF ~Caused(Src(s.c)[1], Src(s.c)[2]) /\ s.c \notin S.RAN THEN @ \cup {s.c} ELSE @]
    [] s.op = "cb" ->           \* callback s.c runs (logged inside)
         /\ (\E p \in S.OB : p[1] = s.c) /\ s.c \notin S.RAN /\ s.c \notin S.NEVER
         /\ Caused(Src(s.c)[1], Src(s.c)[2])
         /\ UNCHANGED cfg /\ ev' = s /\ S' = [S EXCEPT !.RAN = @ \cup {s.c}]
    [] s.op = "wb" ->           \* WaitAll(event s.e, modules s.ms) -> wait group s.k
         /\ ~\E p \in S.WB : p[1] = s.k
         /\ UNCHANGED cfg /\ ev' = s /\ S' = [S EXCEPT !.WB = @ \cup {<<s.k, s.e, ToSetS(s.ms)>>}]
    [] s.op = "we" -> /\ (\E p \in S.WB : p[1] = s.k) /\ UNCHANGED cfg /\ ev' = s /\ S' = [S EXCEPT !.WE = @ \cup {s.k}]
    [] s.op = "wt" ->           \* the group's OnTrigger callback runs / its Wait returned: every listed module has a cause
         /\ (\E p \in S.WB : p[1] = s.k) /\ (s.how = "cb" => <<s.k, "cb">> \notin S.WT)
         /\ \A m \in WgOf(s.k)[3] : Caused(m, WgOf(s.k)[2])
         /\ UNCHANGED cfg /\ ev' = s /\ S' = [S EXCEPT !.WT = @ \cup {<<s.k, s.how>>}]
    [] s.op = "rd" ->           \* WasTriggered of all events of module s.m, read while holding the log mutex
         /\ \A e \in E : (s.t[e] => Caused(s.m, e)) /\ (<<s.m, e>> \in S.KNOWN => s.t[e])
         /\ UNCHANGED <<cfg, S>> /\ ev' = s
    [] s.op = "final" ->        \* all goroutines joined; s.t[m][e] = WasTriggered, s.w[k] = <<triggered, pending>>
         /\ s.hung = <<>> /\ UNCHANGED <<cfg, S>> /\ ev' = s
         /\ \A m \in DOMAIN s.t : \A e \in E : s.t[m][e] <=> Caused(m, e)
         /\ \A c \in S.OE : LET src == Src(c) IN
                              IF s.t[src[1]][src[2]] THEN (c \notin S.UB => c \in S.RAN) ELSE c \notin S.RAN
         /\ \A m \in DOMAIN s.t : /\ (m \in S.IE /\ LifeMode(m) = 1 => (s.t[m][3] => s.t[m][4]))
                                  /\ (m \in S.IE /\ LifeMode(m) = 2 => (s.t[m][3] <=> m \in S.SD))
                                  /\ (m \in S.IE => s.t[m][1] /\ s.t[m][2])
         /\ \A m \in DOMAIN s.t : \A e \in E :        \* triggered by Trigger calls only: exactly one of them returned true
              (s.t[m][e] /\ <<m, e>> \notin S.OC /\ ~(e = 4 /\ LifeMode(m) = 1)) => <<m, e>> \in S.TRUES
         /\ \A k \in S.WE : LET w == WgOf(k)
                                pend == {m \in w[3] : ~s.t[m][w[2]]} IN
                            /\ s.w[k][1] = (pend = {}) /\ ToSetS(s.w[k][2]) = pend
                            /\ (<<k, "cb">> \in S.WT <=> pend = {})
(* sanity of what was accepted so far *)
TypeOK == /\ S.RAN \subseteq {p[1] : p \in S.OB} /\ S.RAN \cap S.NEVER = {}
          /\ \A c \in S.RAN : Caused(Src(c)[1], Src(c)[2])
          /\ \A p \in S.TRUES : Direct(p[1], p[2])
==============================================================================
