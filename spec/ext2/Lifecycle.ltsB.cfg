CONSTANTS
  Scope = "ltsB"
INVARIANTS TypeOK AtMostOnce ExactlyOnce SimpleLifecycle WaitAllIff LogDetach
