------------------------------- MODULE CtxRun -------------------------------
(* Trace specification for CONCURRENT executions of contextutils.MergeContexts (work id X2): one merged context   *)
(* over two parents A, B per trace; goroutines end the parents (cancel / deadline), call the merged cancel        *)
(* function, call MergeContexts itself and read (Done, Err) pairs, free-running or through forced schedules       *)
(* (the parents are hand-written contexts whose Done()/Err() methods, called by the code under test, are gates).  *)
(* The driver (harness/sut/ext2/ctxrun.go) appends to ONE log under a mutex: "..b" before a call, "..e" after it   *)
(* returned; a read performs its two loads while holding the log mutex, so reads are ordered exactly as logged     *)
(* and "x.e before rd" implies call x had returned before the read.  Each arm's guard is the contract:            *)
(*   no spurious cancellation; the error names a cause that has begun; Done closed <=> Err non-nil (in both read   *)
(*   orders); the error never changes; the cancel function is synchronous; a parent that was done before          *)
(*   MergeContexts was called gives a context that is done when it returns; at the end: done iff some cause, and   *)
(*   the helper goroutine is gone iff done.                                                                        *)
EXTENDS Integers, Sequences, FiniteSets, TLC

VARIABLES cfg, S, ev
vars == <<cfg, S, ev>>
View == <<cfg, S>>
Scenarios == {"free", "free1", "initcheck", "heldPrimary", "heldSecondary", "quiet"}
Cfgs == [sc : Scenarios, impl : {"std", "fake"}]

Start == [PB |-> {}, PE |-> {}, MB |-> FALSE, ME |-> FALSE, GB |-> FALSE, GE |-> FALSE, pre |-> FALSE, E |-> ""]
Init == /\ cfg \in Cfgs /\ S = Start /\ ev = [op |-> "reset", cfg |-> cfg]

CauseBegun == S.PB # {} \/ S.MB
ErrOK(e) == CASE e = "nil" -> TRUE
              [] e = "Canceled" -> \E p \in S.PB : p[2] = "cancel"
              [] e = "DeadlineExceeded" -> \E p \in S.PB : p[2] = "expire"
              [] e = "MergedCanceled" -> S.MB
              [] OTHER -> FALSE

Do(s) ==
  CASE s.op = "reset" -> cfg' = s.cfg /\ S' = Start /\ ev' = s
    [] s.op = "panic" -> FALSE /\ UNCHANGED vars
    [] s.op = "pb" -> /\ s.x \in {1, 2} /\ s.kind \in {"cancel", "expire"} /\ UNCHANGED cfg
                      /\ S' = [S EXCEPT !.PB = @ \cup {<<s.x, s.kind>>}] /\ ev' = s
    [] s.op = "pe" -> /\ \E p \in S.PB : p[1] = s.x
                      /\ UNCHANGED cfg /\ S' = [S EXCEPT !.PE = @ \cup {s.x}] /\ ev' = s
    [] s.op = "mb" -> /\ S.GE /\ UNCHANGED cfg /\ S' = [S EXCEPT !.MB = TRUE] /\ ev' = s
    [] s.op = "me" -> /\ S.MB /\ UNCHANGED cfg /\ S' = [S EXCEPT !.ME = TRUE] /\ ev' = s
    [] s.op = "gb" -> /\ ~S.GB /\ UNCHANGED cfg /\ S' = [S EXCEPT !.GB = TRUE, !.pre = (S.PE # {})] /\ ev' = s
    [] s.op = "ge" -> /\ S.GB /\ ~S.GE /\ UNCHANGED cfg /\ S' = [S EXCEPT !.GE = TRUE] /\ ev' = s
    [] s.op = "rd" ->           \* a reader loaded (Done, Err) in the order given by s.first
         /\ S.GE /\ UNCHANGED cfg
         /\ ((s.done \/ s.err # "nil") => CauseBegun)                \* never cancelled without a cause
         /\ ErrOK(s.err)                                              \* the error names a cause that has begun
         /\ (s.first = "done" => (s.done => s.err # "nil"))           \* Done closed => Err is set
         /\ (s.first = "err" => (s.err # "nil" => s.done))            \* Err set => Done closed
         /\ (S.E # "" => (s.done /\ s.err = S.E))                     \* the error never changes, done stays done
         /\ ((S.ME \/ S.pre) => (s.done /\ s.err # "nil"))            \* synchronous cancel function / done at return
         /\ S' = [S EXCEPT !.E = IF @ = "" /\ s.err # "nil" THEN s.err ELSE @] /\ ev' = s
    [] s.op = "final" ->        \* everything joined, process quiescent: s.g = helper goroutines still alive
         /\ S.GE /\ s.hung = <<>> /\ UNCHANGED cfg
         /\ (s.done <=> CauseBegun) /\ (s.done <=> s.err # "nil") /\ ErrOK(s.err)
         /\ (S.E # "" => s.err = S.E)
         /\ s.g = (IF s.done THEN 0 ELSE 1)
         /\ UNCHANGED S /\ ev' = s

(* a small closed system for checking the spec itself: whatever it accepts keeps the first error *)
Stimuli == [op : {"pb"}, x : {1, 2}, kind : {"cancel", "expire"}] \cup [op : {"pe"}, x : {1, 2}] \cup [op : {"mb", "me", "gb", "ge"}]
             \cup [op : {"rd"}, first : {"done", "err"}, done : BOOLEAN, err : {"nil", "Canceled", "DeadlineExceeded", "MergedCanceled"}]
Next == \E s \in Stimuli : Do(s)
Spec == Init /\ [][Next]_vars
Sane == /\ (S.E # "" => CauseBegun /\ S.GE)
        /\ (S.pre => S.PE # {})
FirstErrorKept == [][(S.E # "" /\ ev'.op # "reset") => S'.E = S.E]_vars
==============================================================================
