------------------------------ MODULE MergeCtx ------------------------------
(* runtime/contextutils.MergeContexts at the level of its API, observed at quiescent points (work id X2).     *)
(* Contract (doc comments of merged_context.go + the context.Context interface it implements):               *)
(*   - the merged context is done IFF one of its two parents is done or its own cancel function was called;   *)
(*   - Err is nil while Done is open; once closed it is the error of the parent that ended it (Canceled /     *)
(*     DeadlineExceeded; either one when both are already done at merge time) or, for the cancel function,    *)
(*     an error that Is context.Canceled AND ErrMergedContextCanceled; it never changes afterwards;           *)
(*   - a parent that is already done when MergeContexts is called yields a merged context that is done when   *)
(*     MergeContexts returns; the cancel function is idempotent and synchronous;                              *)
(*   - Deadline = the earlier of the parents' deadlines (none if neither has one); Value = the primary's      *)
(*     value if it has one, otherwise the secondary's; both never change;                                     *)
(*   - the helper goroutine of a merged context ends when the context is done (g = live merged contexts).     *)
(* Context references: 1 = base A, 2 = base B, 2 + k = the k-th merged context (merges may be nested and may   *)
(* name the same parent twice).  Errors: 0 live, 1 Canceled, 2 DeadlineExceeded, 3 merged-cancel.             *)
EXTENDS Integers, Sequences, FiniteSets, SequencesExt, TLC

CONSTANTS Scope     \* "lts" | "lts2" (thorough tier replay) | "mc" | "thorough" | "trace"
VARIABLES cfg,
          base,     \* <<err of A, err of B>>
          mg,       \* sequence of <<primary ref, secondary ref, err>>
          called,   \* history: merged contexts whose cancel function was called (invariants only)
          ev
vars == <<cfg, base, mg, called, ev>>
View == <<cfg, base, mg>>
MCView == <<cfg, base, mg, called>>

NB == 2
NM == CASE Scope \in {"lts", "lts2"} -> 2 [] Scope = "mc" -> 2 [] Scope = "thorough" -> 3 [] Scope = "trace" -> 6
(* impl: "std" = parents built with context.WithValue/WithDeadline/WithCancel; "fake" = a hand-written context.Context  *)
(* whose deadline can be made to pass on demand (Expire).  da/db: 0 = no deadline, otherwise rank of the deadline.    *)
Cfgs == CASE Scope \in {"lts", "lts2"} -> {[impl |-> "fake", da |-> 1, db |-> 2], [impl |-> "std", da |-> 0, db |-> 1]}
          [] OTHER         -> [impl : {"std", "fake"}, da : 0..2, db : 0..2]

Init == /\ cfg \in Cfgs /\ base = <<0, 0>> /\ mg = <<>> /\ called = {} /\ ev = [op |-> "reset", cfg |-> cfg]

ErrOf(b, m, r) == IF r <= NB THEN b[r] ELSE m[r - NB][3]
DoneParents(b, m, k) == {ErrOf(b, m, m[k][1]), ErrOf(b, m, m[k][2])} \ {0}
(* settle the merged contexts k.. (parents always have smaller references): a live one with a done parent becomes done *)
(* with the error of a done parent                                                                                     *)
RECURSIVE Settle(_, _, _)
Settle(b, m, k) ==
  IF k > Len(m) THEN {m}
  ELSE IF m[k][3] = 0 /\ DoneParents(b, m, k) # {}
         THEN UNION {Settle(b, [m EXCEPT ![k][3] = e], k + 1) : e \in DoneParents(b, m, k)}
         ELSE Settle(b, m, k + 1)

(* ---- projection ---- *)
ErrName(e) == CASE e = 0 -> "nil" [] e = 1 -> "Canceled" [] e = 2 -> "DeadlineExceeded" [] e = 3 -> "MergedCanceled"
Min0(a, b) == IF a = 0 THEN b ELSE IF b = 0 THEN a ELSE IF a < b THEN a ELSE b
RECURSIVE DlOf(_, _, _)
DlOf(c, m, r) == IF r <= NB THEN (IF r = 1 THEN c.da ELSE c.db) ELSE Min0(DlOf(c, m, m[r - NB][1]), DlOf(c, m, m[r - NB][2]))
(* keys: "ka" only in A (1), "kb" only in B (2), "kk" in both (A: 3, B: 4), "kn" in neither; 0 = nil *)
Keys == <<"ka", "kb", "kk", "kn">>
BaseVal(r, key) == CASE key = "ka" -> (IF r = 1 THEN 1 ELSE 0) [] key = "kb" -> (IF r = 2 THEN 2 ELSE 0)
                     [] key = "kk" -> (IF r = 1 THEN 3 ELSE 4) [] OTHER -> 0
RECURSIVE ValOf(_, _, _)
ValOf(m, r, key) == IF r <= NB THEN BaseVal(r, key)
                    ELSE LET a == ValOf(m, m[r - NB][1], key) IN IF a # 0 THEN a ELSE ValOf(m, m[r - NB][2], key)
Live(m) == {k \in DOMAIN m : m[k][3] = 0}
Proj(c, b, m) ==
  [b |-> <<ErrName(b[1]), ErrName(b[2])>>,
   g |-> Cardinality(Live(m)),                                   \* helper goroutines still alive
   m |-> [k \in DOMAIN m |-> [done |-> m[k][3] # 0, err |-> ErrName(m[k][3]), dl |-> DlOf(c, m, k + NB),
                               v |-> [i \in 1..4 |-> ValOf(m, k + NB, Keys[i])]]]]
SortedSeq(S) == SetToSortSeq(S, <)
Newly(m, m2) == SortedSeq({k \in DOMAIN m : m[k][3] = 0 /\ m2[k][3] # 0})

Step(s, b2, m2, k) ==
  /\ base' = b2 /\ mg' = m2 /\ UNCHANGED cfg
  /\ ev' = [res |-> [k |-> k, newly |-> Newly(mg, m2)], st |-> Proj(cfg, b2, m2)] @@ s

(* the quick replayed transition system is kept small: first merge of (A,B) or (B,A); the second one nests the first  *)
(* (std parents: only with itself); lts2 has all pairs                                                              *)
LtsPair(n, p, q) == IF n = 0 THEN <<p, q>> \in {<<1, 2>>, <<2, 1>>}
                    ELSE <<p, q>> \in (IF cfg.impl = "fake" THEN {<<3, 2>>, <<1, 3>>, <<3, 3>>} ELSE {<<3, 3>>})

Do(s) ==
  CASE s.op = "reset" -> /\ cfg' = s.cfg /\ base' = <<0, 0>> /\ mg' = <<>> /\ called' = {} /\ ev' = s
    [] s.op = "Merge" ->         \* MergeContexts(ctx s.p, ctx s.q): done at once iff a parent is done already
         /\ Len(mg) < NM /\ s.p \in 1..(NB + Len(mg)) /\ s.q \in 1..(NB + Len(mg)) /\ UNCHANGED called
         /\ (Scope = "lts" => LtsPair(Len(mg), s.p, s.q))
         /\ LET E == {ErrOf(base, mg, s.p), ErrOf(base, mg, s.q)} \ {0} IN
            \E e \in (IF E = {} THEN {0} ELSE E) : Step(s, base, Append(mg, <<s.p, s.q, e>>), Len(mg) + 1)
    [] s.op = "Cancel" ->        \* the cancel function of base context s.x (idempotent)
         /\ s.x \in 1..NB /\ UNCHANGED called
         /\ LET b2 == IF base[s.x] = 0 THEN [base EXCEPT ![s.x] = 1] ELSE base IN
            \E m2 \in Settle(b2, mg, 1) : Step(s, b2, m2, 0)
    [] s.op = "Expire" ->        \* the deadline of base context s.x passes (fake contexts only)
         /\ s.x \in 1..NB /\ cfg.impl = "fake" /\ UNCHANGED called
         /\ LET b2 == IF base[s.x] = 0 THEN [base EXCEPT ![s.x] = 2] ELSE base IN
            \E m2 \in Settle(b2, mg, 1) : Step(s, b2, m2, 0)
    [] s.op = "MCancel" ->       \* the cancel function MergeContexts returned for merged context s.k (idempotent)
         /\ s.k \in 1..Len(mg) /\ called' = called \cup {s.k}
         /\ LET m1 == IF mg[s.k][3] = 0 THEN [mg EXCEPT ![s.k][3] = 3] ELSE mg IN
            \E m2 \in Settle(base, m1, 1) : Step(s, base, m2, 0)

Stimuli == [op : {"Merge"}, p : 1..(NB + NM), q : 1..(NB + NM)] \cup [op : {"Cancel", "Expire"}, x : 1..NB] \cup [op : {"MCancel"}, k : 1..NM]
Next == \E s \in Stimuli : Do(s)
Spec == Init /\ [][Next]_vars

(* ---------------- the contract, stated on the model ---------------- *)
TypeOK == /\ Len(mg) <= NM /\ base[1] \in 0..2 /\ base[2] \in 0..2
          /\ \A k \in DOMAIN mg : mg[k][1] < k + NB /\ mg[k][2] < k + NB /\ mg[k][3] \in 0..3
(* done iff a parent is done or the own cancel function was called *)
DoneIff == \A k \in DOMAIN mg : (mg[k][3] # 0) <=> (DoneParents(base, mg, k) # {} \/ k \in called)
(* the error names its cause *)
ErrCause == \A k \in DOMAIN mg :
              /\ (mg[k][3] \in {1, 2} => mg[k][3] \in DoneParents(base, mg, k))
              /\ (mg[k][3] = 3 => (k \in called \/ 3 \in DoneParents(base, mg, k)))
(* only fake contexts can expire *)
NoExpiryStd == cfg.impl = "std" => \A k \in DOMAIN mg : mg[k][3] # 2
(* once done, the error never changes *)
ErrStable == [][ev'.op # "reset" => \A k \in DOMAIN mg : (mg[k][3] # 0 => mg'[k] = mg[k])]_vars
=============================================================================
