CONSTANTS
  Scope = "mcW"
INVARIANTS TypeOK AtMostOnce ExactlyOnce SimpleLifecycle WaitAllIff LogDetach
PROPERTIES Monotone TrueOnce NoPropagation
VIEW MCView
