CONSTANTS
  Scope = "lts2"
INVARIANTS TypeOK DoneIff ErrCause NoExpiryStd
