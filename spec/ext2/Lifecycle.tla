----------------------------- MODULE Lifecycle -----------------------------
(* runtime/module: the module lifecycle built on reactive events, at the level of its API (work id X2).            *)
(* Contract (doc comments of module.go / module_impl.go / utils.go and of ds/reactive.Event / WaitGroup):          *)
(*   - a Module has four one-shot events: 1 Constructed, 2 Initialized, 3 Shutdown, 4 Stopped; a new module (also   *)
(*     a new sub-module, whatever its parent's state) has none of them triggered; Trigger returns true exactly the  *)
(*     first time, WasTriggered is monotone; the package itself imposes NO order between the four events;           *)
(*   - OnTrigger(callback): runs exactly once - when the event is triggered, or at once if it was triggered         *)
(*     already - and never if its unsubscribe function was called before; callbacks of one event run in            *)
(*     registration order; a callback may trigger other events or register callbacks (re-entrant use);             *)
(*   - InitSimpleLifecycle(m): Constructed and Initialized are triggered (in this order) when it returns; without   *)
(*     a shutdown function, triggering Shutdown triggers Stopped; with one, that function is called exactly once   *)
(*     with m when Shutdown is triggered (Stopped is then its business: cfg.cs says whether it triggers it);        *)
(*   - TriggerAll(event, ms...): triggers the event of every listed module, in the listed order;                    *)
(*   - WaitAll(event, ms...): a WaitGroup whose pending elements are the listed modules that have not triggered     *)
(*     the event yet and which is triggered IFF all listed modules have triggered it (for no modules at all:        *)
(*     at once - "waits until all given modules have triggered the event");                                        *)
(*   - NewSubModule(name): a new Module whose logger is a child of the parent's (name, path, the parent's log       *)
(*     level now and whenever it changes) until the PARENT's Shutdown event triggers (child logger is shut down:    *)
(*     it stops following); none of the parent's lifecycle events propagates to the child.                         *)
(* Callbacks get the ids 1,2,.. in registration order; kinds: plain | reg (registers one more plain callback on the  *)
(* same source from inside) | trig (triggers event te of module tm from inside; only targets that are later in the   *)
(* order (event, module) are offered, so no callback re-triggers an event whose Trigger is still running - that     *)
(* self-deadlocks on the reactive variable's update mutex and is outside this contract).                           *)
(* res.calls = what ran during the call, in order: callback ids, 100 + m = the custom shutdown function of m.       *)
EXTENDS Integers, Sequences, FiniteSets, SequencesExt, TLC

CONSTANTS Scope     \* "lts" | "ltsB" | "lts2" | "mc" | "mcT" | "mcW" | "thorough" | "trace"
VARIABLES cfg,
          par,      \* par[m] = parent module (0 for the root module 1)
          trg,      \* trg[m] = set of triggered events
          subs,     \* subs[m][e] = subscribers in registration order: <<"cb", c>> | <<"life", 1 default / 2 custom>> | <<"wg", k>> | <<"log", child>>
          cbs,      \* callback c = <<kind, sm, se, tm, te, state>>; source (sm, se) = event se of module sm, or wait group se if sm = 0
          wgs,      \* wait group k = <<event, pending set, triggered, subscribers (callback ids), listed modules>>
          lvl,      \* log level of the module's logger (1 DEBUG, 2 INFO, 3 WARNING)
          att,      \* the module's logger still follows its parent's level
          life,     \* 0 | 1 (InitSimpleLifecycle without shutdown function) | 2 (with one)
          runs,     \* history: how often callback c ran
          cust,     \* history: how often the custom shutdown function of m ran
          ev
vars == <<cfg, par, trg, subs, cbs, wgs, lvl, att, life, runs, cust, ev>>
View == <<cfg, par, trg, subs, cbs, wgs, lvl, att, life>>
MCView == <<View, runs, cust>>

(* bounds and stimulus alphabet per scope: nm modules, nc callbacks, nw wait groups, nl log levels, es = events that     *)
(* stimuli name (InitSimpleLifecycle always touches all four), ks = callback kinds, ms = module lists for TriggerAll /    *)
(* WaitAll, wide = all later targets for "trig" callbacks (else only the next event / the children), css = values of cs, *)
(* lf = InitSimpleLifecycle variants offered (1 without, 2 with a shutdown function).                                    *)
(* The exhaustive runs are slices: "mc" one module with callbacks and lifecycles, "mcT" a tree of three modules with       *)
(* levels, "mcW" wait groups over two modules; "trace" bounds what the recorder produces.                                  *)
Pm(nm, nc, nw, nl, es, ks, ms, wide, css, lf) == [nm |-> nm, nc |-> nc, nw |-> nw, nl |-> nl, es |-> es, ks |-> ks, ms |-> ms, wide |-> wide, css |-> css, lf |-> lf]
AllKinds == {"plain", "reg", "trig"}
AllSeqs == {<<>>, <<1>>, <<2>>, <<1, 2>>, <<2, 1>>, <<1, 1>>, <<1, 2, 3>>, <<3, 1, 2>>, <<2, 3>>, <<4, 2>>}
B == CASE Scope = "lts"      -> Pm(1, 1, 0, 1, {3, 4}, AllKinds, {<<1>>}, FALSE, {TRUE}, {1, 2})
       [] Scope = "ltsB"     -> Pm(2, 1, 1, 2, {3}, {"plain"}, {<<>>, <<2, 1>>}, FALSE, {TRUE}, {})
       [] Scope = "lts2"     -> Pm(1, 1, 0, 1, {1, 3, 4}, AllKinds, {<<1>>}, FALSE, BOOLEAN, {1, 2})
       [] Scope = "mc"       -> Pm(1, 2, 0, 1, {1, 3, 4}, AllKinds, {<<>>, <<1>>, <<1, 1>>}, TRUE, BOOLEAN, {1, 2})
       [] Scope = "mcT"      -> Pm(3, 1, 0, 2, {3, 4}, {"plain", "trig"}, {<<1, 2>>, <<2, 1>>, <<1, 2, 3>>}, FALSE, {TRUE}, {})
       [] Scope = "mcW"      -> Pm(2, 1, 1, 1, {1, 2}, {"plain", "trig"}, {<<>>, <<1>>, <<1, 2>>, <<2, 1>>, <<1, 1>>}, FALSE, {TRUE}, {})
       [] Scope = "thorough" -> Pm(1, 3, 0, 1, 1..4, AllKinds, {<<>>, <<1>>, <<1, 1>>}, TRUE, BOOLEAN, {1, 2})
       [] Scope = "trace"    -> Pm(4, 8, 3, 3, 1..4, AllKinds, AllSeqs, TRUE, BOOLEAN, {1, 2})
Cfgs == [nm : {B.nm}, nc : {B.nc}, nw : {B.nw}, cs : B.css]
Wide == B.wide
E == 1..4
NoSubs == <<<<>>, <<>>, <<>>, <<>>>>

Init == /\ cfg \in Cfgs /\ par = <<0>> /\ trg = <<{}>> /\ subs = <<NoSubs>> /\ cbs = <<>> /\ wgs = <<>> /\ lvl = <<2>> /\ att = <<FALSE>>
        /\ life = <<0>> /\ runs = <<>> /\ cust = <<0>> /\ ev = [op |-> "reset", cfg |-> cfg]

(* ---------------- the cascade of one call: S = [trg, subs, cbs, wgs, att, runs, cust, log] ---------------- *)
Cur == [trg |-> trg, subs |-> subs, cbs |-> cbs, wgs |-> wgs, att |-> att, runs |-> runs, cust |-> cust, log |-> <<>>]
Log(S, x) == [S EXCEPT !.log = Append(@, x)]

RECURSIVE Fire(_, _, _), RunSubs(_, _, _), RunCb(_, _), DoneWg(_, _, _), RunList(_, _)
(* event e of module m is triggered: nothing if it was triggered before, else its subscribers run in registration order *)
Fire(S, m, e) ==
  IF e \in S.trg[m] THEN S
  ELSE RunSubs([S EXCEPT !.trg[m] = @ \cup {e}, !.subs[m][e] = <<>>], m, S.subs[m][e])
RunSubs(S, m, L) ==
  IF L = <<>> THEN S
  ELSE LET s == Head(L)
           S1 == CASE s[1] = "cb"   -> RunCb(S, s[2])
                   [] s[1] = "life" -> IF s[2] = 1 THEN Fire(S, m, 4)                     \* default: Shutdown triggers Stopped
                                       ELSE LET S2 == Log([S EXCEPT !.cust[m] = @ + 1], 100 + m) IN   \* the shutdown function is called
                                            IF cfg.cs THEN Fire(S2, m, 4) ELSE S2
                   [] s[1] = "wg"   -> DoneWg(S, s[2], m)
                   [] s[1] = "log"  -> [S EXCEPT !.att[s[2]] = FALSE]                    \* the sub-module's logger is shut down
       IN RunSubs(S1, m, Tail(L))
RunCb(S, c) ==
  LET d == S.cbs[c] IN
  IF d[6] # "reg" THEN S
  ELSE LET S1 == Log([S EXCEPT !.cbs[c][6] = "ran", !.runs[c] = @ + 1], c) IN
       CASE d[1] = "plain" -> S1
         [] d[1] = "trig"  -> Fire(S1, d[4], d[5])
         [] d[1] = "reg"   -> IF Len(S1.cbs) < cfg.nc
                                THEN \* registered from inside, on a source that has triggered: it runs at once
                                     Log([S1 EXCEPT !.cbs = Append(@, <<"plain", d[2], d[3], 0, 0, "ran">>), !.runs = Append(@, 1)], Len(S1.cbs) + 1)
                                ELSE S1
RunList(S, L) == IF L = <<>> THEN S ELSE RunList(RunCb(S, Head(L)), Tail(L))
(* module m is done in wait group k; the group triggers when nothing is pending any more *)
DoneWg(S, k, m) ==
  LET w == S.wgs[k] IN
  IF m \notin w[2] THEN S
  ELSE LET p2 == w[2] \ {m}
           S1 == [S EXCEPT !.wgs[k][2] = p2] IN
       IF p2 = {} /\ ~w[3] THEN RunList([S1 EXCEPT !.wgs[k][3] = TRUE, !.wgs[k][4] = <<>>], w[4]) ELSE S1

(* OnTrigger on source (sm, se): runs at once if the source has triggered, else it is appended *)
AddCb(S, kind, sm, se, tm, te) ==
  LET n == Len(S.cbs) + 1
      S1 == [S EXCEPT !.cbs = Append(@, <<kind, sm, se, tm, te, "reg">>), !.runs = Append(@, 0)]
      fired == IF sm = 0 THEN S.wgs[se][3] ELSE se \in S.trg[sm] IN
  IF fired THEN RunCb(S1, n)
  ELSE IF sm = 0 THEN [S1 EXCEPT !.wgs[se][4] = Append(@, n)] ELSE [S1 EXCEPT !.subs[sm][se] = Append(@, <<"cb", n>>)]
RECURSIVE FireAll(_, _, _), HookAll(_, _, _, _)
FireAll(S, e, ms) == IF ms = <<>> THEN S ELSE FireAll(Fire(S, Head(ms), e), e, Tail(ms))
HookAll(S, k, e, ms) ==
  IF ms = <<>> THEN S
  ELSE LET m == Head(ms) IN
       HookAll(IF e \in S.trg[m] THEN DoneWg(S, k, m) ELSE [S EXCEPT !.subs[m][e] = Append(@, <<"wg", k>>)], k, e, Tail(ms))

(* ---- projection ---- *)
Mods == 1..Len(par)
ToSetS(q) == {q[i] : i \in DOMAIN q}
SSeq(T) == SetToSortSeq(T, <)
Proj(p, t, w, lv) ==
  [mods |-> [m \in DOMAIN p |-> [t |-> [e \in E |-> e \in t[m]], lvl |-> lv[m], par |-> p[m]]],
   wgs  |-> [k \in DOMAIN w |-> [t |-> w[k][3], p |-> SSeq(w[k][2])]]]
RECURSIVE Follow(_, _, _, _, _)
(* log levels after module m was set to l: attached loggers follow a parent whose level CHANGED (children have larger ids) *)
Follow(lv, ch, n, p, a) ==
  IF n > Len(lv) THEN lv
  ELSE IF a[n] /\ p[n] \in ch /\ lv[n] # lv[p[n]] THEN Follow([lv EXCEPT ![n] = lv[p[n]]], ch \cup {n}, n + 1, p, a)
       ELSE Follow(lv, ch, n + 1, p, a)

Finish(s, S, r) ==
  /\ trg' = S.trg /\ subs' = S.subs /\ cbs' = S.cbs /\ wgs' = S.wgs /\ att' = S.att /\ runs' = S.runs /\ cust' = S.cust
  /\ ev' = [res |-> [r |-> r, calls |-> S.log], st |-> Proj(par', S.trg, S.wgs, lvl')] @@ s

Children(m) == {n \in Mods : par[n] = m}
(* targets offered to a "trig" callback on event e of module m / on a wait group for event e *)
Later(e) == {e2 \in B.es : e2 > e}
NextEv(e) == IF Later(e) = {} THEN {} ELSE {CHOOSE e2 \in Later(e) : \A e3 \in Later(e) : e2 <= e3}
TrigTargets(m, e) == {<<m, e2>> : e2 \in (IF Wide THEN Later(e) ELSE NextEv(e))} \cup {<<n, e>> : n \in Children(m)}
WgTargets(e) == {<<n, e2>> : n \in (IF Wide THEN Mods ELSE {1}), e2 \in NextEv(e)}
MSeqs == B.ms
Kinds == B.ks

Do(s) ==
  CASE s.op = "reset" -> /\ cfg' = s.cfg /\ par' = <<0>> /\ trg' = <<{}>> /\ subs' = <<NoSubs>> /\ cbs' = <<>> /\ wgs' = <<>> /\ lvl' = <<2>>
                         /\ att' = <<FALSE>> /\ life' = <<0>> /\ runs' = <<>> /\ cust' = <<0>> /\ ev' = s
    [] s.op = "Trigger" ->       \* <event s.e of module s.m>.Trigger()
         /\ s.m \in Mods /\ s.e \in E /\ UNCHANGED <<cfg, par, lvl, life>>
         /\ Finish(s, Fire(Cur, s.m, s.e), IF s.e \in trg[s.m] THEN "false" ELSE "true")
    [] s.op = "OnTrigger" ->     \* <event s.e of module s.m>.OnTrigger(callback of kind s.k); the unsubscribe function is kept
         /\ s.m \in Mods /\ s.e \in E /\ Len(cbs) < cfg.nc /\ UNCHANGED <<cfg, par, lvl, life>>
         /\ (IF s.k = "trig" THEN <<s.tm, s.te>> \in TrigTargets(s.m, s.e) ELSE s.tm = 0 /\ s.te = 0)
         /\ Finish(s, AddCb(Cur, s.k, s.m, s.e, s.tm, s.te), "")
    [] s.op = "OnWg" ->          \* <wait group s.w>.OnTrigger(callback of kind s.k)
         /\ s.w \in DOMAIN wgs /\ Len(cbs) < cfg.nc /\ UNCHANGED <<cfg, par, lvl, life>>
         /\ (IF s.k = "trig" THEN <<s.tm, s.te>> \in WgTargets(wgs[s.w][1]) ELSE s.tm = 0 /\ s.te = 0)
         /\ Finish(s, AddCb(Cur, s.k, 0, s.w, s.tm, s.te), "")
    [] s.op = "Unsub" ->         \* the unsubscribe function of callback s.c (any time, also repeatedly)
         /\ s.c \in DOMAIN cbs /\ UNCHANGED <<cfg, par, lvl, life>>
         /\ LET d == cbs[s.c]
                S1 == [Cur EXCEPT !.cbs[s.c][6] = "unsub"] IN
            Finish(s, IF d[6] # "reg" THEN Cur
                      ELSE IF d[2] = 0 THEN [S1 EXCEPT !.wgs[d[3]][4] = SelectSeq(@, LAMBDA x : x # s.c)]
                      ELSE [S1 EXCEPT !.subs[d[2]][d[3]] = SelectSeq(@, LAMBDA x : x # <<"cb", s.c>>)], "")
    [] s.op = "TriggerAll" ->    \* module.TriggerAll(event s.e, modules s.ms...)
         /\ s.e \in E /\ ToSetS(s.ms) \subseteq Mods /\ UNCHANGED <<cfg, par, lvl, life>>
         /\ Finish(s, FireAll(Cur, s.e, s.ms), "")
    [] s.op = "WaitAll" ->       \* module.WaitAll(event s.e, modules s.ms...)
         /\ s.e \in E /\ ToSetS(s.ms) \subseteq Mods /\ Len(wgs) < cfg.nw /\ UNCHANGED <<cfg, par, lvl, life>>
         /\ LET k == Len(wgs) + 1
                S0 == [Cur EXCEPT !.wgs = Append(@, <<s.e, ToSetS(s.ms), s.ms = <<>>, <<>>, ToSetS(s.ms)>>)] IN
            Finish(s, HookAll(S0, k, s.e, s.ms), "")
    [] s.op = "InitLife" ->      \* module.InitSimpleLifecycle(module s.m [, shutdown function])
         /\ s.m \in Mods /\ life[s.m] = 0 /\ s.mode \in B.lf /\ UNCHANGED <<cfg, par, lvl>>
         /\ life' = [life EXCEPT ![s.m] = s.mode]
         /\ LET S0 == IF 3 \in trg[s.m] THEN RunSubs(Cur, s.m, <<<<"life", s.mode>>>>)       \* Shutdown was triggered already
                      ELSE [Cur EXCEPT !.subs[s.m][3] = Append(@, <<"life", s.mode>>)] IN
            Finish(s, Fire(Fire(S0, s.m, 1), s.m, 2), "")
    [] s.op = "NewSub" ->        \* <module s.p>.NewSubModule(name)
         /\ s.p \in Mods /\ Len(par) < cfg.nm /\ UNCHANGED cfg
         /\ LET n == Len(par) + 1
                down == 3 \in trg[s.p] IN
            /\ par' = Append(par, s.p) /\ life' = Append(life, 0) /\ lvl' = Append(lvl, lvl[s.p])
            /\ Finish(s, [Cur EXCEPT !.trg = Append(@, {}), !.cust = Append(@, 0), !.att = Append(@, ~down),
                                     !.subs = IF down THEN Append(@, NoSubs) ELSE Append([@ EXCEPT ![s.p][3] = Append(@, <<"log", n>>)], NoSubs)], "")
    [] s.op = "SetLevel" ->      \* <module s.m>.SetLogLevel(s.l)
         /\ s.m \in Mods /\ s.l \in 1..B.nl /\ UNCHANGED <<cfg, par, life>>
         /\ lvl' = Follow([lvl EXCEPT ![s.m] = s.l], IF lvl[s.m] = s.l THEN {} ELSE {s.m}, s.m + 1, par, att)
         /\ Finish(s, Cur, "")

Stimuli == [op : {"Trigger"}, m : 1..B.nm, e : B.es]
     \cup  [op : {"OnTrigger"}, m : 1..B.nm, e : B.es, k : Kinds \ {"trig"}, tm : {0}, te : {0}]
     \cup  [op : {"OnTrigger"}, m : 1..B.nm, e : B.es, k : Kinds \cap {"trig"}, tm : 1..B.nm, te : B.es]
     \cup  [op : {"OnWg"}, w : 1..B.nw, k : Kinds \ {"trig"}, tm : {0}, te : {0}]
     \cup  [op : {"OnWg"}, w : 1..B.nw, k : Kinds \cap {"trig"}, tm : 1..B.nm, te : B.es]
     \cup  [op : {"Unsub"}, c : 1..B.nc]
     \cup  [op : {"TriggerAll", "WaitAll"}, e : B.es, ms : MSeqs]
     \cup  [op : {"InitLife"}, m : 1..B.nm, mode : B.lf]
     \cup  [op : {"NewSub"}, p : 1..B.nm]
     \cup  [op : {"SetLevel"}, m : 1..B.nm, l : 1..B.nl]
Next == \E s \in Stimuli : Do(s)
Spec == Init /\ [][Next]_vars

(* ---------------- the contract, stated on the model ---------------- *)
Fired(c) == IF cbs[c][2] = 0 THEN wgs[cbs[c][3]][3] ELSE cbs[c][3] \in trg[cbs[c][2]]
TypeOK == /\ Len(par) <= cfg.nm /\ Len(cbs) <= cfg.nc /\ Len(wgs) <= cfg.nw
          /\ Len(trg) = Len(par) /\ Len(subs) = Len(par) /\ Len(lvl) = Len(par) /\ Len(att) = Len(par) /\ Len(life) = Len(par)
          /\ Len(cust) = Len(par) /\ Len(runs) = Len(cbs)
          /\ \A m \in Mods : trg[m] \subseteq E /\ (m > 1 => par[m] \in 1..(m - 1))
          /\ \A m \in Mods : \A e \in E : (e \in trg[m] => subs[m][e] = <<>>)
(* every callback runs exactly once when (or as soon as) its source has triggered - never before, never twice, never if unsubscribed *)
AtMostOnce == \A c \in DOMAIN cbs : runs[c] <= 1
ExactlyOnce == \A c \in DOMAIN cbs :
                 IF Fired(c) THEN (cbs[c][6] = "unsub" /\ runs[c] = 0) \/ (cbs[c][6] = "ran" /\ runs[c] = 1)
                 ELSE runs[c] = 0 /\ cbs[c][6] \in {"reg", "unsub"}
(* InitSimpleLifecycle: constructed and initialized; default: shutdown => stopped; custom: the function ran exactly once iff shutdown *)
SimpleLifecycle == \A m \in Mods :
                     /\ (life[m] # 0 => {1, 2} \subseteq trg[m])
                     /\ (life[m] = 1 => (3 \in trg[m] => 4 \in trg[m]))
                     /\ cust[m] = (IF life[m] = 2 /\ 3 \in trg[m] THEN 1 ELSE 0)
                     /\ (life[m] = 2 /\ cfg.cs /\ 3 \in trg[m] => 4 \in trg[m])
(* WaitAll: pending = listed modules that have not triggered the event; triggered iff none is pending *)
WaitAllIff == \A k \in DOMAIN wgs : /\ wgs[k][2] = {m \in wgs[k][5] : wgs[k][1] \notin trg[m]}
                                    /\ (wgs[k][3] <=> wgs[k][2] = {})
(* a sub-module's logger follows its parent exactly until the parent's Shutdown event *)
LogDetach == \A n \in Mods : n > 1 => (att[n] <=> 3 \notin trg[par[n]])
(* one-shot: triggered events stay triggered; Trigger returns true exactly when it is the first *)
Monotone == [][ev'.op # "reset" => \A m \in Mods : trg[m] \subseteq trg'[m]]_vars
TrueOnce == [][ev'.op = "Trigger" => (ev'.res.r = "true" <=> ev'.e \notin trg[ev'.m]) /\ ev'.e \in trg'[ev'.m]]_vars
(* nothing a parent does reaches the lifecycle of its sub-module on its own: without callbacks/lifecycles/wait groups, one Trigger changes one event *)
NoPropagation == [][(ev'.op = "Trigger" /\ cbs = <<>> /\ wgs = <<>> /\ \A m \in Mods : life[m] = 0)
                      => \A m \in Mods : trg'[m] = (IF m = ev'.m THEN trg[m] \cup {ev'.e} ELSE trg[m])]_vars
=============================================================================
