CONSTANTS
  Scope = "mc"
INVARIANTS TypeOK DoneIff ErrCause NoExpiryStd
PROPERTIES ErrStable
VIEW MCView
