CONSTANTS
  Scope = "mcT"
INVARIANTS TypeOK AtMostOnce ExactlyOnce SimpleLifecycle WaitAllIff LogDetach
PROPERTIES Monotone TrueOnce NoPropagation
VIEW MCView
