CONSTANTS
  Scope = "lts"
INVARIANTS TypeOK AtMostOnce ExactlyOnce SimpleLifecycle WaitAllIff LogDetach
