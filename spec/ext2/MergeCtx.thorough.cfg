CONSTANTS
  Scope = "thorough"
INVARIANTS TypeOK DoneIff ErrCause NoExpiryStd
PROPERTIES ErrStable
VIEW MCView
