INVARIANTS Sane
PROPERTIES FirstErrorKept
