CONSTANTS
  Scope = "trace"
INVARIANTS TypeOK AtMostOnce ExactlyOnce SimpleLifecycle WaitAllIff LogDetach
