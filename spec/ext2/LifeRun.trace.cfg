INVARIANTS TypeOK
