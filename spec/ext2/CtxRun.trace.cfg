INVARIANTS Sane
