CONSTANTS
  Threads = {1, 2, 3, 4, 5, 6}
  Kinds = {"exec", "task"}
  WorkerCounts = {1, 2, 3, 4}
  MaxSizes = {0, 1, 2, 3, 4}
  MaxT = 2000000000
  MaxEls = 1000
INVARIANTS AtMostOnce NeverEarly RefusedNeverRuns FinalMeansDelivered
