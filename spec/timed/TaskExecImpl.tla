---------------------------- MODULE TaskExecImpl ----------------------------
(* Implementation-level model of runtime/timed.TaskExecutor on top of a (correct) Executor:      *)
(* identifier -> tracked element under one mutex; ExecuteAt cancels the tracked element and        *)
(* schedules a wrapper; the wrapper's bookkeeping is its own step before / after the callback.     *)
(* Time is abstracted: a queued task may be handed to a free worker at any moment.                 *)
(* C18 (TaskExecutor part): at most one task per identifier is pending, scheduling an identifier   *)
(* again replaces its pending task, Cancel(id) returns true exactly when it prevented a pending    *)
(* task from running - also while the previous callback of that identifier is still running.      *)
EXTENDS Integers, FiniteSets, TLC

CONSTANTS Ids, MaxTasks, NWorkers,
          Variant   \* "code"                  the tree after fix cf580d8: the wrapper, under the mutex and BEFORE the callback, runs the
                    \*                         callback only if it is still the tracked task of its identifier, and untracks it
                    \* "delete_after"          code before the fix: callback, then unconditional delete(identifier)
                    \* "delete_after_identity" half fix: callback, then delete only if still the tracked task
                    \* "delete_before_noskip"  half fix: untrack before the callback, but run it even when no longer tracked

Tasks == 1..MaxTasks
VARIABLES nsched, ident,
          st,       \* task -> "unborn" | "heap" | "cancelled" | "taken" (Poll handed the wrapper to a worker) | "running" | "ended" | "done" | "skipped"
          map,      \* identifier -> tracked task, 0 = none
          ctrue,    \* tasks that some Cancel(id) = true claimed to have prevented
          bad
vars == <<nsched, ident, st, map, ctrue, bad>>

Init == /\ nsched = 0 /\ ident = [k \in Tasks |-> CHOOSE i \in Ids : TRUE] /\ st = [k \in Tasks |-> "unborn"]
        /\ map = [i \in Ids |-> 0] /\ ctrue = {} /\ bad = {}

Replaced(k) == \E k2 \in Tasks : k2 > k /\ k2 <= nsched /\ ident[k2] = ident[k]
(* the pending tasks of identifier i: scheduled, callback not begun, not replaced, not claimed by an earlier Cancel *)
NotStarted(i) == {k \in Tasks : ident[k] = i /\ st[k] \in {"heap", "taken"} /\ ~Replaced(k) /\ k \notin ctrue}
CancelEl(s, k) == IF k # 0 /\ s[k] = "heap" THEN [s EXCEPT ![k] = "cancelled"] ELSE s      \* QueueElement.Cancel: effective only before Poll returned it

ExecuteAt(i) == /\ nsched < MaxTasks
                /\ LET k == nsched + 1 IN
                   /\ nsched' = k /\ ident' = [ident EXCEPT ![k] = i]
                   /\ st' = [CancelEl(st, map[i]) EXCEPT ![k] = "heap"]
                   /\ map' = [map EXCEPT ![i] = k]
                /\ UNCHANGED <<ctrue, bad>>
Cancel(i) == LET P == NotStarted(i) IN
             IF map[i] # 0
               THEN /\ st' = CancelEl(st, map[i]) /\ map' = [map EXCEPT ![i] = 0]
                    /\ ctrue' = ctrue \cup P
                    /\ bad' = bad \cup (IF P = {} THEN {"true-nothing"} ELSE {})
                    /\ UNCHANGED <<nsched, ident>>
               ELSE /\ bad' = bad \cup (IF P # {} THEN {"false-pending"} ELSE {})
                    /\ UNCHANGED <<nsched, ident, st, map, ctrue>>
Busy == Cardinality({k \in Tasks : st[k] \in {"taken", "running", "ended"}})
Take(k) == /\ st[k] = "heap" /\ Busy < NWorkers /\ st' = [st EXCEPT ![k] = "taken"]
           /\ UNCHANGED <<nsched, ident, map, ctrue, bad>>
Start(k) == /\ st' = [st EXCEPT ![k] = "running"]
            /\ bad' = bad \cup (IF k \in ctrue THEN {"cancelled-ran"} ELSE {})
                          \cup (IF Replaced(k) THEN {"replaced-ran"} ELSE {})
WrapPre(k) == /\ st[k] = "taken"
              /\ CASE Variant = "code" ->
                        (IF map[ident[k]] = k THEN (map' = [map EXCEPT ![ident[k]] = 0] /\ Start(k))
                         ELSE (st' = [st EXCEPT ![k] = "skipped"] /\ UNCHANGED <<map, bad>>))
                   [] Variant = "delete_before_noskip" ->
                        (map' = (IF map[ident[k]] = k THEN [map EXCEPT ![ident[k]] = 0] ELSE map) /\ Start(k))
                   [] OTHER -> (UNCHANGED map /\ Start(k))
              /\ UNCHANGED <<nsched, ident, ctrue>>
CbEnd(k) == /\ st[k] = "running" /\ st' = [st EXCEPT ![k] = "ended"] /\ UNCHANGED <<nsched, ident, map, ctrue, bad>>
WrapPost(k) == /\ st[k] = "ended" /\ st' = [st EXCEPT ![k] = "done"]
               /\ map' = CASE Variant = "delete_after" -> [map EXCEPT ![ident[k]] = 0]
                           [] Variant = "delete_after_identity" -> (IF map[ident[k]] = k THEN [map EXCEPT ![ident[k]] = 0] ELSE map)
                           [] OTHER -> map
               /\ UNCHANGED <<nsched, ident, ctrue, bad>>

Next == \/ \E i \in Ids : ExecuteAt(i) \/ Cancel(i)
        \/ \E k \in Tasks : Take(k) \/ WrapPre(k) \/ CbEnd(k) \/ WrapPost(k)
Spec == Init /\ [][Next]_vars

(* ---- the property on the model ---- *)
OnePendingPerId == \A i \in Ids : Cardinality({k \in Tasks : ident[k] = i /\ st[k] = "heap"}) <= 1      \* (observable: Size())
Replaces == "replaced-ran" \notin bad
CancelTrueMeansPrevented == "true-nothing" \notin bad /\ "cancelled-ran" \notin bad
CancelFalseMeansNonePending == "false-pending" \notin bad
(* nothing is dropped without a reason: a task is skipped / cancelled only if a Cancel claimed it or a later task replaced it *)
Justified == \A k \in Tasks : st[k] \in {"skipped", "cancelled"} =>
                (k \in ctrue \/ Replaced(k))
(* the tracked task of an identifier is one that has not started *)
Tracked == Variant = "code" => \A i \in Ids : map[i] # 0 => st[map[i]] \in {"heap", "taken"}
=============================================================================
