SPECIFICATION Spec
CONSTANTS
  Ids = {1, 2}
  MaxTasks = 3
  NWorkers = 1
  Variant = "delete_before_noskip"
INVARIANTS CancelTrueMeansPrevented
