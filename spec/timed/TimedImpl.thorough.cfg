SPECIFICATION Spec
CONSTANTS
  Elems = {1, 2}
  Workers = {1, 2}
  MaxT = 2
  MaxSizes = {0, 1}
  Variant = "code"
INVARIANTS TypeOK AtMostOnce NeverEarly CancelHonoured CancelRemoves QuietDelivered QuietShutdown
