----------------------------- MODULE TimedQueue -----------------------------
(* runtime/timed.Queue used directly, at the level of its API, observed at quiescent points: Add,   *)
(* QueueElement.Cancel, Size and Shutdown(flags) return at once; Poll(waitIfEmpty) runs on a harness *)
(* thread and may block (empty queue, or the head is not due yet).  Scheduled times are abstract:    *)
(* t <= LastDue = already due, later = hours ahead (never reached during a run); among equal times   *)
(* the earlier Add comes first.  Values are the Add numbers 1, 2, ...; the zero value is 0.          *)
(* C18: Poll hands out the elements in time order, each at most once, never one that is not due      *)
(* (unless Shutdown had the ignore-timeouts flag), never a cancelled one; Cancel makes a poller that  *)
(* waits for that element go on with the next; Shutdown without flags keeps the pending elements,    *)
(* with the cancel flag drops them, with the ignore flag releases them at once.                      *)
EXTENDS Integers, Sequences, FiniteSets, SequencesExt, TLC

CONSTANTS Threads, Times, LastDue, MaxAdds
VARIABLES cfg,
          n,        \* Add calls so far
          el,       \* element -> <<t, st>>; st: "none" | "heap" | "held" (popped by a poller that waits for its time) | "done" (returned by Poll) | "out"
          pol,      \* thread -> <<what, wait>>; what: 0 = not in Poll, -1 = waits for an element to be added, k = waits for element k's time
          sd,       \* "no" | "none" | "cancel" | "ignore" | "both"
          ev
vars == <<cfg, n, el, pol, sd, ev>>
View == <<cfg, n, el, pol, sd>>
Cfgs == [maxsize : {0}]
Els == 1..MaxAdds
SSeq(S) == SetToSortSeq(S, <)

Heap(E) == {k \in Els : E[k][2] = "heap"}
Before(E, a, b) == E[a][1] < E[b][1] \/ (E[a][1] = E[b][1] /\ a < b)
Head1(E) == CHOOSE k \in Heap(E) : \A o \in Heap(E) \ {k} : Before(E, k, o)
Due(E, k, s) == E[k][1] <= LastDue \/ s \in {"ignore", "both"}

(* poller p (wait flag w) is at the top of Poll's loop: <<E', pol'[p], returned?, value>> *)
Loop(E, s, w) ==
  IF Heap(E) = {}
    THEN IF w /\ s = "no" THEN <<E, <<-1, w>>, FALSE, 0>> ELSE <<E, <<0, FALSE>>, TRUE, 0>>
    ELSE LET m == Head1(E) IN
         IF Due(E, m, s) THEN <<[E EXCEPT ![m][2] = "done"], <<0, FALSE>>, TRUE, m>>
         ELSE <<[E EXCEPT ![m][2] = "held"], <<m, w>>, FALSE, 0>>

Obs(E, P) == [size |-> Cardinality(Heap(E)), blocked |-> SSeq({t \in Threads : P[t][1] # 0})]
RetSeq(R) == LET T == SSeq({r[1] : r \in R}) IN [i \in 1..Len(T) |-> CHOOSE r \in R : r[1] = T[i]]      \* <<thread, value>> pairs by thread
Finish(s, E, P, sdn, r, R) ==
  /\ el' = E /\ pol' = P /\ sd' = sdn
  /\ ev' = [s EXCEPT !.res = [r |-> r, ret |-> RetSeq(R)], !.st = Obs(E, P)]

InitState == /\ n = 0 /\ el = [k \in Els |-> <<0, "none">>] /\ pol = [t \in Threads |-> <<0, FALSE>>] /\ sd = "no"
Init == /\ cfg \in Cfgs /\ InitState /\ ev = [op |-> "reset", cfg |-> cfg]

E0(s) == s @@ [res |-> 0, st |-> 0]
Do(s0) ==
  LET s == IF s0.op = "reset" THEN s0 ELSE E0(s0) IN
  CASE s.op = "reset" -> /\ cfg' = s.cfg /\ n' = 0 /\ el' = [k \in Els |-> <<0, "none">>] /\ pol' = [t \in Threads |-> <<0, FALSE>>]
                         /\ sd' = "no" /\ ev' = s
    [] s.op = "Add" ->
         /\ UNCHANGED cfg /\ n < MaxAdds /\ n' = n + 1
         /\ IF sd # "no" THEN Finish(s, [el EXCEPT ![n + 1] = <<s.t, "out">>], pol, sd, "refused", {})
            ELSE LET E1 == [el EXCEPT ![n + 1] = <<s.t, "heap">>]
                     W == {t \in Threads : pol[t][1] = -1} IN
                 IF W = {} THEN Finish(s, E1, pol, sd, "ok", {})
                 ELSE \E t \in W :                     \* Signal wakes one of the pollers that wait for an element (which one is not
                        \* specified; with an element that is not due the choice could not be observed at this step, so that case
                        \* is exercised with at most one waiting poller)
                        /\ (Cardinality(W) > 1 => Due(E1, n + 1, sd))
                        /\ LET L == Loop(E1, sd, pol[t][2]) IN
                           Finish(s, L[1], [pol EXCEPT ![t] = L[2]], sd, "ok", IF L[3] THEN {<<t, L[4]>>} ELSE {})
    [] s.op = "Poll" ->
         /\ UNCHANGED <<cfg, n>> /\ pol[s.th][1] = 0
         /\ LET L == Loop(el, sd, s.w) IN
            Finish(s, L[1], [pol EXCEPT ![s.th] = L[2]], sd, "", IF L[3] THEN {<<s.th, L[4]>>} ELSE {})
    [] s.op = "Cancel" ->
         /\ UNCHANGED <<cfg, n>> /\ s.k <= n /\ el[s.k][2] # "none"
         /\ IF el[s.k][2] = "heap" THEN Finish(s, [el EXCEPT ![s.k][2] = "out"], pol, sd, "", {})
            ELSE IF el[s.k][2] = "held"
              THEN LET t == CHOOSE x \in Threads : pol[x][1] = s.k         \* the poller that waits for it goes on with the next element
                       L == Loop([el EXCEPT ![s.k][2] = "out"], sd, pol[t][2]) IN
                   Finish(s, L[1], [pol EXCEPT ![t] = L[2]], sd, "", IF L[3] THEN {<<t, L[4]>>} ELSE {})
            ELSE Finish(s, el, pol, sd, "", {})                             \* already returned / cancelled / refused: nothing happens
    [] s.op = "Shutdown" ->
         /\ UNCHANGED <<cfg, n>> /\ sd = "no"
         /\ LET drop == s.fl \in {"cancel", "both"}
                rel == s.fl = "ignore"
                E1 == [k \in Els |-> IF el[k][2] = "heap" /\ drop THEN <<el[k][1], "out">>
                                     ELSE IF el[k][2] = "held" /\ drop THEN <<el[k][1], "out">>
                                     ELSE IF el[k][2] = "held" /\ rel THEN <<el[k][1], "done">>
                                     ELSE el[k]]
                back == {t \in Threads : pol[t][1] = -1 \/ (pol[t][1] > 0 /\ (drop \/ rel))}
                R == {<<t, IF pol[t][1] > 0 /\ rel THEN pol[t][1] ELSE 0>> : t \in back}
            IN Finish(s, E1, [t \in Threads |-> IF t \in back THEN <<0, FALSE>> ELSE pol[t]], s.fl, "", R)

Stimuli == [op : {"Add"}, t : Times] \cup [op : {"Poll"}, th : Threads, w : BOOLEAN] \cup [op : {"Cancel"}, k : Els]
           \cup [op : {"Shutdown"}, fl : {"none", "cancel", "ignore", "both"}]
Next == \E s \in Stimuli : Do(s)
Spec == Init /\ [][Next]_vars

(* ---- the property, on the model ---- *)
NeverEarly == \A k \in Els : el[k][2] = "done" => (el[k][1] <= LastDue \/ sd \in {"ignore", "both"})
(* a poller blocks only for a reason: empty queue (and it asked to wait), or the head it took is not due *)
BlockedJustified == \A t \in Threads : /\ pol[t][1] = -1 => (Heap(el) = {} /\ sd = "no" /\ pol[t][2])
                                       /\ pol[t][1] > 0 => (el[pol[t][1]][2] = "held" /\ ~Due(el, pol[t][1], sd))
=============================================================================
