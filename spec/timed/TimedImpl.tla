----------------------------- MODULE TimedImpl -----------------------------
(* Implementation-level model of runtime/timed.Queue driven by the workers of a timed.Executor,   *)
(* with an abstract integer clock.  One process per worker goroutine (Poll loop: wait for a       *)
(* non-empty heap / pop the head / create the timer / select on {ctx.Done, cancel, timer} / run    *)
(* the callback), environment actions Add (shutdown check and push: one step, or two in the       *)
(* "add_unguarded" variant), Cancel (remove from the heap + close the cancel channel, atomic under *)
(* the heap mutex), Executor.Shutdown(flags) (flag, ctx cancel, heap step, wait for the workers)   *)
(* and Tick.  Critical sections of the heap mutex are single steps; the window between heap.Pop    *)
(* and the select is explicit (wpc = "popped" / "select").                                         *)
(* TLC checks C18 on ALL interleavings: never early, at most once, cancel honoured, eventually     *)
(* delivered, and that Shutdown returns.  Variant selects the current code or a seeded defect.     *)
EXTENDS Integers, FiniteSets, TLC

CONSTANTS Elems, Workers, MaxT, MaxSizes,
          Variant   \* "code"               the tree after the fix: commits bbccf51, f186082, ae10602 (see findings/C18.json)
                    \* "select_race"        no re-check of the cancel channel after the timer / ctx case (code before bbccf51)
                    \* "add_unguarded"      Add tests IsShutdown before taking the heap mutex (code before f186082)
                    \* "broadcast_if_empty" Shutdown wakes waiting pollers only when the heap is empty (code before ae10602)
                    \* "early_timer"        mutation: the timer fires one tick early
                    \* "cancel_keeps_heap"  mutation: Cancel does not remove the element from the heap
                    \* "shutdown_drains"    mutation: Shutdown without flags empties the heap

VARIABLES now, msz,
          est,      \* element -> "new" | "chk" (Add past its shutdown check) | "heap" | "popped" | "out"
          at,       \* element -> scheduled time
          acc,      \* element -> Add returned a handle
          cclosed,  \* element -> cancel channel closed (Cancel returned)
          cbef,     \* element -> Cancel returned strictly before the scheduled time
          csd,      \* elements whose Cancel had returned before an ignore-timeouts Shutdown was invoked
          precanc,  \* element -> Cancel had returned before the Poll call that popped it took it from the heap
          szdrop,   \* element -> removed by the size bound
          isSd, ctxDone, flags, sdpc,
          wpc,      \* worker -> "idle" | "waitcond" | "popped" | "select" | "select2" | "deliver" | "exited"
          wel,      \* worker -> element it holds
          tf,       \* worker -> its timer has fired
          woken,    \* worker -> signalled while in waitCond.Wait()
          ndel,     \* element -> number of deliveries
          bad       \* set of clause names violated by some delivery
vars == <<now, msz, est, at, acc, cclosed, cbef, csd, precanc, szdrop, isSd, ctxDone, flags, sdpc, wpc, wel, tf, woken, ndel, bad>>

Heap == {e \in Elems : est[e] = "heap"}
NoEl == 0

Init == /\ now = 0 /\ msz \in MaxSizes
        /\ est = [e \in Elems |-> "new"] /\ at = [e \in Elems |-> 0] /\ acc = [e \in Elems |-> FALSE]
        /\ cclosed = [e \in Elems |-> FALSE] /\ cbef = [e \in Elems |-> FALSE] /\ csd = {} /\ precanc = [e \in Elems |-> FALSE]
        /\ szdrop = [e \in Elems |-> FALSE]
        /\ isSd = FALSE /\ ctxDone = FALSE /\ flags = {} /\ sdpc = "none"
        /\ wpc = [w \in Workers |-> "idle"] /\ wel = [w \in Workers |-> NoEl] /\ tf = [w \in Workers |-> FALSE]
        /\ woken = [w \in Workers |-> FALSE]
        /\ ndel = [e \in Elems |-> 0] /\ bad = {}

(* ------------------------------------ Add ------------------------------------ *)
(* push e; the size bound removes the LAST heap slot, which is never the root: any element that is not the unique minimum *)
Push(e) ==
  LET h1 == Heap \cup {e}
      over == msz > 0 /\ Cardinality(h1) > msz
      at1(x) == at'[x] IN
  /\ acc' = [acc EXCEPT ![e] = TRUE]
  /\ IF over
       THEN \E d \in h1 : /\ \E o \in h1 \ {d} : at1(o) <= at1(d)
                          /\ est' = [x \in Elems |-> IF x = d THEN "out" ELSE IF x = e THEN "heap" ELSE est[x]]
                          /\ szdrop' = [szdrop EXCEPT ![d] = TRUE]
       ELSE est' = [est EXCEPT ![e] = "heap"] /\ UNCHANGED szdrop
  \* waitCond.Signal(): wakes one poller that waits and has not been signalled yet (none: lost, harmless)
  /\ LET W == {w \in Workers : wpc[w] = "waitcond" /\ ~woken[w]} IN
       IF W = {} THEN UNCHANGED woken ELSE \E w \in W : woken' = [woken EXCEPT ![w] = TRUE]

Add(e, t) == /\ est[e] = "new" /\ \A x \in Elems : x < e => est[x] # "new"      \* (elements are used in order: symmetry by hand)
             /\ at' = [at EXCEPT ![e] = t]
             /\ IF Variant = "add_unguarded"
                  THEN /\ est' = [est EXCEPT ![e] = IF isSd THEN "out" ELSE "chk"]
                       /\ UNCHANGED <<acc, szdrop, woken>>
                  ELSE IF isSd THEN est' = [est EXCEPT ![e] = "out"] /\ UNCHANGED <<acc, szdrop, woken>>
                       ELSE Push(e)
             /\ UNCHANGED <<now, msz, cclosed, cbef, csd, precanc, isSd, ctxDone, flags, sdpc, wpc, wel, tf, ndel, bad>>
AddPush(e) == /\ est[e] = "chk" /\ UNCHANGED at /\ Push(e)
              /\ UNCHANGED <<now, msz, cclosed, cbef, csd, precanc, isSd, ctxDone, flags, sdpc, wpc, wel, tf, ndel, bad>>

(* ----------------------------------- Cancel ----------------------------------- *)
Cancel(e) == /\ acc[e] /\ ~cclosed[e] /\ est[e] \in {"heap", "popped"}
             /\ est' = [est EXCEPT ![e] = IF @ = "heap" /\ Variant # "cancel_keeps_heap" THEN "out" ELSE @]
             /\ cclosed' = [cclosed EXCEPT ![e] = TRUE] /\ cbef' = [cbef EXCEPT ![e] = now < at[e]]
             /\ UNCHANGED <<now, msz, at, acc, csd, precanc, szdrop, isSd, ctxDone, flags, sdpc, wpc, wel, tf, woken, ndel, bad>>

(* ----------------------------------- workers ----------------------------------- *)
WIdle(w) == /\ wpc[w] = "idle"
            /\ IF Heap = {}
                 THEN /\ wpc' = [wpc EXCEPT ![w] = IF isSd THEN "exited" ELSE "waitcond"]
                      /\ woken' = [woken EXCEPT ![w] = FALSE]
                      /\ UNCHANGED <<est, wel, tf, precanc>>
                 ELSE \E e \in Heap : /\ \A o \in Heap : at[e] <= at[o]
                                      /\ est' = [est EXCEPT ![e] = "popped"] /\ wel' = [wel EXCEPT ![w] = e]
                                      /\ precanc' = [precanc EXCEPT ![e] = cclosed[e]]
                                      /\ wpc' = [wpc EXCEPT ![w] = "popped"] /\ tf' = [tf EXCEPT ![w] = FALSE]
                                      /\ UNCHANGED woken
            /\ UNCHANGED <<now, msz, at, acc, cclosed, cbef, csd, szdrop, isSd, ctxDone, flags, sdpc, ndel, bad>>
WWake(w) == /\ wpc[w] = "waitcond" /\ woken[w] /\ wpc' = [wpc EXCEPT ![w] = "idle"]
            /\ UNCHANGED <<now, msz, est, at, acc, cclosed, cbef, csd, precanc, szdrop, isSd, ctxDone, flags, sdpc, wel, tf, woken, ndel, bad>>
WTimer(w) == /\ wpc[w] = "popped" /\ wpc' = [wpc EXCEPT ![w] = "select"]       \* time.NewTimer(time.Until(key)); the verif yield point sits here
             /\ UNCHANGED <<now, msz, est, at, acc, cclosed, cbef, csd, precanc, szdrop, isSd, ctxDone, flags, sdpc, wel, tf, woken, ndel, bad>>
TimerFire(w) == /\ wpc[w] \in {"select", "select2"} /\ ~tf[w]
                /\ now >= at[wel[w]] - (IF Variant = "early_timer" THEN 1 ELSE 0)
                /\ tf' = [tf EXCEPT ![w] = TRUE]
                /\ UNCHANGED <<now, msz, est, at, acc, cclosed, cbef, csd, precanc, szdrop, isSd, ctxDone, flags, sdpc, wpc, wel, woken, ndel, bad>>
Drop(w) == est' = [est EXCEPT ![wel[w]] = "out"] /\ wel' = [wel EXCEPT ![w] = NoEl] /\ tf' = [tf EXCEPT ![w] = FALSE]
(* about to return the value: the fixed code looks at the cancel channel once more *)
ToDeliver(w) == IF Variant # "select_race" /\ cclosed[wel[w]]
                  THEN wpc' = [wpc EXCEPT ![w] = "idle"] /\ Drop(w)
                  ELSE wpc' = [wpc EXCEPT ![w] = "deliver"] /\ UNCHANGED <<est, wel, tf>>
WSelect(w) == /\ wpc[w] = "select"
              /\ \/ /\ ctxDone
                    /\ IF "cancel" \in flags THEN wpc' = [wpc EXCEPT ![w] = "exited"] /\ Drop(w)        \* Poll returns the zero value: the worker leaves
                       ELSE IF "ignore" \in flags THEN ToDeliver(w)
                       ELSE wpc' = [wpc EXCEPT ![w] = "select2"] /\ UNCHANGED <<est, wel, tf>>
                 \/ /\ cclosed[wel[w]] /\ wpc' = [wpc EXCEPT ![w] = "idle"] /\ Drop(w)
                 \/ /\ tf[w] /\ ToDeliver(w)
              /\ UNCHANGED <<now, msz, at, acc, cclosed, cbef, csd, precanc, szdrop, isSd, ctxDone, flags, sdpc, woken, ndel, bad>>
WSelect2(w) == /\ wpc[w] = "select2"
               /\ \/ /\ cclosed[wel[w]] /\ wpc' = [wpc EXCEPT ![w] = "idle"] /\ Drop(w)
                  \/ /\ tf[w] /\ ToDeliver(w)
               /\ UNCHANGED <<now, msz, at, acc, cclosed, cbef, csd, precanc, szdrop, isSd, ctxDone, flags, sdpc, woken, ndel, bad>>
(* a delivery of e can be placed no earlier than its scheduled time - or than the invocation of an ignore-timeouts Shutdown: *)
(* a Cancel that returned before that moment must have prevented it                                                         *)
CancelledBefore(e) == cbef[e] /\ (~(isSd /\ "ignore" \in flags) \/ e \in csd)
WDeliver(w) == /\ wpc[w] = "deliver"
               /\ LET e == wel[w] IN
                  /\ ndel' = [ndel EXCEPT ![e] = @ + 1] /\ est' = [est EXCEPT ![e] = "out"]
                  /\ bad' = bad \cup (IF now < at[e] /\ ~(isSd /\ "ignore" \in flags) THEN {"early"} ELSE {})
                                \cup (IF precanc[e] \/ CancelledBefore(e) THEN {"cancelled"} ELSE {})
               /\ wpc' = [wpc EXCEPT ![w] = "idle"] /\ wel' = [wel EXCEPT ![w] = NoEl] /\ tf' = [tf EXCEPT ![w] = FALSE]
               /\ UNCHANGED <<now, msz, at, acc, cclosed, cbef, csd, precanc, szdrop, isSd, ctxDone, flags, sdpc, woken>>

(* ------------------------------ Executor.Shutdown ------------------------------ *)
SdFlag(fl) == /\ sdpc = "none" /\ isSd' = TRUE /\ flags' = fl /\ sdpc' = "ctx"
              /\ csd' = (IF "ignore" \in fl THEN {e \in Elems : cclosed[e]} ELSE {})
              /\ UNCHANGED <<now, msz, est, at, acc, cclosed, cbef, precanc, szdrop, ctxDone, wpc, wel, tf, woken, ndel, bad>>
SdCtx == /\ sdpc = "ctx" /\ ctxDone' = TRUE /\ sdpc' = "heap"
         /\ UNCHANGED <<now, msz, est, at, acc, cclosed, cbef, csd, precanc, szdrop, isSd, flags, wpc, wel, tf, woken, ndel, bad>>
SdHeap == /\ sdpc = "heap" /\ sdpc' = "wait"
          /\ woken' = IF Heap = {} \/ Variant # "broadcast_if_empty" THEN [w \in Workers |-> TRUE] ELSE woken
          /\ est' = IF "cancel" \in flags \/ Variant = "shutdown_drains" THEN [e \in Elems |-> IF est[e] = "heap" THEN "out" ELSE est[e]] ELSE est
          /\ UNCHANGED <<now, msz, at, acc, cclosed, cbef, csd, precanc, szdrop, isSd, ctxDone, flags, wpc, wel, tf, ndel, bad>>
SdWait == /\ sdpc = "wait" /\ \A w \in Workers : wpc[w] = "exited" /\ sdpc' = "done"
          /\ UNCHANGED <<now, msz, est, at, acc, cclosed, cbef, csd, precanc, szdrop, isSd, ctxDone, flags, wpc, wel, tf, woken, ndel, bad>>

Tick == /\ now < MaxT /\ now' = now + 1
        /\ UNCHANGED <<msz, est, at, acc, cclosed, cbef, csd, precanc, szdrop, isSd, ctxDone, flags, sdpc, wpc, wel, tf, woken, ndel, bad>>

WorkerStep(w) == WIdle(w) \/ WWake(w) \/ WTimer(w) \/ TimerFire(w) \/ WSelect(w) \/ WSelect2(w) \/ WDeliver(w)
Next == \/ \E e \in Elems : (\E t \in 0..MaxT : Add(e, t)) \/ AddPush(e) \/ Cancel(e)
        \/ \E w \in Workers : WorkerStep(w)
        \/ \E fl \in SUBSET {"cancel", "ignore"} : SdFlag(fl)
        \/ SdCtx \/ SdHeap \/ SdWait \/ Tick
Fair == /\ \A w \in Workers : WF_vars(WIdle(w)) /\ WF_vars(WWake(w)) /\ WF_vars(WTimer(w)) /\ WF_vars(TimerFire(w))
                              /\ WF_vars(WSelect(w)) /\ WF_vars(WSelect2(w)) /\ WF_vars(WDeliver(w))
        /\ \A e \in Elems : WF_vars(AddPush(e))
        /\ WF_vars(SdCtx) /\ WF_vars(SdHeap) /\ WF_vars(SdWait) /\ WF_vars(Tick)
Spec == Init /\ [][Next]_vars /\ Fair

(* ------------------------------- C18 on the model ------------------------------- *)
TypeOK == /\ now \in 0..MaxT /\ \A w \in Workers : wpc[w] \in {"popped", "select", "select2", "deliver"} => est[wel[w]] = "popped"
          /\ (msz > 0 => Cardinality(Heap) <= msz)
AtMostOnce == \A e \in Elems : ndel[e] <= 1
NeverEarly == "early" \notin bad
CancelHonoured == "cancelled" \notin bad
(* Cancel takes the element out of the heap (observable through Size) *)
CancelRemoves == \A e \in Elems : cclosed[e] => est[e] # "heap"
(* an accepted element that is not cancelled, not dropped by the size bound or by the cancel flag is eventually delivered *)
Excused(e) == cclosed[e] \/ szdrop[e] \/ (isSd /\ "cancel" \in flags)
EventuallyDelivered == \A e \in Elems : acc[e] ~> (ndel[e] >= 1 \/ Excused(e))
(* Executor.Shutdown returns (all workers leave) *)
ShutdownReturns == (sdpc = "ctx") ~> (sdpc = "done")
(* The model has no cycles (time and every element only move forward), so under the fairness above a behaviour ends in a   *)
(* state where no fair action is enabled; the two liveness properties are equivalent to these invariants (quick tier):    *)
FairNext == \/ \E w \in Workers : WorkerStep(w)
            \/ \E e \in Elems : AddPush(e)
            \/ SdCtx \/ SdHeap \/ SdWait \/ Tick
Quiet == ~ENABLED FairNext
QuietDelivered == Quiet => \A e \in Elems : acc[e] => (ndel[e] >= 1 \/ Excused(e))
QuietShutdown == Quiet => sdpc \in {"none", "done"}
=============================================================================
