------------------------------- MODULE Timed -------------------------------
(* API-level meaning of property C18 for timed.Executor / timed.TaskExecutor (and the timed.Queue  *)
(* their workers poll), as a TRACE specification over a clock: every event carries the monotonic    *)
(* time ts at which it was logged, the spec sets now' = ts.  Events = what the environment of the   *)
(* executor observes, in one global order (one log mutex, time stamp taken inside it):              *)
(*   add / addEnd          ExecuteAt(value k [, identifier key], time at) invoked / returned (ok = a handle came back) *)
(*   cancelEnd             element handle k: Cancel() returned                                      *)
(*   kcancel / kcancelEnd  TaskExecutor.Cancel(key) invoked / returned res                           *)
(*   deliver / cbEnd       the callback of k begins (logged inside the callback) / returns          *)
(*   sdBegin / sdEnd       Shutdown(flags) invoked / returned                                       *)
(*   final                 the run is over (the driver waited for the latest scheduled time + stall bound) *)
(* Each arm's guard IS the property; a recorded execution of the real code that TLC cannot follow   *)
(* violates it at that line.  Only claims that are exact by construction are made on time stamps:    *)
(*   never early     deliver.ts >= at  (the stamp is taken after the callback began: a late stamp can only hide, never invent) *)
(*   at most once    one deliver per element                                                          *)
(*   cancel honoured a Cancel() / replacement that had RETURNED before the delivery could possibly   *)
(*                   have begun (before the scheduled time, before an ignore-timeouts Shutdown, and, *)
(*                   with one worker, before the worker became free) is never followed by a delivery;*)
(*                   Cancel(key) = TRUE claims prevention outright: that task never runs;            *)
(*                   Cancel(key) = FALSE is allowed only if no task of key can still have been pending*)
(*   eventually      at a waiting Shutdown's return and at the end every accepted element that is    *)
(*                   not cancelled / replaced / excused by the cancel flag or the size bound ran     *)
EXTENDS Integers, Sequences, FiniteSets, TLC

CONSTANTS Threads, Kinds, WorkerCounts, MaxSizes,
          MaxT, MaxEls       \* MaxT / MaxEls bound only the closed sanity system below
VARIABLES cfg, now,
          els,      \* sequence of element records (index = k)
          sd,       \* the Shutdown call
          idle,     \* time at which the last callback returned (one-worker executors: the worker polls from then on)
          drops,    \* number of removals the size bound may have made
          snap,     \* thread -> pending tasks of the key when its Cancel(key) was invoked
          ev
vars == <<cfg, now, els, sd, idle, drops, snap, ev>>
View == <<cfg, now, els, sd, idle, drops, snap>>
Cfgs == [kind : Kinds, workers : WorkerCounts, maxsize : MaxSizes]

NoSd == [begun |-> FALSE, cancel |-> FALSE, ignore |-> FALSE, wait |-> FALSE, bts |-> 0, ended |-> FALSE]
InitState == /\ now = 0 /\ els = <<>> /\ sd = NoSd /\ idle = 0 /\ drops = 0 /\ snap = [t \in Threads |-> {}]
Init == /\ cfg \in Cfgs /\ InitState /\ ev = [op |-> "reset", cfg |-> cfg]

NewEl(key, at) == [key |-> key, at |-> at, added |-> "begun", nd |-> 0, dt |-> -1, cend |-> -1,
                   strong |-> FALSE, free |-> FALSE, maydrop |-> FALSE]
(* still owed or possibly owed: accepted (or being added), not run, not cancelled / replaced / claimed / released *)
Live(e) == e.added \in {"begun", "ok"} /\ e.nd = 0 /\ e.cend = -1 /\ ~e.strong /\ ~e.free
(* obligations that are not met; the cancel flag excuses everything, the size bound `drops` elements that were present at an overflow *)
Unmet == {k \in DOMAIN els : els[k].added = "ok" /\ Live(els[k])}
AllMet == \/ sd.begun /\ sd.cancel
          \/ /\ \A k \in Unmet : els[k].maydrop
             /\ Cardinality(Unmet) <= drops

Clock(s) == s.ts >= now /\ now' = s.ts

Do(s) ==
  CASE s.op = "reset" -> /\ cfg' = s.cfg /\ now' = 0 /\ els' = <<>> /\ sd' = NoSd /\ idle' = 0 /\ drops' = 0
                         /\ snap' = [t \in Threads |-> {}] /\ ev' = s
    [] s.op = "note" -> UNCHANGED <<cfg, now, els, sd, idle, drops, snap>> /\ ev' = s      \* (the driver names its scenario)
    [] s.op = "add" ->
         /\ Clock(s) /\ s.k = Len(els) + 1
         /\ els' = Append(els, NewEl(s.key, s.at))
         /\ UNCHANGED <<cfg, sd, idle, drops, snap>> /\ ev' = s
    [] s.op = "addEnd" ->
         /\ Clock(s) /\ s.k \in DOMAIN els /\ els[s.k].added = "begun"
         /\ (~s.ok => sd.begun /\ els[s.k].nd = 0)                        \* an element is refused only once Shutdown was invoked - and then never runs
         /\ LET live == {j \in DOMAIN els : Live(els[j])}
                over == s.ok /\ cfg.maxsize > 0 /\ Cardinality(live) > cfg.maxsize
                key == els[s.k].key
                older(j) == j < s.k /\ key # 0 /\ els[j].key = key /\ els[j].added = "ok" /\ els[j].nd = 0
            IN /\ els' = [j \in DOMAIN els |->
                           IF j = s.k THEN [els[j] EXCEPT !.added = IF s.ok THEN "ok" ELSE "refused", !.maydrop = over]
                           ELSE IF older(j) THEN (IF s.ok THEN [els[j] EXCEPT !.cend = IF @ = -1 THEN s.ts ELSE @]    \* replaced by the new task
                                                  ELSE [els[j] EXCEPT !.free = TRUE])                               \* (refused replacement: either outcome)
                           ELSE IF over /\ j \in live THEN [els[j] EXCEPT !.maydrop = TRUE]
                           ELSE els[j]]
               /\ drops' = IF over THEN drops + 1 ELSE drops
         /\ UNCHANGED <<cfg, sd, idle, snap>> /\ ev' = s
    [] s.op = "cancelEnd" ->
         /\ Clock(s) /\ s.k \in DOMAIN els
         /\ els' = [els EXCEPT ![s.k].cend = IF @ = -1 THEN s.ts ELSE @]
         /\ UNCHANGED <<cfg, sd, idle, drops, snap>> /\ ev' = s
    [] s.op = "kcancel" ->
         /\ Clock(s) /\ snap' = [snap EXCEPT ![s.t] = {k \in DOMAIN els : els[k].key = s.key /\ Live(els[k])}]
         /\ UNCHANGED <<cfg, els, sd, idle, drops>> /\ ev' = s
    [] s.op = "kcancelEnd" ->
         /\ Clock(s)
         /\ LET P == {k \in snap[s.t] : els[k].nd = 0} IN
            IF s.res
              THEN /\ P # {}                                             \* true: it prevented a task that was pending and has not begun
                   /\ els' = [j \in DOMAIN els |-> IF j \in P THEN [els[j] EXCEPT !.strong = TRUE] ELSE els[j]]
              ELSE /\ \A k \in P : \/ els[k].at <= s.ts                   \* false: a pending task can only be one that was already due (being delivered)
                                   \/ sd.begun /\ (sd.cancel \/ sd.ignore)   \* ... or dropped / released by the Shutdown flags
                                   \/ els[k].added = "begun"
                   /\ UNCHANGED els
         /\ snap' = [snap EXCEPT ![s.t] = {}]
         /\ UNCHANGED <<cfg, sd, idle, drops>> /\ ev' = s
    [] s.op = "deliver" ->
         /\ Clock(s) /\ s.k \in DOMAIN els
         /\ LET e == els[s.k]
                ign == sd.begun /\ sd.ignore
                lb0 == IF ign /\ sd.bts < e.at THEN sd.bts ELSE e.at
                lb == IF cfg.workers = 1 /\ idle > lb0 THEN idle ELSE lb0
            IN /\ e.added # "refused"                                    \* a refused element is never delivered
               /\ e.nd = 0                                               \* at most once
               /\ (s.ts >= e.at \/ ign)                                  \* never early
               /\ ~e.strong                                              \* Cancel(key) = true prevented it
               /\ (e.cend = -1 \/ e.cend >= lb)                          \* cancelled / replaced before it could begin: never delivered
         /\ els' = [els EXCEPT ![s.k].nd = 1, ![s.k].dt = s.ts]
         /\ UNCHANGED <<cfg, sd, idle, drops, snap>> /\ ev' = s
    [] s.op = "cbEnd" ->
         /\ Clock(s) /\ s.k \in DOMAIN els /\ els[s.k].nd = 1
         /\ idle' = s.ts
         /\ UNCHANGED <<cfg, els, sd, drops, snap>> /\ ev' = s
    [] s.op = "sdBegin" ->
         /\ Clock(s) /\ ~sd.begun
         /\ sd' = [begun |-> TRUE, cancel |-> s.cancel, ignore |-> s.ignore, wait |-> s.wait, bts |-> s.ts, ended |-> FALSE]
         /\ UNCHANGED <<cfg, els, idle, drops, snap>> /\ ev' = s
    [] s.op = "sdEnd" ->           \* a waiting Shutdown returns only when its workers are gone: everything owed has run
         /\ Clock(s) /\ sd.begun /\ ~sd.ended
         /\ (sd.wait => AllMet)
         /\ sd' = [sd EXCEPT !.ended = TRUE]
         /\ UNCHANGED <<cfg, els, idle, drops, snap>> /\ ev' = s
    [] s.op = "probe" ->           \* the driver vouches that at least one worker has had nothing to do for the last s.slack time units
                                   \* (more workers than elements in flight, no callback held): an accepted element that has been due
                                   \* for that long was delivered - "eventually" with a deadline, which a lost wake-up misses
         /\ Clock(s)
         /\ \A k \in DOMAIN els : ~(els[k].added = "ok" /\ Live(els[k]) /\ els[k].at + s.slack <= s.ts)
         /\ UNCHANGED <<cfg, els, sd, idle, drops, snap>> /\ ev' = s
    [] s.op = "final" ->           \* the run is over: nobody hangs, everything owed has run
         /\ Clock(s) /\ s.hung = <<>> /\ AllMet
         /\ UNCHANGED <<cfg, els, sd, idle, drops, snap>> /\ ev' = s

(* ---- a small closed system: any order of the events on a small clock (sanity of the acceptor itself) ---- *)
TS == {t \in {now, now + 1} : t <= MaxT}
Stimuli == [op : {"add"}, k : {Len(els) + 1} \cap (1..MaxEls), key : IF cfg.kind = "task" THEN {1} ELSE {0}, at : 0..MaxT, ts : TS]
           \cup [op : {"addEnd"}, k : DOMAIN els, ok : BOOLEAN, ts : TS]
           \cup [op : {"cancelEnd", "deliver", "cbEnd"}, k : DOMAIN els, ts : TS]
           \cup [op : {"kcancel"}, t : Threads, key : {1}, ts : TS]
           \cup [op : {"kcancelEnd"}, t : Threads, key : {1}, res : BOOLEAN, ts : TS]
           \cup [op : {"sdBegin"}, cancel : BOOLEAN, ignore : BOOLEAN, wait : BOOLEAN, ts : TS]
           \cup [op : {"sdEnd"}, ts : TS] \cup [op : {"final"}, hung : {<<>>}, ts : TS]
Next == \E s \in Stimuli : Do(s)
Spec == Init /\ [][Next]_vars

AtMostOnce == \A k \in DOMAIN els : els[k].nd <= 1
NeverEarly == \A k \in DOMAIN els : els[k].dt # -1 => (els[k].dt >= els[k].at \/ (sd.begun /\ sd.ignore /\ sd.bts <= els[k].dt))
RefusedNeverRuns == \A k \in DOMAIN els : els[k].added = "refused" => els[k].nd = 0
(* once the end of the run was accepted nothing is owed except what the cancel flag / the size bound excuse *)
FinalMeansDelivered == ev.op = "final" => AllMet
=============================================================================
