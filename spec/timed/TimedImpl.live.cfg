SPECIFICATION Spec
CONSTANTS
  Elems = {1, 2}
  Workers = {1, 2}
  MaxT = 1
  MaxSizes = {0, 1}
  Variant = "code"
INVARIANTS TypeOK
PROPERTIES EventuallyDelivered ShutdownReturns
