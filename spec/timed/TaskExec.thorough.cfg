CONSTANTS
  Ids = {1, 2}
  Times = {1, 2}
  LastDue = 1
  MaxTasks = 4
  WorkerCounts = {1, 2}
INVARIANTS OnePendingPerId NeverEarly WorkersBounded NoIdleWorker
