SPECIFICATION Spec
CONSTANTS
  Elems = {1, 2}
  Workers = {1, 2}
  MaxT = 1
  MaxSizes = {0}
  Variant = "code"
INVARIANTS TypeOK AtMostOnce NeverEarly CancelHonoured CancelRemoves QuietDelivered QuietShutdown
