SPECIFICATION Spec
CONSTANTS
  Elems = {1, 2}
  Workers = {1}
  MaxT = 1
  MaxSizes = {1}
  Variant = "code"
INVARIANTS TypeOK AtMostOnce NeverEarly CancelHonoured CancelRemoves QuietDelivered QuietShutdown
