CONSTANTS
  Threads = {1, 2}
  Times = {1, 2}
  LastDue = 1
  MaxAdds = 2
INVARIANTS NeverEarly BlockedJustified
