SPECIFICATION Spec
CONSTANTS
  Elems = {1}
  Workers = {1, 2}
  MaxT = 1
  MaxSizes = {0}
  Variant = "broadcast_if_empty"
INVARIANTS TypeOK AtMostOnce NeverEarly CancelHonoured CancelRemoves QuietDelivered QuietShutdown
