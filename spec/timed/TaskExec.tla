------------------------------ MODULE TaskExec ------------------------------
(* runtime/timed.TaskExecutor (which embeds Executor and its timed Queue) at the level of its API,   *)
(* observed at quiescent points: one stimulus = one call (or: the harness lets one running callback *)
(* return); the step lasts until every goroutine of the process is parked.  Callbacks park at a gate *)
(* when they begin, so "running" tasks are visible and held while their identifier is scheduled      *)
(* again or cancelled.  Scheduled times are abstract: t <= LastDue = already due, later = hours ahead  *)
(* (never reached during a run); among equal times the earlier call comes first.                    *)
(* C18: a task runs at most once and never before its time (unless an ignore-timeouts Shutdown), a    *)
(* cancelled / replaced task never runs, at most one task per identifier is pending, ExecuteAt(id)    *)
(* replaces the pending task of id, Cancel(id) = true exactly when it prevented a pending task, what  *)
(* is pending at Shutdown is run (no flag: when due; ignore: at once) or dropped (cancel flag).       *)
EXTENDS Integers, Sequences, FiniteSets, SequencesExt, TLC

CONSTANTS Ids, Times, LastDue, MaxTasks, WorkerCounts
VARIABLES cfg,
          n,        \* tasks scheduled so far
          tk,       \* task -> <<id, t, st>>; st: "none" | "heap" | "held" (taken by a worker that waits for its time) | "running" | "done" | "out"
          sd,       \* "no" | "none" | "cancel" | "ignore" | "both"
          sdw,      \* the Shutdown call has not returned yet
          ev
vars == <<cfg, n, tk, sd, sdw, ev>>
View == <<cfg, n, tk, sd, sdw>>
(* configurations: workers x (one identifier with MaxTasks calls | all identifiers with MaxTasks - 1 calls) - keeps the LTS small *)
Shapes == {[ids |-> 1, max |-> MaxTasks], [ids |-> Cardinality(Ids), max |-> MaxTasks - 1]}
\* pf = Shutdown is additionally given PanicOnModificationsAfterShutdown: a later ExecuteAt panics instead of returning nil - and
\* nothing else changes (what was pending still runs or is dropped as the other flags say, the shutdown still completes)
\* mq = WithMaxQueueSize (0 = unbounded, 1 = one queued task besides those the workers hold).  A task that REPLACES the pending task
\* of its identifier does not count twice (the replaced task is gone before the new one is queued).  When the queue would hold two
\* tasks the later one is dropped (of two equal times: the newcomer) - it is not pending anymore, so it never runs, a new task of
\* its identifier replaces nothing, and Cancel of its identifier prevents nothing and says so.
Cfgs == ({[workers |-> w, ids |-> sh.ids, max |-> sh.max, pf |-> f, mq |-> q] : w \in WorkerCounts, sh \in Shapes, f \in BOOLEAN, q \in {0, 1}}
          \ {c \in [workers : WorkerCounts, ids : 1..Cardinality(Ids), max : 1..MaxTasks, pf : BOOLEAN, mq : {0, 1}] : c.pf /\ c.mq # 0})
        \cup {[workers |-> 1, ids |-> 3, max |-> 3, pf |-> FALSE, mq |-> 1]}     \* three identifiers: the bound drops a task nobody replaced
Tasks == 1..MaxTasks
NoTask == <<0, 0, "none">>      \* <<identifier, time, state>> (tuples, not records: ToString(View) must be canonical)
SSeq(S) == SetToSortSeq(S, <)

With(s) == {k \in Tasks : tk[k][3] = s}
In(T, s) == {k \in Tasks : T[k][3] = s}
(* the pending task of an identifier: scheduled, callback not begun, not cancelled / replaced / dropped *)
Pending(T, i) == {k \in Tasks : T[k][1] = i /\ T[k][3] \in {"heap", "held"}}
Before(T, a, b) == T[a][2] < T[b][2] \/ (T[a][2] = T[b][2] /\ a < b)

(* free workers take the earliest queued task: due (or timeouts ignored) -> its callback begins; else the worker waits for it *)
RECURSIVE Settle(_, _, _)
Settle(T, s, w) ==
  LET H == In(T, "heap")
      busy == Cardinality(In(T, "held")) + Cardinality(In(T, "running")) IN
  IF H = {} \/ busy >= w THEN T
  ELSE LET m == CHOOSE k \in H : \A o \in H \ {k} : Before(T, k, o) IN
       Settle([T EXCEPT ![m][3] = IF T[m][2] <= LastDue \/ s \in {"ignore", "both"} THEN "running" ELSE "held"], s, w)

(* all workers have left: nothing queued, waited for or running *)
Gone(T) == In(T, "heap") = {} /\ In(T, "held") = {} /\ In(T, "running") = {}

Obs(T, s, w) == [size |-> Cardinality(In(T, "heap")), running |-> SSeq(In(T, "running")), done |-> SSeq(In(T, "done")), sdwait |-> w]

InitState == /\ n = 0 /\ tk = [k \in Tasks |-> NoTask] /\ sd = "no" /\ sdw = FALSE
Init == /\ cfg \in Cfgs /\ InitState /\ ev = [op |-> "reset", cfg |-> cfg]

Finish(s, T, sdn, r) ==
  LET T1 == Settle(T, sdn, cfg.workers)
      w1 == (sdw \/ (sd = "no" /\ sdn # "no")) /\ ~Gone(T1) IN
  /\ tk' = T1 /\ sd' = sdn /\ sdw' = w1
  /\ ev' = [s EXCEPT !.res = [r |-> r, sdret |-> ((sdw \/ (sd = "no" /\ sdn # "no")) /\ ~w1)], !.st = Obs(T1, sdn, w1)]

E(s) == s @@ [res |-> 0, st |-> 0]
Do(s0) ==
  LET s == IF s0.op = "reset" THEN s0 ELSE E(s0) IN
  CASE s.op = "reset" -> /\ cfg' = s.cfg /\ n' = 0 /\ tk' = [k \in Tasks |-> NoTask] /\ sd' = "no" /\ sdw' = FALSE /\ ev' = s
    [] s.op = "Exec" ->        \* ExecuteAt(id, callback, t)
         /\ UNCHANGED cfg /\ n < cfg.max /\ s.id <= cfg.ids /\ n' = n + 1
         /\ (cfg.ids = 3 => s.id = n + 1)        \* (three identifiers: each is scheduled once, in turn - keeps that configuration small)
         /\ IF sd # "no"
              THEN /\ Pending(tk, s.id) = {}          \* (a refused re-schedule of a pending identifier is not exercised)
                   /\ Finish(s, tk, sd, IF cfg.pf THEN "panic" ELSE "refused")
              ELSE LET T0 == [k \in Tasks |-> IF k \in Pending(tk, s.id) THEN [tk[k] EXCEPT ![3] = "out"]       \* replaces the pending task
                                              ELSE IF k = n + 1 THEN <<s.id, s.t, "heap">> ELSE tk[k]]
                       H0 == In(T0, "heap")
                       over == cfg.mq > 0 /\ Cardinality(H0) > cfg.mq
                       old == CHOOSE o \in H0 : over => o # n + 1
                       victim == IF Before(T0, n + 1, old) THEN old ELSE n + 1
                       T1 == IF over THEN [T0 EXCEPT ![victim][3] = "out"] ELSE T0
                       freed == \E k \in Pending(tk, s.id) : tk[k][3] = "held"    \* (replacing a task a worker holds frees that worker, which
                   IN /\ (over => Cardinality(H0) = 2 /\ ~freed)                \*  takes a queued task at an unknown moment: not exercised)
                      /\ Finish(s, T1, sd, "ok")
    [] s.op = "Cancel" ->      \* Cancel(id): true exactly when a pending task was prevented from running
         /\ UNCHANGED <<cfg, n>> /\ sd = "no" /\ s.id <= cfg.ids
         /\ LET P == Pending(tk, s.id) IN
            Finish(s, [k \in Tasks |-> IF k \in P THEN [tk[k] EXCEPT ![3] = "out"] ELSE tk[k]], sd, IF P # {} THEN "true" ELSE "false")
    [] s.op = "Release" ->     \* the harness lets the running callback of task k return
         /\ UNCHANGED <<cfg, n>> /\ tk[s.k][3] = "running"
         /\ Finish(s, [tk EXCEPT ![s.k][3] = "done"], sd, "")
    [] s.op = "Shutdown" ->    \* Executor.Shutdown(flags) on its own thread; returns once the workers have left
         /\ UNCHANGED <<cfg, n>> /\ sd = "no"
         /\ LET T0 == IF s.fl \in {"cancel", "both"}
                        THEN [k \in Tasks |-> IF tk[k][3] \in {"heap", "held"} THEN [tk[k] EXCEPT ![3] = "out"] ELSE tk[k]]      \* dropped
                      ELSE IF s.fl = "ignore"
                        THEN [k \in Tasks |-> IF tk[k][3] = "held" THEN [tk[k] EXCEPT ![3] = "running"] ELSE tk[k]]              \* run at once
                      ELSE tk
            IN Finish(s, T0, s.fl, "")

AllIds == Ids \cup {3}       \* (the three-identifier configuration; s.id <= cfg.ids keeps the others to their own identifiers)
Stimuli == [op : {"Exec"}, id : AllIds, t : Times] \cup [op : {"Cancel"}, id : AllIds] \cup [op : {"Release"}, k : Tasks]
           \cup [op : {"Shutdown"}, fl : {"none", "cancel", "ignore", "both"}]
Next == \E s \in Stimuli : Do(s)
Spec == Init /\ [][Next]_vars

(* ---- the property, on the model ---- *)
OnePendingPerId == \A i \in Ids \cup {3} : Cardinality(Pending(tk, i)) <= 1
NeverEarly == \A k \in Tasks : tk[k][3] \in {"running", "done"} => (tk[k][2] <= LastDue \/ sd \in {"ignore", "both"})
WorkersBounded == Cardinality(With("held")) + Cardinality(With("running")) <= cfg.workers
(* no worker idles while a task is queued *)
NoIdleWorker == With("heap") # {} => Cardinality(With("held")) + Cardinality(With("running")) = cfg.workers
(* a task that ran stays run (once), a dropped one stays dropped *)
AtMostOnce == [][\A k \in Tasks : (tk[k][3] \in {"done", "out"} => tk'[k][3] = tk[k][3]) \/ ev'.op = "reset"]_vars
=============================================================================
