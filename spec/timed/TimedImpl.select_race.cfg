SPECIFICATION Spec
CONSTANTS
  Elems = {1, 2}
  Workers = {1, 2}
  MaxT = 1
  MaxSizes = {0, 1}
  Variant = "select_race"
INVARIANTS TypeOK AtMostOnce NeverEarly CancelHonoured CancelRemoves QuietDelivered QuietShutdown
