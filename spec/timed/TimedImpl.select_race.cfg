SPECIFICATION Spec
CONSTANTS
  Elems = {1}
  Workers = {1}
  MaxT = 1
  MaxSizes = {0}
  Variant = "select_race"
INVARIANTS TypeOK AtMostOnce NeverEarly CancelHonoured CancelRemoves QuietDelivered QuietShutdown
