CONSTANTS
  Threads = {1, 2}
  Times = {1, 2, 3, 4}
  LastDue = 2
  MaxAdds = 8
INVARIANTS NeverEarly BlockedJustified
