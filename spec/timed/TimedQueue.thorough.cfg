CONSTANTS
  Threads = {1, 2}
  Times = {1, 2}
  LastDue = 1
  MaxAdds = 3
INVARIANTS NeverEarly BlockedJustified
