SPECIFICATION Spec
CONSTANTS
  Elems = {1}
  Workers = {1}
  MaxT = 1
  MaxSizes = {0}
  Variant = "shutdown_drains"
INVARIANTS TypeOK AtMostOnce NeverEarly CancelHonoured CancelRemoves QuietDelivered QuietShutdown
