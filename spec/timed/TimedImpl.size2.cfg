SPECIFICATION Spec
CONSTANTS
  Elems = {1, 2, 3}
  Workers = {1}
  MaxT = 1
  MaxSizes = {2}
  Variant = "code"
INVARIANTS TypeOK AtMostOnce NeverEarly CancelHonoured CancelRemoves QuietDelivered QuietShutdown
