SPECIFICATION Spec
CONSTANTS
  Ids = {1, 2}
  MaxTasks = 3
  NWorkers = 2
  Variant = "code"
INVARIANTS OnePendingPerId Replaces CancelTrueMeansPrevented CancelFalseMeansNonePending Justified Tracked
