CONSTANTS
  Ids = {1, 2}
  Times = {1, 2, 3, 4}
  LastDue = 2
  MaxTasks = 8
  WorkerCounts = {1, 2, 3}
INVARIANTS OnePendingPerId NeverEarly WorkersBounded NoIdleWorker
