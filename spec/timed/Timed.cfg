CONSTANTS
  Threads = {1}
  Kinds = {"task"}
  WorkerCounts = {1}
  MaxSizes = {1}
  MaxT = 1
  MaxEls = 2
INVARIANTS AtMostOnce NeverEarly RefusedNeverRuns FinalMeansDelivered
VIEW View
