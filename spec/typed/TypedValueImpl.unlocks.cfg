SPECIFICATION Spec
CONSTANTS
  Threads = {1, 2, 3}
  Ops = {"Get", "Set", "Delete", "Compute"}
  Variant = "compute_unlocks"
INVARIANTS CacheCoherent NoLostUpdate
PROPERTIES Terminates
