------------------------------- MODULE RegLin -------------------------------
(* Linearizability of kvstore.TypedValue as a trace specification with silent steps (C06:     *)
(* concurrent Compute/Set/Delete calls on one TypedValue are serialised: no update is lost    *)
(* and readers never see a value that was not written).  Every call is one atomic step of a    *)
(* register that is absent or holds an integer; histories are recorded from the real object    *)
(* (free-running callers, and forced schedules with the compute function as a gate).           *)
EXTENDS Integers, Sequences, FiniteSets, TLC, Json

CONSTANTS Threads
VARIABLES l, reg, pend
vars == <<l, reg, pend>>
Log == ndJsonDeserialize("trace.ndjson")
Idle == [st |-> "idle"]
Absent == 0 - 1

(* result and effect of op with argument a on register value r (Absent or n >= 0) *)
Res(op, a, r) == CASE op = "Get" -> r                                  \* Absent = ErrKeyNotFound
                   [] op = "Has" -> IF r = Absent THEN 0 ELSE 1
                   [] op \in {"Set", "Delete"} -> 0
                   [] op = "Inc" -> IF r = Absent THEN 1 ELSE r + 1     \* Compute(increment) returns the new value
Eff(op, a, r) == CASE op \in {"Get", "Has"} -> r
                   [] op = "Set" -> a
                   [] op = "Delete" -> Absent
                   [] op = "Inc" -> IF r = Absent THEN 1 ELSE r + 1

Init == l = 1 /\ reg = Absent /\ pend = [t \in Threads |-> Idle] /\ TLCSet(1, 1)
Consume ==
  /\ l <= Len(Log) /\ l' = l + 1
  /\ LET e == Log[l] IN
     CASE e.ev = "reset" -> reg' = Absent /\ pend' = [t \in Threads |-> Idle]
       [] e.ev = "inv" -> pend[e.t].st = "idle" /\ pend' = [pend EXCEPT ![e.t] = [st |-> "inv", op |-> e.op, a |-> e.a]] /\ UNCHANGED reg
       [] e.ev = "ret" -> pend[e.t].st = "lin" /\ pend[e.t].res = e.res /\ pend' = [pend EXCEPT ![e.t] = Idle] /\ UNCHANGED reg
       [] e.ev = "final" -> e.hung = <<>> /\ e.value = reg /\ e.raw = reg /\ UNCHANGED <<reg, pend>>   \* store bytes = last written value
  /\ TLCSet(1, IF TLCGet(1) < l + 1 THEN l + 1 ELSE TLCGet(1))
Lin(t) == /\ pend[t].st = "inv"
          /\ pend' = [pend EXCEPT ![t] = [st |-> "lin", res |-> Res(pend[t].op, pend[t].a, reg)]]
          /\ reg' = Eff(pend[t].op, pend[t].a, reg) /\ UNCHANGED l
Next == Consume \/ \E t \in Threads : Lin(t)
Spec == Init /\ [][Next]_vars
NotDone == l <= Len(Log)
Short == [l |-> l]
HighWater == PrintT(<<"HW", ToString(TLCGet(1))>>)
=============================================================================
