\* exhaustive run: action properties are checked on every transition of the view-reduced graph
CONSTANTS
  Defects = {}
  Vals = {1, 2, 3, 4, 5}
VIEW View
INVARIANTS TypeOK CacheCoherent StoredIsLastWritten
PROPERTIES ViewsAgree Transparent FailureLeavesUnchanged WriteFaultReported
