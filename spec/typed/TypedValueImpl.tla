--------------------------- MODULE TypedValueImpl ---------------------------
(* Lock-level model of kvstore.TypedValue: one RWMutex; Get/Has = fast path under the read    *)
(* lock (cache hit), else release, take the write lock, re-check, read the store, fill the     *)
(* cache; Set/Delete/Compute under the write lock (Compute = read, compute, write while the    *)
(* lock is held).  TLC explores all interleavings of 3 callers and checks the concurrent       *)
(* clause of C06: calls are serialised - no update is lost and readers only see written values. *)
EXTENDS Integers, Sequences, FiniteSets, TLC

CONSTANTS Threads, Ops, Variant    \* "code" | "compute_unlocks" (Compute releases the lock between its read and its write)
                                   \* | "set_cache_first_unlocked" (Set publishes the cache before it holds the write lock)
Absent == 0 - 1
Unknown == 0 - 2
VARIABLES op, pc, readers, writer, store, cache,   \* cache: Unknown or the value / Absent
          tmp, got, incs
vars == <<op, pc, readers, writer, store, cache, tmp, got, incs>>

Init == /\ op \in [Threads -> Ops] /\ pc = [t \in Threads |-> "start"] /\ readers = 0 /\ writer = 0
        /\ store = Absent /\ cache = Unknown /\ tmp = [t \in Threads |-> 0] /\ got = [t \in Threads |-> Unknown] /\ incs = 0

Known == cache # Unknown
RLock(t, nxt) == writer = 0 /\ readers' = readers + 1 /\ pc' = [pc EXCEPT ![t] = nxt] /\ UNCHANGED writer
WLock(t, nxt) == writer = 0 /\ readers = 0 /\ writer' = t /\ pc' = [pc EXCEPT ![t] = nxt] /\ UNCHANGED readers

Start(t) == /\ pc[t] = "start"
            /\ IF op[t] = "Get" THEN RLock(t, "fast")
               ELSE IF op[t] = "Set" /\ Variant = "set_cache_first_unlocked" THEN pc' = [pc EXCEPT ![t] = "setcache"] /\ UNCHANGED <<readers, writer>>
               ELSE WLock(t, op[t])
            /\ UNCHANGED <<op, store, cache, tmp, got, incs>>
GetFast(t) == /\ pc[t] = "fast"
              /\ IF Known THEN got' = [got EXCEPT ![t] = cache] /\ pc' = [pc EXCEPT ![t] = "done"]
                          ELSE pc' = [pc EXCEPT ![t] = "upgrade"] /\ UNCHANGED got
              /\ readers' = readers - 1 /\ UNCHANGED <<op, writer, store, cache, tmp, incs>>
GetUpgrade(t) == /\ pc[t] = "upgrade" /\ WLock(t, "slow") /\ UNCHANGED <<op, store, cache, tmp, got, incs>>
GetSlow(t) == /\ pc[t] = "slow" /\ writer = t
              /\ IF Known THEN got' = [got EXCEPT ![t] = cache] /\ UNCHANGED cache
                          ELSE cache' = store /\ got' = [got EXCEPT ![t] = store]
              /\ writer' = 0 /\ pc' = [pc EXCEPT ![t] = "done"] /\ UNCHANGED <<op, readers, store, tmp, incs>>
SetCache(t) == /\ pc[t] = "setcache" /\ cache' = 100 + t /\ pc' = [pc EXCEPT ![t] = "setlock"]
               /\ UNCHANGED <<op, readers, writer, store, tmp, got, incs>>
SetLock(t) == /\ pc[t] = "setlock" /\ WLock(t, "Set") /\ UNCHANGED <<op, store, cache, tmp, got, incs>>
DoSet(t) == /\ pc[t] = "Set" /\ writer = t /\ store' = 100 + t /\ cache' = 100 + t
            /\ writer' = 0 /\ pc' = [pc EXCEPT ![t] = "done"] /\ UNCHANGED <<op, readers, tmp, got, incs>>
DoDelete(t) == /\ pc[t] = "Delete" /\ writer = t /\ store' = Absent /\ cache' = Absent
               /\ writer' = 0 /\ pc' = [pc EXCEPT ![t] = "done"] /\ UNCHANGED <<op, readers, tmp, got, incs>>
(* Compute(increment): read (store unless known absent), then write *)
CompRead(t) == /\ pc[t] = "Compute" /\ writer = t
               /\ tmp' = [tmp EXCEPT ![t] = IF cache = Absent THEN Absent ELSE store]
               /\ IF Variant = "compute_unlocks" THEN writer' = 0 /\ pc' = [pc EXCEPT ![t] = "comprelock"]
                                                 ELSE UNCHANGED writer /\ pc' = [pc EXCEPT ![t] = "compwrite"]
               /\ UNCHANGED <<op, readers, store, cache, got, incs>>
CompRelock(t) == /\ pc[t] = "comprelock" /\ WLock(t, "compwrite") /\ UNCHANGED <<op, store, cache, tmp, got, incs>>
CompWrite(t) == /\ pc[t] = "compwrite" /\ writer = t
                /\ LET n == IF tmp[t] = Absent THEN 1 ELSE tmp[t] + 1 IN store' = n /\ cache' = n
                /\ incs' = incs + 1 /\ writer' = 0 /\ pc' = [pc EXCEPT ![t] = "done"]
                /\ UNCHANGED <<op, readers, tmp, got>>

Step(t) == Start(t) \/ GetFast(t) \/ GetUpgrade(t) \/ GetSlow(t) \/ SetCache(t) \/ SetLock(t) \/ DoSet(t) \/ DoDelete(t)
           \/ CompRead(t) \/ CompRelock(t) \/ CompWrite(t)
Next == \E t \in Threads : Step(t)
Spec == Init /\ [][Next]_vars /\ \A t \in Threads : WF_vars(Step(t))

(* the cache never disagrees with the store while nobody holds the write lock *)
CacheCoherent == (writer = 0 /\ Known) => cache = store
(* no lost update: when only Compute(increment) callers run, the final value counts all of them *)
AllDone == \A t \in Threads : pc[t] = "done"
NoLostUpdate == (AllDone /\ \A t \in Threads : op[t] = "Compute") => store = Cardinality(Threads)
Terminates == <>AllDone
=============================================================================
