---------------------------- MODULE TypedStore ----------------------------
(* kvstore.TypedStore[K,V]: a stateless typed view of a KVStore (property C06, sequential + *)
(* fault-sequence part).  Typed keys 1..3 are encoded as the byte strings KB(k) (two share  *)
(* a prefix, one is 0xff), values of Vals as one byte.                                      *)
(*                                                                                          *)
(*   m    - the raw store: key -> <<>> (absent) or <<bytes>>                                *)
(*   last - ghost: key -> <<>> / <<v>>, the last successfully written value per key          *)
(*                                                                                          *)
(* Outcome plan of a stimulus: `fail` names the codec / store call that fails if performed  *)
(* (keyEnc, enc, dec, keyDec, store<Call>); for the iterations `n` says which decode call    *)
(* (= which visited entry) fails and `stop` after how many entries the callback returns     *)
(* false (0 = never).  st = the complete raw content, read behind the typed view's back.     *)
EXTENDS Integers, Sequences, TLC

CONSTANTS Vals, Realms            \* Realms \subseteq {0,1}: 1 = the view sits on a realm of a shared store
VARIABLES cfg, m, last, ev
vars == <<cfg, m, last, ev>>
View == <<cfg, m, last>>

None == <<>>
Keys == {1, 2, 3}
KeySeq == <<1, 2, 3>>                         \* in byte order of KB
KB(k) == CASE k = 1 -> <<1, 1>> [] k = 2 -> <<1, 2>> [] k = 3 -> <<255>>
Prefixes == {<<>>, <<1>>, <<1, 2>>, <<255>>}
Dirs == {"default", "fwd", "bwd"}
Enc(v) == <<v>>
Dec(b) == b[1]
Raw(c) == IF c = None THEN None ELSE <<Dec(c[1])>>

HasPrefix(b, p) == Len(p) <= Len(b) /\ SubSeq(b, 1, Len(p)) = p
RECURSIVE Rev(_)
Rev(q) == IF q = <<>> THEN <<>> ELSE Rev(Tail(q)) \o <<Head(q)>>
Min(a, b) == IF a < b THEN a ELSE b

\* keys present under prefix p in iteration order
Listing(mm, p, dir) ==
  LET fwd == SelectSeq(KeySeq, LAMBDA k : mm[k] # None /\ HasPrefix(KB(k), p))
  IN IF dir = "bwd" THEN Rev(fwd) ELSE fwd

RECURSIVE Entries(_, _, _)
Entries(mm, L, i) == IF i > Len(L) THEN <<>>
                     ELSE <<[k |-> L[i], v |-> Dec(mm[L[i]][1])]>> \o Entries(mm, L, i + 1)

Far == 99
\* outcome of an iteration over listing L: how many entries reach the callback, and the error
IterCalls(L, s, vals) ==
  LET kd  == IF s.fail = "keyDec" THEN s.n ELSE Far
      vd  == IF vals /\ s.fail = "dec" THEN s.n ELSE Far
      bad == Min(kd, vd)                       \* entry whose decoding fails
      sp  == IF s.stop = 0 THEN Far ELSE s.stop
  IN [calls |-> Min(Len(L), Min(bad - 1, sp)),
      err   |-> IF bad <= Len(L) /\ ~(sp < bad)
                  THEN (IF kd <= vd THEN "keyDecErr" ELSE "decErr") ELSE "ok"]

ERes(e) == [err |-> e]
Keep(mm, r) == [res |-> r, m |-> mm]

Step(mm, s) ==
  CASE s.op = "Get" ->
         Keep(mm, IF s.fail = "keyEnc" THEN [err |-> "keyEncErr", val |-> None]
                  ELSE IF s.fail = "storeGet" THEN [err |-> "storeErr", val |-> None]
                  ELSE IF mm[s.k] = None THEN [err |-> "ErrKeyNotFound", val |-> None]
                  ELSE IF s.fail = "dec" THEN [err |-> "decErr", val |-> None]
                  ELSE [err |-> "ok", val |-> Raw(mm[s.k])])
    [] s.op = "Has" ->
         Keep(mm, IF s.fail = "keyEnc" THEN [err |-> "keyEncErr", has |-> None]
                  ELSE IF s.fail = "storeHas" THEN [err |-> "storeErr", has |-> None]
                  ELSE [err |-> "ok", has |-> <<mm[s.k] # None>>])
    [] s.op = "Set" ->
         IF s.fail = "keyEnc" THEN Keep(mm, ERes("keyEncErr"))
         ELSE IF s.fail = "enc" THEN Keep(mm, ERes("encErr"))
         ELSE IF s.fail = "storeSet" THEN Keep(mm, ERes("storeErr"))
         ELSE [res |-> ERes("ok"), m |-> [mm EXCEPT ![s.k] = <<Enc(s.v)>>]]
    [] s.op = "Delete" ->
         IF s.fail = "keyEnc" THEN Keep(mm, ERes("keyEncErr"))
         ELSE IF s.fail = "storeDel" THEN Keep(mm, ERes("storeErr"))
         ELSE [res |-> ERes("ok"), m |-> [mm EXCEPT ![s.k] = None]]
    [] s.op = "Iterate" ->
         IF s.fail = "storeIter" THEN Keep(mm, [err |-> "storeErr", seen |-> <<>>])
         ELSE LET L == Listing(mm, s.pfx, s.dir)
                  o == IterCalls(L, s, TRUE)
              IN Keep(mm, [err |-> o.err, seen |-> Entries(mm, SubSeq(L, 1, o.calls), 1)])
    [] s.op = "IterateKeys" ->
         IF s.fail = "storeIterKeys" THEN Keep(mm, [err |-> "storeErr", seen |-> <<>>])
         ELSE LET L == Listing(mm, s.pfx, s.dir)
                  o == IterCalls(L, s, FALSE)
              IN Keep(mm, [err |-> o.err, seen |-> SubSeq(L, 1, o.calls)])
    [] s.op = "DeletePrefix" ->
         IF s.fail = "storeDelPrefix" THEN Keep(mm, ERes("storeErr"))
         ELSE [res |-> ERes("ok"), m |-> [k \in Keys |-> IF HasPrefix(KB(k), s.pfx) THEN None ELSE mm[k]]]
    [] s.op = "Clear" ->
         IF s.fail = "storeClear" THEN Keep(mm, ERes("storeErr"))
         ELSE [res |-> ERes("ok"), m |-> [k \in Keys |-> None]]

LastAfter(l, s, r) ==
  IF r.err # "ok" THEN l
  ELSE CASE s.op = "Set" -> [l EXCEPT ![s.k] = <<s.v>>]
         [] s.op = "Delete" -> [l EXCEPT ![s.k] = None]
         [] s.op = "DeletePrefix" -> [k \in Keys |-> IF HasPrefix(KB(k), s.pfx) THEN None ELSE l[k]]
         [] s.op = "Clear" -> [k \in Keys |-> None]
         [] OTHER -> l

RECURSIVE RawSeq(_, _)
RawSeq(mm, i) == IF i > Len(KeySeq) THEN <<>>
                 ELSE (IF mm[KeySeq[i]] = None THEN <<>> ELSE <<[k |-> KB(KeySeq[i]), v |-> mm[KeySeq[i]][1]]>>)
                      \o RawSeq(mm, i + 1)
\* foreign: on a realm, the entry planted outside the realm is still there (always)
St(mm) == [raw |-> RawSeq(mm, 1), foreign |-> TRUE]

Obs(s, r, st) == [f \in DOMAIN s \cup {"res", "st"} |-> IF f = "res" THEN r ELSE IF f = "st" THEN st ELSE s[f]]

Cfgs == [realm : Realms]
Empty == [k \in Keys |-> None]
Init == /\ cfg \in Cfgs /\ m = Empty /\ last = Empty
        /\ ev = [op |-> "reset", cfg |-> cfg]

Do(s) ==
  IF s.op = "reset"
    THEN cfg' = s.cfg /\ m' = Empty /\ last' = Empty /\ ev' = s
    ELSE LET r == Step(m, s)
         IN /\ UNCHANGED cfg
            /\ m' = r.m
            /\ last' = LastAfter(last, s, r.res)
            /\ ev' = Obs(s, r.res, St(r.m))

Stimuli ==
       [op : {"Get"}, k : Keys, fail : {"none", "keyEnc", "storeGet", "dec"}]
  \cup [op : {"Has"}, k : Keys, fail : {"none", "keyEnc", "storeHas"}]
  \cup [op : {"Set"}, k : Keys, v : Vals, fail : {"none", "keyEnc", "enc", "storeSet"}]
  \cup [op : {"Delete"}, k : Keys, fail : {"none", "keyEnc", "storeDel"}]
  \cup [op : {"Iterate"}, pfx : Prefixes, dir : Dirs, stop : 0..2, fail : {"none", "storeIter"}, n : {1}]
  \cup [op : {"Iterate"}, pfx : Prefixes, dir : Dirs, stop : 0..2, fail : {"keyDec", "dec"}, n : 1..3]
  \cup [op : {"IterateKeys"}, pfx : Prefixes, dir : Dirs, stop : 0..2, fail : {"none", "storeIterKeys"}, n : {1}]
  \cup [op : {"IterateKeys"}, pfx : Prefixes, dir : Dirs, stop : 0..2, fail : {"keyDec"}, n : 1..3]
  \cup [op : {"DeletePrefix"}, pfx : Prefixes, fail : {"none", "storeDelPrefix"}]
  \cup [op : {"Clear"}, fail : {"none", "storeClear"}]

Next == \E s \in Stimuli : Do(s)
Spec == Init /\ [][Next]_vars

(* ------------------------------- the property ------------------------------------------ *)
TypeOK == m \in [Keys -> {None} \cup {<<Enc(v)>> : v \in Vals}]

(* the stored bytes are the encoding of the last successfully written value, per key *)
StoredIsLastWritten == \A k \in Keys : m[k] = IF last[k] = None THEN None ELSE <<Enc(last[k][1])>>

StReportsStore == [][ev'.op # "reset" => ev'.st.raw = RawSeq(m', 1)]_vars

Failure(e) == e \notin {"ok", "ErrKeyNotFound"}
IsPrefixOf(a, b) == Len(a) <= Len(b) /\ SubSeq(b, 1, Len(a)) = a

(* results equal those of the raw keys under the codec *)
Transparent ==
  [][ev'.op # "reset" =>
       LET r == ev'.res IN
       /\ ev'.op = "Get" /\ r.err = "ok" => r.val = Raw(m[ev'.k]) /\ m[ev'.k] # None
       /\ ev'.op = "Get" /\ r.err = "ErrKeyNotFound" => m[ev'.k] = None
       /\ ev'.op = "Has" /\ r.err = "ok" => r.has = <<m[ev'.k] # None>>
       /\ ev'.op = "Iterate" =>
            LET all == Entries(m, Listing(m, ev'.pfx, ev'.dir), 1) IN
            /\ IsPrefixOf(r.seen, all)
            /\ r.err = "ok" /\ ev'.stop = 0 => r.seen = all
            /\ r.err = "ok" /\ ev'.stop > 0 => Len(r.seen) = Min(ev'.stop, Len(all))
       /\ ev'.op = "IterateKeys" =>
            LET all == Listing(m, ev'.pfx, ev'.dir) IN
            /\ IsPrefixOf(r.seen, all)
            /\ r.err = "ok" /\ ev'.stop = 0 => r.seen = all
            /\ r.err = "ok" /\ ev'.stop > 0 => Len(r.seen) = Min(ev'.stop, Len(all))
     ]_vars

(* every failure leaves the store unchanged; reads never change it *)
FailureLeavesUnchanged ==
  [][ev'.op # "reset" =>
       /\ Failure(ev'.res.err) => m' = m /\ last' = last
       /\ ev'.op \in {"Get", "Has", "Iterate", "IterateKeys"} => m' = m
     ]_vars

(* every failure is reported: a fault on a call the operation performs is never swallowed;  *)
(* an iteration stops at the first decode error (entry n never reaches the callback).       *)
FaultReported ==
  [][ev'.op # "reset" /\ ev'.fail # "none" =>
       /\ ev'.op \in {"Set", "Delete", "DeletePrefix", "Clear", "Has"} => Failure(ev'.res.err)
       /\ ev'.op = "Get" /\ (ev'.fail # "dec" \/ m[ev'.k] # None) => Failure(ev'.res.err)
       /\ ev'.op \in {"Iterate", "IterateKeys"} /\ ev'.fail \in {"storeIter", "storeIterKeys"} =>
            Failure(ev'.res.err) /\ ev'.res.seen = <<>>
       /\ ev'.op \in {"Iterate", "IterateKeys"} /\ ev'.fail \in {"keyDec", "dec"}
            /\ ev'.n <= Len(Listing(m, ev'.pfx, ev'.dir)) /\ (ev'.stop = 0 \/ ev'.stop >= ev'.n) =>
            Failure(ev'.res.err) /\ Len(ev'.res.seen) = ev'.n - 1
     ]_vars
=============================================================================
