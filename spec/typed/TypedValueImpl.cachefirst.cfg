SPECIFICATION Spec
CONSTANTS
  Threads = {1, 2, 3}
  Ops = {"Get", "Set", "Delete", "Compute"}
  Variant = "set_cache_first_unlocked"
INVARIANTS CacheCoherent NoLostUpdate
PROPERTIES Terminates
