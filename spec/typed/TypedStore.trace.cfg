CONSTANTS
  Vals = {1, 2, 3}
  Realms = {0, 1}
INVARIANTS TypeOK StoredIsLastWritten
