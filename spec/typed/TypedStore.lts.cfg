CONSTANTS
  Vals = {1, 2}
  Realms = {0, 1}
INVARIANTS TypeOK StoredIsLastWritten
