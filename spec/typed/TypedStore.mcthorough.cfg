\* exhaustive run: action properties are checked on every transition of the view-reduced graph
CONSTANTS
  Vals = {1, 2, 3, 4}
  Realms = {0, 1}
VIEW View
INVARIANTS TypeOK StoredIsLastWritten
PROPERTIES StReportsStore Transparent FailureLeavesUnchanged FaultReported
