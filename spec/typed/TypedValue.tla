---------------------------- MODULE TypedValue ----------------------------
(* kvstore.TypedValue[V]: a typed, caching view of ONE raw key of a KVStore (property C06,  *)
(* sequential + fault-sequence part).                                                       *)
(*                                                                                          *)
(* Abstract state                                                                           *)
(*   cell  - the raw store cell: <<>> (absent) or <<bytes>>; bytes = Enc(v), v \in Vals     *)
(*   kn    - what the object has learnt (and may answer from without asking the store):     *)
(*           "none" | "has" (key exists) | "val" (the value, in cval) | "absent"            *)
(*   cval  - <<>> or <<v>>: the value the object holds when kn = "val"                      *)
(*   last  - ghost: <<>> / <<v>> = the last SUCCESSFULLY written value (Delete writes <<>>) *)
(*                                                                                          *)
(* Every stimulus carries an outcome plan: `fail` names the one codec / store call of the   *)
(* operation that fails if the operation performs it ("none" = fault free); Compute's       *)
(* function is described by fk/fv (set a value, increment, ErrTypedValueNotChanged - plain  *)
(* or wrapped -, fail).  `probe` asks for a fault-free Get / Has on the SAME object right   *)
(* after the operation (reported in st.probe): this is how a cache that disagrees with the  *)
(* store is noticed at the step where it happens.  st also holds the raw bytes of the key   *)
(* read behind the object's back and what a FRESH TypedValue over the same store answers.   *)
(*                                                                                          *)
(* Which store calls an operation performs (and hence which faults can fire) follows the    *)
(* documented mechanism: Get/Has answer from what is known and ask the store otherwise;     *)
(* writers encode, write the store, and only then update what is known; Compute re-reads    *)
(* the store under the write lock unless the key is known to be absent.                     *)
EXTENDS Integers, Sequences, TLC

CONSTANTS Vals,                     \* value universe 1..N
          Defects                   \* {} = the contract; {"computeSwallowsEnc"} = negative control (the
                                    \* defect hive.go had: Compute ignores a failing encoder)
VARIABLES cfg, cell, kn, cval, last, ev
vars == <<cfg, cell, kn, cval, last, ev>>
View == <<cfg, cell, kn, cval, last>>

None == <<>>
Enc(v) == <<v>>                     \* the codec: one byte per value
Dec(b) == b[1]
Raw(c) == IF c = None THEN None ELSE <<Dec(c[1])>>     \* the raw key seen through the codec

Probes == {"none", "get", "has"}
FKinds == {"set", "inc", "same", "wsame", "err"}

(* ---- one operation as a function: state record -> [res, S] ---------------------------- *)
Keep(S, r) == [res |-> r, S |-> S]
GRes(e, v) == [err |-> e, val |-> v]
HRes(e, h) == [err |-> e, has |-> h]

GetStep(S, fail) ==
  IF S.kn = "absent" THEN Keep(S, GRes("ErrKeyNotFound", None))
  ELSE IF S.kn = "val" THEN Keep(S, GRes("ok", S.cval))
  ELSE IF fail = "storeGet" THEN Keep(S, GRes("storeErr", None))
  ELSE IF S.cell = None THEN [res |-> GRes("ErrKeyNotFound", None), S |-> [S EXCEPT !.kn = "absent"]]
  ELSE IF fail = "dec" THEN Keep(S, GRes("decErr", None))
  ELSE [res |-> GRes("ok", Raw(S.cell)), S |-> [S EXCEPT !.kn = "val", !.cval = Raw(S.cell)]]

HasStep(S, fail) ==
  IF S.kn # "none" THEN Keep(S, HRes("ok", <<S.kn # "absent">>))
  ELSE IF fail = "storeHas" THEN Keep(S, HRes("storeErr", None))
  ELSE [res |-> HRes("ok", <<S.cell # None>>),
        S |-> [S EXCEPT !.kn = IF S.cell # None THEN "has" ELSE "absent"]]

Written(v) == [cell |-> <<Enc(v)>>, kn |-> "val", cval |-> <<v>>]

SetStep(S, v, fail) ==
  IF fail = "enc" THEN Keep(S, [err |-> "encErr"])
  ELSE IF fail = "storeSet" THEN Keep(S, [err |-> "storeErr"])
  ELSE [res |-> [err |-> "ok"], S |-> Written(v)]

DeleteStep(S, fail) ==
  IF fail = "storeDel" THEN Keep(S, [err |-> "storeErr"])
  ELSE [res |-> [err |-> "ok"], S |-> [cell |-> None, kn |-> "absent", cval |-> None]]

MaxV == CHOOSE m \in Vals : \A v \in Vals : v <= m
Succ(v, m) == IF v + 1 > m THEN 1 ELSE v + 1       \* "inc": fv is the modulus
CRes(e, v, seen) == [err |-> e, val |-> v, seen |-> seen]

ComputeStep(S, fk, fv, fail) ==
  LET reads == S.kn # "absent"             \* known absent: the store is not asked again
      ex    == S.cell # None               \* what the raw key says
      cur   == IF ex THEN Dec(S.cell[1]) ELSE 0          \* zero value when absent
      seen  == <<[ex |-> ex, cur |-> cur]>>             \* arguments handed to the function
      nv    == IF fk = "set" THEN fv ELSE Succ(cur, fv)
  IN
  IF reads /\ fail = "storeGet" THEN Keep(S, CRes("storeErr", None, None))
  ELSE IF reads /\ ex /\ fail = "dec" THEN Keep(S, CRes("decErr", None, None))
  ELSE IF fk = "err" THEN Keep(S, CRes("fnErr", None, seen))
  ELSE IF fk \in {"same", "wsame"} THEN Keep(S, CRes("ok", <<cur>>, seen))
  ELSE IF fail = "enc" /\ "computeSwallowsEnc" \in Defects
         THEN [res |-> CRes("ok", <<nv>>, seen), S |-> [S EXCEPT !.kn = "val", !.cval = <<nv>>]]
  ELSE IF fail = "enc" THEN Keep(S, CRes("encErr", None, seen))
  ELSE IF fail = "storeSet" THEN Keep(S, CRes("storeErr", None, seen))
  ELSE [res |-> CRes("ok", <<nv>>, seen), S |-> Written(nv)]

Step(S, s) ==
  CASE s.op = "Get"     -> GetStep(S, s.fail)
    [] s.op = "Has"     -> HasStep(S, s.fail)
    [] s.op = "Set"     -> SetStep(S, s.v, s.fail)
    [] s.op = "Delete"  -> DeleteStep(S, s.fail)
    [] s.op = "Compute" -> ComputeStep(S, s.fk, s.fv, s.fail)

(* the ghost: what was last written successfully, judged from the results only *)
LastAfter(l, s, r) ==
  IF r.err # "ok" THEN l
  ELSE CASE s.op = "Set" -> <<s.v>>
         [] s.op = "Delete" -> None
         [] s.op = "Compute" /\ s.fk \in {"set", "inc"} -> r.val
         [] OTHER -> l

St(S, probe) ==
  [raw   |-> S.cell,
   fresh |-> [has |-> S.cell # None, err |-> IF S.cell = None THEN "ErrKeyNotFound" ELSE "ok", val |-> Raw(S.cell)],
   probe |-> probe]

Cur == [cell |-> cell, kn |-> kn, cval |-> cval]

\* the event: stimulus fields of s (which may or may not carry res/st already) + observations
Obs(s, r, st) == [f \in DOMAIN s \cup {"res", "st"} |-> IF f = "res" THEN r ELSE IF f = "st" THEN st ELSE s[f]]

Cfgs == [init : {None} \cup {<<v>> : v \in Vals}]     \* the store may already hold a value

InitState(c) == [cell |-> IF c.init = None THEN None ELSE <<Enc(c.init[1])>>, kn |-> "none", cval |-> None]

Init == /\ cfg \in Cfgs
        /\ cell = InitState(cfg).cell /\ kn = "none" /\ cval = None /\ last = cfg.init
        /\ ev = [op |-> "reset", cfg |-> cfg]

Do(s) ==
  IF s.op = "reset"
    THEN /\ cfg' = s.cfg
         /\ cell' = InitState(s.cfg).cell /\ kn' = "none" /\ cval' = None /\ last' = s.cfg.init
         /\ ev' = s
    ELSE LET r1 == Step(Cur, s)
             r2 == IF s.probe = "get" THEN GetStep(r1.S, "none")
                   ELSE IF s.probe = "has" THEN HasStep(r1.S, "none")
                   ELSE Keep(r1.S, None)
             pr == IF s.probe = "none" THEN None ELSE <<r2.res>>
         IN /\ UNCHANGED cfg
            /\ cell' = r2.S.cell /\ kn' = r2.S.kn /\ cval' = r2.S.cval
            /\ last' = LastAfter(last, s, r1.res)
            /\ ev' = Obs(s, r1.res, St(r2.S, pr))

Plan(op, fails) == [op : {op}, fail : fails, probe : Probes]
Stimuli ==
  LET base ==
        Plan("Get", {"none", "storeGet", "dec"})
   \cup Plan("Has", {"none", "storeHas"})
   \cup [op : {"Set"}, v : Vals, fail : {"none", "enc", "storeSet"}, probe : Probes]
   \cup Plan("Delete", {"none", "storeDel"})
   \cup [op : {"Compute"}, fk : {"set"}, fv : Vals,
         fail : {"none", "storeGet", "dec", "enc", "storeSet"}, probe : Probes]
   \cup [op : {"Compute"}, fk : {"inc"}, fv : {MaxV},
         fail : {"none", "storeGet", "dec", "enc", "storeSet"}, probe : Probes]
   \cup [op : {"Compute"}, fk : {"same", "wsame", "err"}, fv : {0},
         fail : {"none", "storeGet", "dec", "enc", "storeSet"}, probe : Probes]
  IN base

Next == \E s \in Stimuli : Do(s)
Spec == Init /\ [][Next]_vars

(* ------------------------------- the property ------------------------------------------ *)
TypeOK == /\ cell \in {None} \cup {<<Enc(v)>> : v \in Vals}
          /\ kn \in {"none", "has", "val", "absent"}
          /\ cval \in {None} \cup {<<v>> : v \in Vals}

(* what the object knows always equals the store *)
CacheCoherent == /\ kn = "absent" => cell = None
                 /\ kn = "has" => cell # None
                 /\ kn = "val" => cval # None /\ cell = <<Enc(cval[1])>>
                 /\ kn # "val" => cval = None

(* the stored bytes are the encoding of the last successfully written value *)
StoredIsLastWritten == cell = IF last = None THEN None ELSE <<Enc(last[1])>>

(* what st reports is the raw cell; a fresh view and the probe on the same object agree with it *)
ViewsAgree ==
  [][ev'.op # "reset" =>
       /\ ev'.st.raw = cell'
       /\ ev'.st.fresh.val = Raw(cell') /\ ev'.st.fresh.has = (cell' # None)
       /\ ev'.st.probe # None =>
            LET p == ev'.st.probe[1] IN
              IF "val" \in DOMAIN p
                THEN p.val = Raw(cell') /\ p.err = (IF cell' = None THEN "ErrKeyNotFound" ELSE "ok")
                ELSE p = HRes("ok", <<cell' # None>>)
     ]_vars

Failure(e) == e \notin {"ok", "ErrKeyNotFound"}

(* action properties: (1) results equal those of the raw key under the codec; (2) every     *)
(* failure is reported and leaves store and knowledge unchanged; (3) a planned fault on a    *)
(* call the operation performs is never swallowed.                                          *)
Transparent ==
  [][ev'.op # "reset" =>
       LET r == ev'.res IN
       /\ ev'.op = "Get" /\ r.err = "ok" => r.val = Raw(cell) /\ cell # None
       /\ ev'.op = "Get" /\ r.err = "ErrKeyNotFound" => cell = None
       /\ ev'.op = "Has" /\ r.err = "ok" => r.has = <<cell # None>>
       /\ ev'.op = "Compute" /\ r.seen # None =>
            r.seen[1] = [ex |-> cell # None, cur |-> IF cell = None THEN 0 ELSE Dec(cell[1])]
       /\ ev'.op = "Compute" /\ r.err = "ok" /\ ev'.fk \in {"same", "wsame"} =>
            r.val = (IF cell = None THEN <<0>> ELSE Raw(cell))
     ]_vars

FailureLeavesUnchanged ==
  [][ev'.op # "reset" =>
       /\ Failure(ev'.res.err) => cell' = cell /\ last' = last
       /\ Failure(ev'.res.err) /\ ev'.probe = "none" => UNCHANGED <<kn, cval>>
       /\ ev'.res.err = "ErrKeyNotFound" => cell' = cell /\ cell = None
       /\ ev'.op \in {"Get", "Has"} => cell' = cell
     ]_vars

(* a write-path fault (encode / store write / store delete) is always on the path of a write *)
WriteFaultReported ==
  [][ev'.op # "reset" =>
       /\ ev'.op \in {"Set"} /\ ev'.fail # "none" => Failure(ev'.res.err)
       /\ ev'.op = "Delete" /\ ev'.fail # "none" => Failure(ev'.res.err)
       /\ ev'.op = "Compute" /\ ev'.fk \in {"set", "inc"} /\ ev'.fail \in {"enc", "storeSet"} => Failure(ev'.res.err)
       /\ ev'.op = "Compute" /\ ev'.fk = "err" => Failure(ev'.res.err)
     ]_vars
=============================================================================
