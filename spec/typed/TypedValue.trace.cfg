CONSTANTS
  Defects = {}
  Vals = {1, 2, 3}
INVARIANTS TypeOK CacheCoherent StoredIsLastWritten
