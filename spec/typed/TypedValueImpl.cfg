SPECIFICATION Spec
CONSTANTS
  Threads = {1, 2, 3}
  Ops = {"Get", "Set", "Delete", "Compute"}
  Variant = "code"
INVARIANTS CacheCoherent NoLostUpdate
PROPERTIES Terminates
