\* negative control: the model of the defect must violate the property
CONSTANTS
  Defects = {"computeSwallowsEnc"}
  Vals = {1, 2, 3}
VIEW View
INVARIANTS CacheCoherent
PROPERTIES WriteFaultReported FailureLeavesUnchanged
