\* exhaustive run: action properties are checked on every transition of the view-reduced graph
CONSTANTS
  Vals = {1, 2, 3}
VIEW View
INVARIANTS TypeOK CacheCoherent StoredIsLastWritten
PROPERTIES ViewsAgree Transparent FailureLeavesUnchanged WriteFaultReported
