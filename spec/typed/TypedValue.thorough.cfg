CONSTANTS
  Defects = {}
  Vals = {1, 2, 3, 4, 5}
INVARIANTS TypeOK CacheCoherent StoredIsLastWritten
