CONSTANTS
  Scope = "lts"
  MaxCalls = 4
