CONSTANTS
  Scope = "mc"
  MaxCalls = 5
INVARIANTS TypeOK Interval Capped StopsInTime RetryOK NewIsInitial
PROPERTIES Steps
VIEW FullView
