CONSTANTS
  Versions = {0, 1, 2, 3}
  Scope = "trace"
INVARIANTS TypeOK CorruptedSticky TaintedForever FlushPersists HealthyTakesEffect Answers
