---------------------------- MODULE HealthTracker ----------------------------
(* kvstore.StoreHealthTracker (extension X1): the health markers and the version of a store,  *)
(* persisted INSIDE the store, across restarts, crashes at every store-operation boundary and *)
(* store failures.  Sequential convention (spec/README.md).                                   *)
(*                                                                                            *)
(* The store under the tracker is a KVStore with the documented Flush contract ("Flush        *)
(* persists all outstanding write operations to disc"): a write is visible to the running     *)
(* process at once (mem) and is on disc at the latest after the next Flush (disk).  When the  *)
(* process dies the outstanding writes are either all lost or all on disc (fate of Restart).  *)
(*                                                                                            *)
(* Contract written down here (from the names, the doc comments and the way the tracker is    *)
(* meant to be used: mark corrupted while running, mark healthy on clean shutdown):           *)
(*  - three persistent facts live under the tracker's realm: version (absent on a store that  *)
(*    was never opened with a version), corrupted marker, tainted marker; nothing else in the *)
(*    store is touched;                                                                       *)
(*  - MarkCorrupted / MarkTainted set their marker DURABLY: when they return ok the marker is *)
(*    on disc, so every later incarnation sees it, whatever happens to the process;           *)
(*  - MarkHealthy clears the corrupted marker (only that one; there is no way to un-taint);   *)
(*    it becomes durable with the next Flush;                                                 *)
(*  - IsCorrupted / IsTainted report the marker; if the store cannot be read they answer      *)
(*    TRUE together with the error (never "healthy" by accident);                             *)
(*  - opening with version v # None stamps a store that has no version yet with v and leaves  *)
(*    an existing version alone; opening with None never writes; a store failure while        *)
(*    opening is reported (no tracker);                                                       *)
(*  - CheckCorrectStoreVersion: None -> "unsupported"; no stored version -> error; else       *)
(*    stored = mine;                                                                          *)
(*  - UpdateStoreVersion: stored = mine -> (false, ok); else (true, ...): without update      *)
(*    function "nofunc"; the function is called with (stored, mine); only after it succeeded  *)
(*    the stored version becomes mine.  (Calling it on a tracker opened with None is outside  *)
(*    the contract - see Guard.)                                                              *)
(*                                                                                            *)
(* Stimuli: every API call carries a plan (k, mode): mode "none" = plain call; "fail" = the   *)
(* k-th store operation of the call returns an error instead of executing; "before"/"after"   *)
(* = the process stops at the k-th store operation before/after it executed (the object is    *)
(* dead, only Restart is possible).  A plan whose k exceeds the number of store operations of *)
(* the call never fires.  Restart(v, fn, fate, k, mode) abandons the tracker (dead or alive)  *)
(* and opens a new one over the same store with version v and with/without update function;   *)
(* fate = "lose": the process was killed and the outstanding writes are lost; "keep": nothing *)
(* is lost (same process, or the writes of a crashed process had reached the disc).           *)
(*                                                                                            *)
(* res = [val |-> integer (booleans as 0/1, version), err |-> class, fn |-> <<>> or the       *)
(*        <<old, new>> the update function was called with]                                  *)
(* st  = [disk |-> <<version (0 = absent), corrupted 0/1, tainted 0/1>>, mem |-> same for the *)
(*        running process, intact |-> the rest of the store is untouched]                     *)
EXTENDS Integers, Sequences, FiniteSets, TLC

CONSTANTS Versions,    \* versions a tracker may be opened with; 0 = StoreVersionNone
          Scope        \* "mc" | "ltsM" | "ltsV" | "trace": which stimuli Next offers (Do covers all)

VARIABLES cfg,         \* [ver, fn] of the first incarnation
          disk, mem,   \* <<version, corrupted, tainted>> on disc / as the running process sees it
          alive,       \* "up" | "crashed" (process died inside a call) | "noobj" (open failed)
          myver, hasfn,\* parameters of the live tracker
          mustCor,     \* history: a MarkCorrupted returned ok and MarkHealthy was not invoked since
          mustTnt,     \* history: a MarkTainted returned ok
          healthyOk,   \* history: MarkHealthy returned ok, MarkCorrupted not invoked since, write not lost
          healthyDur,  \* history: ... and a Flush succeeded since
          ev
vars == <<cfg, disk, mem, alive, myver, hasfn, mustCor, mustTnt, healthyOk, healthyDur, ev>>
FullView == <<disk, mem, alive, myver, hasfn, mustCor, mustTnt, healthyOk, healthyDur>>
(* cfg only fixes the first incarnation (myver, hasfn): it is not needed to tell states apart *)
View == <<disk, mem, alive, myver, hasfn>>

Modes == {"before", "after", "fail"}
Empty == <<0, 0, 0>>
R(v, e, f) == [val |-> v, err |-> e, fn |-> f]
St(m, d) == [disk |-> d, mem |-> m, intact |-> TRUE]

(* store operations of a call: read, write of field i, flush *)
Rd == <<"R">>
Wr(i, v) == <<"W", i, v>>
Fl == <<"F">>
Ap(p, o) == CASE o[1] = "R" -> p
              [] o[1] = "W" -> <<[p[1] EXCEPT ![o[2]] = o[3]], p[2]>>
              [] o[1] = "F" -> <<p[1], p[1]>>
RECURSIVE Exec(_, _, _)
Exec(p, ops, n) == IF n = 0 THEN p ELSE Ap(Exec(p, ops, n - 1), ops[n])

(* what a call does, as a function of the state it starts in:                                 *)
(*   ops  its store operations in order, ok its result when nothing interferes,               *)
(*   fail[k] its result when operation k fails, fnat[k] the update-function call that has     *)
(*   happened when the process stops at operation k                                           *)
C(ops, ok, fail, fnat) == [ops |-> ops, ok |-> ok, fail |-> fail, fnat |-> fnat]
Err0 == R(0, "error", <<>>)
Plain(ops, ok, failres) == C(ops, ok, [k \in 1..Len(ops) |-> failres], [k \in 1..Len(ops) |-> <<>>])

Call(s) ==
  CASE s.op = "MarkCorrupted" -> Plain(<<Wr(2, 1), Fl>>, R(0, "ok", <<>>), Err0)
    [] s.op = "MarkTainted"   -> Plain(<<Wr(3, 1), Fl>>, R(0, "ok", <<>>), Err0)
    [] s.op = "MarkHealthy"   -> Plain(<<Wr(2, 0)>>, R(0, "ok", <<>>), Err0)
    [] s.op = "Flush"         -> Plain(<<Fl>>, R(0, "ok", <<>>), Err0)
    [] s.op = "IsCorrupted"   -> Plain(<<Rd>>, R(mem[2], "ok", <<>>), R(1, "error", <<>>))
    [] s.op = "IsTainted"     -> Plain(<<Rd>>, R(mem[3], "ok", <<>>), R(1, "error", <<>>))
    [] s.op = "StoreVersion"  -> Plain(<<Rd>>, IF mem[1] = 0 THEN Err0 ELSE R(mem[1], "ok", <<>>), Err0)
    [] s.op = "Check"         ->
         IF myver = 0 THEN Plain(<<>>, R(0, "unsupported", <<>>), Err0)
         ELSE Plain(<<Rd>>, IF mem[1] = 0 THEN Err0 ELSE R(IF mem[1] = myver THEN 1 ELSE 0, "ok", <<>>), Err0)
    [] s.op = "Update"        ->
         LET sv == mem[1]  args == <<sv, myver>> IN
         IF sv = 0 THEN Plain(<<Rd>>, Err0, Err0)
         ELSE IF sv = myver THEN Plain(<<Rd>>, R(0, "ok", <<>>), Err0)
         ELSE IF ~hasfn THEN Plain(<<Rd>>, R(1, "nofunc", <<>>), Err0)
         ELSE IF ~s.fnok THEN Plain(<<Rd>>, R(1, "fnerr", args), Err0)
         ELSE C(<<Rd, Wr(1, myver)>>, R(1, "ok", args), <<Err0, R(1, "error", args)>>, <<<<>>, args>>)

Fires(s, n) == s.mode \in Modes /\ s.k >= 1 /\ s.k <= n
Upto(s, n) == IF ~Fires(s, n) THEN n ELSE IF s.mode = "after" THEN s.k ELSE s.k - 1

FlushOps == {"MarkCorrupted", "MarkTainted", "Flush"}

DoCall(s) ==
  LET c == Call(s)
      n == Len(c.ops)
      f == Fires(s, n)
      p == Exec(<<mem, disk>>, c.ops, Upto(s, n))
      r == IF ~f THEN c.ok ELSE IF s.mode = "fail" THEN c.fail[s.k] ELSE R(0, "crashed", c.fnat[s.k])
      hok == IF s.op = "MarkHealthy" /\ r.err = "ok" THEN TRUE
             ELSE IF s.op = "MarkCorrupted" THEN FALSE ELSE healthyOk
  IN
  /\ UNCHANGED <<cfg, myver, hasfn>>
  /\ IF alive # "up" THEN
        /\ UNCHANGED <<disk, mem, alive, mustCor, mustTnt, healthyOk, healthyDur>>
        /\ ev' = [res |-> R(0, "dead", <<>>), st |-> St(mem, disk)] @@ s
     ELSE
        /\ mem' = p[1] /\ disk' = p[2]
        /\ alive' = IF f /\ s.mode # "fail" THEN "crashed" ELSE "up"
        /\ mustCor' = IF s.op = "MarkCorrupted" /\ r.err = "ok" THEN TRUE
                      ELSE IF s.op = "MarkHealthy" THEN FALSE ELSE mustCor
        /\ mustTnt' = (mustTnt \/ (s.op = "MarkTainted" /\ r.err = "ok"))
        /\ healthyOk' = hok
        /\ healthyDur' = IF s.op = "MarkCorrupted" THEN FALSE
                         ELSE IF s.op \in FlushOps /\ r.err = "ok" /\ hok THEN TRUE ELSE healthyDur
        /\ ev' = [res |-> r, st |-> St(p[1], p[2])] @@ s

(* open a tracker: first the fate of the outstanding writes, then the constructor's store operations *)
DoRestart(s) ==
  LET m0 == IF s.fate = "lose" THEN disk ELSE mem
      d0 == IF s.fate = "keep" /\ alive = "crashed" THEN mem ELSE disk
      ops == IF s.v = 0 THEN <<>> ELSE IF m0[1] = 0 THEN <<Rd, Wr(1, s.v)>> ELSE <<Rd>>
      n == Len(ops)
      f == Fires(s, n)
      p == Exec(<<m0, d0>>, ops, Upto(s, n))
      r == IF ~f THEN R(0, "ok", <<>>) ELSE IF s.mode = "fail" THEN Err0 ELSE R(0, "crashed", <<>>)
      hok == IF s.fate = "lose" THEN healthyDur ELSE healthyOk
  IN
  /\ UNCHANGED <<cfg, mustCor, mustTnt>>
  /\ mem' = p[1] /\ disk' = p[2]
  /\ alive' = IF ~f THEN "up" ELSE IF s.mode = "fail" THEN "noobj" ELSE "crashed"
  /\ myver' = s.v /\ hasfn' = s.fn
  /\ healthyOk' = hok
  /\ healthyDur' = (healthyDur \/ (s.fate = "keep" /\ alive = "crashed" /\ hok))
  /\ ev' = [res |-> r, st |-> St(p[1], p[2])] @@ s

InitState(c) ==
  /\ disk = Empty
  /\ mem = <<c.ver, 0, 0>>
  /\ alive = "up" /\ myver = c.ver /\ hasfn = c.fn
  /\ mustCor = FALSE /\ mustTnt = FALSE /\ healthyOk = FALSE /\ healthyDur = FALSE

(* every (version, function) pair is reachable through Restart from any first incarnation *)
Cfgs == CASE Scope = "ltsM" -> {[ver |-> 1, fn |-> FALSE]}
          [] Scope = "ltsV" -> {[ver |-> 0, fn |-> FALSE], [ver |-> 2, fn |-> TRUE]}
          [] OTHER          -> [ver : Versions, fn : BOOLEAN]
Init == /\ cfg \in Cfgs
        /\ InitState(cfg)
        /\ ev = [op |-> "reset", cfg |-> cfg]

Do(s) ==
  CASE s.op = "reset"   -> /\ cfg' = s.cfg
                           /\ disk' = Empty /\ mem' = <<s.cfg.ver, 0, 0>>
                           /\ alive' = "up" /\ myver' = s.cfg.ver /\ hasfn' = s.cfg.fn
                           /\ mustCor' = FALSE /\ mustTnt' = FALSE /\ healthyOk' = FALSE /\ healthyDur' = FALSE
                           /\ ev' = s
    [] s.op = "Restart" -> DoRestart(s)
    [] OTHER            -> DoCall(s)

-----------------------------------------------------------------------------
TwoOps == {"MarkCorrupted", "MarkTainted"}
OneOps == {"MarkHealthy", "Flush", "IsCorrupted", "IsTainted", "StoreVersion", "Check"}
NoPlan == [k : {0}, mode : {"none"}]
PlansUpTo(n) == [k : 1..n, mode : Modes] \cup [k : {n + 1}, mode : {"before"}]   \* every boundary + one beyond
Op(ops, plans) == {[op |-> o, k |-> p.k, mode |-> p.mode] : o \in ops, p \in plans}
UpdateStim(plans) == {[op |-> "Update", fnok |-> b, k |-> p.k, mode |-> p.mode] : b \in BOOLEAN, p \in plans}
RestartStim(vs, fns, fates, plans) ==
  {[op |-> "Restart", v |-> v, fn |-> b, fate |-> ft, k |-> p.k, mode |-> p.mode] : v \in vs, b \in fns, ft \in fates, p \in plans}

FullStimuli ==
  Op(TwoOps \cup OneOps, NoPlan) \cup UpdateStim(NoPlan)
  \cup Op(TwoOps, PlansUpTo(2)) \cup Op(OneOps, PlansUpTo(1)) \cup UpdateStim(PlansUpTo(2))
  \cup RestartStim(Versions, BOOLEAN, {"keep", "lose"}, NoPlan \cup PlansUpTo(2))
(* Two exported transition systems, each complete in its own dimension (their product is left to the *)
(* exhaustive run and to the recorded histories):                                                    *)
(*  "ltsM" markers: every marker call with every plan, one version (Versions = {1} in the cfg file); *)
(*  "ltsV" versions: open / check / update with every plan over versions 0, 1, 2; a tracker has an   *)
(*         update function iff it is opened with version 2 (so "nofunc" and the migration both occur *)
(*         and hasfn is a function of myver); the corrupted marker takes part with plain calls.      *)
(* Equivalent by construction and therefore thinned: a process that stops before or after a READ     *)
(* leaves the same state (only "after" is kept); plans on the constructor only with fate keep.       *)
MarkerReads == {"IsCorrupted", "IsTainted"}
LtsMStimuli ==
  Op(TwoOps \cup {"MarkHealthy", "Flush"} \cup MarkerReads, NoPlan)
  \cup Op(TwoOps, PlansUpTo(2)) \cup Op({"MarkHealthy", "Flush"}, PlansUpTo(1))
  \cup Op(MarkerReads, [k : {1}, mode : {"after", "fail"}])
  \cup RestartStim(Versions, {FALSE}, {"keep", "lose"}, NoPlan)
  \cup RestartStim(Versions, {FALSE}, {"keep"}, PlansUpTo(2))
VersionReads == {"StoreVersion", "Check"}
LtsVStimuli ==
  Op(VersionReads \cup {"Flush", "MarkCorrupted", "MarkHealthy", "IsCorrupted"}, NoPlan) \cup UpdateStim(NoPlan)
  \cup Op(VersionReads, [k : {1}, mode : {"after", "fail"}]) \cup Op({"Flush"}, PlansUpTo(1)) \cup UpdateStim(PlansUpTo(2))
  \cup UNION {RestartStim({v}, {v = 2}, {"keep", "lose"}, NoPlan) : v \in Versions}
  \cup UNION {RestartStim({v}, {v = 2}, {"keep"}, PlansUpTo(2)) : v \in Versions \ {0}}
Stimuli == CASE Scope = "ltsM" -> LtsMStimuli [] Scope = "ltsV" -> LtsVStimuli [] OTHER -> FullStimuli

(* a dead object can only be restarted; UpdateStoreVersion on a tracker opened with StoreVersionNone *)
(* ("load an existing store without a version check") is outside the contract                       *)
Guard(s) == CASE s.op = "Restart" -> TRUE
              [] s.op = "Update"  -> alive = "up" /\ myver # 0
              [] OTHER            -> alive = "up"

Next == \E s \in Stimuli : Guard(s) /\ Do(s)
Spec == Init /\ [][Next]_vars

(* ----------------------------- the contract, on the model ----------------------------- *)
Trip(t) == t[1] \in (Versions \cup {0}) /\ t[2] \in {0, 1} /\ t[3] \in {0, 1}
TypeOK == /\ Trip(disk) /\ Trip(mem) /\ alive \in {"up", "crashed", "noobj"}
          /\ myver \in Versions /\ hasfn \in BOOLEAN
(* a store that was marked corrupted stays corrupted - for the running process and on disc, hence  *)
(* across every restart and crash - until somebody calls MarkHealthy                               *)
CorruptedSticky == mustCor => (mem[2] = 1 /\ disk[2] = 1)
(* tainted is for ever *)
TaintedForever == mustTnt => (mem[3] = 1 /\ disk[3] = 1)
(* a successful Flush (alone or inside a Mark call) leaves nothing outstanding *)
FlushPersists == (ev.op \in FlushOps /\ ev.res.err = "ok") => disk = mem
(* MarkHealthy takes effect, and is durable once flushed *)
HealthyTakesEffect == (healthyOk => mem[2] = 0) /\ (healthyDur => (mem[2] = 0 /\ disk[2] = 0))
(* ---- step properties (checked as [][..]_vars) ---- *)
(* the corrupted marker disappears only through MarkHealthy (or, for the running process, because an *)
(* unflushed marker was lost with the process); the tainted one never                                 *)
MarkersStep ==
  /\ (disk[3] = 1 => disk'[3] = 1)
  /\ (mem[3] = 1 /\ ~(ev'.op = "Restart" /\ ev'.fate = "lose") => mem'[3] = 1)
  /\ ((mem[2] = 1 /\ mem'[2] = 0) => (ev'.op = "MarkHealthy" \/ (ev'.op = "Restart" /\ ev'.fate = "lose" /\ disk[2] = 0)))
  /\ ((disk[2] = 1 /\ disk'[2] = 0) => mem'[2] = 0)
(* the disc only ever receives what the process had written *)
DiskStep == disk' # disk => (disk' = mem' \/ (ev'.op = "Restart" /\ disk' = mem))
(* the stored version: never vanishes; is stamped only on a store without version; otherwise changes *)
(* only after the update function was called with exactly (stored, mine) and succeeded                *)
VersionStep ==
  /\ (disk[1] # 0 => disk'[1] # 0)
  /\ (mem'[1] # mem[1] =>
        \/ ev'.op = "Restart" /\ ev'.fate = "lose" /\ mem'[1] \in {disk[1], ev'.v}
        \/ ev'.op = "Restart" /\ mem[1] = 0 /\ mem'[1] = ev'.v /\ ev'.v # 0
        \/ ev'.op = "Update" /\ ev'.fnok /\ ev'.res.fn = <<mem[1], mem'[1]>> /\ mem'[1] = myver)
StepOK == ev'.op = "reset" \/ (MarkersStep /\ DiskStep /\ VersionStep)
Steps == [][StepOK]_vars
(* what the queries answer *)
Answers ==
  /\ (ev.op = "Check" /\ ev.res.err = "ok" => ev.res.val = (IF mem[1] = myver THEN 1 ELSE 0))
  /\ (ev.op \in {"IsCorrupted", "IsTainted"} /\ ev.res.err = "error" => ev.res.val = 1)
  /\ (ev.op = "IsCorrupted" /\ ev.res.err = "ok" => ev.res.val = mem[2])
  /\ (ev.op = "Update" /\ ev.res.err = "ok" => mem[1] = myver)
=========================================================================
