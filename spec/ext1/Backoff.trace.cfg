CONSTANTS
  Scope = "trace"
  MaxCalls = 12
INVARIANTS TypeOK Interval Capped StopsInTime RetryOK NewIsInitial
