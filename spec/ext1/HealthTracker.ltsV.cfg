CONSTANTS
  Versions = {0, 1, 2}
  Scope = "ltsV"
