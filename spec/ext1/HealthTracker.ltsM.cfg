CONSTANTS
  Versions = {1}
  Scope = "ltsM"
