---------------------------- MODULE Backoff ----------------------------
(* runtime/backoff (extension X1): the sequence of intervals a retry policy yields, the       *)
(* composition rules of the options, Policy.New, and Retry.  Sequential convention.           *)
(*                                                                                            *)
(* Durations are integers in a unit the binding chooses per configuration (cfg.unit):         *)
(*   "ns" 1 ns, "tick" 100 us (Retry really sleeps), "huge" 2^60 ns (the largest duration,    *)
(*   MaxInt64 ns, is 8 units: time.Duration is a bounded type, a policy that "increases the   *)
(*   backoff period" can at most stay at the top once it got there).                          *)
(* Stop = -1.  Trunc = -2 stands for "cut to what is left until the deadline" (Timeout).      *)
(*                                                                                            *)
(* Contract written down here (doc comments of the package):                                  *)
(*  - ZeroBackOff yields 0 for ever, ConstantBackOff(d) yields d for ever,                    *)
(*    ExponentialBackOff(d, f) yields d, d*f, d*f*f, ... ("after each call of NextBackOff the *)
(*    interval is multiplied by the factor starting with initialInterval"), whole units;      *)
(*  - With(o1, .., on) wraps the policy in o1 first, on outermost; With(a).With(b) = With(a,b);*)
(*  - MaxRetries(n): "return Stop if NextBackOff() has been called too many times": n calls   *)
(*    pass, every later one is Stop (n = 0: always Stop, n < 0: no limit);                    *)
(*  - MaxInterval(c): "not return longer intervals": min(c, d); Stop passes through;          *)
(*  - Jitter(rf): a random value that is smaller than d by at most rf*d (never d itself, the  *)
(*    documented interval is half open; for rf <= 1/2 this lies inside the documented         *)
(*    [rf*d, d), for rf > 1/2 the doc comment and "modify the duration by the given factor"   *)
(*    disagree - not modelled); rf <= 0 and Stop pass through;                                *)
(*  - Timeout(t): Stop once t has passed; an interval that would end after t is cut to t-now; *)
(*  - Cancel(ctx): Stop once ctx is done;                                                     *)
(*  - Policy.New "creates a new instance of the policy in its initial state" and leaves the   *)
(*    receiver alone;                                                                         *)
(*  - Retry(p, f) works on a new instance of p (p itself is not advanced, so a policy value   *)
(*    can be reused and shared): "calls f until it does not return error or the policy stops; *)
(*    f is run at least once; a permanent error is not retried and the wrapped error is       *)
(*    returned; sleeps for the duration returned by the policy after a failed operation";     *)
(*    when the policy stops the error of the LAST call is returned.                           *)
(*                                                                                            *)
(* Objects: "orig" = the policy built from cfg; "der" = the latest result of X.New().         *)
(* Stimuli: Next(i) = i.NextBackOff(); New(src) = der := src.New(); Cancel = cancel the       *)
(* context; Retry(i, nfail, final) = Retry(i, f) where f fails (transiently, each time with a *)
(* new error value) nfail times and then answers final: "ok", "perm" (Permanent(e)) or "fail" *)
(* (keeps failing).                                                                           *)
(* res = [v |-> interval of Next (else 0), calls |-> how often f ran, err |-> "" | "nil" |    *)
(*        "last" (error of the last call) | "inner" (the error wrapped by the last call's     *)
(*        Permanent), ivs |-> what the policy yielded during Retry (Stop included),           *)
(*        paced |-> every pause between two calls of f lasted at least the yielded interval]  *)
(* st  = [cancelled, der |-> whether a derived instance exists]  (a Policy offers no getters) *)
EXTENDS Integers, Sequences, FiniteSets, TLC, Json

CONSTANTS Scope,      \* "mc" | "lts" | "trace"
          MaxCalls    \* exploration bound: NextBackOff calls per instance

VARIABLES cfg,
          orig, der,  \* instance state <<e, c, tries>>: advancements of the exponential base, calls made,
                      \* calls let through by each MaxRetries option (tuple indexed like cfg.opts); der = <<>>: none
          cancelled,
          stopped,    \* history: instances that have answered Stop
          lastv,      \* history: <<last interval of orig, of der>> (-1 = none yet)
          ev
vars == <<cfg, orig, der, cancelled, stopped, lastv, ev>>
FullView == <<cfg, orig, der, cancelled, stopped, lastv>>
View == <<cfg, orig, der, cancelled>>

Stop == -1
Trunc == -2
MaxRun == 6            \* Retry: f is cut off (reported as "runaway") after this many calls

O(k, n) == [k |-> k, n |-> n]
MR(n) == O("maxRetries", n)
MI(n) == O("maxInterval", n)
JI(n) == O("jitter", n)          \* randomFactor 1/n; n = 0: randomFactor 0
TO(n) == O("timeout", n)         \* 0 = deadline passed, 1 = far away, 2 = "soon" (nearer than one huge unit)
CA == O("cancel", 0)
P(id, base, init, fnum, unit, chain, opts) ==
  [id |-> id, base |-> base, init |-> init, fnum |-> fnum, unit |-> unit, chain |-> chain, opts |-> opts]
(* base "exp": factor = fnum / 2;  chain: built as With(o1).With(o2)... instead of With(o1, o2, ...) *)
AllCfgs == {
  P( 1, "zero",  0, 2, "tick", FALSE, <<>>),
  P( 2, "zero",  0, 2, "tick", FALSE, <<MR(2)>>),
  P( 3, "const", 2, 2, "tick", FALSE, <<>>),
  P( 4, "const", 3, 2, "tick", FALSE, <<MR(0)>>),
  P( 5, "const", 3, 2, "tick", FALSE, <<MR(1)>>),
  P( 6, "const", 4, 2, "tick", FALSE, <<MI(3)>>),
  P( 7, "const", 2, 2, "tick", FALSE, <<MI(3), MR(3)>>),
  P( 8, "exp",   1, 4, "tick", FALSE, <<>>),
  P( 9, "exp",   1, 4, "tick", FALSE, <<MR(3)>>),
  P(10, "exp",   1, 4, "tick", FALSE, <<MI(3), MR(3)>>),
  P(11, "exp",   1, 4, "tick", TRUE,  <<MR(2), MI(3)>>),
  P(12, "exp",  16, 3, "ns",   FALSE, <<>>),
  P(13, "exp",   4, 1, "ns",   FALSE, <<MR(4)>>),
  P(14, "exp",   2, 2, "tick", FALSE, <<MR(-1)>>),
  P(15, "exp",   1, 4, "huge", FALSE, <<>>),
  P(16, "exp",   1, 4, "huge", FALSE, <<MI(3)>>),
  P(17, "exp",   3, 4, "huge", TRUE,  <<MR(4)>>),
  P(18, "const", 8, 2, "ns",   FALSE, <<JI(2)>>),
  P(19, "const", 8, 2, "ns",   FALSE, <<JI(4), MR(2)>>),
  P(20, "const", 8, 2, "ns",   FALSE, <<JI(2), MI(5)>>),
  P(21, "const", 8, 2, "ns",   TRUE,  <<MI(4), JI(2)>>),
  P(22, "const", 8, 2, "ns",   FALSE, <<JI(0)>>),
  P(23, "zero",  0, 2, "ns",   FALSE, <<JI(2), MR(1)>>),
  P(24, "const", 2, 2, "tick", FALSE, <<TO(0)>>),
  P(25, "const", 2, 2, "tick", FALSE, <<TO(1), MR(2)>>),
  P(26, "const", 1, 2, "huge", FALSE, <<TO(2)>>),
  P(27, "exp",   1, 4, "tick", FALSE, <<MR(2), TO(0)>>),
  P(28, "const", 2, 2, "tick", FALSE, <<CA>>),
  P(29, "exp",   1, 4, "tick", TRUE,  <<CA, MR(3)>>),
  P(30, "const", 1, 2, "tick", FALSE, <<MR(1), MR(3)>>),
  P(31, "const", 8, 2, "ns",   FALSE, <<MR(1), JI(2), MI(5)>>),
  P(32, "zero",  0, 2, "huge", FALSE, <<TO(2), MR(1)>>),
  P(33, "exp",   5, 3, "ns",   FALSE, <<MI(9)>>)
}
LtsSkip == {7, 14, 17, 23, 30, 33}     \* variations that add nothing structurally new: exhaustive run and traces only
(* trace validation: the recorder composes policies at random from the same vocabulary; the configurations *)
(* are taken from the reset lines of the recorded file (lib/flows.py puts it next to the module)             *)
RecordedCfgs(file) == LET t == ndJsonDeserialize(file) IN {t[i].cfg : i \in {j \in 1..Len(t) : t[j].op = "reset"}}
Cfgs == CASE Scope = "lts"   -> {c \in AllCfgs : c.id \notin LtsSkip}
          [] Scope = "trace" -> RecordedCfgs("trace.ndjson")
          [] OTHER           -> AllCfgs
ValidCfg(c) == /\ c.base \in {"zero", "const", "exp"} /\ c.unit \in {"ns", "tick", "huge"} /\ c.init >= 0 /\ c.fnum >= 1
               /\ \A i \in 1..Len(c.opts) : c.opts[i].k \in {"maxRetries", "maxInterval", "jitter", "timeout", "cancel"}

NOpts == Len(cfg.opts)
Has(k) == \E i \in 1..NOpts : cfg.opts[i].k = k
Fresh == <<0, 0, [i \in 1..NOpts |-> 0]>>

(* ---------------- what a policy yields ---------------- *)
MaxDur == IF cfg.unit = "huge" THEN 8 ELSE 300000000    \* (other units: beyond anything explored; TLC integers are 32 bit)
Sat(x) == IF x >= MaxDur THEN MaxDur ELSE x
RECURSIVE ExpVal(_)
ExpVal(e) == IF e = 0 THEN Sat(cfg.init) ELSE Sat((ExpVal(e - 1) * cfg.fnum) \div 2)
BaseVal(e) == CASE cfg.base = "zero" -> 0 [] cfg.base = "const" -> cfg.init [] cfg.base = "exp" -> ExpVal(e)

Jit(d, n) == IF d <= 0 \/ n = 0 THEN {d} ELSE (d - ((d + n - 1) \div n))..(d - 1)

Deadline(d, n) == IF d = Stop \/ n = 0 THEN Stop ELSE IF n = 2 /\ d > 0 THEN Trunc ELSE d

(* Eval(i, p): the policy made of the base and the first i options, asked in instance state p:    *)
(* the set of <<interval, state afterwards>>.  An option asks the policy it wraps first (MaxRetries *)
(* does not, once it stops), which is not observable as long as each policy is reached through one *)
(* wrapper only.                                                                                   *)
RECURSIVE Eval(_, _)
Eval(i, p) ==
  IF i = 0 THEN {<<BaseVal(p[1]), <<IF cfg.base = "exp" THEN p[1] + 1 ELSE p[1], p[2], p[3]>>>>}
  ELSE LET o == cfg.opts[i] IN
    CASE o.k = "maxRetries" ->
           IF o.n = 0 \/ (o.n > 0 /\ p[3][i] >= o.n) THEN {<<Stop, p>>}
           ELSE Eval(i - 1, IF o.n > 0 THEN <<p[1], p[2], [p[3] EXCEPT ![i] = @ + 1]>> ELSE p)
      [] o.k = "maxInterval" -> {<<IF r[1] > o.n THEN o.n ELSE r[1], r[2]>> : r \in Eval(i - 1, p)}
      [] o.k = "jitter"      -> UNION {{<<v, r[2]>> : v \in Jit(r[1], o.n)} : r \in Eval(i - 1, p)}
      [] o.k = "timeout"     -> {<<Deadline(r[1], o.n), r[2]>> : r \in Eval(i - 1, p)}
      [] o.k = "cancel"      -> {<<IF cancelled THEN Stop ELSE r[1], r[2]>> : r \in Eval(i - 1, p)}
Ask(p) == Eval(NOpts, p)

(* ---------------- Retry ---------------- *)
RR(v, calls, err, ivs) == [v |-> v, calls |-> calls, err |-> err, ivs |-> ivs, paced |-> TRUE]
RECURSIVE Run(_, _, _, _)
Run(j, q, ivs, s) ==           \* f is about to be called for the j-th time
  IF j > MaxRun THEN {RR(0, MaxRun, "runaway", ivs)}
  ELSE LET out == IF j <= s.nfail THEN "fail" ELSE s.final IN
    CASE out = "ok"   -> {RR(0, j, "nil", ivs)}
      [] out = "perm" -> {RR(0, j, "inner", ivs)}
      [] out = "fail" -> UNION {IF r[1] = Stop THEN {RR(0, j, "last", Append(ivs, Stop))}
                                ELSE Run(j + 1, r[2], Append(ivs, r[1]), s) : r \in Ask(q)}

(* ---------------- steps ---------------- *)
Inst(i) == IF i = "orig" THEN orig ELSE der
Idx(i) == IF i = "orig" THEN 1 ELSE 2
St == [cancelled |-> cancelled, der |-> der # <<>>]
St2(c, d) == [cancelled |-> c, der |-> d # <<>>]

Init == /\ cfg \in Cfgs
        /\ orig = Fresh /\ der = <<>> /\ cancelled = FALSE
        /\ stopped = {} /\ lastv = <<-1, -1>>
        /\ ev = [op |-> "reset", cfg |-> cfg]

DoNext(s) ==
  \E r \in Ask(Inst(s.i)) :
    LET q == <<r[2][1], r[2][2] + 1, r[2][3]>> IN
    /\ UNCHANGED <<cfg, cancelled>>
    /\ (IF s.i = "orig" THEN orig' = q /\ UNCHANGED der ELSE der' = q /\ UNCHANGED orig)
    /\ stopped' = IF r[1] = Stop THEN stopped \cup {s.i} ELSE stopped
    /\ lastv' = IF r[1] >= 0 THEN [lastv EXCEPT ![Idx(s.i)] = r[1]] ELSE lastv
    /\ ev' = [res |-> RR(r[1], 0, "", <<>>), st |-> St] @@ s

DoNew(s) ==
  /\ UNCHANGED <<cfg, orig, cancelled>>
  /\ der' = Fresh
  /\ stopped' = stopped \ {"der"}
  /\ lastv' = [lastv EXCEPT ![2] = -1]
  /\ ev' = [res |-> RR(0, 0, "", <<>>), st |-> St2(cancelled, Fresh)] @@ s

DoCancel(s) ==
  /\ UNCHANGED <<cfg, orig, der, stopped, lastv>>
  /\ cancelled' = TRUE
  /\ ev' = [res |-> RR(0, 0, "", <<>>), st |-> St2(TRUE, der)] @@ s

DoRetry(s) ==
  \E r \in Run(1, Fresh, <<>>, s) :
    /\ UNCHANGED <<cfg, orig, der, cancelled, stopped, lastv>>
    /\ ev' = [res |-> r, st |-> St] @@ s

Do(s) ==
  CASE s.op = "reset"  -> /\ cfg' = s.cfg
                          /\ orig' = <<0, 0, [j \in 1..Len(s.cfg.opts) |-> 0]>>
                          /\ der' = <<>> /\ cancelled' = FALSE /\ stopped' = {} /\ lastv' = <<-1, -1>>
                          /\ ev' = s
    [] s.op = "Next"   -> DoNext(s)
    [] s.op = "New"    -> DoNew(s)
    [] s.op = "Cancel" -> DoCancel(s)
    [] s.op = "Retry"  -> DoRetry(s)

Insts == {"orig", "der"}
Stimuli == [op : {"Next"}, i : Insts] \cup [op : {"New"}, src : Insts] \cup [op : {"Cancel"}]
           \cup [op : {"Retry"}, i : Insts, nfail : 0..3, final : {"ok", "perm", "fail"}]

(* the policy stops by itself, whatever f does *)
Bounded == \/ \E i \in 1..NOpts : cfg.opts[i].k = "maxRetries" /\ cfg.opts[i].n >= 0
           \/ \E i \in 1..NOpts : cfg.opts[i].k = "timeout" /\ cfg.opts[i].n = 0
           \/ (Has("cancel") /\ cancelled)
Guard(s) ==
  CASE s.op = "Next"   -> Inst(s.i) # <<>> /\ Inst(s.i)[2] < MaxCalls
    [] s.op = "New"    -> Inst(s.src) # <<>>
    [] s.op = "Cancel" -> Has("cancel") /\ ~cancelled
    [] s.op = "Retry"  -> /\ Inst(s.i) # <<>>
                          /\ cfg.unit # "huge"                      \* Retry really sleeps
                          /\ (s.final = "fail" => (s.nfail = 0 /\ Bounded))
                          /\ (s.final # "fail" => s.nfail <= (IF Scope = "lts" THEN 2 ELSE 3))
                          /\ (Scope = "lts" /\ Has("jitter") => s.nfail + (IF s.final = "fail" THEN 2 ELSE 0) <= 1)
Next == \E s \in Stimuli : Guard(s) /\ Do(s)
Spec == Init /\ [][Next]_vars

(* ----------------------------- the contract, on the model ----------------------------- *)
IsInst(p) == p[1] \in Nat /\ p[2] \in Nat /\ Len(p[3]) = NOpts
TypeOK == /\ ValidCfg(cfg) /\ IsInst(orig) /\ (der # <<>> => IsInst(der)) /\ cancelled \in BOOLEAN
          /\ stopped \subseteq Insts
(* what NextBackOff answers is Stop, the deadline cut, or a non-negative interval *)
Interval == ev.op = "Next" => (ev.res.v >= 0 \/ ev.res.v \in {Stop, Trunc})
(* MaxInterval: nothing longer comes out (no option lengthens an interval) *)
Capped == ev.op = "Next" => \A i \in 1..NOpts : cfg.opts[i].k = "maxInterval" => ev.res.v <= cfg.opts[i].n
(* MaxRetries(n): at most n intervals, then Stop; MaxRetries(0), a passed deadline, a cancelled context: Stop *)
MinRetries == LET S == {cfg.opts[i].n : i \in {j \in 1..NOpts : cfg.opts[j].k = "maxRetries" /\ cfg.opts[j].n >= 0}}
              IN IF S = {} THEN -1 ELSE CHOOSE m \in S : \A x \in S : m <= x
StopsInTime ==
  /\ (ev.op = "Next" /\ MinRetries >= 0 /\ Inst(ev.i)[2] > MinRetries => ev.res.v = Stop)
  /\ (ev.op = "Next" /\ (Has("cancel") /\ cancelled) => ev.res.v = Stop)
  /\ (ev.op = "Next" /\ (\E i \in 1..NOpts : cfg.opts[i] = TO(0)) => ev.res.v = Stop)
(* Retry: f runs at least once and at most (smallest MaxRetries)+1 times; all but the last call failed   *)
(* transiently; the pauses are the policy's intervals from its INITIAL state; the verdict fits the end  *)
RetryOK ==
  ev.op = "Retry" =>
    LET r == ev.res IN
    /\ r.calls >= 1 /\ r.err # "runaway"
    /\ (MinRetries >= 0 => r.calls <= MinRetries + 1)
    /\ (r.calls <= ev.nfail + 1 \/ ev.final = "fail")
    /\ Len(r.ivs) = (IF r.err = "last" THEN r.calls ELSE r.calls - 1)
    /\ \A x \in 1..Len(r.ivs) : (r.ivs[x] = Stop) <=> (x = r.calls)
    /\ (r.err = "nil" <=> (ev.final = "ok" /\ r.calls = ev.nfail + 1))
    /\ (r.err = "inner" <=> (ev.final = "perm" /\ r.calls = ev.nfail + 1))
    /\ r.paced
(* New yields the initial state whatever the source went through; Retry and New leave their argument alone *)
NewIsInitial == (ev.op = "New" => der = Fresh) /\ (\A i \in Insts : Inst(i) # <<>> /\ Inst(i)[2] = 0 => Inst(i) = Fresh)
(* once an instance has said Stop it keeps saying Stop (no option un-stops: deadlines and contexts do not come back) *)
StopStep == (ev'.op = "Next" /\ ev'.i \in stopped) => ev'.res.v = Stop
(* an exponential policy with factor >= 1 never shortens the interval (no jitter, no deadline cut on top) *)
MonoStep == (/\ ev'.op = "Next" /\ cfg.base = "exp" /\ cfg.fnum >= 2 /\ ~Has("jitter")
             /\ ev'.res.v >= 0 /\ lastv[Idx(ev'.i)] >= 0) => ev'.res.v >= lastv[Idx(ev'.i)]
Steps == [][ev'.op = "reset" \/ (StopStep /\ MonoStep)]_vars
=========================================================================
