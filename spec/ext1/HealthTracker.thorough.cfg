CONSTANTS
  Versions = {0, 1, 2, 3}
  Scope = "mc"
INVARIANTS TypeOK CorruptedSticky TaintedForever FlushPersists HealthyTakesEffect Answers
PROPERTIES Steps
VIEW FullView
