CONSTANTS
  Versions = {0, 1, 2}
  Scope = "mc"
INVARIANTS TypeOK CorruptedSticky TaintedForever FlushPersists HealthyTakesEffect Answers
PROPERTIES Steps
VIEW FullView
