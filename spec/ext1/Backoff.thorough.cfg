CONSTANTS
  Scope = "mc"
  MaxCalls = 7
INVARIANTS TypeOK Interval Capped StopsInTime RetryOK NewIsInitial
PROPERTIES Steps
VIEW FullView
