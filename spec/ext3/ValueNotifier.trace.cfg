CONSTANTS
  MaxListeners = 8
  Values = {1, 2, 3}
  Ctxs = {"live", "canceled", "expired", "gated"}
  MaxGated = 3
  Variant = "spec"
INVARIANTS TypeOK
