CONSTANTS
  MaxLoggers = 6
  MaxHooks = 4
  Levels = {0, 1, 2, 3, 4, 5, 6}
  HookLevels = {0, 1, 2, 3, 4, 5, 6}
  LogLevels = {0, 1, 2, 3, 4, 5, 6}
  InitLevels = {0, 1, 2, 3, 4, 5, 6}
  Kinds = {"capture", "text", "nil"}
  Roots = {"", "r", "node"}
  Names = {"a", "b"}
  Hows = {"log", "logf", "attrs", "named", "namedf", "namedattrs"}
  Variant = "spec"
INVARIANTS TypeOK PathOK UniqueNames HookOK EmptyLoggerOK
