CONSTANTS
  Scope = "lts"
  Variant = "spec"
