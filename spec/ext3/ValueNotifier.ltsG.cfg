CONSTANTS
  MaxListeners = 2
  Values = {1}
  Ctxs = {"live", "gated"}
  MaxGated = 1
  Variant = "spec"
