CONSTANTS
  MaxLoggers = 3
  MaxHooks = 0
  Levels = {1, 3}
  HookLevels = {}
  LogLevels = {1, 3}
  InitLevels = {2}
  Kinds = {"capture"}
  Roots = {"r"}
  Names = {"a"}
  Hows = {"log"}
  Variant = "spec"
